(* C16 -- proofs about the key-usage policy model (Model/Policy.v).  Everything about the scan is by induction over an
   arbitrary list of components (primary first, then any number of subkeys). *)
From Coq Require Import ZArith List Bool Lia Sorting.Sorted.
Import ListNotations.
Require Import PV.Model.Policy.
Open Scope Z_scope.

(* ------------------------------------------------------------------------------------------------ *)
(* the for ... else scan                                                                             *)
(* ------------------------------------------------------------------------------------------------ *)
Definition incapable (req : Z) (x : fres) : Prop := exists f, x = FOk f /\ Z.land req f = 0.

Lemma scan_found req : forall l idx last j, scan req l idx last = Found j ->
  (idx <= j)%nat /\
  (exists f, nth_error l (j - idx) = Some (FOk f) /\ Z.land req f <> 0) /\
  (forall m, (m < j - idx)%nat -> exists x, nth_error l m = Some x /\ incapable req x).
Proof.
  induction l as [|x r IH]; intros idx last j; cbn [scan]; [discriminate|].
  destruct x as [f|c]; [|discriminate].
  destruct (Z.land req f =? 0) eqn:E.
  - intros H. destruct (IH _ _ _ H) as (Hle & (f' & Hn & Hf') & Hbefore).
    split; [lia|]. replace (j - idx)%nat with (S (j - S idx)) by lia. split.
    + exists f'. cbn. auto.
    + intros m Hm. destruct m as [|m]; cbn.
      * exists (FOk f). split; [reflexivity|]. exists f. split; [reflexivity|]. apply Z.eqb_eq. exact E.
      * apply Hbefore. lia.
  - intros [= <-]. split; [lia|]. rewrite Nat.sub_diag. split.
    + exists f. cbn. split; [reflexivity|]. apply Z.eqb_neq. exact E.
    + intros m Hm. lia.
Qed.

Lemma scan_exhausted req : forall l idx last n, scan req l idx last = Exhausted n ->
  Forall (incapable req) l /\ n = match l with [] => last | _ => (idx + length l - 1)%nat end.
Proof.
  induction l as [|x r IH]; intros idx last n; cbn [scan].
  - intros [= <-]. split; [constructor|reflexivity].
  - destruct x as [f|c]; [|discriminate]. destruct (Z.land req f =? 0) eqn:E; [|discriminate].
    intros H. destruct (IH _ _ _ H) as [Hall Hn]. split.
    + constructor; [|exact Hall]. exists f. split; [reflexivity|]. apply Z.eqb_eq. exact E.
    + rewrite Hn. destruct r; cbn [length]; lia.
Qed.

Lemma scan_crash req : forall l idx last c, scan req l idx last = ScanCrash c ->
  exists m, nth_error l m = Some (FCrash c) /\ forall m', (m' < m)%nat -> exists x, nth_error l m' = Some x /\ incapable req x.
Proof.
  induction l as [|x r IH]; intros idx last c; cbn [scan]; [discriminate|].
  destruct x as [f|c'].
  - destruct (Z.land req f =? 0) eqn:E; [|discriminate]. intros H. destruct (IH _ _ _ H) as [m [Hm Hb]].
    exists (S m). split; [exact Hm|]. intros [|m'] Hlt; cbn.
    + exists (FOk f). split; [reflexivity|]. exists f. split; [reflexivity|]. apply Z.eqb_eq. exact E.
    + apply Hb. lia.
  - intros [= <-]. exists O. split; [reflexivity|]. intros m' Hm'. lia.
Qed.

(* converse: when no component is capable (and none crashes) the scan runs out, holding the last component *)
Lemma scan_all_incapable req : forall l idx last, Forall (incapable req) l ->
  scan req l idx last = Exhausted (match l with [] => last | _ => (idx + length l - 1)%nat end).
Proof.
  induction l as [|x r IH]; intros idx last H; cbn [scan]; [reflexivity|].
  inversion H as [|? ? [f [-> Hf]] Hr]; subst. rewrite Hf. cbn. rewrite (IH _ _ Hr).
  destruct r; cbn [length]; f_equal; lia.
Qed.

(* ------------------------------------------------------------------------------------------------ *)
(* usage                                                                                             *)
(* ------------------------------------------------------------------------------------------------ *)
Lemma comp_flags_length k user : length (comp_flags k user) = S (length (k_subs k)).
Proof. unfold comp_flags, comp_flags_with. cbn. rewrite map_length. reflexivity. Qed.
Lemma comp_attrs_length k : length (comp_attrs k) = S (length (k_subs k)).
Proof. unfold comp_attrs. cbn. rewrite map_length. reflexivity. Qed.

Theorem scan_sound k o user i : usage k o user = Chosen i false -> op_flags o <> 0 ->
  exists f, nth_error (comp_flags k user) i = Some (FOk f) /\ Z.land (op_flags o) f <> 0.
Proof.
  unfold usage, usage_with. intros H Hreq. apply Z.eqb_neq in Hreq. rewrite Hreq in H.
  fold (comp_flags k user) in H.
  destruct (scan (op_flags o) (comp_flags k user) 0 0) eqn:E.
  - injection H as <-. apply scan_found in E as (_ & Hf & _). rewrite Nat.sub_0_r in Hf. exact Hf.
  - destruct (k_enforce k); discriminate.
  - discriminate.
Qed.

Theorem scan_first_capable k o user i : usage k o user = Chosen i false -> op_flags o <> 0 ->
  forall m, (m < i)%nat -> exists x, nth_error (comp_flags k user) m = Some x /\ incapable (op_flags o) x.
Proof.
  unfold usage, usage_with. intros H Hreq. apply Z.eqb_neq in Hreq. rewrite Hreq in H.
  fold (comp_flags k user) in H.
  destruct (scan (op_flags o) (comp_flags k user) 0 0) eqn:E.
  - injection H as <-. apply scan_found in E as (_ & _ & Hb). intros m Hm. apply Hb. lia.
  - destruct (k_enforce k); discriminate.
  - discriminate.
Qed.

Theorem refuse_iff_none k o user : k_enforce k = true ->
  (usage k o user = Refused <-> op_flags o <> 0 /\ Forall (incapable (op_flags o)) (comp_flags k user)).
Proof.
  intros He. unfold usage, usage_with. fold (comp_flags k user). destruct (op_flags o =? 0) eqn:Hreq.
  - apply Z.eqb_eq in Hreq. split; [discriminate|]. intros [H _]. contradiction.
  - apply Z.eqb_neq in Hreq. split.
    + destruct (scan (op_flags o) (comp_flags k user) 0 0) eqn:E; try discriminate.
      intros _. split; [exact Hreq|]. apply scan_exhausted in E. tauto.
    + intros [_ Hall]. rewrite (scan_all_incapable _ _ 0%nat 0%nat Hall), He. reflexivity.
Qed.

(* enforcement off: the warning is logged and the method runs on the LAST component (the last subkey; the key itself when it has none) *)
Theorem enforcement_off_runs_last k o user : k_enforce k = false -> op_flags o <> 0 ->
  Forall (incapable (op_flags o)) (comp_flags k user) -> usage k o user = Chosen (length (k_subs k)) true.
Proof.
  intros He Hreq Hall. unfold usage, usage_with. fold (comp_flags k user). apply Z.eqb_neq in Hreq. rewrite Hreq.
  rewrite (scan_all_incapable _ _ 0%nat 0%nat Hall), He.
  pose proof (comp_flags_length k user) as HL. destruct (comp_flags k user); [discriminate|].
  rewrite HL. f_equal. lia.
Qed.

Theorem warned_only_when_off_and_none k o user i : usage k o user = Chosen i true ->
  k_enforce k = false /\ op_flags o <> 0 /\ Forall (incapable (op_flags o)) (comp_flags k user) /\ i = length (k_subs k).
Proof.
  unfold usage, usage_with. fold (comp_flags k user). destruct (op_flags o =? 0) eqn:Hreq; [discriminate|].
  apply Z.eqb_neq in Hreq.
  destruct (scan (op_flags o) (comp_flags k user) 0 0) eqn:E; try discriminate.
  destruct (k_enforce k) eqn:He; [discriminate|]. intros [= <-].
  apply scan_exhausted in E as [Hall Hn]. repeat split; auto.
  pose proof (comp_flags_length k user) as HL. destruct (comp_flags k user); [discriminate|]. rewrite Hn, HL. lia.
Qed.

Theorem no_flag_ops_use_receiver k o user : op_flags o = 0 -> usage k o user = Chosen 0 false.
Proof. intros H. unfold usage, usage_with. rewrite H. reflexivity. Qed.

(* a primary key always may certify (RFC 4880: primary keys must be capable of certification) *)
Lemma land_certify_lor x : Z.land CERTIFY (Z.lor CERTIFY x) <> 0.
Proof.
  unfold CERTIFY. rewrite Z.land_lor_distr_r. change (Z.land 1 1) with 1. intro H. apply Z.lor_eq_0_iff in H. destruct H. discriminate.
Qed.
Theorem primary_certifies uids user f : flags_primary uids user = FOk f -> Z.land CERTIFY f <> 0.
Proof.
  unfold flags_primary, flags_primary_with. destruct user as [s|].
  - destruct (get_uid uids s); [|discriminate]. intros [= <-]. apply land_certify_lor.
  - destruct uids; [intros [= <-]; discriminate|].
    destruct (default_uid _ _); [|discriminate]. intros [= <-]. apply land_certify_lor.
Qed.

(* ------------------------------------------------------------------------------------------------ *)
(* preconditions                                                                                     *)
(* ------------------------------------------------------------------------------------------------ *)
Lemma check_attributes_spec a o :
  check_attributes a o =
  match o with
  | OEncrypt => if is_public a then None else Some IsPublic
  | _ => if negb (is_unlocked a) then Some IsUnlocked else if is_public a then Some IsPublic else None
  end.
Proof.
  unfold check_attributes. destruct o; cbn; destruct (is_unlocked a); destruct (is_public a); reflexivity.
Qed.

(* the four forms of ONE key object (the receiver or a subkey) *)
Inductive form := FPublic | FPrivate | FLocked | FUnlocked.
Definition has_form (a : cattr) (f : form) : Prop :=
  match f with
  | FPublic => a_public a = true
  | FPrivate => a_public a = false /\ a_protected a = false
  | FLocked => a_public a = false /\ a_protected a = true /\ a_unl a = false
  | FUnlocked => a_public a = false /\ a_protected a = true /\ a_unl a = true
  end.
Definition matrix (f : form) (o : oper) : option attr :=
  match f, o with
  | FPublic, OEncrypt => None
  | FPublic, _ => Some IsPublic
  | FLocked, OEncrypt => Some IsPublic
  | FLocked, _ => Some IsUnlocked
  | _, OEncrypt => Some IsPublic
  | _, _ => None
  end.
Lemma every_key_has_a_form a : exists f, has_form a f.
Proof.
  destruct (a_public a) eqn:A; [exists FPublic; exact A|]. destruct (a_protected a) eqn:B; [|exists FPrivate; cbn; auto].
  destruct (a_unl a) eqn:C; [exists FUnlocked|exists FLocked]; cbn; auto.
Qed.
Theorem precondition_matrix a f o : has_form a f -> check_attributes a o = matrix f o.
Proof.
  intros H. rewrite check_attributes_spec. unfold is_unlocked, is_protected, is_public.
  destruct f; cbn in H; repeat match goal with H : _ /\ _ |- _ => destruct H end;
    repeat match goal with H : _ = _ |- _ => rewrite H end; destruct o; reflexivity.
Qed.

Theorem perform_nokey k o user : k_present k = false -> perform k o user = NoKey.
Proof. intros H. unfold perform, perform_with. rewrite H. reflexivity. Qed.

(* a key without an identity refuses everything but certification *)
Theorem no_identity_only_certify k o user : k_present k = true -> k_primary k = true -> k_uids k = [] ->
  (perform k o user = Incomplete <-> o <> OCertify).
Proof.
  intros Hp Hpr Hu. unfold perform, perform_with. rewrite Hp, Hpr, Hu. cbn [negb length Nat.eqb andb].
  destruct o; cbn [is_certify negb]; split; try congruence; try (intros; reflexivity).
  intros H _. revert H. cbn [rules_now r_usercheck r_onchosen andb].
  destruct (user_unknown _ user); [discriminate|].
  destruct (usage_with _ _ OCertify user) as [i w| |c]; try discriminate.
  destruct (check_attributes _ OCertify); discriminate.
Qed.
(* ... and its first self-certification goes through on the primary key when its form allows *)
Theorem no_identity_first_certification k : k_present k = true -> k_primary k = true -> k_uids k = [] ->
  perform k OCertify None = match check_attributes (k_attr k) OCertify with Some a => BadAttr a | None => Run 0 false end.
Proof.
  intros Hp Hpr Hu. unfold perform, perform_with. rewrite Hp, Hpr, Hu. cbn [negb length Nat.eqb andb is_certify].
  unfold usage_with. cbn. unfold comp_flags_with. rewrite Hpr, Hu. cbn. reflexivity.
Qed.

(* an unknown user= is a refusal (PGPError), whatever the operation *)
Theorem unknown_user_refused k o user : k_present k = true -> (k_uids k <> [] \/ k_primary k = false \/ o = OCertify) ->
  user_unknown k user = true -> perform k o user = NoUser.
Proof.
  intros Hp Hc Hu. unfold perform, perform_with. rewrite Hp. cbn [negb].
  destruct ((length (k_uids k) =? 0)%nat && k_primary k && negb (is_certify o)) eqn:E.
  - exfalso. apply andb_true_iff in E as [E E3]. apply andb_true_iff in E as [E1 E2]. destruct Hc as [Hc|[Hc|Hc]].
    + destruct (k_uids k); [congruence|discriminate].
    + congruence.
    + subst o. discriminate.
  - cbn [rules_now r_usercheck andb]. rewrite Hu. reflexivity.
Qed.

(* what it takes for the method body to run, and on which component: the conditions hold for THAT component *)
Theorem run_requires k o user i w : perform k o user = Run i w ->
  k_present k = true /\ (k_uids k <> [] \/ k_primary k = false \/ o = OCertify) /\ user_unknown k user = false /\
  usage k o user = Chosen i w /\ check_attributes (comp_attr k i) o = None.
Proof.
  unfold perform, perform_with. destruct (k_present k); cbn [negb]; [|discriminate].
  destruct ((length (k_uids k) =? 0)%nat && k_primary k && negb (is_certify o)) eqn:E; [discriminate|].
  cbn [rules_now r_usercheck r_onchosen andb]. destruct (user_unknown k user); [discriminate|].
  fold rules_now. fold (usage k o user). destruct (usage k o user) as [j w'| |c] eqn:U; try discriminate.
  destruct (check_attributes (comp_attr k j) o) eqn:A; [discriminate|]. intros [= <- <-]. repeat split; auto.
  apply andb_false_iff in E as [E|E]; [apply andb_false_iff in E as [E|E]|].
  - left. intro H. rewrite H in E. discriminate.
  - right. left. exact E.
  - right. right. destruct o; try discriminate. reflexivity.
Qed.

(* the component usage() yields is one of the components of the receiver *)
Lemma scan_index req : forall l idx last, (last <= idx)%nat ->
  match scan req l idx last with
  | Found j => (idx <= j < idx + length l)%nat
  | Exhausted n => (n = last /\ l = []) \/ (idx <= n < idx + length l)%nat
  | ScanCrash _ => True
  end.
Proof.
  induction l as [|x r IH]; intros idx last Hl; cbn [scan length]; [left; auto|].
  destruct x as [f|c]; [|exact I]. destruct (Z.land req f =? 0).
  - specialize (IH (S idx) idx (Nat.le_succ_diag_r idx)). destruct (scan req r (S idx) idx) as [j|n|c]; [lia| |exact I].
    right. destruct IH as [[-> ->]|IH]; cbn [length]; lia.
  - lia.
Qed.
Theorem usage_index_valid k o user i w : usage k o user = Chosen i w -> (i < length (comp_attrs k))%nat.
Proof.
  unfold usage, usage_with. rewrite comp_attrs_length. destruct (op_flags o =? 0); [intros [= <- <-]; lia|].
  fold (comp_flags k user). pose proof (scan_index (op_flags o) (comp_flags k user) 0 0 (Nat.le_refl 0)) as H.
  pose proof (comp_flags_length k user) as HL.
  destruct (scan (op_flags o) (comp_flags k user) 0 0) as [j|n|c].
  - intros [= <- <-]. lia.
  - destruct (k_enforce k); [discriminate|]. intros [= <- <-]. destruct H as [[_ H]|H]; [rewrite H in HL; discriminate|lia].
  - discriminate.
Qed.

(* a private operation (everything but encrypt) runs only on a component that is a private key object and unlocked;
   public-key encryption runs only on a public key object -- whichever component the receiver is *)
Theorem private_op_runs_only_on_unlocked_private_component k o user i w : o <> OEncrypt -> perform k o user = Run i w ->
  (i < length (comp_attrs k))%nat /\ is_public (comp_attr k i) = false /\ is_unlocked (comp_attr k i) = true.
Proof.
  intros Ho H. apply run_requires in H as (_ & _ & _ & U & A). split; [exact (usage_index_valid k o user i w U)|].
  rewrite check_attributes_spec in A.
  destruct o; try congruence; destruct (is_unlocked (comp_attr k i)), (is_public (comp_attr k i)); cbn in A; try discriminate; auto.
Qed.
Theorem encrypt_runs_only_on_public_component k user i w : perform k OEncrypt user = Run i w ->
  (i < length (comp_attrs k))%nat /\ is_public (comp_attr k i) = true.
Proof.
  intros H. apply run_requires in H as (_ & _ & _ & U & A). split; [exact (usage_index_valid k _ user i w U)|].
  rewrite check_attributes_spec in A. destruct (is_public (comp_attr k i)); [reflexivity|discriminate].
Qed.
(* the contrapositive forms of before, now about the chosen component *)
Theorem private_ops_refuse k o user i w : o <> OEncrypt -> (is_public (comp_attr k i) = true \/ is_unlocked (comp_attr k i) = false) ->
  perform k o user <> Run i w.
Proof.
  intros Ho Hk H. destruct (private_op_runs_only_on_unlocked_private_component k o user i w Ho H) as (_ & A & B).
  destruct Hk; congruence.
Qed.
Theorem encrypt_refuses_private k user i w : is_public (comp_attr k i) = false -> perform k OEncrypt user <> Run i w.
Proof. intros Hk H. destruct (encrypt_runs_only_on_public_component k user i w H) as [_ A]. congruence. Qed.

(* no outcome of the code as it is now is an exception other than PGPError *)
Lemma flags_sub_now_ok sigs : exists f, flags_sub_with rules_now sigs = FOk f.
Proof. unfold flags_sub_with. cbn [rules_now r_pick r_nobind]. destruct (newest sigs) as [s|]; eauto. Qed.
Lemma scan_no_crash req : forall l idx last, Forall (fun x => exists f, x = FOk f) l -> forall c, scan req l idx last <> ScanCrash c.
Proof.
  induction l as [|x r IH]; intros idx last H c; cbn [scan]; [discriminate|].
  inversion H as [|? ? [f ->] Hr]; subst. destruct (Z.land req f =? 0); [apply IH; exact Hr|discriminate].
Qed.
Lemma comp_flags_now_ok k user : user_unknown k user = false -> Forall (fun x => exists f, x = FOk f) (comp_flags k user).
Proof.
  intros Hu. unfold comp_flags, comp_flags_with. constructor.
  - destruct (k_primary k); [|apply flags_sub_now_ok]. unfold flags_primary_with, user_unknown in *. destruct user as [s|].
    + destruct (get_uid (k_uids k) s); [eauto|discriminate].
    + destruct (k_uids k) as [|u r] eqn:E; [eauto|]. unfold default_uid. cbn [rules_now r_uafallback].
      destruct (filter u_text (u :: r)); cbn [hd_error]; eauto.
  - apply Forall_forall. intros x Hx. apply in_map_iff in Hx as [s [<- _]]. apply flags_sub_now_ok.
Qed.
Theorem no_crash k o user c : perform k o user <> Crash c.
Proof.
  unfold perform, perform_with. destruct (negb (k_present k)); [discriminate|].
  destruct ((length (k_uids k) =? 0)%nat && k_primary k && negb (is_certify o)); [discriminate|].
  cbn [rules_now r_usercheck r_onchosen andb]. destruct (user_unknown k user) eqn:Hu; [discriminate|].
  fold rules_now. unfold usage_with. destruct (op_flags o =? 0).
  - destruct (check_attributes _ o); discriminate.
  - fold (comp_flags k user). pose proof (scan_no_crash (op_flags o) _ 0%nat 0%nat (comp_flags_now_ok k user Hu)) as N.
    destruct (scan (op_flags o) (comp_flags k user) 0 0) as [j|n|c'].
    + destruct (check_attributes _ o); discriminate.
    + destruct (k_enforce k); [discriminate|]. destruct (check_attributes _ o); discriminate.
    + exfalso. exact (N c' eq_refl).
Qed.

(* end to end, enforcement on: if the method runs for an operation that needs a flag, it runs on the first component (primary,
   then subkeys in order) whose flags intersect the requirement *)
Theorem run_uses_first_capable k o user i w : k_enforce k = true -> op_flags o <> 0 -> perform k o user = Run i w ->
  w = false /\
  (exists f, nth_error (comp_flags k user) i = Some (FOk f) /\ Z.land (op_flags o) f <> 0) /\
  (forall m, (m < i)%nat -> exists x, nth_error (comp_flags k user) m = Some x /\ incapable (op_flags o) x).
Proof.
  intros He Hreq H. apply run_requires in H as (_ & _ & _ & U & _).
  destruct w.
  - apply warned_only_when_off_and_none in U as [He' _]. congruence.
  - split; [reflexivity|]. split; [apply (scan_sound k o user i U Hreq)|apply (scan_first_capable k o user i U Hreq)].
Qed.

(* ------------------------------------------------------------------------------------------------ *)
(* most recent signature                                                                             *)
(* ------------------------------------------------------------------------------------------------ *)
Lemma find_app {A} (p : A -> bool) a b : find p (a ++ b) = match find p a with Some x => Some x | None => find p b end.
Proof. induction a as [|x r IH]; cbn; [reflexivity|]. destruct (p x); [reflexivity|exact IH]. Qed.

Lemma find_rev_split {A} (p : A -> bool) : forall l s, find p (rev l) = Some s ->
  exists l1 l2, l = l1 ++ s :: l2 /\ p s = true /\ Forall (fun x => p x = false) l2.
Proof.
  induction l as [|x r IH]; intros s; cbn; [discriminate|].
  rewrite find_app. destruct (find p (rev r)) as [y|] eqn:E.
  - intros [= ->]. destruct (IH s eq_refl) as (l1 & l2 & -> & Hs & Hall). exists (x :: l1), l2. auto.
  - cbn. destruct (p x) eqn:Px; [|discriminate]. intros [= ->]. exists [], r. repeat split; auto.
    apply Forall_forall. intros y Hy. apply (find_none _ _ E). apply in_rev in Hy. exact Hy.
Qed.

Lemma find_rev_none {A} (p : A -> bool) l : find p (rev l) = None -> forall x, In x l -> p x = false.
Proof. intros H x Hx. apply (find_none _ _ H). apply in_rev in Hx. exact Hx. Qed.

Definition by_created (a b : sigr) : Prop := s_created a <= s_created b.

(* with the signatures stored in creation order, the last one satisfying p is one of maximal creation time among those satisfying p *)
Lemma last_match_most_recent (p : sigr -> bool) l s : StronglySorted by_created l -> find p (rev l) = Some s ->
  In s l /\ p s = true /\ forall s', In s' l -> p s' = true -> s_created s' <= s_created s.
Proof.
  intros Hs H. destruct (find_rev_split _ _ _ H) as (l1 & l2 & -> & Hq & Hno).
  split; [apply in_or_app; right; left; reflexivity|]. split; [exact Hq|].
  intros s' Hin Hq'. apply in_app_or in Hin as [Hin|[<-|Hin]].
  - clear H Hno. induction l1 as [|x r IH]; [contradiction|]. cbn in Hs. inversion Hs as [|? ? Hs' Hall]; subst.
    destruct Hin as [->|Hin]; [|apply IH; assumption].
    rewrite Forall_forall in Hall. apply Hall. apply in_or_app. right. left. reflexivity.
  - lia.
  - rewrite Forall_forall in Hno. rewrite (Hno s' Hin) in Hq'. discriminate.
Qed.

(* `newest` is a qualifying signature of maximal creation time *)
Theorem newest_most_recent l s : StronglySorted by_created l -> newest l = Some s ->
  In s l /\ s_qual s = true /\ forall s', In s' l -> s_qual s' = true -> s_created s' <= s_created s.
Proof. intros Hs H. exact (last_match_most_recent s_qual l s Hs H). Qed.

(* `newest_cert` (PGPUID.selfsig) is a certification issued by the key, of maximal creation time among those *)
Theorem newest_cert_most_recent l s : StronglySorted by_created l -> newest_cert l = Some s ->
  In s l /\ s_qual s = true /\ s_cert s = true /\
  forall s', In s' l -> s_qual s' = true -> s_cert s' = true -> s_created s' <= s_created s.
Proof.
  intros Hs H. destruct (last_match_most_recent _ l s Hs H) as (H1 & H2 & H3). cbv beta in H2. apply andb_true_iff in H2 as [Hc Hq].
  repeat split; auto. intros s' Hin Hq' Hc'. apply H3; [exact Hin|]. cbv beta. rewrite Hc', Hq'. reflexivity.
Qed.

(* a subkey's flags are those of a qualifying binding signature of maximal creation time; the empty set when none qualifies *)
Theorem flags_most_recent sigs f : StronglySorted by_created sigs -> flags_sub sigs = FOk f ->
  (exists s, In s sigs /\ s_qual s = true /\ s_flags s = f /\
             forall s', In s' sigs -> s_qual s' = true -> s_created s' <= s_created s)
  \/ ((forall s, In s sigs -> s_qual s = false) /\ f = 0).
Proof.
  intros Hs. unfold flags_sub, flags_sub_with. cbn [rules_now r_pick r_nobind]. destruct (newest sigs) as [s|] eqn:E.
  - intros [= <-]. left. destruct (newest_most_recent _ _ Hs E) as (H1 & H2 & H3). exists s. auto.
  - intros [= <-]. right. split; [|reflexivity]. apply find_rev_none. exact E.
Qed.

Theorem flags_sub_total sigs : exists f, flags_sub sigs = FOk f.
Proof. apply flags_sub_now_ok. Qed.

Theorem flags_sub_unbound sigs : (forall s, In s sigs -> s_qual s = false) -> flags_sub sigs = FOk 0.
Proof.
  intros H. unfold flags_sub, flags_sub_with. cbn [rules_now r_pick r_nobind]. unfold newest.
  destruct (find s_qual (rev sigs)) as [s|] eqn:E; [|reflexivity].
  apply find_some in E as [E1 E2]. apply in_rev in E1. rewrite (H s E1) in E2. discriminate.
Qed.

(* before repair a0cb78f that case raised *)
Theorem flags_sub_old_crash_iff sigs : flags_sub_with rules_old_crash sigs = FCrash CrashNoBinding <-> forall s, In s sigs -> s_qual s = false.
Proof.
  unfold flags_sub_with. cbn [rules_old_crash r_pick r_nobind]. unfold newest. split.
  - destruct (find s_qual (rev sigs)) eqn:E; [discriminate|]. intros _. apply find_rev_none. exact E.
  - intros H. destruct (find s_qual (rev sigs)) as [s|] eqn:E; [|reflexivity].
    apply find_some in E as [E1 E2]. apply in_rev in E1. rewrite (H s E1) in E2. discriminate.
Qed.

Theorem selfsig_most_recent u : StronglySorted by_created (u_sigs u) ->
  (exists s, In s (u_sigs u) /\ s_qual s = true /\ s_cert s = true /\ selfsig_flags u = s_flags s /\
             forall s', In s' (u_sigs u) -> s_qual s' = true -> s_cert s' = true -> s_created s' <= s_created s)
  \/ ((forall s, In s (u_sigs u) -> s_qual s = true -> s_cert s = false) /\ selfsig_flags u = 0).
Proof.
  intros Hs. unfold selfsig_flags, selfsig_flags_with. destruct (newest_cert (u_sigs u)) as [s|] eqn:E.
  - left. destruct (newest_cert_most_recent _ _ Hs E) as (H1 & H2 & H3 & H4). exists s. auto.
  - right. split; [|reflexivity]. intros s Hin Hq. pose proof (find_rev_none _ _ E s Hin) as H. cbv beta in H.
    rewrite Hq, andb_true_r in H. exact H.
Qed.

(* a signature that is not a certification (a certification revocation, an attestation), wherever it stands among the signatures of
   the user id and whatever flags it carries, does not change the flags read from the user id *)
Theorem selfsig_ignores_noncert tx ids l1 x l2 : s_cert x = false ->
  selfsig_flags {| u_text := tx; u_ids := ids; u_sigs := l1 ++ x :: l2 |} = selfsig_flags {| u_text := tx; u_ids := ids; u_sigs := l1 ++ l2 |}.
Proof.
  intros Hx. unfold selfsig_flags, selfsig_flags_with, newest_cert. cbn [u_sigs].
  rewrite !rev_app_distr. cbn [rev]. rewrite <- app_assoc, !find_app. cbn [app find]. rewrite Hx. reflexivity.
Qed.

(* the rule before repair 812bc0f (newest signature of any type by the key) is refuted: an identity certified for signing and
   revoked afterwards - the key still signs, the old rule read the revocation and refused; conversely a revocation that carries
   a KeyFlags subpacket granted what no certification grants *)
Definition cert_then_rev (fc fr : Z) : list sigr :=
  [ {| s_created := 0; s_flags := fc; s_qual := true; s_cert := true |}; {| s_created := 5; s_flags := fr; s_qual := true; s_cert := false |} ].
Definition rev_key (fc fr : Z) : pkey :=
  {| k_present := true; k_primary := true; k_uids := [ {| u_text := true; u_ids := [97]; u_sigs := cert_then_rev fc fr |} ];
     k_bind := []; k_subs := []; k_attr := {| a_public := false; a_protected := false; a_unl := false |}; k_enforce := true |}.
Lemma selfsig_old_refuted :
  (forall fc fr, StronglySorted by_created (cert_then_rev fc fr)) /\
  selfsig_flags {| u_text := true; u_ids := [97]; u_sigs := cert_then_rev SIGN 0 |} = SIGN /\
  selfsig_flags_old {| u_text := true; u_ids := [97]; u_sigs := cert_then_rev SIGN 0 |} = 0 /\
  perform (rev_key SIGN 0) OSign None = Run 0 false /\ perform_old_selfsig (rev_key SIGN 0) OSign None = NoUsage /\
  perform (rev_key 0 SIGN) OSign None = NoUsage /\ perform_old_selfsig (rev_key 0 SIGN) OSign None = Run 0 false.
Proof.
  split; [intros; repeat constructor; unfold by_created; cbn; lia|]. repeat split.
Qed.

(* the code before commit 480b116 took the OLDEST binding: refuted *)
Definition f7_sigs : list sigr := [ {| s_created := 1; s_flags := 32; s_qual := true; s_cert := false |}; {| s_created := 5; s_flags := 2; s_qual := true; s_cert := false |} ].
Definition f7_key : pkey :=
  {| k_present := true; k_primary := true;
     k_uids := [ {| u_text := true; u_ids := [97]; u_sigs := [ {| s_created := 0; s_flags := 32; s_qual := true; s_cert := true |} ] |} ];
     k_bind := []; k_subs := [ {| sb_sigs := f7_sigs; sb_attr := {| a_public := false; a_protected := false; a_unl := false |} |} ];
     k_attr := {| a_public := false; a_protected := false; a_unl := false |}; k_enforce := true |}.

Lemma flags_most_recent_prefix_refuted :
  StronglySorted by_created f7_sigs /\
  exists f s', flags_sub_with (with_pick rules_now oldest) f7_sigs = FOk f /\ In s' f7_sigs /\ s_qual s' = true /\
               (forall s, In s f7_sigs -> s_qual s = true -> s_flags s = f -> s_created s < s_created s').
Proof.
  split.
  - repeat constructor; unfold by_created; cbn; lia.
  - exists 32, {| s_created := 5; s_flags := 2; s_qual := true; s_cert := false |}. split; [reflexivity|]. split; [cbn; auto|]. split; [reflexivity|].
    intros s [<-|[<-|[]]] _; cbn; [lia|discriminate].
Qed.
(* the same witness end to end: re-binding for signing is honoured now, was ignored before *)
Lemma rebinding_changes_selection :
  perform f7_key OSign None = Run 1 false /\ perform_prefix f7_key OSign None = NoUsage.
Proof. split; reflexivity. Qed.

(* ------------------------------------------------------------------------------------------------ *)
(* mixed protection, unknown user=, unbound subkeys, image-only identities: examples and the refuted earlier rules *)
(* ------------------------------------------------------------------------------------------------ *)
Definition a_plain : cattr := {| a_public := false; a_protected := false; a_unl := false |}.     (* private, no passphrase *)
Definition a_locked : cattr := {| a_public := false; a_protected := true; a_unl := false |}.
Definition a_unlocked : cattr := {| a_public := false; a_protected := true; a_unl := true |}.    (* inside `with key.unlock(...)` *)
Definition a_pub : cattr := {| a_public := true; a_protected := false; a_unl := false |}.
Definition bind_sig (c f : Z) : sigr := {| s_created := c; s_flags := f; s_qual := true; s_cert := false |}.
Definition cert_sig (c f : Z) : sigr := {| s_created := c; s_flags := f; s_qual := true; s_cert := true |}.
(* a primary key whose identity grants Authentication only, with a signing subkey; both with their own lock state *)
Definition mixed_key (prim sub : cattr) : pkey :=
  {| k_present := true; k_primary := true; k_uids := [ {| u_text := true; u_ids := [97]; u_sigs := [cert_sig 0 32] |} ];
     k_bind := []; k_subs := [ {| sb_sigs := [bind_sig 0 SIGN]; sb_attr := sub |} ]; k_attr := prim; k_enforce := true |}.

(* non-vacuity of the per-component conditions: unprotected primary + locked signing subkey refuses, unlocked it signs on the subkey;
   a locked primary does not stop its usable subkey from signing, but it cannot certify; public receiver, public subkey: encryption
   goes to the component that has the flag *)
Lemma mixed_protection_example :
  perform (mixed_key a_plain a_locked) OSign None = BadAttr IsUnlocked /\
  perform (mixed_key a_plain a_unlocked) OSign None = Run 1 false /\
  perform (mixed_key a_locked a_plain) OSign None = Run 1 false /\
  perform (mixed_key a_locked a_plain) OCertify None = BadAttr IsUnlocked /\
  perform (mixed_key a_locked a_locked) OSign None = BadAttr IsUnlocked /\
  perform (mixed_key a_unlocked a_unlocked) OSign None = Run 1 false /\
  perform (mixed_key a_pub a_pub) OSign None = BadAttr IsPublic.
Proof. repeat split. Qed.

(* before repair cab6d36 the conditions were those of the receiver: a private operation ran on a LOCKED component, and a usable
   subkey was refused because the primary key was locked *)
Lemma lockcheck_old_refuted :
  perform_old_lockcheck (mixed_key a_plain a_locked) OSign None = Run 1 false /\
  is_unlocked (comp_attr (mixed_key a_plain a_locked) 1) = false /\
  perform (mixed_key a_plain a_locked) OSign None = BadAttr IsUnlocked /\
  perform_old_lockcheck (mixed_key a_locked a_plain) OSign None = BadAttr IsUnlocked /\
  is_unlocked (comp_attr (mixed_key a_locked a_plain) 1) = true /\ is_public (comp_attr (mixed_key a_locked a_plain) 1) = false /\
  perform (mixed_key a_locked a_plain) OSign None = Run 1 false.
Proof. repeat split. Qed.

(* before repair a0cb78f: an unknown user= and a subkey without binding signature in effect raised (AttributeError / RuntimeError) *)
Definition unbound_key : pkey :=
  {| k_present := true; k_primary := true; k_uids := [ {| u_text := true; u_ids := [97]; u_sigs := [cert_sig 0 32] |} ];
     k_bind := []; k_subs := [ {| sb_sigs := []; sb_attr := a_plain |}; {| sb_sigs := [bind_sig 0 SIGN]; sb_attr := a_plain |} ];
     k_attr := a_plain; k_enforce := true |}.
Lemma crash_old_refuted :
  perform_old_crash (mixed_key a_plain a_plain) OSign (Some 98) = Crash CrashUser /\
  perform (mixed_key a_plain a_plain) OSign (Some 98) = NoUser /\
  perform (mixed_key a_plain a_plain) OSign (Some 97) = Run 1 false /\
  perform_old_crash unbound_key OSign None = Crash CrashNoBinding /\
  perform unbound_key OSign None = Run 2 false /\
  perform unbound_key OEncrypt None = NoUsage.
Proof. repeat split. Qed.

(* before repair 1d6dbd1: a key whose only identity is a user attribute (its self-certification grants Sign) could not be used *)
Definition image_only_key : pkey :=
  {| k_present := true; k_primary := true; k_uids := [ {| u_text := false; u_ids := []; u_sigs := [cert_sig 0 SIGN] |} ];
     k_bind := []; k_subs := []; k_attr := a_plain; k_enforce := true |}.
Lemma identity_old_refuted :
  perform_old_identity image_only_key OSign None = Crash CrashNoUserId /\
  perform image_only_key OSign None = Run 0 false /\
  (* a user id, wherever it stands, goes before the attribute *)
  flags_primary [ {| u_text := false; u_ids := []; u_sigs := [cert_sig 0 SIGN] |}; {| u_text := true; u_ids := [97]; u_sigs := [cert_sig 0 32] |} ] None
    = FOk (Z.lor CERTIFY 32).
Proof. repeat split. Qed.

(* ------------------------------------------------------------------------------------------------ *)
(* decryption routing                                                                                *)
(* ------------------------------------------------------------------------------------------------ *)
Lemma existsb_eqb_in x l : existsb (Z.eqb x) l = true <-> In x l.
Proof.
  rewrite existsb_exists. split.
  - intros [y [Hy E]]. apply Z.eqb_eq in E. subst. exact Hy.
  - intros H. exists x. split; [exact H|apply Z.eqb_refl].
Qed.

Theorem decrypt_finds_addressed own subs enc :
  match decrypt_route own subs enc with
  | RouteOwn => In own enc
  | RouteSub c => ~ In own enc /\ c <> [] /\ forall x, In x c <-> In x subs /\ In x enc
  | RouteCannot => ~ In own enc /\ forall x, In x subs -> ~ In x enc
  end.
Proof.
  unfold decrypt_route. destruct (existsb (Z.eqb own) enc) eqn:E.
  - apply existsb_eqb_in. exact E.
  - assert (Hown : ~ In own enc) by (intro H; apply existsb_eqb_in in H; congruence).
    destruct (filter (fun s => existsb (Z.eqb s) enc) subs) as [|c0 cr] eqn:F.
    + split; [exact Hown|]. intros x Hx Hin.
      assert (In x (filter (fun s => existsb (Z.eqb s) enc) subs)) by (apply filter_In; split; [exact Hx|apply existsb_eqb_in; exact Hin]).
      rewrite F in H. contradiction.
    + split; [exact Hown|]. split; [discriminate|]. intros x. rewrite <- F, filter_In, existsb_eqb_in. tauto.
Qed.
