(* C07 proofs: the export of the public twin is independent of every secret field, parses (by the model's
   packet splitter) to exactly the public packets it was built from, carries public tags only, shows the
   fingerprints of the private key; public objects fail the precondition of every private operation. *)
From Coq Require Import ZArith List Bool Lia ZifyBool.
Import ListNotations.
Require Import PV.Lib.Bytes PV.Lib.BytesLemmas PV.Model.Wire PV.Proofs.Wire_lemmas PV.Proofs.Wire_lemmas2.
Require Import PV.Model.KeyPackets PV.Model.Fingerprint PV.Model.PubExport PV.Spec.Rfc4880_keys.
Require Import PV.Proofs.KeyPackets_lemmas PV.Proofs.Fingerprint_lemmas.
Open Scope Z_scope.

(* ---------- one packet: emitted header + body parses back, following data untouched ---------- *)
Lemma pkt_emit_parse p rest : wf_pkt p ->
  exists hd h', pkt_emit p = Some (hd ++ p_body p) /\
    header_parse (hd ++ p_body p ++ rest) = Some (h', p_body p ++ rest) /\
    h_tag h' = p_tag p /\ h_len h' = Z.of_nat (length (p_body p)).
Proof.
  intros [Hl Hf]. unfold pkt_emit. destruct p as [fmt ll tag body]. cbn [p_fmt p_llen p_tag p_body] in *.
  assert (Hn : 0 <= Z.of_nat (length body) < 4294967296) by lia.
  destruct Hf as [[-> Ht]|[-> [Ht Hll]]].
  - destruct (new_header_roundtrip tag (Z.of_nat (length body)) ll (body ++ rest) Ht Hn) as [bs [h' [E [P [T [L _]]]]]].
    rewrite E. exists bs, h'. auto.
  - destruct (old_header_never_narrow tag (Z.of_nat (length body)) ll (body ++ rest) Ht Hn Hll) as [bs [h' [E [P [T [L _]]]]]].
    rewrite E. exists bs, h'. auto.
Qed.

Lemma parse_packets_step f b h r : header_parse b = Some (h, r) ->
  parse_packets (S f) b =
  if Z.of_nat (length r) <? h_len h then None
  else match parse_packets f (skipn (Z.to_nat (h_len h)) r) with
       | None => None
       | Some more => Some ((h_tag h, firstn (Z.to_nat (h_len h)) r) :: more)
       end.
Proof.
  intros H. destruct b as [|x b']; [discriminate H|]. cbn [parse_packets]. rewrite H. reflexivity.
Qed.

Lemma emit_all_parse l : Forall wf_pkt l ->
  exists bs, emit_all l = Some bs /\
    forall fuel, (length l < fuel)%nat -> parse_packets fuel bs = Some (map view l).
Proof.
  induction 1 as [|p l Hp Hl [bs' [E' P']]].
  - exists []. split; [reflexivity|]. intros [|f] Hf; [lia|reflexivity].
  - destruct (pkt_emit_parse p bs' Hp) as [hd [h' [E [P [T L]]]]].
    exists ((hd ++ p_body p) ++ bs'). cbn [emit_all]. rewrite E, E'. split; [reflexivity|].
    intros [|f] Hf; [cbn in Hf; lia|]. cbn [length] in Hf.
    rewrite <- app_assoc. rewrite (parse_packets_step f _ h' _ P). rewrite L.
    rewrite app_length. replace (Z.of_nat (length (p_body p) + length bs') <? Z.of_nat (length (p_body p))) with false by lia.
    rewrite Nat2Z.id. rewrite firstn_app_exact, skipn_app_exact by reflexivity.
    rewrite P' by lia. cbn [map]. unfold view at 2. rewrite T. reflexivity.
Qed.

(* ---------- sizes ---------- *)
Lemma mpi_len_bound v : wf_mpi v -> 0 <= mpi_len v <= 8194.
Proof.
  intros [_ Hb]. pose proof (bit_length_nonneg v). unfold mpi_len, mpi_byte_length.
  assert (0 <= (bit_length v + 7) / 8 < 8193); [|lia].
  split; [apply Z.div_pos; lia|]. apply Z.div_lt_upper_bound; lia.
Qed.
Lemma oid_len_bound c : oid_len c <= 11.
Proof. destruct c; vm_compute; discriminate. Qed.
Lemma pubmat_len_bound m : wf_pubmat m -> pubmat_len m < 100000.
Proof.
  destruct m; cbn [wf_pubmat pubmat_len]; intros H.
  - destruct H as [A B]. pose proof (mpi_len_bound _ A). pose proof (mpi_len_bound _ B). lia.
  - destruct H as [A [B [C D]]]. pose proof (mpi_len_bound _ A). pose proof (mpi_len_bound _ B).
    pose proof (mpi_len_bound _ C). pose proof (mpi_len_bound _ D). lia.
  - destruct H as [A [B C]]. pose proof (mpi_len_bound _ A). pose proof (mpi_len_bound _ B). pose proof (mpi_len_bound _ C). lia.
  - pose proof (oid_len_bound c). destruct pt; cbn [wf_point ecpoint_len] in *; lia.
  - pose proof (oid_len_bound c). destruct pt; cbn [wf_point ecpoint_len] in *; lia.
  - destruct H as [H _]. pose proof (oid_len_bound c). unfold kdf_len. destruct pt; cbn [wf_point ecpoint_len] in *; lia.
  - contradiction.
Qed.

(* ---------- the packets of the public twin ---------- *)
Definition okp (p : pkt) : Prop := wf_pkt p /\ In (p_tag p) public_tags.

Lemma ok_pub_keym k : wf_pub (km_key k) -> keym_private k = true -> okp (key_pkt (pub_keym k)).
Proof.
  intros H Hp. unfold pub_keym. rewrite Hp. unfold key_pkt, okp, wf_pkt. cbn [km_fmt km_llen km_key p_fmt p_llen p_tag p_body].
  fold (pub_packet_body (km_key k)). rewrite length_pub_body by assumption.
  destruct H as [_ [_ Hm]]. pose proof (pubmat_len_bound _ Hm). unfold publen.
  unfold key_tag, pubkey_pkt. cbn [k_sec k_sub].
  destruct (k_sub (km_key k)); (split; [split; [lia|left; split; [reflexivity|lia]]|cbn; tauto]).
Qed.

Lemma ok_sig s : wf_sig s -> okp (sg_pkt s).
Proof. intros [H T]. split; [exact H|]. rewrite T. cbn. tauto. Qed.

Lemma ok_filter_sigs f l : Forall wf_sig l -> Forall okp (map sg_pkt (filter f l)).
Proof.
  intros H. apply Forall_forall. intros p Hin. apply in_map_iff in Hin as [s [<- Hs]].
  apply filter_In in Hs as [Hs _]. apply ok_sig. rewrite Forall_forall in H. auto.
Qed.

Lemma ok_uid u : wf_uid u -> Forall okp (uid_pkts u).
Proof.
  intros [Hp [Ht Hs]]. unfold uid_pkts. constructor.
  - split; [exact Hp|]. destruct Ht as [-> | ->]; cbn; tauto.
  - apply ok_filter_sigs. exact Hs.
Qed.

Lemma Forall_flat_map {A B} (P : B -> Prop) (f : A -> list B) l :
  (forall x, In x l -> Forall P (f x)) -> Forall P (flat_map f l).
Proof.
  intros H. induction l as [|x l IH]; cbn [flat_map]; [constructor|].
  apply Forall_app. split; [apply H; left; reflexivity|]. apply IH. intros y Hy. apply H. right. exact Hy.
Qed.

Lemma keys_of_pub t : all_private t -> keys_of (pubkey_of t) = map pubkey_pkt (keys_of t).
Proof.
  intros [Hp Hs]. unfold pubkey_of. rewrite Hp. unfold keys_of. cbn [t_key t_subs map].
  unfold pub_keym at 1. rewrite Hp. cbn [km_key]. f_equal.
  rewrite !map_map. apply map_ext_in. intros s Hin. rewrite Forall_forall in Hs.
  unfold pub_sub, pub_keym. cbn [sb_key]. rewrite (Hs s Hin). reflexivity.
Qed.

Theorem pub_export_ok t : wf_tkey t -> all_private t -> Forall okp (export_pkts (pubkey_of t)).
Proof.
  intros [Hk [Hprim [Hsubs [Hsigs Huids]]]] [Hp Hs]. unfold pubkey_of. rewrite Hp.
  unfold export_pkts. cbn [t_key t_sigs t_uids t_subs].
  inversion Hk as [|k0 ks Hk0 Hks]; subst. constructor; [apply ok_pub_keym; assumption|].
  apply Forall_app. split; [apply ok_filter_sigs; exact Hsigs|].
  apply Forall_app. split.
  - apply Forall_flat_map. intros u Hu. apply ok_uid. rewrite Forall_forall in Huids. auto.
  - apply Forall_flat_map. intros s' Hin. apply in_map_iff in Hin as [s [<- Hin]].
    unfold sub_pkts, pub_sub. cbn [sb_key sb_sigs]. rewrite Forall_forall in Hs, Hsubs, Hks.
    constructor.
    + apply ok_pub_keym; [|auto]. apply Hks. apply in_map_iff. exists s. auto.
    + apply ok_filter_sigs. apply (Hsubs s Hin).
Qed.

(* the export exists, and the packet splitter reads it back as exactly these packets *)
Theorem pub_export_parse t : wf_tkey t -> all_private t ->
  exists bs, export (pubkey_of t) = Some bs /\
    forall fuel, (length (export_pkts (pubkey_of t)) < fuel)%nat ->
      parse_packets fuel bs = Some (map view (export_pkts (pubkey_of t))).
Proof.
  intros H Hp. unfold export. apply emit_all_parse.
  eapply Forall_impl; [|apply pub_export_ok; assumption]. intros p [Hw _]. exact Hw.
Qed.

Theorem pub_export_tags t : wf_tkey t -> all_private t ->
  Forall (fun p => In (fst p) public_tags) (map view (export_pkts (pubkey_of t))).
Proof.
  intros H Hp. apply Forall_forall. intros x Hin. apply in_map_iff in Hin as [p [<- Hin]].
  pose proof (pub_export_ok t H Hp) as K. rewrite Forall_forall in K. destruct (K p Hin) as [_ T]. exact T.
Qed.

(* no secret-key packet (tags 5, 7) and nothing else either *)
Corollary pub_export_no_secret_tag t : wf_tkey t -> all_private t ->
  forall x, In x (map view (export_pkts (pubkey_of t))) -> fst x <> 5 /\ fst x <> 7.
Proof.
  intros H Hp x Hin. pose proof (pub_export_tags t H Hp) as K. rewrite Forall_forall in K.
  specialize (K x Hin). cbn in K. lia.
Qed.

(* ---------- non-interference ---------- *)
Lemma pub_keym_same k k' : keym_private k = true -> keym_private k' = true -> same_public_keym k k' ->
  pub_keym k = pub_keym k'.
Proof.
  intros Hp Hp' [A [B [C D]]]. unfold pub_keym. rewrite Hp, Hp'. unfold pubkey_pkt. rewrite A, B, C, D. reflexivity.
Qed.

Theorem pubkey_of_same t t' : all_private t -> all_private t' -> same_public t t' -> pubkey_of t = pubkey_of t'.
Proof.
  intros [Hp Hs] [Hp' Hs'] [Hk [Hsig [Hu Hsub]]]. unfold pubkey_of. rewrite Hp, Hp'.
  rewrite (pub_keym_same _ _ Hp Hp' Hk), Hsig, Hu. f_equal.
  revert Hs Hs'. induction Hsub as [|s s' l l' [Hks Hss] Hr IH]; intros Hs Hs'; [reflexivity|].
  inversion Hs; subst. inversion Hs'; subst. cbn [map]. rewrite IH by assumption. f_equal.
  unfold pub_sub. rewrite Hss. f_equal. apply pub_keym_same; assumption.
Qed.

Theorem pub_export_noninterference t t' : all_private t -> all_private t' -> same_public t t' ->
  export (pubkey_of t) = export (pubkey_of t').
Proof. intros. f_equal. apply pubkey_of_same; assumption. Qed.

(* ---------- same identifiers ---------- *)
Section Ids.
Variable sha1 : bytes -> bytes.

Theorem pub_same_ids t : wf_tkey t -> all_private t -> Forall (fun k => 6 + publen k < 65536) (keys_of t) ->
  (* the key packets of the twin, hashed the RFC way, give the fingerprints the private key reports *)
  map (fun k => rfc_fingerprint sha1 (key_body k)) (keys_of (pubkey_of t)) = map (fingerprint sha1) (keys_of t) /\
  (* the twin's own fingerprints are the same values *)
  map (fingerprint sha1) (keys_of (pubkey_of t)) = map (fingerprint sha1) (keys_of t) /\
  (* identities, signatures and per-subkey signatures are the same lists *)
  t_uids (pubkey_of t) = t_uids t /\ t_sigs (pubkey_of t) = t_sigs t /\
  map sb_sigs (t_subs (pubkey_of t)) = map sb_sigs (t_subs t).
Proof.
  intros [Hk _] Hp Hb. rewrite keys_of_pub by assumption. rewrite !map_map.
  split; [|split].
  - apply map_ext_in. intros k Hin. rewrite Forall_forall in Hk, Hb.
    fold (pub_packet_body k). symmetry. apply fp_eq_rfc; auto.
  - apply map_ext_in. intros k Hin. rewrite Forall_forall in Hk.
    symmetry. apply fp_public_only; [auto|reflexivity|reflexivity|].
    unfold pubkey_pkt. cbn [k_mat]. destruct (Hk k Hin) as [_ [_ Hm]]. symmetry. apply pub_mat_wf. exact Hm.
  - destruct Hp as [Hp _]. unfold pubkey_of. rewrite Hp. cbn [t_uids t_sigs t_subs].
    split; [reflexivity|]. split; [reflexivity|]. rewrite map_map. reflexivity.
Qed.
End Ids.

(* ---------- public objects refuse private operations ---------- *)
Theorem public_refuses_private_ops a st : In a private_actions -> ks_public st = true -> key_action a st <> Run.
Proof.
  intros Ha Hp. unfold key_action.
  destruct (negb (ks_haskey st)); [discriminate|].
  destruct ((ks_nuids st =? 0)%nat && ks_primary st && negb (is_certify a)); [discriminate|].
  destruct (action_has_flags a && negb (ks_flag_ok st) && ks_require_flags st); [discriminate|].
  cbn in Ha. destruct Ha as [<-|[<-|[<-|[<-|[<-|[<-|[]]]]]]]; cbn [action_conds check_attributes attr_val];
    rewrite Hp; cbn; discriminate.
Qed.

(* ... and when nothing else is wrong the refusal is exactly the is_public precondition *)
Theorem public_refusal_reason a st : In a private_actions -> ks_public st = true ->
  ks_haskey st = true -> ks_nuids st <> 0%nat -> (ks_flag_ok st = true \/ ks_require_flags st = false) ->
  key_action a st = ErrAttr IsPublic.
Proof.
  intros Ha Hp Hk Hu Hf. unfold key_action. rewrite Hk. cbn [negb].
  replace (ks_nuids st =? 0)%nat with false by (symmetry; apply Nat.eqb_neq; exact Hu). cbn [andb].
  replace (action_has_flags a && negb (ks_flag_ok st) && ks_require_flags st) with false
    by (destruct Hf as [-> | ->]; destruct (action_has_flags a), (ks_flag_ok st); reflexivity).
  cbn in Ha. destruct Ha as [<-|[<-|[<-|[<-|[<-|[<-|[]]]]]]]; cbn [action_conds check_attributes attr_val];
    rewrite Hp; reflexivity.
Qed.

(* a locked private key refuses too; an unlocked or unprotected complete private key runs *)
Theorem locked_refuses a st : In a private_actions -> ks_public st = false -> ks_protected st = true ->
  ks_cleartext st = false -> key_action a st <> Run.
Proof.
  intros Ha Hp Hpr Hc. unfold key_action.
  destruct (negb (ks_haskey st)); [discriminate|].
  destruct ((ks_nuids st =? 0)%nat && ks_primary st && negb (is_certify a)); [discriminate|].
  destruct (action_has_flags a && negb (ks_flag_ok st) && ks_require_flags st); [discriminate|].
  cbn in Ha. destruct Ha as [<-|[<-|[<-|[<-|[<-|[<-|[]]]]]]]; cbn [action_conds check_attributes attr_val];
    rewrite Hp, Hpr, Hc; cbn; discriminate.
Qed.

(* ---------- the fuel the driver uses (one more than the number of octets) always suffices ---------- *)
Lemma pkt_emit_nonempty p bs : pkt_emit p = Some bs -> (1 <= length bs)%nat.
Proof.
  unfold pkt_emit, header_emit. cbn [h_lenfmt h_tag h_llen h_len].
  destruct (negb (p_fmt p =? 0)).
  - intros H. inversion H. rewrite !app_length, length_int_to_bytes. lia.
  - destruct (code_of_llen _); [|discriminate]. intros H. inversion H. rewrite !app_length, length_int_to_bytes. lia.
Qed.

Lemma emit_all_length l : forall bs, emit_all l = Some bs -> (length l <= length bs)%nat.
Proof.
  induction l as [|p l IH]; intros bs H; [cbn; lia|].
  cbn [emit_all] in H. destruct (pkt_emit p) as [a|] eqn:Ea; [|discriminate].
  destruct (emit_all l) as [b|] eqn:Eb; [|discriminate]. inversion H; subst.
  pose proof (pkt_emit_nonempty p a Ea). pose proof (IH b eq_refl). rewrite app_length. cbn [length]. lia.
Qed.

Theorem pub_export_parse_fuel t : wf_tkey t -> all_private t ->
  exists bs, export (pubkey_of t) = Some bs /\
    parse_packets (S (length bs)) bs = Some (map view (export_pkts (pubkey_of t))).
Proof.
  intros H Hp. destruct (pub_export_parse t H Hp) as [bs [E P]]. exists bs. split; [exact E|].
  apply P. pose proof (emit_all_length _ _ E). lia.
Qed.
