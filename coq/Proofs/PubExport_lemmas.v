(* C07 proofs: the export of the public twin is independent of every secret field, parses (by the model's
   packet splitter) to exactly the public packets it was built from, carries public tags only, shows the
   fingerprints of the private key; public objects fail the precondition of every private operation. *)
From Coq Require Import ZArith List Bool Lia ZifyBool.
Import ListNotations.
Require Import PV.Lib.Bytes PV.Lib.BytesLemmas PV.Model.Wire PV.Proofs.Wire_lemmas PV.Proofs.Wire_lemmas2.
Require Import PV.Model.KeyPackets PV.Model.Fingerprint PV.Model.PubExport PV.Spec.Rfc4880_keys.
Require Import PV.Proofs.KeyPackets_lemmas PV.Proofs.Fingerprint_lemmas.
Open Scope Z_scope.

(* ---------- one packet: emitted header + body parses back, following data untouched ---------- *)
Lemma pkt_emit_parse p rest : wf_pkt p ->
  exists hd h', pkt_emit p = Some (hd ++ p_body p) /\
    header_parse (hd ++ p_body p ++ rest) = Some (h', p_body p ++ rest) /\
    h_tag h' = p_tag p /\ h_len h' = Z.of_nat (length (p_body p)).
Proof.
  intros [Hl Hf]. unfold pkt_emit. destruct p as [fmt ll tag body]. cbn [p_fmt p_llen p_tag p_body] in *.
  assert (Hn : 0 <= Z.of_nat (length body) < 4294967296) by lia.
  destruct Hf as [[-> Ht]|[-> [Ht Hll]]].
  - destruct (new_header_roundtrip tag (Z.of_nat (length body)) ll (body ++ rest) Ht Hn) as [bs [h' [E [P [T [L _]]]]]].
    rewrite E. exists bs, h'. auto.
  - destruct (old_header_never_narrow tag (Z.of_nat (length body)) ll (body ++ rest) Ht Hn Hll) as [bs [h' [E [P [T [L _]]]]]].
    rewrite E. exists bs, h'. auto.
Qed.

Lemma parse_packets_step f b h r : header_parse b = Some (h, r) ->
  parse_packets (S f) b =
  if Z.of_nat (length r) <? h_len h then None
  else match parse_packets f (skipn (Z.to_nat (h_len h)) r) with
       | None => None
       | Some more => Some ((h_tag h, firstn (Z.to_nat (h_len h)) r) :: more)
       end.
Proof.
  intros H. destruct b as [|x b']; [discriminate H|]. cbn [parse_packets]. rewrite H. reflexivity.
Qed.

Lemma emit_all_parse l : Forall wf_pkt l ->
  exists bs, emit_all l = Some bs /\
    forall fuel, (length l < fuel)%nat -> parse_packets fuel bs = Some (map view l).
Proof.
  induction 1 as [|p l Hp Hl [bs' [E' P']]].
  - exists []. split; [reflexivity|]. intros [|f] Hf; [lia|reflexivity].
  - destruct (pkt_emit_parse p bs' Hp) as [hd [h' [E [P [T L]]]]].
    exists ((hd ++ p_body p) ++ bs'). cbn [emit_all]. rewrite E, E'. split; [reflexivity|].
    intros [|f] Hf; [cbn in Hf; lia|]. cbn [length] in Hf.
    rewrite <- app_assoc. rewrite (parse_packets_step f _ h' _ P). rewrite L.
    rewrite app_length. replace (Z.of_nat (length (p_body p) + length bs') <? Z.of_nat (length (p_body p))) with false by lia.
    rewrite Nat2Z.id. rewrite firstn_app_exact, skipn_app_exact by reflexivity.
    rewrite P' by lia. cbn [map]. unfold view at 2. rewrite T. reflexivity.
Qed.

(* ---------- sizes ---------- *)
Lemma mpi_len_bound v : wf_mpi v -> 0 <= mpi_len v <= 8194.
Proof.
  intros [_ Hb]. pose proof (bit_length_nonneg v). unfold mpi_len, mpi_byte_length.
  assert (0 <= (bit_length v + 7) / 8 < 8193); [|lia].
  split; [apply Z.div_pos; lia|]. apply Z.div_lt_upper_bound; lia.
Qed.
Lemma oid_len_bound c : oid_len c <= 11.
Proof. destruct c; vm_compute; discriminate. Qed.
Lemma pubmat_len_bound m : wf_pubmat m -> pubmat_len m < 100000.
Proof.
  destruct m; cbn [wf_pubmat pubmat_len]; intros H.
  - destruct H as [A B]. pose proof (mpi_len_bound _ A). pose proof (mpi_len_bound _ B). lia.
  - destruct H as [A [B [C D]]]. pose proof (mpi_len_bound _ A). pose proof (mpi_len_bound _ B).
    pose proof (mpi_len_bound _ C). pose proof (mpi_len_bound _ D). lia.
  - destruct H as [A [B C]]. pose proof (mpi_len_bound _ A). pose proof (mpi_len_bound _ B). pose proof (mpi_len_bound _ C). lia.
  - pose proof (oid_len_bound c). destruct pt; cbn [wf_point ecpoint_len] in *; lia.
  - pose proof (oid_len_bound c). destruct pt; cbn [wf_point ecpoint_len] in *; lia.
  - destruct H as [H _]. pose proof (oid_len_bound c). unfold kdf_len. destruct pt; cbn [wf_point ecpoint_len] in *; lia.
  - contradiction.
Qed.

(* ---------- when the twin exists, and what it is ---------- *)
(* the twin written as a total function (proof device): every key packet replaced by its public half under a fresh
   new-format header.  pubkey_of yields it, or refuses *)
Definition half_keym (k : keym) : keym := {| km_fmt := 1; km_llen := 1; km_key := pub_half (km_key k) |}.
Definition half_sub (s : subm) : subm := {| sb_key := half_keym (sb_key s); sb_sigs := sb_sigs s |}.
Definition twin_of (t : tkey) : tkey :=
  {| t_key := half_keym (t_key t); t_sigs := t_sigs t; t_uids := t_uids t; t_subs := map half_sub (t_subs t) |}.
Definition opaque_key (k : keypkt) : bool := is_opaque (k_mat k).

Lemma pub_keym_priv k : keym_private k = true ->
  pub_keym k = if opaque_key (km_key k) then None else Some (half_keym k).
Proof.
  intros Hp. unfold pub_keym. rewrite Hp. unfold pubkey_pkt, opaque_private, opaque_key.
  unfold keym_private in Hp. rewrite Hp. cbn [andb]. destruct (is_opaque (k_mat (km_key k))); reflexivity.
Qed.

Lemma pub_subs_priv l : Forall (fun s => keym_private (sb_key s) = true) l ->
  pub_subs l = if existsb (fun s => opaque_key (km_key (sb_key s))) l then None else Some (map half_sub l).
Proof.
  induction 1 as [|s l Hs Hl IH]; [reflexivity|].
  cbn [pub_subs existsb map]. unfold pub_sub. rewrite (pub_keym_priv _ Hs), IH.
  destruct (opaque_key (km_key (sb_key s))); cbn [orb]; [reflexivity|].
  destruct (existsb _ l); reflexivity.
Qed.

Lemma existsb_map_f {A B} (f : B -> bool) (g : A -> B) l : existsb f (map g l) = existsb (fun x => f (g x)) l.
Proof. induction l as [|x l IH]; [reflexivity|]. cbn [map existsb]. rewrite IH. reflexivity. Qed.

Lemma pubkey_of_priv t : all_private t ->
  pubkey_of t = if existsb opaque_key (keys_of t) then None else Some (twin_of t).
Proof.
  intros [Hp Hs]. unfold pubkey_of. rewrite Hp. rewrite (pub_keym_priv _ Hp), (pub_subs_priv _ Hs).
  unfold keys_of. cbn [existsb]. rewrite existsb_map_f.
  destruct (opaque_key (km_key (t_key t))); cbn [orb]; [reflexivity|].
  destruct (existsb _ (t_subs t)); reflexivity.
Qed.

(* PGPKey.pubkey of a private key refuses exactly when one of its key packets holds opaque material ... *)
Theorem pubkey_of_none_iff t : all_private t ->
  (pubkey_of t = None <-> exists k, In k (keys_of t) /\ is_opaque (k_mat k) = true).
Proof.
  intros H. rewrite (pubkey_of_priv t H). destruct (existsb opaque_key (keys_of t)) eqn:E.
  - split; [intros _|reflexivity]. apply existsb_exists in E. exact E.
  - split; [discriminate|]. intros X. apply existsb_exists in X. unfold opaque_key in E at 1. unfold opaque_key in X.
    rewrite E in X. discriminate.
Qed.

(* ... and whatever it produces holds public halves only: no secret part, under any premise on the material *)
Lemma keys_of_twin t : keys_of (twin_of t) = map pub_half (keys_of t).
Proof. unfold keys_of, twin_of. cbn [t_key t_subs half_keym km_key map]. f_equal. rewrite !map_map. reflexivity. Qed.

Theorem pubkey_of_some t p : all_private t -> pubkey_of t = Some p ->
  p = twin_of t /\ keys_of p = map pub_half (keys_of t) /\
  Forall (fun k => is_private k = false) (keys_of p) /\
  Forall (fun k => is_opaque (k_mat k) = false) (keys_of t).
Proof.
  intros H E. rewrite (pubkey_of_priv t H) in E. destruct (existsb opaque_key (keys_of t)) eqn:X; [discriminate|].
  inversion E; subst p. split; [reflexivity|]. split; [apply keys_of_twin|]. split.
  - rewrite keys_of_twin. apply Forall_forall. intros k Hin. apply in_map_iff in Hin as [k0 [<- _]]. reflexivity.
  - apply Forall_forall. intros k Hin. destruct (is_opaque (k_mat k)) eqn:O; [|reflexivity].
    assert (existsb opaque_key (keys_of t) = true) by (apply existsb_exists; exists k; auto). congruence.
Qed.

Lemma wf_keys_not_opaque t : Forall wf_pub (keys_of t) -> existsb opaque_key (keys_of t) = false.
Proof.
  intros H. destruct (existsb opaque_key (keys_of t)) eqn:E; [|reflexivity].
  apply existsb_exists in E as [k [Hin O]]. rewrite Forall_forall in H. destruct (H k Hin) as [_ [_ Hm]].
  unfold opaque_key in O. rewrite (wf_not_opaque _ Hm) in O. discriminate.
Qed.

(* a key of supported algorithms always has its twin *)
Theorem pubkey_of_wf t : wf_tkey t -> all_private t -> pubkey_of t = Some (twin_of t).
Proof. intros [Hk _] Hp. rewrite (pubkey_of_priv t Hp), (wf_keys_not_opaque t Hk). reflexivity. Qed.

(* ---------- the packets of the public twin ---------- *)
Definition okp (p : pkt) : Prop := wf_pkt p /\ In (p_tag p) public_tags.

Lemma ok_pub_keym k : wf_pub (km_key k) -> okp (key_pkt (half_keym k)).
Proof.
  intros H. unfold key_pkt, half_keym, okp, wf_pkt. cbn [km_fmt km_llen km_key p_fmt p_llen p_tag p_body].
  rewrite length_half_body by assumption.
  destruct H as [_ [_ Hm]]. pose proof (pubmat_len_bound _ Hm). unfold publen.
  unfold key_tag, pub_half. cbn [k_sec k_sub].
  destruct (k_sub (km_key k)); (split; [split; [lia|left; split; [reflexivity|lia]]|cbn; tauto]).
Qed.

Lemma ok_sig s : wf_sig s -> okp (sg_pkt s).
Proof. intros [H T]. split; [exact H|]. rewrite T. cbn. tauto. Qed.

Lemma ok_filter_sigs f l : Forall wf_sig l -> Forall okp (map sg_pkt (filter f l)).
Proof.
  intros H. apply Forall_forall. intros p Hin. apply in_map_iff in Hin as [s [<- Hs]].
  apply filter_In in Hs as [Hs _]. apply ok_sig. rewrite Forall_forall in H. auto.
Qed.

Lemma ok_uid u : wf_uid u -> Forall okp (uid_pkts u).
Proof.
  intros [Hp [Ht Hs]]. unfold uid_pkts. constructor.
  - split; [exact Hp|]. destruct Ht as [-> | ->]; cbn; tauto.
  - apply ok_filter_sigs. exact Hs.
Qed.

Lemma Forall_flat_map {A B} (P : B -> Prop) (f : A -> list B) l :
  (forall x, In x l -> Forall P (f x)) -> Forall P (flat_map f l).
Proof.
  intros H. induction l as [|x l IH]; cbn [flat_map]; [constructor|].
  apply Forall_app. split; [apply H; left; reflexivity|]. apply IH. intros y Hy. apply H. right. exact Hy.
Qed.

Lemma twin_export_ok t : wf_tkey t -> Forall okp (export_pkts (twin_of t)).
Proof.
  intros [Hk [Hprim [Hsubs [Hsigs Huids]]]]. unfold twin_of.
  unfold export_pkts. cbn [t_key t_sigs t_uids t_subs].
  inversion Hk as [|k0 ks Hk0 Hks]; subst. constructor; [apply ok_pub_keym; assumption|].
  apply Forall_app. split; [apply ok_filter_sigs; exact Hsigs|].
  apply Forall_app. split.
  - apply Forall_flat_map. intros u Hu. apply ok_uid. rewrite Forall_forall in Huids. auto.
  - apply Forall_flat_map. intros s' Hin. apply in_map_iff in Hin as [s [<- Hin]].
    unfold sub_pkts, half_sub. cbn [sb_key sb_sigs]. rewrite Forall_forall in Hsubs, Hks.
    constructor.
    + apply ok_pub_keym. apply Hks. apply in_map_iff. exists s. auto.
    + apply ok_filter_sigs. apply (Hsubs s Hin).
Qed.

Theorem pub_export_ok t : wf_tkey t -> all_private t ->
  exists p, pubkey_of t = Some p /\ Forall okp (export_pkts p).
Proof. intros H Hp. exists (twin_of t). split; [apply pubkey_of_wf; assumption|apply twin_export_ok; exact H]. Qed.

(* the twin exists, its export exists, and the packet splitter reads it back as exactly these packets *)
Theorem pub_export_parse t : wf_tkey t -> all_private t ->
  exists p bs, pubkey_of t = Some p /\ export p = Some bs /\
    forall fuel, (length (export_pkts p) < fuel)%nat ->
      parse_packets fuel bs = Some (map view (export_pkts p)).
Proof.
  intros H Hp. destruct (pub_export_ok t H Hp) as [p [E K]].
  destruct (emit_all_parse (export_pkts p)) as [bs [Eb P]].
  - eapply Forall_impl; [|exact K]. intros q [Hw _]. exact Hw.
  - exists p, bs. auto.
Qed.

Theorem pub_export_tags t : wf_tkey t -> all_private t ->
  exists p, pubkey_of t = Some p /\ Forall (fun x => In (fst x) public_tags) (map view (export_pkts p)).
Proof.
  intros H Hp. destruct (pub_export_ok t H Hp) as [p [E K]]. exists p. split; [exact E|].
  apply Forall_forall. intros x Hin. apply in_map_iff in Hin as [q [<- Hin]].
  rewrite Forall_forall in K. destruct (K q Hin) as [_ T]. exact T.
Qed.

(* no secret-key packet (tags 5, 7) and nothing else either *)
Corollary pub_export_no_secret_tag t : wf_tkey t -> all_private t ->
  exists p, pubkey_of t = Some p /\ forall x, In x (map view (export_pkts p)) -> fst x <> 5 /\ fst x <> 7.
Proof.
  intros H Hp. destruct (pub_export_tags t H Hp) as [p [E K]]. exists p. split; [exact E|].
  intros x Hin. rewrite Forall_forall in K. specialize (K x Hin). cbn in K. lia.
Qed.

(* ---------- non-interference ---------- *)
Lemma pub_keym_same k k' : keym_private k = true -> keym_private k' = true -> same_public_keym k k' ->
  pub_keym k = pub_keym k'.
Proof.
  intros Hp Hp' [A [B [C D]]]. rewrite (pub_keym_priv _ Hp), (pub_keym_priv _ Hp').
  unfold opaque_key, half_keym, pub_half. rewrite A, B, C, D. reflexivity.
Qed.

Lemma pub_subs_same l l' :
  Forall2 (fun s s' => same_public_keym (sb_key s) (sb_key s') /\ sb_sigs s = sb_sigs s') l l' ->
  Forall (fun s => keym_private (sb_key s) = true) l -> Forall (fun s => keym_private (sb_key s) = true) l' ->
  pub_subs l = pub_subs l'.
Proof.
  induction 1 as [|s s' l l' [Hks Hss] Hr IH]; intros Hs Hs'; [reflexivity|].
  inversion Hs; subst. inversion Hs'; subst. cbn [pub_subs]. rewrite IH by assumption.
  unfold pub_sub. rewrite (pub_keym_same (sb_key s) (sb_key s')) by assumption. rewrite Hss. reflexivity.
Qed.

(* refusal included: both keys have the SAME twin, or both have none *)
Theorem pubkey_of_same t t' : all_private t -> all_private t' -> same_public t t' -> pubkey_of t = pubkey_of t'.
Proof.
  intros [Hp Hs] [Hp' Hs'] [Hk [Hsig [Hu Hsub]]]. unfold pubkey_of. rewrite Hp, Hp'.
  rewrite (pub_keym_same _ _ Hp Hp' Hk), Hsig, Hu. rewrite (pub_subs_same _ _ Hsub Hs Hs'). reflexivity.
Qed.

Theorem pub_export_noninterference t t' : all_private t -> all_private t' -> same_public t t' ->
  pub_export t = pub_export t'.
Proof. intros. unfold pub_export. rewrite (pubkey_of_same t t') by assumption. reflexivity. Qed.

(* ---------- same identifiers ---------- *)
Section Ids.
Variable sha1 : bytes -> bytes.

Theorem pub_same_ids t : wf_tkey t -> all_private t -> Forall (fun k => 6 + publen k < 65536) (keys_of t) ->
  exists p, pubkey_of t = Some p /\
  (* the key packets of the twin, hashed the RFC way, give the fingerprints the private key reports *)
  map (fun k => rfc_fingerprint sha1 (key_body k)) (keys_of p) = map (fingerprint sha1) (keys_of t) /\
  (* the twin's own fingerprints are the same values *)
  map (fingerprint sha1) (keys_of p) = map (fingerprint sha1) (keys_of t) /\
  (* identities, signatures and per-subkey signatures are the same lists *)
  t_uids p = t_uids t /\ t_sigs p = t_sigs t /\
  map sb_sigs (t_subs p) = map sb_sigs (t_subs t).
Proof.
  intros Hw Hp Hb. exists (twin_of t). split; [apply pubkey_of_wf; assumption|].
  destruct Hw as [Hk _]. rewrite keys_of_twin. rewrite !map_map.
  split; [|split].
  - apply map_ext_in. intros k Hin. rewrite Forall_forall in Hk, Hb.
    symmetry. apply fp_eq_rfc_half; auto.
  - apply map_ext_in. intros k Hin. rewrite Forall_forall in Hk.
    symmetry. apply fp_public_only; [auto|reflexivity..].
  - unfold twin_of. cbn [t_uids t_sigs t_subs].
    split; [reflexivity|]. split; [reflexivity|]. rewrite map_map. reflexivity.
Qed.

(* without any premise on the material: every twin that IS produced shows the fingerprints of the private key
   (real_publen holds for supported well-formed and for opaque material; the latter never gets here) *)
Theorem twin_fingerprints t p : all_private t -> pubkey_of t = Some p -> Forall real_publen (keys_of t) ->
  map (fingerprint sha1) (keys_of p) = map (fingerprint sha1) (keys_of t).
Proof.
  intros Hp E Hr. destruct (pubkey_of_some t p Hp E) as [_ [K _]]. rewrite K, map_map.
  apply map_ext_in. intros k Hin. rewrite Forall_forall in Hr.
  symmetry. apply fp_public_only_real; [auto|reflexivity..].
Qed.
End Ids.

(* ---------- the code before repair 3c1c8c6: an opaque private key got an EMPTY twin with another fingerprint ---------- *)
Definition opaque_tkey : tkey :=
  {| t_key := {| km_fmt := 1; km_llen := 1; km_key := opaque_sec_witness |}; t_sigs := []; t_uids := []; t_subs := [] |}.
Theorem pubkey_of_old_refuted :
  all_private opaque_tkey /\
  map (fingerprint (fun x => x)) (keys_of (pubkey_of_old opaque_tkey)) <> map (fingerprint (fun x => x)) (keys_of opaque_tkey) /\
  pubkey_of opaque_tkey = None.
Proof.
  split; [split; [reflexivity|constructor]|]. split; [vm_compute; discriminate|reflexivity].
Qed.
(* on keys of supported algorithms the old getter is the repaired one *)
Lemma pub_keym_old_same k : wf_pub (km_key k) -> pub_keym k = Some (pub_keym_old k).
Proof.
  intros H. unfold pub_keym, pub_keym_old. destruct (keym_private k); [|reflexivity].
  rewrite (pubkey_pkt_old_same _ H). reflexivity.
Qed.
Theorem pubkey_of_old_same t : wf_tkey t -> pubkey_of t = Some (pubkey_of_old t).
Proof.
  intros [Hk _]. unfold pubkey_of, pubkey_of_old. destruct (keym_private (t_key t)); [|reflexivity].
  unfold keys_of in Hk. inversion Hk as [|k0 ks Hk0 Hks]; subst.
  rewrite (pub_keym_old_same _ Hk0).
  assert (E : pub_subs (t_subs t) = Some (map pub_sub_old (t_subs t))).
  { clear Hk Hk0. induction (t_subs t) as [|s l IH]; [reflexivity|]. cbn [map] in Hks. inversion Hks; subst.
    cbn [pub_subs map]. unfold pub_sub at 1. rewrite (pub_keym_old_same (sb_key s)) by assumption.
    rewrite IH by assumption. reflexivity. }
  rewrite E. reflexivity.
Qed.

(* ---------- public objects refuse private operations ---------- *)
Theorem public_refuses_private_ops a st : In a private_actions -> ks_public st = true -> key_action a st <> Run.
Proof.
  intros Ha Hp. unfold key_action.
  destruct (negb (ks_haskey st)); [discriminate|].
  destruct ((ks_nuids st =? 0)%nat && ks_primary st && negb (is_certify a)); [discriminate|].
  destruct (action_has_flags a && negb (ks_flag_ok st) && ks_require_flags st); [discriminate|].
  cbn in Ha. destruct Ha as [<-|[<-|[<-|[<-|[<-|[<-|[]]]]]]]; cbn [action_conds check_attributes attr_val];
    rewrite Hp; cbn; discriminate.
Qed.

(* ... and when nothing else is wrong the refusal is exactly the is_public precondition *)
Theorem public_refusal_reason a st : In a private_actions -> ks_public st = true ->
  ks_haskey st = true -> ks_nuids st <> 0%nat -> (ks_flag_ok st = true \/ ks_require_flags st = false) ->
  key_action a st = ErrAttr IsPublic.
Proof.
  intros Ha Hp Hk Hu Hf. unfold key_action. rewrite Hk. cbn [negb].
  replace (ks_nuids st =? 0)%nat with false by (symmetry; apply Nat.eqb_neq; exact Hu). cbn [andb].
  replace (action_has_flags a && negb (ks_flag_ok st) && ks_require_flags st) with false
    by (destruct Hf as [-> | ->]; destruct (action_has_flags a), (ks_flag_ok st); reflexivity).
  cbn in Ha. destruct Ha as [<-|[<-|[<-|[<-|[<-|[<-|[]]]]]]]; cbn [action_conds check_attributes attr_val];
    rewrite Hp; reflexivity.
Qed.

(* a locked private key refuses too; an unlocked or unprotected complete private key runs *)
Theorem locked_refuses a st : In a private_actions -> ks_public st = false -> ks_protected st = true ->
  ks_cleartext st = false -> key_action a st <> Run.
Proof.
  intros Ha Hp Hpr Hc. unfold key_action.
  destruct (negb (ks_haskey st)); [discriminate|].
  destruct ((ks_nuids st =? 0)%nat && ks_primary st && negb (is_certify a)); [discriminate|].
  destruct (action_has_flags a && negb (ks_flag_ok st) && ks_require_flags st); [discriminate|].
  cbn in Ha. destruct Ha as [<-|[<-|[<-|[<-|[<-|[<-|[]]]]]]]; cbn [action_conds check_attributes attr_val];
    rewrite Hp, Hpr, Hc; cbn; discriminate.
Qed.

(* ---------- the fuel the driver uses (one more than the number of octets) always suffices ---------- *)
Lemma pkt_emit_nonempty p bs : pkt_emit p = Some bs -> (1 <= length bs)%nat.
Proof.
  unfold pkt_emit, header_emit. cbn [h_lenfmt h_tag h_llen h_len].
  destruct (negb (p_fmt p =? 0)).
  - intros H. inversion H. rewrite !app_length, length_int_to_bytes. lia.
  - destruct (code_of_llen _); [|discriminate]. intros H. inversion H. rewrite !app_length, length_int_to_bytes. lia.
Qed.

Lemma emit_all_length l : forall bs, emit_all l = Some bs -> (length l <= length bs)%nat.
Proof.
  induction l as [|p l IH]; intros bs H; [cbn; lia|].
  cbn [emit_all] in H. destruct (pkt_emit p) as [a|] eqn:Ea; [|discriminate].
  destruct (emit_all l) as [b|] eqn:Eb; [|discriminate]. inversion H; subst.
  pose proof (pkt_emit_nonempty p a Ea). pose proof (IH b eq_refl). rewrite app_length. cbn [length]. lia.
Qed.

Theorem pub_export_parse_fuel t : wf_tkey t -> all_private t ->
  exists p bs, pubkey_of t = Some p /\ export p = Some bs /\
    parse_packets (S (length bs)) bs = Some (map view (export_pkts p)).
Proof.
  intros H Hp. destruct (pub_export_parse t H Hp) as [p [bs [E0 [E P]]]]. exists p, bs. split; [exact E0|]. split; [exact E|].
  apply P. pose proof (emit_all_length _ _ E). lia.
Qed.
