(* Helper lemmas about the fixed prelude of the translator (Gen/Gen_base.v): Python slices whose bound is known to be
   non-negative are firstn / skipn; an option read as a function that may raise. *)
From Coq Require Import String ZArith List Bool Lia ZifyBool.
Import ListNotations.
Require Import PV.Lib.Bytes PV.Gen.Gen_base.
Open Scope Z_scope.

Lemma firstn_min {A} n (l : list A) : firstn (Nat.min n (length l)) l = firstn n l.
Proof.
  destruct (Nat.le_gt_cases n (length l)) as [H|H].
  - rewrite Nat.min_l by exact H. reflexivity.
  - rewrite Nat.min_r by lia. rewrite firstn_all. rewrite firstn_all2 by lia. reflexivity.
Qed.
Lemma skipn_min {A} n (l : list A) : skipn (Nat.min n (length l)) l = skipn n l.
Proof.
  destruct (Nat.le_gt_cases n (length l)) as [H|H].
  - rewrite Nat.min_l by exact H. reflexivity.
  - rewrite Nat.min_r by lia. rewrite skipn_all. rewrite skipn_all2 by lia. reflexivity.
Qed.
Lemma py_upto_nonneg k l : 0 <= k -> py_upto k l = firstn (Z.to_nat k) l.
Proof. intros H. unfold py_upto, py_index. replace (k <? 0) with false by lia. apply firstn_min. Qed.
Lemma py_from_nonneg k l : 0 <= k -> py_from k l = skipn (Z.to_nat k) l.
Proof. intros H. unfold py_from, py_index. replace (k <? 0) with false by lia. apply skipn_min. Qed.

Definition gres_of_opt {A} (e : string) (o : option A) : gres A := match o with Some x => GOk x | None => GRaise e end.
