(* Proof scripts for C12 (Model/S2K.v against Spec/Rfc4880_s2k.v). *)
From Coq Require Import ZArith List Bool Lia ZifyBool.
Import ListNotations.
Require Import PV.Lib.Bytes PV.Lib.BytesLemmas PV.Model.Wire PV.Model.S2K PV.Spec.Rfc4880_wire PV.Spec.Rfc4880_s2k
  PV.Proofs.Wire_lemmas2.
Open Scope Z_scope.

(* ---------- cyclic reading ---------- *)
Lemma cycle_from_nil {A} n (l : list A) : cycle_from n [] l = cycle_take n l.
Proof. destruct n; [reflexivity|]. unfold cycle_take. destruct l; reflexivity. Qed.

Lemma cycle_from_app {A} (cur : list A) : forall n l, cycle_from (length cur + n) cur l = cur ++ cycle_take n l.
Proof.
  induction cur as [|x r IH]; intros n l; [apply cycle_from_nil|].
  simpl. f_equal. apply IH.
Qed.

Lemma cycle_from_short {A} : forall n (cur l : list A), (n <= length cur)%nat -> cycle_from n cur l = firstn n cur.
Proof.
  induction n as [|n IH]; intros cur l Hn; [reflexivity|].
  destruct cur as [|x r]; [simpl in Hn; lia|]. simpl. f_equal. apply IH. simpl in Hn. lia.
Qed.

Lemma cycle_take_nil {A} n : cycle_take n (@nil A) = [].
Proof. destruct n; reflexivity. Qed.

Lemma cycle_take_whole {A} (l : list A) : cycle_take (length l) l = l.
Proof. unfold cycle_take. rewrite cycle_from_short by lia. apply firstn_all. Qed.

Lemma rep_nil {A} n : rep n (@nil A) = [].
Proof. induction n; [reflexivity|]. simpl. exact IHn. Qed.

Lemma length_rep {A} n (l : list A) : length (rep n l) = (n * length l)%nat.
Proof. induction n; [reflexivity|]. simpl. rewrite app_length, IHn. reflexivity. Qed.

(* q whole copies followed by the first r items = the first q*|sp|+r items of the cyclic reading *)
Lemma rep_cycle {A} (sp : list A) : forall q r, (r <= length sp)%nat ->
  rep q sp ++ firstn r sp = cycle_take (q * length sp + r) sp.
Proof.
  induction q as [|q IH]; intros r Hr.
  - simpl. unfold cycle_take. symmetry. apply cycle_from_short. exact Hr.
  - simpl rep. rewrite <- app_assoc, IH by exact Hr.
    replace (S q * length sp + r)%nat with (length sp + (q * length sp + r))%nat by lia.
    unfold cycle_take at 2. rewrite cycle_from_app. reflexivity.
Qed.

Lemma length_cycle_from {A} : forall n (cur l : list A), l <> [] -> length (cycle_from n cur l) = n.
Proof.
  induction n as [|n IH]; intros cur l Hl; [reflexivity|].
  destruct cur as [|x r]; simpl.
  - destruct l as [|y t]; [congruence|]. simpl. f_equal. apply IH. exact Hl.
  - f_equal. apply IH. exact Hl.
Qed.

Lemma length_cycle_take {A} n (l : list A) : l <> [] -> length (cycle_take n l) = n.
Proof. apply length_cycle_from. Qed.

Lemma nth_rep {A} (l : list A) d : l <> [] -> forall q i, (i < q * length l)%nat ->
  nth i (rep q l) d = nth (i mod length l) l d.
Proof.
  intros Hl. assert (length l <> 0)%nat as Hn by (destruct l; [congruence|simpl; lia]).
  induction q as [|q IH]; intros i Hi; [simpl in Hi; lia|].
  simpl rep. destruct (Nat.ltb i (length l)) eqn:E.
  - apply Nat.ltb_lt in E. rewrite app_nth1 by exact E. rewrite Nat.mod_small by exact E. reflexivity.
  - apply Nat.ltb_ge in E. rewrite app_nth2 by exact E. rewrite IH by (simpl in Hi; lia).
    f_equal. replace i with ((i - length l) + 1 * length l)%nat at 2 by lia.
    rewrite Nat.mod_add by exact Hn. reflexivity.
Qed.

Lemma nth_firstn_lt {A} : forall n (l : list A) i d, (i < n)%nat -> nth i (firstn n l) d = nth i l d.
Proof.
  induction n as [|n IH]; intros l i d Hi; [lia|].
  destruct l as [|x r]; [reflexivity|]. destruct i as [|i]; [reflexivity|]. simpl. apply IH. lia.
Qed.

(* the i-th octet of the cyclic reading is octet (i mod |l|) of l *)
Lemma cycle_take_nth {A} (l : list A) d n i : l <> [] -> (i < n)%nat ->
  nth i (cycle_take n l) d = nth (i mod length l) l d.
Proof.
  intros Hl Hi. assert (length l <> 0)%nat as Hn by (destruct l; [congruence|simpl; lia]).
  pose proof (Nat.div_mod n (length l) Hn) as D. pose proof (Nat.mod_upper_bound n (length l) Hn) as B.
  set (q := (n / length l)%nat) in *. set (r := (n mod length l)%nat) in *.
  replace n with (q * length l + r)%nat by lia. rewrite <- rep_cycle by lia.
  destruct (Nat.ltb i (q * length l)) eqn:E.
  - apply Nat.ltb_lt in E. rewrite app_nth1 by (rewrite length_rep; exact E). apply nth_rep; assumption.
  - apply Nat.ltb_ge in E. rewrite app_nth2 by (rewrite length_rep; exact E). rewrite length_rep.
    assert (i - q * length l < r)%nat as Hlt by lia.
    rewrite nth_firstn_lt by exact Hlt.
    f_equal. replace i with ((i - q * length l) + q * length l)%nat at 2 by lia.
    rewrite Nat.mod_add by exact Hn. rewrite Nat.mod_small by lia. reflexivity.
Qed.

(* the same over Z, in the shape derive_key computes it *)
Lemma stream_eq_Z (sp : bytes) (count : Z) : sp <> [] -> 0 <= count ->
  rep (Z.to_nat (count / Z.of_nat (length sp))) sp
    ++ firstn (Z.to_nat (count - count / Z.of_nat (length sp) * Z.of_nat (length sp))) sp
  = cycle_take (Z.to_nat count) sp.
Proof.
  intros Hne Hc. set (l := Z.of_nat (length sp)).
  assert (0 < l) as Hl by (destruct sp; [congruence|unfold l; simpl length; lia]).
  pose proof (Z.div_mod count l ltac:(lia)) as D. pose proof (Z.mod_pos_bound count l Hl) as B.
  assert (0 <= count / l) as Hq by (apply Z.div_pos; lia).
  set (q := count / l) in *. set (m := count mod l) in *.
  assert (count - q * l = m) as -> by lia.
  rewrite rep_cycle by (unfold l in B; lia).
  f_equal. apply Nat2Z.inj. rewrite Nat2Z.inj_add, Nat2Z.inj_mul, !Z2Nat.id by lia. fold l. lia.
Qed.

(* ---------- number of contexts ---------- *)
Lemma rfc_contexts_least kb hl : 0 < hl -> 0 <= kb ->
  (rfc_contexts kb hl - 1) * hl < kb <= rfc_contexts kb hl * hl.
Proof.
  intros Hh Hk. unfold rfc_contexts.
  pose proof (Z.div_mod kb hl ltac:(lia)) as D. pose proof (Z.mod_pos_bound kb hl Hh) as B.
  set (q := kb / hl) in *. set (m := kb mod hl) in *.
  destruct (m =? 0) eqn:E; nia.
Qed.

Lemma ceil_div_contexts kb hl : 0 < hl -> 0 <= kb -> ceil_div (8 * kb) (hl * 8) = rfc_contexts kb hl.
Proof.
  intros Hh Hk. unfold ceil_div, rfc_contexts.
  pose proof (Z.div_mod kb hl ltac:(lia)) as D. pose proof (Z.mod_pos_bound kb hl Hh) as B.
  set (q := kb / hl) in *. set (m := kb mod hl) in *.
  destruct (m =? 0) eqn:E.
  - symmetry. apply (Z.div_unique _ _ q (hl * 8 - 1)); nia.
  - symmetry. apply (Z.div_unique _ _ (q + 1) (8 * m - 1)); nia.
Qed.

Lemma ceil_div_one a b : 0 < a <= b -> ceil_div a b = 1.
Proof. intros Hab. unfold ceil_div. symmetry. apply (Z.div_unique _ _ 1 (a - 1)); lia. Qed.

(* ---------- derive_key ---------- *)
Lemma plan_fields hlen spec halg keylen salt c pass :
  derive_plan hlen spec halg keylen salt c pass =
  let sp := (if spec >=? 1 then salt else []) ++ pass in
  let l := Z.of_nat (length sp) in
  let count := if (spec =? 3) && (s2k_count c >? l) then s2k_count c else l in
  {| p_ctx := ceil_div keylen (hlen halg * 8); p_sp := sp; p_count := count;
     p_hcount := if negb (l =? 0) then count / l else 0;
     p_hleft := count - (if negb (l =? 0) then count / l else 0) * l;
     p_keyoctets := keylen / 8 |}.
Proof. reflexivity. Qed.

Lemma plan_count_nonneg hlen spec halg keylen salt c pass :
  0 <= p_count (derive_plan hlen spec halg keylen salt c pass).
Proof.
  rewrite plan_fields. cbn [p_count]. cbv zeta.
  match goal with |- context [if ?b then _ else _] => destruct b eqn:E end; lia.
Qed.

Lemma plan_hleft_bounds hlen spec halg keylen salt c pass :
  let p := derive_plan hlen spec halg keylen salt c pass in
  0 <= p_hleft p /\ (p_sp p <> [] -> p_hleft p < Z.of_nat (length (p_sp p))) /\ 0 <= p_hcount p.
Proof.
  pose proof (plan_count_nonneg hlen spec halg keylen salt c pass) as Hc. revert Hc.
  rewrite plan_fields. cbv zeta. cbn [p_count p_hleft p_sp p_hcount].
  set (sp := (if spec >=? 1 then salt else []) ++ pass). set (l := Z.of_nat (length sp)).
  set (count := if (spec =? 3) && (s2k_count c >? l) then s2k_count c else l). intros Hc.
  destruct (l =? 0) eqn:E; cbn [negb].
  - repeat split; try lia. intros Hne. destruct sp; [congruence|]. unfold l in E. simpl length in E. lia.
  - assert (0 < l) as Hl by lia.
    pose proof (Z.div_mod count l ltac:(lia)) as D. pose proof (Z.mod_pos_bound count l Hl) as B.
    assert (0 <= count / l) as Hq by (apply Z.div_pos; lia).
    repeat split; try lia.
Qed.

(* the hashed stream is the cyclic reading of salt+passphrase, `count` octets long *)
Theorem stream_eq hlen spec halg keylen salt c pass :
  let p := derive_plan hlen spec halg keylen salt c pass in
  p_sp p <> [] -> hashdata p = cycle_take (Z.to_nat (p_count p)) (p_sp p).
Proof.
  pose proof (plan_count_nonneg hlen spec halg keylen salt c pass) as Hc. revert Hc.
  unfold hashdata. rewrite plan_fields. cbv zeta. cbn [p_count p_hleft p_sp p_hcount].
  set (sp := (if spec >=? 1 then salt else []) ++ pass). set (l := Z.of_nat (length sp)).
  set (count := if (spec =? 3) && (s2k_count c >? l) then s2k_count c else l). intros Hc Hne.
  assert (l =? 0 = false) as -> by (destruct sp; [congruence|unfold l; simpl length; lia]).
  cbn [negb]. apply stream_eq_Z; assumption.
Qed.

Lemma hashdata_empty hlen spec halg keylen salt c pass :
  p_sp (derive_plan hlen spec halg keylen salt c pass) = [] ->
  hashdata (derive_plan hlen spec halg keylen salt c pass) = [].
Proof. intros E. unfold hashdata. rewrite E, rep_nil, firstn_nil. reflexivity. Qed.

Lemma hashdata_eq_rfc hlen spec halg keylen salt c pass :
  spec = 0 \/ spec = 1 \/ spec = 3 -> 0 <= c < 256 ->
  hashdata (derive_plan hlen spec halg keylen salt c pass) = rfc_hashed_octets spec salt c pass.
Proof.
  intros Hs Hc.
  destruct (p_sp (derive_plan hlen spec halg keylen salt c pass)) as [|b0 sp0] eqn:E.
  - rewrite (hashdata_empty _ _ _ _ _ _ _ E). rewrite plan_fields in E. cbv zeta in E. cbn [p_sp] in E.
    unfold rfc_hashed_octets. destruct Hs as [->|[->| ->]]; cbn in E |- *.
    + symmetry; exact E.
    + symmetry; exact E.
    + rewrite E. symmetry. apply cycle_take_nil.
  - pose proof (stream_eq hlen spec halg keylen salt c pass) as S. cbv zeta in S. rewrite S by (rewrite E; discriminate).
    clear S E. rewrite plan_fields. cbv zeta. cbn [p_sp p_count].
    unfold rfc_hashed_octets. destruct Hs as [->|[->| ->]].
    + change (0 >=? 1) with false. change (0 =? 3) with false. cbn [andb app]. change (0 =? 0) with true. cbv iota.
      rewrite Nat2Z.id. apply cycle_take_whole.
    + change (1 >=? 1) with true. change (1 =? 3) with false. cbn [andb]. change (1 =? 0) with false. change (1 =? 1) with true. cbv iota.
      rewrite Nat2Z.id. apply cycle_take_whole.
    + change (3 >=? 1) with true. change (3 =? 3) with true. cbn [andb]. change (3 =? 0) with false. change (3 =? 1) with false. cbv iota.
      rewrite <- (count_eq_rfc c Hc). f_equal.
      destruct (s2k_count c >? Z.of_nat (length (salt ++ pass))) eqn:G; lia.
Qed.

Section WithHash.
Variable H : Z -> bytes -> bytes.
Variable hlen : Z -> Z.

(* the derived key is the RFC 4880 3.7.1 key: every specifier, hash, key size, salt, coded count, passphrase
   (the empty passphrase included) *)
Theorem derive_eq_rfc spec halg kb salt c pass :
  spec = 0 \/ spec = 1 \/ spec = 3 -> 0 <= c < 256 -> 0 < hlen halg -> 0 <= kb ->
  derive H hlen spec halg (8 * kb) salt c pass = rfc_s2k H hlen spec halg kb salt c pass.
Proof.
  intros Hs Hc Hh Hk. unfold derive, rfc_s2k.
  rewrite (hashdata_eq_rfc hlen spec halg (8 * kb) salt c pass Hs Hc).
  rewrite plan_fields. cbv zeta. cbn [p_keyoctets p_ctx].
  rewrite (ceil_div_contexts kb (hlen halg) Hh Hk).
  replace (8 * kb / 8) with kb by (rewrite Z.mul_comm, Z.div_mul; lia). reflexivity.
Qed.

(* simple S2K with the empty passphrase: nothing is hashed after the preload; a key no longer than one digest is H("") truncated *)
Theorem derive_empty_simple halg keylen salt c :
  hashdata (derive_plan hlen 0 halg keylen salt c []) = [] /\
  (0 < keylen <= hlen halg * 8 ->
   derive H hlen 0 halg keylen salt c [] = firstn (Z.to_nat (keylen / 8)) (H halg [])).
Proof.
  assert (hashdata (derive_plan hlen 0 halg keylen salt c []) = []) as E by (apply hashdata_empty; reflexivity).
  split; [exact E|]. intros Hk. unfold derive. rewrite E. rewrite plan_fields. cbv zeta. cbn [p_keyoctets p_ctx].
  rewrite ceil_div_one by lia. change (Z.to_nat 1) with 1%nat. cbn [seq map concat repeat app].
  rewrite app_nil_r. reflexivity.
Qed.

(* the compressed-stream form used by the driver is the same function *)
Theorem derive_sym_eq Hrep spec halg keylen salt c pass :
  (forall a i sp q r, Hrep a i sp q r = H a (repeat 0 i ++ rep (Z.to_nat q) sp ++ firstn (Z.to_nat r) sp)) ->
  derive_sym hlen Hrep spec halg keylen salt c pass = derive H hlen spec halg keylen salt c pass.
Proof.
  intros HR. unfold derive_sym, derive, hashdata. f_equal. f_equal. apply map_ext. intros i. apply HR.
Qed.

(* exact key length, given that digests have the advertised size *)
Hypothesis H_len : forall a x, length (H a x) = Z.to_nat (hlen a).

Lemma length_concat_digests halg f n :
  length (concat (map (fun i => H halg (f i)) (seq 0 n))) = (n * Z.to_nat (hlen halg))%nat.
Proof.
  generalize 0%nat. induction n as [|n IH]; intros s; [reflexivity|].
  simpl. rewrite app_length, H_len, IH. reflexivity.
Qed.

Theorem derive_length spec halg kb salt c pass :
  0 < hlen halg -> 0 <= kb -> length (derive H hlen spec halg (8 * kb) salt c pass) = Z.to_nat kb.
Proof.
  intros Hh Hk. unfold derive. rewrite plan_fields. cbv zeta. cbn [p_keyoctets p_ctx].
  rewrite (ceil_div_contexts kb (hlen halg) Hh Hk).
  replace (8 * kb / 8) with kb by (rewrite Z.mul_comm, Z.div_mul; lia).
  rewrite firstn_length, length_concat_digests.
  pose proof (rfc_contexts_least kb (hlen halg) Hh Hk) as L.
  assert (0 <= rfc_contexts kb (hlen halg)) by nia.
  apply Nat.min_l. apply Nat2Z.inj_le. rewrite Nat2Z.inj_mul, !Z2Nat.id by lia. lia.
Qed.
End WithHash.

(* regression: before the F6 repair the simple specifier with an empty passphrase raised (ZeroDivisionError),
   where RFC 4880 defines the key H("") *)
Lemma derive_empty_simple_prefix_raises H hlen halg keylen salt c : derive_prefix H hlen 0 halg keylen salt c [] = None.
Proof. reflexivity. Qed.

Lemma derive_prefix_nonempty H hlen spec halg keylen salt c pass :
  p_sp (derive_plan hlen spec halg keylen salt c pass) <> [] ->
  derive_prefix H hlen spec halg keylen salt c pass = Some (derive H hlen spec halg keylen salt c pass).
Proof.
  intros Hne. unfold derive_prefix. destruct (p_sp _) as [|x r]; [congruence|]. reflexivity.
Qed.
