From Coq Require Import ZArith List Bool Lia ZifyBool.
Import ListNotations.
Require Import PV.Lib.Bytes PV.Lib.BytesLemmas PV.Model.Wire PV.Proofs.Wire_lemmas PV.Proofs.Wire_lemmas2
               PV.Model.HashData PV.Proofs.HashData_lemmas PV.Model.SigCompose.
Open Scope Z_scope.

Definition wf_subp (s : subp) : Prop :=
  0 <= sp_type s < 128 /\ Z.of_nat (length (sp_body s)) + 1 < 4294967296 /\ wf_bytes (sp_body s).

Lemma subp_emit_length_pos s : (1 <= length (subp_emit s))%nat.
Proof.
  unfold subp_emit, sub_header_emit. rewrite !app_length. unfold int_to_bytes. rewrite length_be.
  pose proof (int_byte_len_nonneg (Z.shiftl (if sp_crit s then 1 else 0) 7 + sp_type s)). lia.
Qed.

(* one step of the walk over an emitted subpacket *)
Lemma sp_step_emit s rest : wf_subp s -> wf_bytes rest ->
  sp_step (subp_emit s ++ rest) = Some (Z.of_nat (length (sp_body s)) + 1, sp_type s, sp_crit s, sp_body s, rest).
Proof.
  intros [Ht [Hl Hb]] Hr. unfold sp_step, subp_emit. rewrite <- app_assoc.
  rewrite sub_header_roundtrip; [|lia|lia|apply wf_bytes_app; split; assumption].
  replace (Z.to_nat (Z.of_nat (length (sp_body s)) + 1 - 1)) with (length (sp_body s)) by lia.
  rewrite firstn_app_exact, skipn_app_exact by reflexivity. reflexivity.
Qed.

Lemma wf_subp_emit s : wf_subp s -> wf_bytes (subp_emit s).
Proof.
  intros [Ht [Hl Hb]]. unfold subp_emit, sub_header_emit. apply wf_bytes_app. split; [|exact Hb].
  apply wf_bytes_app. split.
  - unfold encode_length. apply wf_new_length. lia.
  - unfold int_to_bytes. apply wf_be.
Qed.

Lemma wf_flat_map l : Forall wf_subp l -> wf_bytes (flat_map subp_emit l).
Proof.
  induction l as [|s l IH]; intros H; [constructor|]. inversion H; subst. cbn [flat_map].
  apply wf_bytes_app. split; [apply wf_subp_emit; assumption|apply IH; assumption].
Qed.

(* the walk over a whole emitted area stops exactly at its end *)
Lemma sp_walk_emit : forall l fuel rest consumed,
  Forall wf_subp l -> wf_bytes rest -> (fuel > length l)%nat ->
  sp_walk fuel (flat_map subp_emit l ++ rest) (consumed + length (flat_map subp_emit l)) consumed
  = Some (map (fun s => (sp_type s, sp_crit s, sp_body s)) l, rest, (consumed + length (flat_map subp_emit l))%nat).
Proof.
  induction l as [|s l IH]; intros fuel rest consumed Hl Hr Hf.
  - cbn [flat_map app length map]. rewrite Nat.add_0_r. destruct fuel; cbn [sp_walk]; rewrite Nat.leb_refl; reflexivity.
  - destruct fuel as [|fuel]; [cbn in Hf; lia|]. inversion Hl as [|? ? Hs Hl']; subst.
    cbn [flat_map map]. cbn [sp_walk].
    pose proof (subp_emit_length_pos s) as Lp.
    rewrite app_length.
    replace (consumed + (length (subp_emit s) + length (flat_map subp_emit l)) <=? consumed)%nat with false by (symmetry; apply Nat.leb_gt; lia).
    rewrite <- app_assoc.
    rewrite sp_step_emit; [|assumption|apply wf_bytes_app; split; [apply wf_flat_map; assumption|assumption]].
    rewrite !app_length.
    replace (length (subp_emit s) + (length (flat_map subp_emit l) + length rest) - (length (flat_map subp_emit l) + length rest))%nat
      with (length (subp_emit s)) by lia.
    replace (length (subp_emit s) =? 0)%nat with false by (symmetry; apply Nat.eqb_neq; lia).
    replace (consumed + (length (subp_emit s) + length (flat_map subp_emit l)))%nat
      with ((consumed + length (subp_emit s)) + length (flat_map subp_emit l))%nat by lia.
    rewrite IH; [reflexivity|assumption|assumption|cbn [length] in Hf; lia].
Qed.

Definition wf_area (l : list subp) : Prop := Forall wf_subp l /\ Z.of_nat (length (flat_map subp_emit l)) < 65536.

Lemma area_emit_shape l : wf_area l ->
  area_emit l = be 2 (Z.of_nat (length (flat_map subp_emit l))) ++ flat_map subp_emit l.
Proof.
  intros [_ H]. unfold area_emit. cbv zeta. rewrite int_to_bytes_fits by (change (256 ^ 2) with 65536; lia). reflexivity.
Qed.

Section SignerFacts.
  Variable digest : Z -> bytes -> bytes.
  Variable pk_sign : bytes -> bytes -> Z -> bytes.
  Variable pk_verify : bytes -> bytes -> bytes -> Z -> bool.
  Hypothesis wf_digest : forall h d, wf_bytes (digest h d) /\ (2 <= length (digest h d))%nat.
  Hypothesis wf_sign : forall priv d h, wf_bytes (pk_sign priv d h).

  (* a packet the signer model emits is accepted by the parser model, with exactly the fields and the hashed area it was made from *)
  Theorem sign_body_parses t pk h hashed unhashed priv subj body :
    wf_area hashed -> wf_area unhashed ->
    sign_body digest pk_sign t pk h hashed unhashed priv subj = Some body ->
    exists s, sig_body_parse body = Some s /\
      fields_of s = {| sf_ver := 4; sf_type := t; sf_pkalg := pk; sf_halg := h; sf_hashed := area_emit hashed |} /\
      exists d, hashdata (fields_of s) subj = Some d /\ sg_hash2 s = firstn 2 (digest h d) /\ sg_mpis s = pk_sign priv d h.
  Proof.
    intros Wh Wu Hs. unfold sign_body in Hs.
    set (f := {| sf_ver := 4; sf_type := t; sf_pkalg := pk; sf_halg := h; sf_hashed := area_emit hashed |}) in *.
    destruct (hashdata f subj) as [d|] eqn:Hd; [|discriminate].
    remember (firstn 2 (digest h d)) as h2 eqn:Eh2. injection Hs as <-.
    destruct (wf_digest h d) as [Wd Ld]. pose proof (wf_sign priv d h) as Ws.
    set (tail := h2 ++ pk_sign priv d h).
    assert (Wtail : wf_bytes tail).
    { unfold tail. apply wf_bytes_app. split; [|exact Ws]. subst h2.
      rewrite <- (firstn_skipn 2 (digest h d)) in Wd. apply wf_bytes_app in Wd. tauto. }
    assert (Lh2 : length h2 = 2%nat) by (subst h2; rewrite firstn_length; lia).
    destruct Wh as [Wh1 Wh2]. destruct Wu as [Wu1 Wu2].
    pose proof (area_emit_shape hashed (conj Wh1 Wh2)) as Eh. pose proof (area_emit_shape unhashed (conj Wu1 Wu2)) as Eu.
    set (ch := flat_map subp_emit hashed) in *. set (cu := flat_map subp_emit unhashed) in *.
    change ([t; pk; h] ++ area_emit hashed ++ area_emit unhashed ++ h2 ++ pk_sign priv d h)
      with (t :: pk :: h :: (area_emit hashed ++ area_emit unhashed ++ tail)).
    change (sig_body_parse (t :: pk :: h :: (area_emit hashed ++ area_emit unhashed ++ tail)))
      with (match subpackets_parse (area_emit hashed ++ area_emit unhashed ++ tail) with
            | None => None
            | Some (sp, r2) => Some {| sg_type := t; sg_pkalg := pk; sg_halg := h; sg_sub := sp; sg_hash2 := firstn 2 r2; sg_mpis := skipn 2 r2 |}
            end).
    (* subpackets_parse on  area_h ++ area_u ++ tail *)
    assert (P : subpackets_parse (area_emit hashed ++ area_emit unhashed ++ tail)
                = Some ({| sp_hashed_raw := area_emit hashed;
                           sp_hashed := map (fun s => (sp_type s, sp_crit s, sp_body s)) hashed;
                           sp_unhashed := map (fun s => (sp_type s, sp_crit s, sp_body s)) unhashed |}, tail)).
    { unfold subpackets_parse. rewrite Eh, Eu. rewrite <- !app_assoc.
      rewrite (firstn_app_exact (be 2 (Z.of_nat (length ch)))) by apply length_be.
      rewrite unbe_be by (change (256 ^ Z.of_nat 2) with 65536; lia). rewrite Nat2Z.id.
      rewrite (skipn_app_exact (be 2 (Z.of_nat (length ch)))) by apply length_be.
      pose proof (sp_walk_emit hashed (S (length (ch ++ be 2 (Z.of_nat (length cu)) ++ cu ++ tail))) (be 2 (Z.of_nat (length cu)) ++ cu ++ tail) 0 Wh1) as W1.
      cbn [Nat.add] in W1. fold ch in W1. rewrite W1.
      2:{ apply wf_bytes_app. split; [apply wf_be|]. apply wf_bytes_app. split; [apply wf_flat_map; exact Wu1|exact Wtail]. }
      2:{ rewrite app_length. assert (length hashed <= length ch)%nat.
          { unfold ch. clear -Wh1. induction hashed as [|s l IH]; [cbn; lia|]. cbn [flat_map length]. rewrite app_length.
            pose proof (subp_emit_length_pos s). inversion Wh1; subst. specialize (IH H3). lia. } lia. }
      rewrite Nat.eqb_refl. cbn [negb].
      rewrite (firstn_app_exact (be 2 (Z.of_nat (length cu)))) by apply length_be.
      rewrite unbe_be by (change (256 ^ Z.of_nat 2) with 65536; lia). rewrite Nat2Z.id.
      rewrite (skipn_app_exact (be 2 (Z.of_nat (length cu)))) by apply length_be.
      pose proof (sp_walk_emit unhashed (S (length (cu ++ tail))) tail 0 Wu1 Wtail) as W2.
      cbn [Nat.add] in W2. fold cu in W2. rewrite W2.
      2:{ rewrite app_length. assert (length unhashed <= length cu)%nat.
          { unfold cu. clear -Wu1. induction unhashed as [|s l IH]; [cbn; lia|]. cbn [flat_map length]. rewrite app_length.
            pose proof (subp_emit_length_pos s). inversion Wu1; subst. specialize (IH H3). lia. } lia. }
      rewrite Nat.eqb_refl. cbn [negb].
      f_equal. f_equal. f_equal.
      (* the kept raw region is the emitted area *)
      replace (be 2 (Z.of_nat (length ch)) ++ ch ++ be 2 (Z.of_nat (length cu)) ++ cu ++ tail)
        with ((be 2 (Z.of_nat (length ch)) ++ ch) ++ be 2 (Z.of_nat (length cu)) ++ cu ++ tail) by (rewrite <- app_assoc; reflexivity).
      rewrite firstn_app_exact by (rewrite app_length, length_be; lia). reflexivity. }
    rewrite P. eexists. split; [reflexivity|]. cbn [fields_of sg_type sg_pkalg sg_halg sg_sub sp_hashed_raw sg_hash2 sg_mpis].
    split; [reflexivity|]. exists d. split; [exact Hd|].
    unfold tail. rewrite firstn_app_exact by exact Lh2.
    rewrite skipn_app_exact by exact Lh2. split; [exact Eh2|reflexivity].
  Qed.

  (* ... and verifies, provided the primitive verifies what it signed *)
  Hypothesis sign_then_verify : forall priv pub d h, pk_verify pub d (pk_sign priv d h) h = true.

  Theorem sign_export_parse_verify t pk h hashed unhashed priv pub subj body :
    wf_area hashed -> wf_area unhashed ->
    sign_body digest pk_sign t pk h hashed unhashed priv subj = Some body ->
    exists s, sig_body_parse body = Some s /\ verify_pair pk_verify pub 0 false s subj = Some 0.
  Proof.
    intros Wh Wu Hs. destruct (sign_body_parses t pk h hashed unhashed priv subj body Wh Wu Hs) as [s [Hp [Hf [d [Hd [_ Hm]]]]]].
    exists s. split; [exact Hp|]. unfold verify_pair. cbn [negb andb Z.eqb]. rewrite Hd, Hm.
    replace (sg_halg s) with h by (apply (f_equal sf_halg) in Hf; cbn in Hf; congruence).
    rewrite sign_then_verify. reflexivity.
  Qed.
End SignerFacts.
