From Coq Require Import ZArith List Bool Lia ZifyBool.
Import ListNotations.
Require Import PV.Lib.Bytes PV.Lib.BytesLemmas PV.Model.SigEncoding PV.Spec.Der PV.Proofs.Wire_lemmas.
Open Scope Z_scope.

(* the two mask tests of the DER reader, for every octet *)
Definition octets256 : list Z := map Z.of_nat (seq 0 256).
Lemma mask_sweep : forallb (fun l => Bool.eqb (Z.land l 128 =? 0) (l <? 128) && (Z.land l 127 =? l mod 128)) octets256 = true.
Proof. vm_compute. reflexivity. Qed.
Lemma mask_octet l : 0 <= l < 256 -> (Z.land l 128 =? 0) = (l <? 128) /\ Z.land l 127 = l mod 128.
Proof.
  intros H. assert (Hin : In l octets256).
  { unfold octets256. apply in_map_iff. exists (Z.to_nat l). split; [lia|]. apply in_seq. lia. }
  pose proof (proj1 (forallb_forall _ octets256) mask_sweep l Hin) as K.
  apply andb_prop in K as [K1 K2]. apply Bool.eqb_prop in K1. split; [exact K1|lia].
Qed.

Lemma unbe_cons0 b : unbe (0 :: b) = unbe b.
Proof. unfold unbe. cbn [unbe_acc]. reflexivity. Qed.

Lemma unbe_der_body v : 0 <= v -> unbe (der_uint_body v) = v.
Proof.
  intros H. unfold der_uint_body. destruct (int_to_bytes v 1) as [|x t] eqn:E.
  - rewrite <- E. apply unbe_int_to_bytes. exact H.
  - destruct (128 <=? x); [rewrite unbe_cons0|]; rewrite <- E; apply unbe_int_to_bytes; exact H.
Qed.

Lemma int_to_bytes_len_le4 n : 0 <= n < 4294967296 -> (1 <= length (int_to_bytes n 1) <= 4)%nat.
Proof.
  intros H. rewrite length_int_to_bytes.
  pose proof (int_byte_len_le n 4 ltac:(lia) ltac:(change (256 ^ 4) with 4294967296; lia)).
  pose proof (int_byte_len_nonneg n). lia.
Qed.

(* reading  <length octets> <content> <rest>  after the tag *)
Lemma der_read_len tag n body rest : 0 <= n < 4294967296 -> Z.of_nat (length body) = n ->
  forall (f : bytes -> option (Z * bytes)),
  (forall l0 r1, f (tag :: l0 :: r1) =
     if negb (Z.land l0 128 =? 0) then
       let llen := Z.to_nat (Z.land l0 127) in
       let flen := Z.to_nat (unbe (firstn llen r1)) in
       let r2 := skipn llen r1 in Some (unbe (firstn flen r2), skipn flen r2)
     else let flen := Z.to_nat (Z.land l0 127) in Some (unbe (firstn flen r1), skipn flen r1)) ->
  f ([tag] ++ der_len n ++ body ++ rest) = Some (unbe body, rest).
Proof.
  intros Hn Hb f Hf. unfold der_len. destruct (n <? 128) eqn:E.
  - cbn [app]. rewrite Hf. destruct (mask_octet n ltac:(lia)) as [M1 M2]. rewrite M1, E. cbn [negb].
    rewrite M2, Z.mod_small by lia. cbv zeta.
    rewrite firstn_app_exact, skipn_app_exact by lia. reflexivity.
  - pose proof (int_to_bytes_len_le4 n Hn) as L. set (b := int_to_bytes n 1) in *.
    cbn [app]. rewrite Hf.
    destruct (mask_octet (128 + Z.of_nat (length b)) ltac:(lia)) as [M1 M2]. rewrite M1.
    replace (128 + Z.of_nat (length b) <? 128) with false by lia. cbn [negb]. rewrite M2.
    replace ((128 + Z.of_nat (length b)) mod 128) with (Z.of_nat (length b)).
    2:{ replace (128 + Z.of_nat (length b)) with (Z.of_nat (length b) + 1 * 128) by lia.
        rewrite Z.mod_add by lia. symmetry. apply Z.mod_small. lia. }
    cbv zeta. rewrite Nat2Z.id.
    rewrite firstn_app_exact, skipn_app_exact by reflexivity.
    unfold b. rewrite unbe_int_to_bytes by lia.
    rewrite firstn_app_exact, skipn_app_exact by lia. reflexivity.
Qed.

Lemma der_int_uint v rest : 0 <= v -> Z.of_nat (length (der_uint_body v)) < 4294967296 ->
  der_int (der_uint v ++ rest) = Some (v, rest).
Proof.
  intros Hv Hl. unfold der_uint. cbv zeta. rewrite <- !app_assoc.
  rewrite (der_read_len 2 (Z.of_nat (length (der_uint_body v))) (der_uint_body v) rest ltac:(lia) eq_refl der_int).
  - rewrite unbe_der_body by exact Hv. reflexivity.
  - intros l0 r1. reflexivity.
Qed.

Definition der_ok (v : Z) : Prop := 0 <= v /\ Z.of_nat (length (der_uint_body v)) < 4294967296.

(* DSASignature.from_signer inverts the DER encoding of two non-negative integers, also with long-form lengths *)
Theorem dsa_der_roundtrip r s : der_ok r -> der_ok s ->
  Z.of_nat (length (der_uint r ++ der_uint s)) < 4294967296 ->
  dsa_from_signer (der_seq2 r s) = Some (r, s).
Proof.
  intros [Hr Lr] [Hs Ls] Lc. unfold der_seq2. cbv zeta. set (c := der_uint r ++ der_uint s) in *.
  set (n := Z.of_nat (length c)) in *.
  assert (Hc : der_int c = Some (r, der_uint s)) by (unfold c; apply der_int_uint; assumption).
  assert (Hs2 : der_int (der_uint s) = Some (s, [])).
  { rewrite <- (app_nil_r (der_uint s)). apply der_int_uint; assumption. }
  unfold der_len. destruct (n <? 128) eqn:E.
  - cbn [app]. unfold dsa_from_signer. change (negb (48 =? 48)) with false. cbv iota.
    destruct (mask_octet n ltac:(lia)) as [M1 _]. rewrite M1, E. cbn [negb]. rewrite Hc, Hs2. reflexivity.
  - pose proof (int_to_bytes_len_le4 n ltac:(lia)) as L. set (b := int_to_bytes n 1) in *.
    cbn [app]. unfold dsa_from_signer. change (negb (48 =? 48)) with false. cbv iota.
    destruct (mask_octet (128 + Z.of_nat (length b)) ltac:(lia)) as [M1 M2]. rewrite M1.
    replace (128 + Z.of_nat (length b) <? 128) with false by lia. cbn [negb]. rewrite M2.
    replace ((128 + Z.of_nat (length b)) mod 128) with (Z.of_nat (length b)).
    2:{ replace (128 + Z.of_nat (length b)) with (Z.of_nat (length b) + 1 * 128) by lia.
        rewrite Z.mod_add by lia. symmetry. apply Z.mod_small. lia. }
    rewrite Nat2Z.id. rewrite skipn_app_exact by reflexivity. rewrite Hc, Hs2. reflexivity.
Qed.

(* EdDSA: the two integers put back to 32 octets each give the original 64-octet signature *)
Lemma eddsa_halves a b : wf_bytes a -> wf_bytes b -> length a = 32%nat -> length b = 32%nat ->
  eddsa_sig (unbe a) (unbe b) = a ++ b.
Proof.
  intros W1 W2 L1 L2. unfold eddsa_sig.
  pose proof (unbe_bounds _ W1) as B1. pose proof (unbe_bounds _ W2) as B2. rewrite L1 in B1. rewrite L2 in B2.
  change (Z.of_nat 32) with 32 in B1, B2.
  rewrite (int_to_bytes_fits (unbe a) 32 ltac:(lia) B1). rewrite (int_to_bytes_fits (unbe b) 32 ltac:(lia) B2).
  change (Z.to_nat 32) with 32%nat.
  rewrite <- L1 at 1. rewrite be_unbe by exact W1.
  rewrite <- L2 at 1. rewrite be_unbe by exact W2. reflexivity.
Qed.

Theorem eddsa_split_join sig r s : wf_bytes sig -> length sig = 64%nat ->
  eddsa_from_signer sig = Some (r, s) -> eddsa_sig r s = sig.
Proof.
  intros Hwf Hl H.
  assert (E : sig = firstn 32 sig ++ skipn 32 sig) by (symmetry; apply firstn_skipn).
  remember (firstn 32 sig) as a eqn:Ea. remember (skipn 32 sig) as b eqn:Eb.
  assert (L1 : length a = 32%nat) by (subst a; rewrite firstn_length; lia).
  assert (L2 : length b = 32%nat) by (subst b; rewrite skipn_length; lia).
  assert (W : wf_bytes a /\ wf_bytes b) by (rewrite E in Hwf; apply wf_bytes_app in Hwf; exact Hwf).
  destruct W as [W1 W2].
  assert (H' : eddsa_from_signer sig = Some (unbe a, unbe b)).
  { unfold eddsa_from_signer. rewrite Hl. change (negb (Nat.even 64)) with false. change (Nat.div 64 2) with 32%nat.
    cbv iota zeta. rewrite <- Ea, <- Eb. reflexivity. }
  rewrite H' in H. injection H as <- <-. rewrite E. apply eddsa_halves; assumption.
Qed.
