From Coq Require Import ZArith List Bool Lia.
Import ListNotations.
Require Import PV.Lib.Bytes PV.Model.HashData PV.Model.Message PV.Model.SignedMsg PV.Proofs.HashData_lemmas.
Open Scope Z_scope.

(* the hash input depends on the literal's octets only: format octet, file name and time are not signed (RFC 4880 5.9 / 5.2.4) *)
Theorem msg_hashdata_octets_only f l l' : l_data l = l_data l' -> msg_hashdata f l = msg_hashdata f l'.
Proof. unfold msg_hashdata, signed_data_lit. intros ->. reflexivity. Qed.

(* binary document signature: it IS the octets followed by the signature's own trailer (header, hashed area, final six octets) *)
Theorem msg_hashdata_binary f l : sf_type f = 0 ->
  msg_hashdata f l = Some (l_data l ++ trailer f).
Proof.
  intros T. unfold msg_hashdata, signed_data_lit, hashdata. rewrite T. reflexivity.
Qed.

(* two literals with different octets never share a hash input under a binary signature, whatever their formats say *)
Theorem msg_binary_injective f l l' d : sf_type f = 0 ->
  msg_hashdata f l = Some d -> msg_hashdata f l' = Some d -> l_data l = l_data l'.
Proof.
  intros T H H'. rewrite (msg_hashdata_binary f l T) in H. rewrite (msg_hashdata_binary f l' T) in H'.
  injection H as <-. injection H' as E. apply app_inv_tail in E. symmetry. exact E.
Qed.

(* the rule before repair 9dba8e2 hashed a latin-1 text literal and its UTF-8 re-encoding alike *)
Example old_rule_collapses_encodings :
  let l1 := {| l_format := 116; l_name := []; l_mtime := 0; l_data := [99; 233] |} in
  let l2 := {| l_format := 116; l_name := []; l_mtime := 0; l_data := [99; 195; 169] |} in
  l_data l1 <> l_data l2 /\ signed_data_lit_old l1 = signed_data_lit_old l2 /\ signed_data_lit l1 <> signed_data_lit l2.
Proof. cbv zeta. split; [discriminate|]. split; [vm_compute; reflexivity|]. unfold signed_data_lit. cbn. discriminate. Qed.

(* ... and made a 'u' literal that is not UTF-8 unverifiable (an exception), although its octets are perfectly signable *)
Example old_rule_raises_on_u :
  signed_data_lit_old {| l_format := 117; l_name := []; l_mtime := 0; l_data := [255] |} = None.
Proof. vm_compute. reflexivity. Qed.
