(* Proofs about Model/SubArea.v: what a parsed signature hashes and exports is what it received, for every way the parsed
   objects might serialise, along every history that does not add a subpacket to the area in question. *)
From Coq Require Import ZArith List Bool Lia.
Import ListNotations.
Require Import PV.Lib.Bytes PV.Lib.BytesLemmas PV.Model.Wire PV.Model.HashData PV.Model.SubArea PV.Proofs.HashData_lemmas.
Open Scope Z_scope.

Lemma suffix_is_skipn (r p : bytes) : suffix r p -> r = skipn (length p - length r) p.
Proof.
  intros [pre ->]. rewrite app_length. replace (length pre + length r - length r)%nat with (length pre) by lia.
  rewrite skipn_app, skipn_all, Nat.sub_diag. reflexivity.
Qed.

Lemma skipn_skipn' {A} (a b : nat) (l : list A) : skipn a (skipn b l) = skipn (a + b) l.
Proof.
  revert l. induction b as [|b IH]; intros l; [rewrite Nat.add_0_r; reflexivity|].
  destruct l as [|x l]; [rewrite !skipn_nil; reflexivity|].
  rewrite Nat.add_succ_r. cbn [skipn]. apply IH.
Qed.

(* a walk that ends exactly at the declared length leaves exactly the octets after the area *)
Lemma sp_walk_exact_rest fuel p hl sps r : sp_walk fuel p hl 0 = Some (sps, r, hl) -> r = skipn hl p.
Proof.
  intros H. destruct (sp_walk_spec _ _ _ _ _ _ _ H) as [S [L _]].
  rewrite (suffix_is_skipn _ _ S). f_equal. lia.
Qed.

(* what subpackets_parse keeps and what it leaves, in terms of the input *)
Lemma subpackets_parse_rest p sp rest : subpackets_parse p = Some (sp, rest) ->
  sp_hashed_raw sp = firstn (Z.to_nat (unbe (firstn 2 p)) + 2) p /\
  rest = skipn (Z.to_nat (unbe (firstn 2 (skipn (Z.to_nat (unbe (firstn 2 p)) + 2) p))) + 2) (skipn (Z.to_nat (unbe (firstn 2 p)) + 2) p).
Proof.
  unfold subpackets_parse. remember (Z.to_nat (unbe (firstn 2 p))) as hl eqn:Ehl. clear Ehl. intros E.
  destruct (sp_walk _ (skipn 2 p) hl 0) as [[[hs p2] tot]|] eqn:W1; [|discriminate].
  destruct (tot =? hl)%nat eqn:T1; cbn [negb] in E; [|discriminate]. apply Nat.eqb_eq in T1. subst tot.
  pose proof (sp_walk_exact_rest _ _ _ _ _ W1) as R1. rewrite skipn_skipn' in R1. subst p2.
  remember (skipn (hl + 2) p) as p2 eqn:Ep2. clear Ep2.
  remember (Z.to_nat (unbe (firstn 2 p2))) as uhl eqn:Euhl. clear Euhl.
  destruct (sp_walk _ (skipn 2 p2) uhl 0) as [[[us p4] tot2]|] eqn:W2; [|discriminate].
  destruct (tot2 =? uhl)%nat eqn:T2; cbn [negb] in E; [|discriminate]. apply Nat.eqb_eq in T2. subst tot2.
  pose proof (sp_walk_exact_rest _ _ _ _ _ W2) as R2. rewrite skipn_skipn' in R2.
  injection E as <- <-. cbn [sp_hashed_raw]. split; [reflexivity|exact R2].
Qed.

(* SubPackets.parse splits its input into: hashed area as received, unhashed area as received, what follows *)
Theorem parse_splits_input p st rest : sa_parse p = Some (st, rest) ->
  exists hr ur, sa_hraw st = Some hr /\ sa_uraw st = Some ur /\ p = hr ++ ur ++ rest.
Proof.
  unfold sa_parse. destruct (subpackets_parse p) as [[sp r]|] eqn:E; [|discriminate].
  destruct (subpackets_parse_rest _ _ _ E) as [Hh Hr]. cbv zeta.
  remember (Z.to_nat (unbe (firstn 2 p))) as hl eqn:Ehl. clear Ehl.
  remember (skipn (hl + 2) p) as p2 eqn:Ep2.
  remember (Z.to_nat (unbe (firstn 2 p2))) as uhl eqn:Euhl. clear Euhl.
  intros H. injection H as <- <-. cbn [sa_hraw sa_uraw].
  exists (sp_hashed_raw sp), (firstn (uhl + 2) p2). split; [reflexivity|]. split; [reflexivity|].
  rewrite Hh, Hr, firstn_skipn. subst p2. rewrite firstn_skipn. reflexivity.
Qed.

Section Emit.
  Variable reser : list sub3 -> bytes.

  (* C08 / C14: a parsed signature's subpacket areas are exported octet for octet, whatever the objects would serialise to *)
  Theorem emit_parse_verbatim p st rest : sa_parse p = Some (st, rest) -> sa_emit reser st ++ rest = p.
  Proof.
    intros H. destruct (parse_splits_input _ _ _ H) as [hr [ur [Hh [Hu Hp]]]].
    unfold sa_emit, sa_hashed_emit, sa_unhashed_emit. rewrite Hh, Hu. rewrite <- app_assoc. symmetry. exact Hp.
  Qed.

  (* ... and so parse / emit is a fixed point: parsing the export again gives the same export *)
  Corollary emit_parse_fixed_point p st rest st' rest' :
    sa_parse p = Some (st, rest) -> sa_parse (sa_emit reser st ++ rest) = Some (st', rest') ->
    sa_emit reser st' ++ rest' = sa_emit reser st ++ rest.
  Proof.
    intros H H'. pose proof (emit_parse_verbatim _ _ _ H) as V. rewrite V in H'. rewrite H in H'. injection H' as <- <-. reflexivity.
  Qed.

  (* C05: the hashed area fed to the hash is the received one (same octets as HashData.sp_hashed_raw) *)
  Theorem hashed_emit_is_received p st rest : sa_parse p = Some (st, rest) ->
    sa_hashed_emit reser st = firstn (Z.to_nat (unbe (firstn 2 p)) + 2) p.
  Proof.
    unfold sa_parse. destruct (subpackets_parse p) as [[sp r]|] eqn:E; [|discriminate].
    destruct (subpackets_parse_rest _ _ _ E) as [Hh _]. cbv zeta.
    remember (Z.to_nat (unbe (firstn 2 p))) as hl eqn:Ehl. clear Ehl.
    remember (skipn (hl + 2) p) as p2 eqn:Ep2. clear Ep2.
    remember (Z.to_nat (unbe (firstn 2 p2))) as uhl eqn:Euhl. clear Euhl.
    intros H. injection H as <- _. unfold sa_hashed_emit. cbn [sa_hraw]. exact Hh.
  Qed.

  (* histories: operations that do not add a hashed subpacket never change what is hashed ... *)
  Lemma apply_keeps_hashed s o : touches_hashed o = false -> sa_hashed_emit reser (sa_apply s o) = sa_hashed_emit reser s.
  Proof. destruct o as [x|x|]; cbn; intros H; [discriminate| |]; reflexivity. Qed.

  Theorem history_keeps_hashed ops : forall s, forallb (fun o => negb (touches_hashed o)) ops = true ->
    sa_hashed_emit reser (sa_run s ops) = sa_hashed_emit reser s.
  Proof.
    induction ops as [|o ops IH]; intros s H; [reflexivity|].
    cbn [forallb] in H. apply andb_true_iff in H. destruct H as [Ho Hr].
    unfold sa_run. cbn [fold_left]. fold (sa_run (sa_apply s o) ops). rewrite IH by exact Hr.
    apply apply_keeps_hashed. destruct (touches_hashed o); [discriminate|reflexivity].
  Qed.

  (* ... and operations that do not add an unhashed subpacket never change the exported unhashed area *)
  Lemma apply_keeps_unhashed s o : touches_unhashed o = false -> sa_unhashed_emit reser (sa_apply s o) = sa_unhashed_emit reser s.
  Proof. destruct o as [x|x|]; cbn; intros H; [|discriminate|]; reflexivity. Qed.

  Theorem history_keeps_unhashed ops : forall s, forallb (fun o => negb (touches_unhashed o)) ops = true ->
    sa_unhashed_emit reser (sa_run s ops) = sa_unhashed_emit reser s.
  Proof.
    induction ops as [|o ops IH]; intros s H; [reflexivity|].
    cbn [forallb] in H. apply andb_true_iff in H. destruct H as [Ho Hr].
    unfold sa_run. cbn [fold_left]. fold (sa_run (sa_apply s o) ops). rewrite IH by exact Hr.
    apply apply_keeps_unhashed. destruct (touches_unhashed o); [discriminate|reflexivity].
  Qed.

  (* copies (PGPKey.pubkey, copy.copy of keys / user ids / signatures) export and hash exactly what the original does *)
  Theorem copy_same_emit s : sa_emit reser (sa_copy s) = sa_emit reser s /\ sa_hashed_emit reser (sa_copy s) = sa_hashed_emit reser s.
  Proof. split; reflexivity. Qed.

  (* a parsed signature, copied any number of times and given further UNHASHED subpackets (an embedded cross-signature, an
     issuer), still hashes the received hashed area *)
  Corollary parsed_then_history_hashes_received p st rest ops :
    sa_parse p = Some (st, rest) -> forallb (fun o => negb (touches_hashed o)) ops = true ->
    sa_hashed_emit reser (sa_run st ops) = firstn (Z.to_nat (unbe (firstn 2 p)) + 2) p.
  Proof. intros H Ho. rewrite history_keeps_hashed by exact Ho. apply hashed_emit_is_received with (rest := rest). exact H. Qed.

  (* no stale octets: once a subpacket has been added to an area, that area is the serialisation of the current objects *)
  Theorem set_drops_received (hashed : bool) x s :
    (if hashed then sa_hashed_emit reser (sa_set hashed x s) = reser (sa_h s ++ [x])
     else sa_unhashed_emit reser (sa_set hashed x s) = reser (sa_u s ++ [x])).
  Proof. destruct hashed; reflexivity. Qed.

  Theorem never_stale ops : forall s,
    (sa_hraw (sa_run s ops) = None -> sa_hashed_emit reser (sa_run s ops) = reser (sa_h (sa_run s ops))) /\
    (existsb touches_hashed ops = true -> sa_hraw (sa_run s ops) = None) /\
    (existsb touches_unhashed ops = true -> sa_uraw (sa_run s ops) = None).
  Proof.
    intros s. split; [intros H; unfold sa_hashed_emit; rewrite H; reflexivity|].
    revert s. induction ops as [|o ops IH] using rev_ind; intros s; [split; discriminate|].
    unfold sa_run. rewrite fold_left_app. cbn [fold_left]. fold (sa_run s ops).
    rewrite !existsb_app. cbn [existsb]. rewrite !orb_false_r.
    destruct (IH s) as [Ih Iu]. split; intros H; apply orb_true_iff in H.
    - destruct o as [x|x|]; cbn; [reflexivity| |]; (destruct H as [H|H]; [exact (Ih H)|discriminate]).
    - destruct o as [x|x|]; cbn; [|reflexivity|]; (destruct H as [H|H]; [exact (Iu H)|discriminate]).
  Qed.
End Emit.

(* the pre-repair behaviour is refuted by any serialisation that is not the identity on some received area: with `reser`
   normalising a boolean octet 02 to 01 the old export differs from the input *)
Example old_emit_refuted : exists (reser : list sub3 -> bytes) p st rest,
  sa_parse p = Some (st, rest) /\ sa_emit_old reser st ++ rest <> p.
Proof.
  exists (fun l => [0; 0]), [0; 3; 2; 4; 2;  0; 0;  9; 9].
  eexists. eexists. split; [vm_compute; reflexivity|]. vm_compute. discriminate.
Qed.

(* non-vacuity: a concrete accepted input with a non-minimal subpacket length in the unhashed area *)
Example parse_accepts_nonminimal :
  exists st rest, sa_parse [0; 3; 2; 4; 2;  0; 7; 255; 0; 0; 0; 2; 27; 3;  9; 9] = Some (st, rest) /\ rest = [9; 9]
                  /\ sa_u st = [(27, false, [3])].
Proof. eexists. eexists. split; [vm_compute; reflexivity|]. split; reflexivity. Qed.
