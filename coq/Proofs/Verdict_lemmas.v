(* Proof scripts for C17 (Model/Verdict.v). *)
From Coq Require Import ZArith List Bool Lia ZifyBool Permutation.
Import ListNotations.
Require Import PV.Model.Verdict.
Open Scope Z_scope.

(* ---------- the failing test ---------- *)
Lemma causes_fail_lor a b : causes_fail (Z.lor a b) = causes_fail a || causes_fail b.
Proof.
  unfold causes_fail. rewrite Z.land_lor_distr_l.
  destruct (Z.land a fail_mask =? 0) eqn:Ea; destruct (Z.land b fail_mask =? 0) eqn:Eb; cbn [negb orb].
  - apply Z.eqb_eq in Ea, Eb. rewrite Ea, Eb. reflexivity.
  - destruct (Z.lor _ _ =? 0) eqn:E; [|reflexivity].
    apply Z.eqb_eq, Z.lor_eq_0_iff in E. destruct E as [_ E]. apply Z.eqb_neq in Eb. contradiction.
  - destruct (Z.lor _ _ =? 0) eqn:E; [|reflexivity].
    apply Z.eqb_eq, Z.lor_eq_0_iff in E. destruct E as [E _]. apply Z.eqb_neq in Ea. contradiction.
  - destruct (Z.lor _ _ =? 0) eqn:E; [|reflexivity].
    apply Z.eqb_eq, Z.lor_eq_0_iff in E. destruct E as [E _]. apply Z.eqb_neq in Ea. contradiction.
Qed.

Lemma disqualifying_monotone d a : causes_fail d = true -> causes_fail (Z.lor d a) = true.
Proof. intros H. rewrite causes_fail_lor, H. reflexivity. Qed.

Lemma advisory_never_disqualifies d a : causes_fail a = false -> causes_fail (Z.lor d a) = causes_fail d.
Proof. intros H. rewrite causes_fail_lor, H. apply orb_false_r. Qed.

Lemma causes_fail_0 : causes_fail 0 = false.
Proof. reflexivity. Qed.

Lemma cf_nonzero i : causes_fail i = true -> (i =? 0) = false.
Proof. intros H. destruct (i =? 0) eqn:E; [|reflexivity]. apply Z.eqb_eq in E. subst. discriminate. Qed.

(* bit-level reading, for every integer *)
Lemma testbit_causes_fail i b : In b disqualifying_bits -> Z.testbit i b = true -> causes_fail i = true.
Proof.
  intros Hb Ht. unfold causes_fail. destruct (Z.land i fail_mask =? 0) eqn:E; [|reflexivity].
  apply Z.eqb_eq in E.
  assert (Z.testbit (Z.land i fail_mask) b = true) as T.
  { rewrite Z.land_spec, Ht. destruct Hb as [<-|[<-|[<-|[<-|[<-|[]]]]]]; reflexivity. }
  rewrite E, Z.bits_0 in T. discriminate.
Qed.

Lemma mask_bits n : Z.testbit fail_mask n = true -> In n disqualifying_bits.
Proof.
  intros H. destruct (Z.ltb n 0) eqn:Hneg.
  { apply Z.ltb_lt in Hneg. rewrite Z.testbit_neg_r in H by assumption. discriminate. }
  apply Z.ltb_ge in Hneg.
  destruct (Z.ltb n 11) eqn:Hlt.
  - apply Z.ltb_lt in Hlt.
    assert (n = 0 \/ n = 1 \/ n = 2 \/ n = 3 \/ n = 4 \/ n = 5 \/ n = 6 \/ n = 7 \/ n = 8 \/ n = 9 \/ n = 10) as C by lia.
    unfold disqualifying_bits.
    destruct C as [->|[->|[->|[->|[->|[->|[->|[->|[->|[->| ->]]]]]]]]]]; cbn in H; try discriminate; cbn; tauto.
  - apply Z.ltb_ge in Hlt.
    assert (Z.testbit fail_mask n = false) as X.
    { apply Z.bits_above_log2; [change fail_mask with 1047; lia|change (Z.log2 fail_mask) with 10; lia]. }
    congruence.
Qed.

Lemma causes_fail_bits_eq i : causes_fail i = causes_fail_bits i.
Proof.
  destruct (causes_fail_bits i) eqn:B.
  - unfold causes_fail_bits in B. apply existsb_exists in B. destruct B as [b [Hb Ht]].
    eapply testbit_causes_fail; eassumption.
  - unfold causes_fail. replace (Z.land i fail_mask) with 0; [reflexivity|].
    symmetry. apply Z.bits_inj'. intros n _. rewrite Z.bits_0, Z.land_spec.
    destruct (Z.testbit fail_mask n) eqn:M; [|apply andb_false_r].
    apply mask_bits in M. rewrite andb_true_r.
    destruct (Z.testbit i n) eqn:T; [|reflexivity].
    assert (causes_fail_bits i = true) as X; [|rewrite X in B; discriminate].
    unfold causes_fail_bits. apply existsb_exists. exists n. split; assumption.
Qed.

(* finite sweeps over the whole IntFlag range 0..2047 (bound visible in the statement) *)
Definition all_issue_values : list Z := map Z.of_nat (seq 0 (Z.to_nat 2048)).
Lemma in_all_issue_values i : 0 <= i < 2048 -> In i all_issue_values.
Proof.
  intros H. unfold all_issue_values. apply in_map_iff. exists (Z.to_nat i). split; [lia|].
  apply in_seq. lia.
Qed.

(* ---------- entries ---------- *)
Lemma good_not_bad i : is_good i = negb (is_bad i).
Proof.
  unfold is_good, is_bad, is_good_with, is_bad_with.
  destruct (i =? 0); destruct (causes_fail i); reflexivity.
Qed.

Lemma entry_ok_good i : entry_ok i = is_good i.
Proof. reflexivity. Qed.

Lemma good_bad_partition r : Permutation r (good r ++ bad r).
Proof.
  unfold good, bad. induction r as [|x r IH]; [constructor|].
  cbn [filter]. rewrite good_not_bad. destruct (is_bad x); cbn [negb].
  - apply Permutation_cons_app. exact IH.
  - cbn [app]. apply perm_skip. exact IH.
Qed.

Lemma good_bad_exclusive r x : In x (good r) -> ~ In x (bad r).
Proof.
  unfold good, bad. intros G B. apply filter_In in G, B. destruct G as [_ G], B as [_ B].
  rewrite good_not_bad, B in G. discriminate.
Qed.

Lemma good_bad_cover r x : In x r -> In x (good r) \/ In x (bad r).
Proof.
  intros H. unfold good, bad. destruct (is_bad x) eqn:B.
  - right. apply filter_In. split; assumption.
  - left. apply filter_In. split; [assumption|]. rewrite good_not_bad, B. reflexivity.
Qed.

Lemma good_bad_length r : (length (good r) + length (bad r) = length r)%nat.
Proof. rewrite <- app_length. symmetry. apply Permutation_length, good_bad_partition. Qed.

Lemma truthy_iff_no_bad r : truthy r = true <-> bad r = [].
Proof.
  unfold truthy, bad. induction r as [|x r IH]; [cbn; tauto|].
  cbn [forallb filter]. rewrite entry_ok_good, good_not_bad. destruct (is_bad x); cbn [negb andb].
  - split; discriminate.
  - exact IH.
Qed.

Lemma truthy_false_iff_some_bad r : truthy r = false <-> exists x, In x r /\ is_bad x = true.
Proof.
  split.
  - intros H. destruct (bad r) as [|x l] eqn:B.
    + apply truthy_iff_no_bad in B. congruence.
    + exists x. apply filter_In. unfold bad in B. rewrite B. left. reflexivity.
  - intros [x [Hx Hb]]. destruct (truthy r) eqn:T; [|reflexivity].
    apply truthy_iff_no_bad in T. assert (In x (bad r)) as X by (apply filter_In; split; assumption).
    rewrite T in X. destruct X.
Qed.

Lemma truthy_and a b : truthy (sv_and a b) = truthy a && truthy b.
Proof. apply forallb_app. Qed.

Lemma good_and a b : good (sv_and a b) = good a ++ good b.
Proof. apply filter_app. Qed.
Lemma bad_and a b : bad (sv_and a b) = bad a ++ bad b.
Proof. apply filter_app. Qed.

Lemma wrong_sig_is_bad : is_bad SI_WrongSig = true.
Proof. reflexivity. Qed.

Lemma wrong_sig_bit_is_bad i : Z.testbit i 0 = true -> is_bad i = true.
Proof.
  intros H. unfold is_bad, is_bad_with.
  assert (causes_fail i = true) as C by (apply (testbit_causes_fail i 0); [cbn; tauto|exact H]).
  rewrite C, (cf_nonzero i C). reflexivity.
Qed.

Lemma default_entry_is_bad r : bad (add_sigsubj r None) = bad r ++ [default_issues] /\ truthy (add_sigsubj r None) = false.
Proof.
  unfold add_sigsubj, bad, truthy. rewrite filter_app, forallb_app. cbn. split; [reflexivity|apply andb_false_r].
Qed.

(* ---------- key checks and the verify loop ---------- *)
Lemma validate_params_values alg sz p : validate_params alg sz = Some p ->
  p = SI_OK \/ p = SI_InsecureCurve \/ p = SI_AsymmetricKeyLengthIsTooShort \/ p = SI_BrokenAsymmetricFunc.
Proof.
  unfold validate_params. destruct (alg_is_ecc alg).
  - destruct sz as [n|c]; [|destruct (safe_curve c)]; intros [= <-]; tauto.
  - destruct (alg_min_bits alg) as [m|].
    + destruct sz as [n|c]; [|discriminate]. destruct (n >=? m); intros [= <-]; tauto.
    + intros [= <-]; tauto.
Qed.

Lemma primitives_advisory alg sz p : validate_params alg sz = Some p ->
  causes_fail p = false /\ Z.land p (Z.lnot SI_HashFunctionNotCollisionResistant) = p.
Proof.
  intros H. apply validate_params_values in H. destruct H as [->|[->|[->| ->]]]; split; reflexivity.
Qed.

Lemma selfv_irrelevant cf mg k ok : verify_entry_gen cf mg k true ok = verify_entry_gen cf mg k false ok.
Proof.
  unfold verify_entry_gen, check_soundness_gen, check_primitives.
  destruct (validate_params (k_alg k) (k_size k)) as [p|] eqn:E; [|reflexivity].
  destruct (primitives_advisory _ _ _ E) as [_ ->]. reflexivity.
Qed.

Lemma expired_disqualifies k : k_expired k = true -> causes_fail (check_management k) = true.
Proof.
  intros H. unfold check_management. rewrite H. cbn [orb]. rewrite !causes_fail_lor.
  change (causes_fail SI_Expired) with true. rewrite orb_true_r. reflexivity.
Qed.

Lemma parent_expired_disqualifies k : k_parent_expired k = true -> causes_fail (check_management k) = true.
Proof.
  intros H. unfold check_management. rewrite H, orb_true_r, !causes_fail_lor.
  change (causes_fail SI_Expired) with true. rewrite orb_true_r. reflexivity.
Qed.

Lemma selfv_disqualifies k : causes_fail (k_selfv k) = true -> causes_fail (check_management k) = true.
Proof.
  intros H. unfold check_management. destruct (k_expired k || k_parent_expired k); rewrite !causes_fail_lor, H; reflexivity.
Qed.

Lemma management_fail_iff k :
  causes_fail (check_management k) = k_expired k || k_parent_expired k || causes_fail (k_selfv k).
Proof.
  unfold check_management.
  destruct (k_expired k || k_parent_expired k); destruct (k_revoked k); rewrite !causes_fail_lor; cbn [orb];
    change (causes_fail SI_Expired) with true; change (causes_fail (1 * SI_Revoked)) with false;
    change (causes_fail (0 * SI_Revoked)) with false; rewrite ?orb_false_r, ?orb_true_r; reflexivity.
Qed.

(* what decides an entry: a disqualifying management condition, or a wrong signature; nothing else *)
Lemma entry_bad_iff k sv ok i : verify_entry k sv ok = Some i ->
  (is_bad i = true <-> causes_fail (check_management k) = true \/ ok = false).
Proof.
  unfold verify_entry, verify_entry_with, verify_entry_gen, check_soundness_gen, check_primitives.
  destruct (validate_params (k_alg k) (k_size k)) as [p|] eqn:E; [|discriminate].
  destruct (primitives_advisory _ _ _ E) as [Hp Hm].
  set (m := check_management k).
  assert (forall s, (s = p \/ s = Z.land p (Z.lnot SI_HashFunctionNotCollisionResistant)) ->
            causes_fail (Z.lor s (Z.lor m p)) = causes_fail m) as CF.
  { intros s Hs. assert (s = p) as -> by (destruct Hs; congruence).
    rewrite !causes_fail_lor, Hp. rewrite orb_false_r. reflexivity. }
  set (s := if sv then _ else p).
  assert (causes_fail (Z.lor s (Z.lor m p)) = causes_fail m) as C.
  { apply CF. unfold s. destruct sv; tauto. }
  destruct (causes_fail m) eqn:M.
  - rewrite C, (cf_nonzero _ C). cbn [negb andb]. intros [= <-].
    unfold is_bad, is_bad_with. rewrite C, (cf_nonzero _ C). cbn. tauto.
  - rewrite C, andb_false_r. destruct ok; intros [= <-]; cbn; split; try tauto; try discriminate.
    intros [X|X]; discriminate.
Qed.

Lemma wrong_sig_entry_is_bad k sv i : verify_entry k sv false = Some i -> is_bad i = true.
Proof. intros H. apply (entry_bad_iff _ _ _ _ H). right. reflexivity. Qed.

Lemma disqualified_entry_is_bad k sv ok i :
  causes_fail (check_management k) = true -> verify_entry k sv ok = Some i -> is_bad i = true.
Proof. intros C H. apply (entry_bad_iff _ _ _ _ H). left. exact C. Qed.

Lemma sound_entry_is_ok k sv i :
  causes_fail (check_management k) = false -> verify_entry k sv true = Some i -> i = SI_OK.
Proof.
  intros M H. assert (is_bad i = false) as B.
  { destruct (is_bad i) eqn:B; [|reflexivity]. apply (entry_bad_iff _ _ _ _ H) in B. destruct B; congruence. }
  revert H B. unfold verify_entry, verify_entry_with, verify_entry_gen.
  destruct (check_soundness_gen check_management k); [|discriminate]. destruct (check_primitives k); [|discriminate].
  match goal with |- context [if ?c then _ else _] => destruct c eqn:X end.
  - intros [= <-]. apply andb_prop in X. unfold is_bad, is_bad_with. destruct X as [-> ->]. discriminate.
  - intros [= <-]. reflexivity.
Qed.

(* an advisory weakness (algorithm, size, curve) never changes which entries are bad *)
Lemma advisory_independent k k' sv sv' ok i i' :
  k_expired k = k_expired k' -> k_parent_expired k = k_parent_expired k' -> k_revoked k = k_revoked k' -> k_selfv k = k_selfv k' ->
  verify_entry k sv ok = Some i -> verify_entry k' sv' ok = Some i' -> is_bad i = is_bad i'.
Proof.
  intros He Hp Hr Hs H H'. pose proof (entry_bad_iff _ _ _ _ H) as B. pose proof (entry_bad_iff _ _ _ _ H') as B'.
  assert (check_management k = check_management k') as M by (unfold check_management; rewrite He, Hp, Hr, Hs; reflexivity).
  rewrite M in B. destruct (is_bad i), (is_bad i'); try reflexivity.
  - symmetry. apply B'. apply B. reflexivity.
  - apply B. apply B'. reflexivity.
Qed.

Lemma verify_all_in ps : forall r k sv ok, verify_all ps = Some r -> In (k, sv, ok) ps ->
  exists i, verify_entry k sv ok = Some i /\ In i r.
Proof.
  unfold verify_all, verify_entry.
  induction ps as [|[[k0 sv0] ok0] ps IH]; intros r k sv ok H Hin; [destruct Hin|].
  unfold verify_all_with in H; cbn [verify_all_gen] in H; fold (verify_all_with causes_fail) in H; fold (verify_entry_with causes_fail) in H.
  destruct (verify_entry_with causes_fail k0 sv0 ok0) as [i0|] eqn:E0; [|discriminate].
  destruct (verify_all_with causes_fail ps) as [l|] eqn:El; [|discriminate].
  injection H as <-. destruct Hin as [[= -> -> ->]|Hin].
  - exists i0. split; [exact E0|left; reflexivity].
  - destruct (IH l k sv ok eq_refl Hin) as [i [Hi Hl]]. exists i. split; [exact Hi|right; exact Hl].
Qed.

Lemma verify_all_length ps : forall r, verify_all ps = Some r -> length r = length ps.
Proof.
  unfold verify_all. induction ps as [|[[k0 sv0] ok0] ps IH]; intros r H; unfold verify_all_with in H; cbn [verify_all_gen] in H; fold (verify_all_with causes_fail) in H; fold (verify_entry_with causes_fail) in H.
  - injection H as <-. reflexivity.
  - destruct (verify_entry_with causes_fail k0 sv0 ok0); [|discriminate].
    destruct (verify_all_with causes_fail ps) as [l|]; [|discriminate].
    injection H as <-. cbn [length]. f_equal. apply IH. reflexivity.
Qed.

Lemma disqualified_key_never_truthy ps r k sv ok :
  verify_all ps = Some r -> In (k, sv, ok) ps -> causes_fail (check_management k) = true -> truthy r = false.
Proof.
  intros H Hin C. destruct (verify_all_in ps r k sv ok H Hin) as [i [Hi Hr]].
  apply truthy_false_iff_some_bad. exists i. split; [exact Hr|].
  eapply disqualified_entry_is_bad; eassumption.
Qed.

Lemma wrong_sig_never_truthy ps r k sv :
  verify_all ps = Some r -> In (k, sv, false) ps -> truthy r = false.
Proof.
  intros H Hin. destruct (verify_all_in ps r k sv false H Hin) as [i [Hi Hr]].
  apply truthy_false_iff_some_bad. exists i. split; [exact Hr|].
  eapply wrong_sig_entry_is_bad; eassumption.
Qed.

(* the verdict of a whole call, decided by the inputs *)
Lemma verify_all_truthy_iff ps : forall r, verify_all ps = Some r ->
  (truthy r = true <-> forall k sv ok, In (k, sv, ok) ps -> causes_fail (check_management k) = false /\ ok = true).
Proof.
  unfold verify_all. induction ps as [|[[k0 sv0] ok0] ps IH]; intros r H; unfold verify_all_with in H; cbn [verify_all_gen] in H; fold (verify_all_with causes_fail) in H; fold (verify_entry_with causes_fail) in H.
  - injection H as <-. split; [intros _ k sv ok []|reflexivity].
  - destruct (verify_entry_with causes_fail k0 sv0 ok0) as [i0|] eqn:E0; [|discriminate].
    destruct (verify_all_with causes_fail ps) as [l|] eqn:El; [|discriminate].
    injection H as <-. specialize (IH l eq_refl). unfold truthy in *. cbn [forallb].
    pose proof (entry_bad_iff k0 sv0 ok0 i0 E0) as B. rewrite entry_ok_good, good_not_bad.
    split.
    + intros T. apply andb_prop in T. destruct T as [T1 T2]. intros k sv ok [[= <- <- <-]|Hin].
      * destruct (is_bad i0); [discriminate|].
        destruct (causes_fail (check_management k0)); [assert (false = true) by (apply B; tauto); discriminate|].
        destruct ok0; [tauto|]. assert (false = true) by (apply B; tauto). discriminate.
      * apply (proj1 IH T2 k sv ok Hin).
    + intros A. apply andb_true_intro. split.
      * destruct (A k0 sv0 ok0 (or_introl eq_refl)) as [A1 A2].
        destruct (is_bad i0); [|reflexivity]. destruct (proj1 B eq_refl); congruence.
      * apply (proj2 IH). intros k sv ok Hin. apply (A k sv ok). right. exact Hin.
Qed.
