From Coq Require Import ZArith List Bool Lia ZifyBool.
Import ListNotations.
Require Import PV.Lib.Bytes PV.Lib.BytesLemmas PV.Model.Wire PV.Spec.Rfc4880_wire.
Open Scope Z_scope.

(* ---------- helpers ---------- *)
Lemma bit_length_le v k : 0 <= k -> 0 <= v < 2 ^ k -> bit_length v <= k.
Proof.
  intros Hk [H0 H1]. destruct (Z.eq_dec v 0) as [->|Hne]; [cbn; lia|].
  pose proof (bit_length_spec v ltac:(lia)) as [A _].
  pose proof (bit_length_nonneg v).
  destruct (Z_le_gt_dec (bit_length v) k) as [|Hgt]; [assumption|exfalso].
  assert (2 ^ k <= 2 ^ (bit_length v - 1)) by (apply Z.pow_le_mono_r; lia). lia.
Qed.

Lemma int_byte_len_le v k : 0 <= k -> 0 <= v < 256 ^ k -> int_byte_len v <= k.
Proof.
  intros Hk Hv. unfold int_byte_len.
  assert (bit_length v <= 8 * k).
  { apply bit_length_le; [lia|]. replace (2 ^ (8 * k)) with (256 ^ k); [assumption|].
    rewrite Z.pow_mul_r by lia. reflexivity. }
  pose proof (bit_length_nonneg v).
  assert ((bit_length v + 7) / 8 < k + 1); [|lia]. apply Z.div_lt_upper_bound; lia.
Qed.

Lemma int_to_bytes_fits v k : 1 <= k -> 0 <= v < 256 ^ k -> int_to_bytes v k = be (Z.to_nat k) v.
Proof.
  intros Hk Hv. unfold int_to_bytes. f_equal. f_equal.
  pose proof (int_byte_len_le v k ltac:(lia) Hv). pose proof (int_byte_len_nonneg v). lia.
Qed.

(* ---------- new-format length: round trip for every n < 2^32 ---------- *)
Definition band2 : list Z := map Z.of_nat (seq 192 (Z.to_nat 8192)).
Definition ok2 (n : Z) : bool :=
  match new_len (new_length n) with Some (m, []) => Z.eqb m n | _ => false end.
Lemma sweep2 : forallb ok2 band2 = true. Proof. vm_compute. reflexivity. Qed.
Lemma in_band2 n : 192 <= n < 8384 -> In n band2.
Proof.
  intros H. unfold band2. apply in_map_iff. exists (Z.to_nat n). split; [lia|]. apply in_seq. lia.
Qed.

Lemma new_length_1 n : 0 <= n < 192 -> new_length n = [n].
Proof.
  intros H. unfold new_length. destruct (192 >? n) eqn:E; [|lia].
  rewrite int_to_bytes_fits by (change (256 ^ 1) with 256; lia).
  change (Z.to_nat 1) with 1%nat. cbn [be app].
  rewrite Z.mod_small by lia. reflexivity.
Qed.

Lemma new_length_5 n : 8384 <= n < 4294967296 -> new_length n = 255 :: be 4 n.
Proof.
  intros H. unfold new_length. destruct (192 >? n) eqn:E; [lia|]. destruct (8384 >? n) eqn:E2; [lia|].
  rewrite int_to_bytes_fits by (change (256 ^ 4) with 4294967296; lia). reflexivity.
Qed.

(* non-partial decode only looks at the length field *)
Lemma parse_len_app b r : forall v sz, parse_len b 0 = Some (v, sz, false) -> (sz <= length b)%nat ->
  parse_len (b ++ r) 0 = Some (v, sz, false).
Proof.
  intros v sz. destruct b as [|fo t]; [discriminate|]. unfold parse_len. cbn [nth_error app].
  destruct (192 >? fo); [auto|].
  destruct (224 >? fo).
  { intros [= <- <-] Hl. cbn [length] in Hl. destruct t as [|x t]; [cbn in Hl; lia|]. reflexivity. }
  destruct (255 >? fo); [discriminate|].
  intros [= <- <-] Hl. cbn [length] in Hl.
  destruct t as [|a [|b' [|c [|d t]]]]; cbn in Hl; try lia. reflexivity.
Qed.

Lemma new_len_app b r v : new_len b = Some (v, []) ->
  (exists sz, parse_len b 0 = Some (v, sz, false) /\ sz = length b) -> new_len (b ++ r) = Some (v, r).
Proof.
  intros _ [sz [Hp Hs]]. unfold new_len. rewrite (parse_len_app b r v sz Hp) by lia.
  rewrite skipn_app_exact by auto. reflexivity.
Qed.

Lemma parse_len_one n t : 0 <= n < 192 -> parse_len (n :: t) 0 = Some (n, 1%nat, false).
Proof. intros H. unfold parse_len. cbn [nth_error]. destruct (192 >? n) eqn:E; [reflexivity|lia]. Qed.

Lemma parse_len_five a b c d t : parse_len (255 :: a :: b :: c :: d :: t) 0 = Some (unbe [a;b;c;d], 5%nat, false).
Proof. reflexivity. Qed.

Lemma be4_shape n : exists a b c d, be 4 n = [a; b; c; d].
Proof. cbn. eauto. Qed.

Definition ok2s (n : Z) : bool :=
  match parse_len (new_length n) 0 with Some (m, 2%nat, false) => Z.eqb m n && Nat.eqb (length (new_length n)) 2 | _ => false end.
Lemma sweep2s : forallb ok2s band2 = true. Proof. vm_compute. reflexivity. Qed.

Theorem new_len_roundtrip n r : 0 <= n < 4294967296 -> new_len (new_length n ++ r) = Some (n, r).
Proof.
  intros H.
  destruct (Z_lt_ge_dec n 192) as [H1|H1].
  { rewrite new_length_1 by lia. unfold new_len. cbn [app]. rewrite parse_len_one by lia. reflexivity. }
  destruct (Z_lt_ge_dec n 8384) as [H2|H2].
  { pose proof (proj1 (forallb_forall ok2s band2) sweep2s n (in_band2 n ltac:(lia))) as K.
    unfold ok2s in K.
    destruct (parse_len (new_length n) 0) as [[[m sz] p]|] eqn:E; [|discriminate].
    destruct sz as [|[|[|sz]]]; try discriminate. destruct p; [discriminate|].
    apply andb_prop in K as [K1 K2]. apply Z.eqb_eq in K1. apply Nat.eqb_eq in K2. subst m.
    unfold new_len. rewrite (parse_len_app _ r n 2%nat E) by lia.
    rewrite skipn_app_exact by auto. reflexivity. }
  rewrite new_length_5 by lia. destruct (be4_shape n) as [a [b [c [d Hb]]]]. rewrite Hb.
  unfold new_len. cbn [app]. rewrite parse_len_five. cbn [skipn]. rewrite <- Hb.
  rewrite unbe_be by (change (256 ^ Z.of_nat 4) with 4294967296; lia). reflexivity.
Qed.

(* length of the emitted field: the shortest form *)
Lemma new_length_len n : 0 <= n < 4294967296 ->
  length (new_length n) = if n <? 192 then 1%nat else if n <? 8384 then 2%nat else 5%nat.
Proof.
  intros H. destruct (n <? 192) eqn:E1.
  { rewrite new_length_1 by lia. reflexivity. }
  destruct (n <? 8384) eqn:E2.
  { pose proof (proj1 (forallb_forall ok2s band2) sweep2s n (in_band2 n ltac:(lia))) as K.
    unfold ok2s in K. destruct (parse_len (new_length n) 0) as [[[m sz] p]|]; [|discriminate].
    destruct sz as [|[|[|sz]]]; try discriminate. destruct p; [discriminate|].
    apply andb_prop in K as [_ K2]. apply Nat.eqb_eq in K2. exact K2. }
  rewrite new_length_5 by lia. cbn [length]. rewrite length_be. reflexivity.
Qed.

(* ---------- decode agrees with the RFC on every well-formed octet string ---------- *)
Definition pairs2 : list (Z * Z) := flat_map (fun a => map (fun b => (a, b)) (map Z.of_nat (seq 0 256))) (map Z.of_nat (seq 192 32)).
Definition dec2_ok (p : Z * Z) : bool :=
  let '(a, b) := p in
  match parse_len [a; b] 0 with Some (m, 2%nat, false) => Z.eqb m ((a - 192) * 256 + b + 192) | _ => false end.
Lemma sweep_dec2 : forallb dec2_ok pairs2 = true. Proof. vm_compute. reflexivity. Qed.
Lemma in_pairs2 a b : 192 <= a < 224 -> 0 <= b < 256 -> In (a, b) pairs2.
Proof.
  intros Ha Hb. unfold pairs2. apply in_flat_map. exists a. split.
  - apply in_map_iff. exists (Z.to_nat a). split; [lia|]. apply in_seq. lia.
  - apply in_map_iff. exists b. split; [reflexivity|]. apply in_map_iff. exists (Z.to_nat b). split; [lia|]. apply in_seq. lia.
Qed.

Lemma parse_len_two a b t : 192 <= a < 224 -> 0 <= b < 256 ->
  parse_len (a :: b :: t) 0 = Some ((a - 192) * 256 + b + 192, 2%nat, false).
Proof.
  intros Ha Hb. pose proof (proj1 (forallb_forall dec2_ok pairs2) sweep_dec2 (a, b) (in_pairs2 a b Ha Hb)) as K.
  unfold dec2_ok in K. unfold parse_len in *. cbn [nth_error] in *.
  destruct (192 >? a) eqn:E1; [lia|]. destruct (224 >? a) eqn:E2; [|lia].
  change (slice 0 (0 + 2) (a :: b :: t)) with [a; b]. change (slice 0 (0 + 2) [a; b]) with [a; b] in K.
  destruct (Z.eqb_spec (Z.land (unbe [a; b] - Z.shiftl 192 8) 65280 + (Z.land (unbe [a; b]) 255 + 192)) ((a - 192) * 256 + b + 192)) as [->|]; [reflexivity|discriminate].
Qed.

Lemma pow2_5bits fo : 224 <= fo < 255 -> Z.shiftl 1 (Z.land fo 31) = 2 ^ (fo mod 32).
Proof.
  intros H. rewrite Z.shiftl_1_l. f_equal. change 31 with (Z.ones 5). rewrite Z.land_ones by lia. reflexivity.
Qed.

Theorem new_len_dec_eq_rfc b : wf_bytes b ->
  match rfc_new_len b with
  | Some (v, false, r) => new_len b = Some (v, r)
  | Some (v, true, r) => parse_len b 0 = Some (v, 1%nat, true) /\ r = skipn 1 b
  | None => match b with
            | [] => new_len b = None
            | fo :: r => (192 <= fo < 224 /\ r = []) \/ (fo = 255 /\ (length r < 4)%nat)
            end
  end.
Proof.
  intros Hwf. destruct b as [|o1 r]; [reflexivity|].
  inversion Hwf as [|? ? Ho1 Hr]; subst. cbn [rfc_new_len].
  destruct (o1 <? 192) eqn:E1.
  { unfold new_len. rewrite parse_len_one by lia. reflexivity. }
  destruct (o1 <? 224) eqn:E2.
  { destruct r as [|o2 r']; [left; split; [lia|reflexivity]|].
    inversion Hr as [|? ? Ho2 _]; subst. unfold new_len. rewrite parse_len_two by lia. reflexivity. }
  destruct (o1 <? 255) eqn:E3.
  { split; [|reflexivity]. unfold parse_len. cbn [nth_error].
    destruct (192 >? o1) eqn:F1; [lia|]. destruct (224 >? o1) eqn:F2; [lia|]. destruct (255 >? o1) eqn:F3; [|lia].
    rewrite pow2_5bits by lia. reflexivity. }
  assert (o1 = 255) by lia. subst o1.
  destruct r as [|a [|b' [|c [|d r']]]]; try (right; split; [reflexivity|cbn; lia]).
  unfold new_len. rewrite parse_len_five. cbn [skipn]. f_equal. f_equal.
  unfold unbe. cbn [unbe_acc]. lia.
Qed.

(* shortest form: any RFC encoding of n is at least as long as the emitted one *)
Theorem new_length_shortest e n : wf_bytes e -> 0 <= n < 4294967296 ->
  rfc_new_len e = Some (n, false, []) -> (length (new_length n) <= length e)%nat.
Proof.
  intros Hwf Hn He. rewrite new_length_len by assumption.
  destruct e as [|o1 r]; [discriminate|]. inversion Hwf as [|? ? Ho1 Hr]; subst. cbn [rfc_new_len] in He.
  destruct (o1 <? 192) eqn:E1.
  { injection He as <- ->. rewrite E1. cbn. lia. }
  destruct (o1 <? 224) eqn:E2.
  { destruct r as [|o2 r']; [discriminate|]. inversion Hr as [|? ? Ho2 _]; subst. injection He as <- ->.
    destruct ((o1 - 192) * 256 + o2 + 192 <? 192) eqn:F1; [cbn; lia|].
    destruct ((o1 - 192) * 256 + o2 + 192 <? 8384) eqn:F2; [cbn; lia|lia]. }
  destruct (o1 <? 255) eqn:E3; [discriminate|].
  destruct r as [|a [|b' [|c [|d r']]]]; try discriminate. injection He as <- ->.
  cbn [length]. repeat match goal with |- context [if ?c then _ else _] => destruct c end; lia.
Qed.

(* ---------- partial body lengths: reassembly by induction over the chunk list ---------- *)
(* a partial chunk: power-of-two size 2^k (k < 31), preceded by the octet 224+k *)
Definition chunk_ok (c : Z * bytes) : Prop := 0 <= fst c < 31 /\ Z.of_nat (length (snd c)) = 2 ^ fst c.
Fixpoint encode_chunks (cs : list (Z * bytes)) (last : bytes) : bytes :=
  match cs with
  | [] => new_length (Z.of_nat (length last)) ++ last
  | (k, d) :: cs' => (224 + k) :: d ++ encode_chunks cs' last
  end.
Definition chunks_len (cs : list (Z * bytes)) : nat := fold_right (fun c a => (length (snd c) + a)%nat) 0%nat cs.
Definition chunks_data (cs : list (Z * bytes)) : bytes := flat_map snd cs.

Lemma parse_len_partial pre k t : 0 <= k < 31 ->
  parse_len (pre ++ (224 + k) :: t) (length pre) = Some (2 ^ k, 1%nat, true).
Proof.
  intros Hk. unfold parse_len. rewrite nth_error_app2 by lia. rewrite Nat.sub_diag. cbn [nth_error].
  destruct (192 >? 224 + k) eqn:F1; [lia|]. destruct (224 >? 224 + k) eqn:F2; [lia|].
  destruct (255 >? 224 + k) eqn:F3; [|lia]. rewrite pow2_5bits by lia.
  replace ((224 + k) mod 32) with k; [reflexivity|]. symmetry.
  replace (224 + k) with (k + 7 * 32) by lia. rewrite Z.mod_add by lia. apply Z.mod_small. lia.
Qed.

Lemma parse_len_at pre b : forall v sz, parse_len b 0 = Some (v, sz, false) -> (sz <= length b)%nat ->
  parse_len (pre ++ b) (length pre) = Some (v, sz, false).
Proof.
  intros v sz. destruct b as [|fo t]; [discriminate|]. unfold parse_len.
  rewrite nth_error_app2 by lia. rewrite Nat.sub_diag. cbn [nth_error].
  destruct (192 >? fo); [auto|].
  destruct (224 >? fo).
  { intros [= <- <-] Hl. cbn [length] in Hl. destruct t as [|x t]; [cbn in Hl; lia|].
    unfold slice. rewrite skipn_app_exact by reflexivity. rewrite Nat.add_comm, Nat.add_sub. reflexivity. }
  destruct (255 >? fo); [discriminate|].
  intros [= <- <-] Hl. cbn [length] in Hl.
  destruct t as [|a [|b' [|c [|d t]]]]; cbn in Hl; try lia.
  unfold slice. replace (length pre + 1)%nat with (length (pre ++ [fo])) by (rewrite app_length; reflexivity).
  replace (pre ++ fo :: a :: b' :: c :: d :: t) with ((pre ++ [fo]) ++ a :: b' :: c :: d :: t) by (rewrite <- app_assoc; reflexivity).
  rewrite skipn_app_exact by reflexivity.
  replace (length pre + 5 - length (pre ++ [fo]))%nat with 4%nat by (rewrite app_length; cbn; lia). reflexivity.
Qed.

Lemma new_length_parse n : 0 <= n < 4294967296 ->
  exists sz, parse_len (new_length n) 0 = Some (n, sz, false) /\ sz = length (new_length n).
Proof.
  intros H. destruct (Z_lt_ge_dec n 192) as [H1|H1].
  { rewrite new_length_1 by lia. exists 1%nat. split; [apply parse_len_one; lia|reflexivity]. }
  destruct (Z_lt_ge_dec n 8384) as [H2|H2].
  { pose proof (proj1 (forallb_forall ok2s band2) sweep2s n (in_band2 n ltac:(lia))) as K.
    unfold ok2s in K. destruct (parse_len (new_length n) 0) as [[[m sz] p]|] eqn:E; [|discriminate].
    destruct sz as [|[|[|sz]]]; try discriminate. destruct p; [discriminate|].
    apply andb_prop in K as [K1 K2]. apply Z.eqb_eq in K1. apply Nat.eqb_eq in K2. subst m.
    exists 2%nat. split; [reflexivity|auto]. }
  rewrite new_length_5 by lia. destruct (be4_shape n) as [a [b [c [d Hb]]]]. rewrite Hb.
  exists 5%nat. split; [|reflexivity]. rewrite parse_len_five. rewrite <- Hb.
  rewrite unbe_be by (change (256 ^ Z.of_nat 4) with 4294967296; lia). reflexivity.
Qed.

Lemma partial_loop_chunks : forall cs fuel pre last r,
  Forall chunk_ok cs -> Z.of_nat (length last) < 4294967296 ->
  (fuel > length cs)%nat ->
  partial_loop fuel (pre ++ encode_chunks cs last ++ r) (length pre)
  = Some (Z.of_nat (length pre + chunks_len cs + length last), pre ++ chunks_data cs ++ last ++ r).
Proof.
  induction cs as [|[k d] cs IH]; intros fuel pre last r Hcs Hlast Hfuel.
  - destruct fuel as [|fuel]; [cbn in Hfuel; lia|]. cbn [encode_chunks partial_loop chunks_len chunks_data flat_map fold_right app].
    destruct (new_length_parse (Z.of_nat (length last)) ltac:(lia)) as [sz [Hp Hs]].
    set (nl := new_length (Z.of_nat (length last))) in *.
    replace ((nl ++ last) ++ r) with (nl ++ last ++ r) by (rewrite <- app_assoc; reflexivity).
    rewrite (parse_len_at pre (nl ++ last ++ r) (Z.of_nat (length last)) sz).
    + rewrite firstn_app_exact by reflexivity.
      replace (pre ++ nl ++ last ++ r) with ((pre ++ nl) ++ last ++ r) by (rewrite <- app_assoc; reflexivity).
      rewrite skipn_app_exact by (rewrite app_length; lia).
      rewrite Nat2Z.id. f_equal. f_equal. lia.
    + apply parse_len_app; [exact Hp|lia].
    + rewrite app_length. lia.
  - destruct fuel as [|fuel]; [cbn in Hfuel; lia|].
    inversion Hcs as [|? ? Hc Hcs']; subst. destruct Hc as [Hk Hd]. cbn [fst snd] in Hk, Hd.
    cbn [encode_chunks partial_loop]. cbn [app]. rewrite <- !app_assoc.
    change (((224 + k) :: d ++ encode_chunks cs last) ++ r) with ((224 + k) :: d ++ encode_chunks cs last ++ r).
    replace (pre ++ ((224 + k) :: d ++ encode_chunks cs last) ++ r) with (pre ++ (224 + k) :: (d ++ encode_chunks cs last ++ r))
      by (cbn [app]; rewrite <- app_assoc; reflexivity).
    rewrite parse_len_partial by lia.
    rewrite firstn_app_exact by reflexivity.
    replace (pre ++ (224 + k) :: d ++ encode_chunks cs last ++ r) with ((pre ++ [224 + k]) ++ d ++ encode_chunks cs last ++ r) by (rewrite <- app_assoc; reflexivity).
    rewrite skipn_app_exact by (rewrite app_length; cbn; lia).
    replace (pre ++ d ++ encode_chunks cs last ++ r) with ((pre ++ d) ++ encode_chunks cs last ++ r) by (rewrite <- app_assoc; reflexivity).
    replace (length pre + Z.to_nat (2 ^ k))%nat with (length (pre ++ d)) by (rewrite app_length; lia).
    rewrite IH; [|assumption|assumption|cbn [length] in Hfuel; lia].
    cbn [chunks_len chunks_data fold_right flat_map snd]. rewrite !app_length, <- !app_assoc.
    f_equal. f_equal. fold (chunks_len cs). lia.
Qed.

Theorem partial_reassembly k d cs last r :
  Forall chunk_ok ((k, d) :: cs) -> Z.of_nat (length last) < 4294967296 ->
  new_len (encode_chunks ((k, d) :: cs) last ++ r)
  = Some (Z.of_nat (chunks_len ((k, d) :: cs) + length last), chunks_data ((k, d) :: cs) ++ last ++ r).
Proof.
  intros Hcs Hlast. inversion Hcs as [|? ? Hc Hcs']; subst. destruct Hc as [Hk Hd]. cbn [fst snd] in Hk, Hd.
  unfold new_len. cbn [encode_chunks app].
  pose proof (parse_len_partial [] k (d ++ encode_chunks cs last ++ r) Hk) as P. cbn [app length] in P.
  rewrite <- app_assoc. rewrite P. cbn [skipn].
  replace (Z.to_nat (2 ^ k)) with (length d) by lia.
  rewrite (partial_loop_chunks cs _ d last r Hcs' Hlast).
  - cbn [chunks_len chunks_data fold_right flat_map snd]. rewrite <- app_assoc. reflexivity.
  - cbn [length]. rewrite !app_length.
    assert (length cs <= length (encode_chunks cs last))%nat.
    { clear. induction cs as [|[k' d'] cs IH]; cbn [encode_chunks length]; [lia|]. rewrite app_length. lia. }
    lia.
Qed.
