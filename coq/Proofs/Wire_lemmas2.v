From Coq Require Import ZArith List Bool Lia ZifyBool.
Import ListNotations.
Require Import PV.Lib.Bytes PV.Lib.BytesLemmas PV.Model.Wire PV.Spec.Rfc4880_wire PV.Proofs.Wire_lemmas.
Open Scope Z_scope.

(* ---------- old-format lengths ---------- *)
Lemma old_len_roundtrip n llen r : 1 <= llen -> 0 <= n < 256 ^ llen ->
  old_len llen (old_length n llen ++ r) = (n, r).
Proof.
  intros Hl Hn. unfold old_len, old_length. destruct (llen >? 0) eqn:E; [|lia].
  rewrite int_to_bytes_fits by lia.
  rewrite firstn_app_exact, skipn_app_exact by apply length_be.
  rewrite unbe_be by (rewrite Z2Nat.id by lia; lia). reflexivity.
Qed.

(* the width the emitter chooses after the repair always holds the value *)
Lemma old_need_fits n : 0 <= n < 4294967296 -> n < 256 ^ old_need n /\ (old_need n = 1 \/ old_need n = 2 \/ old_need n = 4).
Proof.
  intros H. unfold old_need.
  pose proof (lt_pow256_byte_len n ltac:(lia)) as B. pose proof (int_byte_len_nonneg n) as N.
  pose proof (int_byte_len_le n 4 ltac:(lia) ltac:(change (256 ^ 4) with 4294967296; lia)) as L.
  destruct (int_byte_len n <=? 1) eqn:E1.
  { split; [|auto]. eapply Z.lt_le_trans; [exact B|]. apply pow256_mono. lia. }
  destruct (int_byte_len n =? 2) eqn:E2.
  { split; [|auto]. replace 2 with (int_byte_len n) by lia. exact B. }
  split; [|auto]. eapply Z.lt_le_trans; [exact B|]. apply pow256_mono. lia.
Qed.

Lemma llen_get_old_fits n st : 0 <= n < 4294967296 -> (st = 1 \/ st = 2 \/ st = 4) ->
  let ll := llen_get 0 n st in n < 256 ^ ll /\ (ll = 1 \/ ll = 2 \/ ll = 4) /\ st <= ll.
Proof.
  intros H Hst. unfold llen_get. change (0 =? 1) with false. cbv iota.
  destruct (old_need_fits n H) as [F W].
  destruct (st =? 0) eqn:E0; [lia|]. cbn [negb].
  destruct (Z.max_spec st (old_need n)) as [[Hlt ->]|[Hge ->]].
  - split; [exact F|]. split; [exact W|lia].
  - split; [|split; [exact Hst|lia]]. eapply Z.lt_le_trans; [exact F|]. apply pow256_mono. lia.
Qed.

Definition tags16 : list Z := map Z.of_nat (seq 0 16).
Definition tags64 : list Z := map Z.of_nat (seq 0 64).

(* tag octet arithmetic, by a finite sweep over all tags x length types *)
Definition old_tag_ok (t : Z) : bool :=
  forallb (fun c =>
    let o := Z.lor (Z.lor 128 (Z.shiftl 0 6)) (Z.lor (Z.shiftl t 2) c) in
    (Z.shiftr (Z.land o 64) 6 =? 0) && (tag_of_octet 0 o =? t) && (Z.land o 3 =? c) && (0 <=? o) && (o <? 256) && (int_byte_len o <=? 1))
    [0; 1; 2; 3].
Lemma old_tag_sweep : forallb old_tag_ok tags16 = true. Proof. vm_compute. reflexivity. Qed.
Definition new_tag_ok (t : Z) : bool :=
  let o := Z.lor (Z.lor 128 (Z.shiftl 1 6)) t in
  (Z.shiftr (Z.land o 64) 6 =? 1) && (tag_of_octet 1 o =? t) && (0 <=? o) && (o <? 256).
Lemma new_tag_sweep : forallb new_tag_ok tags64 = true. Proof. vm_compute. reflexivity. Qed.

Lemma in_tags16 t : 0 <= t < 16 -> In t tags16.
Proof. intros H. unfold tags16. apply in_map_iff. exists (Z.to_nat t). split; [lia|]. apply in_seq. lia. Qed.
Lemma in_tags64 t : 0 <= t < 64 -> In t tags64.
Proof. intros H. unfold tags64. apply in_map_iff. exists (Z.to_nat t). split; [lia|]. apply in_seq. lia. Qed.

Lemma int_to_bytes_octet o : 0 <= o < 256 -> int_to_bytes o 1 = [o].
Proof.
  intros H. rewrite int_to_bytes_fits by (change (256 ^ 1) with 256; lia).
  change (Z.to_nat 1) with 1%nat. cbn [be app]. rewrite Z.mod_small by lia. reflexivity.
Qed.

Lemma code_llen_inv ll : (ll = 1 \/ ll = 2 \/ ll = 4) ->
  exists c, code_of_llen ll = Some c /\ llen_of_code c = ll /\ In c [0; 1; 2].
Proof. intros [ -> | [ -> | -> ] ]; [exists 0|exists 1|exists 2]; cbn; intuition. Qed.

(* Old-format header: whatever width was stored when the packet was read, the emitted
   header re-parses to the same tag and length (the field is never narrower than needed) *)
Theorem old_header_never_narrow t n st body :
  0 <= t < 16 -> 0 <= n < 4294967296 -> (st = 1 \/ st = 2 \/ st = 4) ->
  exists bs h', header_emit {| h_lenfmt := 0; h_tag := t; h_llen := st; h_len := n |} = Some bs /\
    header_parse (bs ++ body) = Some (h', body) /\ h_tag h' = t /\ h_len h' = n /\ h_lenfmt h' = 0 /\
    Z.of_nat (length bs) = 1 + h_llen h' /\ n < 256 ^ h_llen h'.
Proof.
  intros Ht Hn Hst. unfold header_emit. cbn [h_lenfmt h_tag h_llen h_len].
  change (negb (0 =? 0)) with false. cbv iota.
  destruct (llen_get_old_fits n st Hn Hst) as [F [W Hle]]. set (ll := llen_get 0 n st) in *.
  destruct (code_llen_inv ll W) as [c [Hc [Hinv Hin]]]. rewrite Hc.
  pose proof (proj1 (forallb_forall old_tag_ok tags16) old_tag_sweep t (in_tags16 t Ht)) as K.
  unfold old_tag_ok in K. rewrite forallb_forall in K.
  assert (Hin4 : In c [0; 1; 2; 3]) by (cbn in Hin |- *; intuition).
  specialize (K c Hin4). cbv zeta in K.
  set (o := Z.lor (Z.lor 128 (Z.shiftl 0 6)) (Z.lor (Z.shiftl t 2) c)) in *.
  repeat (apply andb_prop in K as [K ?]).
  rewrite int_to_bytes_octet by lia.
  eexists. eexists. split; [reflexivity|].
  unfold header_parse. cbn [app].
  replace (Z.shiftr (Z.land o 64) 6) with 0 by lia. change (0 =? 0) with true. change (0 =? 1) with false. cbv iota.
  replace (Z.land o 3) with c by lia. rewrite Hinv.
  destruct (ll >? 0) eqn:E; [|lia].
  unfold encode_length. rewrite old_len_roundtrip by lia.
  split; [reflexivity|]. cbn [h_tag h_len h_lenfmt h_llen].
  split; [lia|]. split; [reflexivity|]. split; [reflexivity|]. split; [|exact F].
  cbn [app length]. unfold old_length. destruct (ll >? 0); [|lia].
  rewrite int_to_bytes_fits by lia. rewrite length_be. lia.
Qed.

(* the code before the repair emitted a one-octet field for length 300 *)
Example old_header_narrow_before_repair :
  header_emit_prefix {| h_lenfmt := 0; h_tag := 5; h_llen := 1; h_len := 300 |} = Some [148; 1; 44].
Proof. vm_compute. reflexivity. Qed.
Example old_header_wide_after_repair :
  header_emit {| h_lenfmt := 0; h_tag := 5; h_llen := 1; h_len := 300 |} = Some [149; 1; 44].
Proof. vm_compute. reflexivity. Qed.

(* New-format header round trip *)
Theorem new_header_roundtrip t n st body :
  0 <= t < 64 -> 0 <= n < 4294967296 ->
  exists bs h', header_emit {| h_lenfmt := 1; h_tag := t; h_llen := st; h_len := n |} = Some bs /\
    header_parse (bs ++ body) = Some (h', body) /\ h_tag h' = t /\ h_len h' = n /\ h_lenfmt h' = 1.
Proof.
  intros Ht Hn. unfold header_emit. cbn [h_lenfmt h_tag h_llen h_len].
  change (negb (1 =? 0)) with true. cbv iota.
  pose proof (proj1 (forallb_forall new_tag_ok tags64) new_tag_sweep t (in_tags64 t Ht)) as K.
  unfold new_tag_ok in K. cbv zeta in K. set (o := Z.lor (Z.lor 128 (Z.shiftl 1 6)) t) in *.
  repeat (apply andb_prop in K as [K ?]).
  rewrite int_to_bytes_octet by lia.
  eexists. eexists. split; [reflexivity|].
  unfold header_parse. cbn [app].
  replace (Z.shiftr (Z.land o 64) 6) with 1 by lia. change (1 =? 0) with false. change (1 =? 1) with true. cbv iota.
  unfold encode_length. rewrite new_len_roundtrip by lia.
  split; [reflexivity|]. cbn [h_tag h_len h_lenfmt]. split; [lia|]. auto.
Qed.

(* ---------- MPI ---------- *)
Lemma mpi_byte_length_pos v : 0 < v -> 1 <= mpi_byte_length v.
Proof.
  intros H. unfold mpi_byte_length. pose proof (bit_length_spec v H) as [A _].
  assert (1 <= bit_length v).
  { destruct (Z_le_gt_dec 1 (bit_length v)); [assumption|]. pose proof (bit_length_nonneg v).
    assert (bit_length v = 0) by lia. unfold bit_length in *. destruct (v <=? 0) eqn:E; [lia|]. pose proof (Z.log2_nonneg v). lia. }
  apply Z.div_le_lower_bound; lia.
Qed.

Theorem mpi_roundtrip v r : 0 <= v -> bit_length v < 65536 -> mpi_parse (to_mpibytes v ++ r) = (v, r).
Proof.
  intros H Hb0. unfold mpi_parse, to_mpibytes.
  assert (Hb : 0 <= bit_length v < 65536) by (pose proof (bit_length_nonneg v); lia).
  rewrite (int_to_bytes_fits (bit_length v) 2) by (change (256 ^ 2) with 65536; lia).
  rewrite <- app_assoc.
  rewrite firstn_app_exact, skipn_app_exact by apply length_be.
  rewrite unbe_be by (change (256 ^ Z.of_nat (Z.to_nat 2)) with 65536; lia).
  fold (mpi_byte_length v).
  destruct (Z.eq_dec v 0) as [->|Hne].
  { cbn. reflexivity. }
  replace (v =? 0) with false by lia. cbn [negb].
  pose proof (mpi_byte_length_pos v ltac:(lia)) as Hp.
  assert (Hfit : v < 256 ^ mpi_byte_length v) by (apply lt_pow256_byte_len; lia).
  rewrite int_to_bytes_fits by lia.
  rewrite firstn_app_exact, skipn_app_exact by apply length_be.
  rewrite unbe_be by (rewrite Z2Nat.id by lia; lia). reflexivity.
Qed.

(* the bit count written is exact: 2^(bits-1) <= v < 2^bits, and the octet count is minimal *)
Theorem mpi_bits_exact v : 0 < v -> bit_length v < 65536 ->
  exists bits body, to_mpibytes v = be 2 bits ++ body /\ 2 ^ (bits - 1) <= v < 2 ^ bits /\ Z.of_nat (length body) = (bits + 7) / 8 /\ unbe body = v.
Proof.
  intros H Hb0. exists (bit_length v), (be (Z.to_nat (mpi_byte_length v)) v).
  assert (Hb : 0 <= bit_length v < 65536) by (pose proof (bit_length_nonneg v); lia).
  pose proof (mpi_byte_length_pos v ltac:(lia)) as Hp.
  assert (Hfit : v < 256 ^ mpi_byte_length v) by (apply lt_pow256_byte_len; lia).
  unfold to_mpibytes. replace (v =? 0) with false by lia. cbn [negb].
  rewrite (int_to_bytes_fits (bit_length v) 2) by (change (256 ^ 2) with 65536; lia).
  rewrite int_to_bytes_fits by lia.
  split; [reflexivity|]. split; [apply bit_length_spec; lia|]. split.
  - rewrite length_be. unfold mpi_byte_length in *. lia.
  - apply unbe_be. rewrite Z2Nat.id by lia. lia.
Qed.

(* decode agrees with the RFC (also on inputs with surplus leading zero bits) *)
Theorem mpi_dec_eq_rfc b : wf_bytes b ->
  match rfc_mpi b with Some (v, r) => mpi_parse b = (v, r) | None => True end.
Proof.
  intros Hwf. destruct b as [|h [|l r]]; cbn [rfc_mpi]; auto.
  destruct (length r <? Z.to_nat ((h * 256 + l + 7) / 8))%nat eqn:E; [exact I|].
  unfold mpi_parse. cbn [firstn skipn]. unfold unbe at 1. cbn [unbe_acc].
  replace (0 * 256 + h) with h by lia. reflexivity.
Qed.

(* the broken zero encoding before the repair: three octets, the third left unread *)
Example mpi_zero_before_repair : mpi_parse (to_mpibytes_prefix 0 ++ [170]) = (0, [0; 170]).
Proof. vm_compute. reflexivity. Qed.

(* ---------- four-octet time ---------- *)
Theorem time4_roundtrip t r : 0 <= t < 4294967296 -> length (time4 t) = 4%nat /\ untime4 (time4 t ++ r) = t.
Proof.
  intros H. unfold time4, untime4. rewrite int_to_bytes_fits by (change (256 ^ 4) with 4294967296; lia).
  split; [apply length_be|]. rewrite firstn_app_exact by apply length_be.
  apply unbe_be. change (256 ^ Z.of_nat (Z.to_nat 4)) with 4294967296. lia.
Qed.

(* ---------- S2K coded count: all 256 values ---------- *)
Definition codes256 : list Z := map Z.of_nat (seq 0 256).
Lemma count_sweep : forallb (fun c => s2k_count c =? rfc_count c) codes256 = true.
Proof. vm_compute. reflexivity. Qed.
Theorem count_eq_rfc c : 0 <= c < 256 -> s2k_count c = rfc_count c.
Proof.
  intros H. apply Z.eqb_eq.
  apply (proj1 (forallb_forall _ codes256) count_sweep c).
  unfold codes256. apply in_map_iff. exists (Z.to_nat c). split; [lia|]. apply in_seq. lia.
Qed.

(* ---------- subpacket length (after the F8 repair) ---------- *)
Definition subpairs : list (Z * Z) := flat_map (fun a => map (fun b => (a, b)) (map Z.of_nat (seq 0 256))) (map Z.of_nat (seq 192 63)).
Definition sub2_ok (p : Z * Z) : bool :=
  let '(a, b) := p in Z.shiftl (a - 192) 8 + b + 192 =? (a - 192) * 256 + b + 192.
Lemma sub2_sweep : forallb sub2_ok subpairs = true. Proof. vm_compute. reflexivity. Qed.

Theorem sub_len_eq_rfc b : wf_bytes b ->
  match rfc_sub_len b with
  | Some (v, r) => sub_len b = Some (v, r)
  | None => True
  end.
Proof.
  intros Hwf. destruct b as [|o1 r]; [exact I|].
  inversion Hwf as [|? ? Ho1 Hr]; subst. cbn [rfc_sub_len].
  destruct (o1 <? 192) eqn:E1.
  { unfold sub_len. replace ((192 <=? o1) && (o1 <? 255)) with false by lia.
    unfold new_len. rewrite parse_len_one by lia. reflexivity. }
  destruct (o1 <? 255) eqn:E2.
  { destruct r as [|o2 r']; [exact I|]. unfold sub_len. replace ((192 <=? o1) && (o1 <? 255)) with true by lia.
    rewrite Z.shiftl_mul_pow2 by lia. reflexivity. }
  assert (o1 = 255) by lia. subst o1.
  destruct r as [|a [|b' [|c [|d r']]]]; try exact I.
  unfold sub_len. change ((192 <=? 255) && (255 <? 255)) with false. cbv iota.
  unfold new_len. rewrite parse_len_five. cbn [skipn]. f_equal. f_equal. unfold unbe. cbn [unbe_acc]. lia.
Qed.

(* before the repair a first octet in 224..254 was read as a partial length *)
Example sub_len_before_repair : sub_len_prefix [224; 5; 1; 2; 3] <> rfc_sub_len [224; 5; 1; 2; 3].
Proof. vm_compute. discriminate. Qed.

Lemma shape2_sweep : forallb (fun n => eqb_bytes (new_length n) [(n - 192) / 256 + 192; (n - 192) mod 256]) band2 = true.
Proof. vm_compute. reflexivity. Qed.
Lemma new_length_2 n : 192 <= n < 8384 -> new_length n = [(n - 192) / 256 + 192; (n - 192) mod 256].
Proof.
  intros H. apply eqb_bytes_eq.
  apply (proj1 (forallb_forall _ band2) shape2_sweep n (in_band2 n H)).
Qed.

Lemma wf_new_length n : 0 <= n < 4294967296 -> wf_bytes (new_length n).
Proof.
  intros H. destruct (Z_lt_ge_dec n 192); [rewrite new_length_1 by lia; constructor; [lia|constructor]|].
  destruct (Z_lt_ge_dec n 8384).
  - rewrite new_length_2 by lia.
    assert (0 <= (n - 192) / 256 < 32) by (split; [apply Z.div_pos; lia|apply Z.div_lt_upper_bound; lia]).
    pose proof (Z.mod_pos_bound (n - 192) 256 ltac:(lia)).
    constructor; [lia|]. constructor; [lia|constructor].
  - rewrite new_length_5 by lia. constructor; [lia|apply wf_be].
Qed.

Lemma rfc_sub_len_new_length n r : 0 <= n < 4294967296 -> rfc_sub_len (new_length n ++ r) = Some (n, r).
Proof.
  intros H. destruct (Z_lt_ge_dec n 192).
  { rewrite new_length_1 by lia. cbn [app rfc_sub_len]. replace (n <? 192) with true by lia. reflexivity. }
  destruct (Z_lt_ge_dec n 8384).
  { rewrite new_length_2 by lia. cbn [app rfc_sub_len].
    assert (0 <= (n - 192) / 256 < 32) by (split; [apply Z.div_pos; lia|apply Z.div_lt_upper_bound; lia]).
    replace ((n - 192) / 256 + 192 <? 192) with false by lia.
    replace ((n - 192) / 256 + 192 <? 255) with true by lia.
    f_equal. f_equal. pose proof (Z.div_mod (n - 192) 256 ltac:(lia)). lia. }
  rewrite new_length_5 by lia. destruct (be4_shape n) as [a [b [c [d Hb]]]]. rewrite Hb.
  cbn [app rfc_sub_len]. change (255 <? 192) with false. change (255 <? 255) with false. cbv iota.
  f_equal. f_equal.
  pose proof (unbe_be 4 n ltac:(change (256 ^ Z.of_nat 4) with 4294967296; lia)) as U. rewrite Hb in U.
  unfold unbe in U. cbn [unbe_acc] in U. lia.
Qed.

Definition crit_octets : list (Z * bool) := flat_map (fun t => [(t, true); (t, false)]) (map Z.of_nat (seq 0 128)).
Definition crit_ok (p : Z * bool) : bool :=
  let '(t, c) := p in
  let o := Z.shiftl (if c then 1 else 0) 7 + t in
  (0 <=? o) && (o <? 256) && (Z.land o 127 =? t) && Bool.eqb (negb (Z.land o 128 =? 0)) c.
Lemma crit_sweep : forallb crit_ok crit_octets = true. Proof. vm_compute. reflexivity. Qed.
Lemma in_crit t c : 0 <= t < 128 -> In (t, c) crit_octets.
Proof.
  intros H. unfold crit_octets. apply in_flat_map. exists t. split.
  - apply in_map_iff. exists (Z.to_nat t). split; [lia|]. apply in_seq. lia.
  - destruct c; cbn; auto.
Qed.

Theorem sub_header_roundtrip n t crit r : 0 <= n < 4294967296 -> 0 <= t < 128 -> wf_bytes r ->
  sub_header_parse (sub_header_emit n t crit ++ r) = Some (n, t, crit, r).
Proof.
  intros Hn Ht Hr. unfold sub_header_parse, sub_header_emit, encode_length.
  pose proof (proj1 (forallb_forall crit_ok crit_octets) crit_sweep (t, crit) (in_crit t crit Ht)) as K.
  unfold crit_ok in K. cbv zeta in K. set (o := Z.shiftl (if crit then 1 else 0) 7 + t) in *.
  repeat (apply andb_prop in K as [K ?]).
  rewrite int_to_bytes_octet by lia. rewrite <- app_assoc.
  pose proof (sub_len_eq_rfc (new_length n ++ [o] ++ r)) as E.
  rewrite rfc_sub_len_new_length in E by assumption.
  rewrite E.
  2:{ apply wf_bytes_app. split; [apply wf_new_length; assumption|]. constructor; [lia|exact Hr]. }
  cbn [app firstn skipn]. unfold unbe. cbn [unbe_acc]. replace (0 * 256 + o) with o by lia.
  match goal with H : Bool.eqb _ _ = true |- _ => apply Bool.eqb_prop in H; rewrite H end.
  replace (Z.land o 127) with t by lia. reflexivity.
Qed.

(* ---------- the subpacket length field on its own (Fmt.FSubLen) ---------- *)
Lemma sub_header_emit_sub_length len typeid critical :
  sub_header_emit len typeid critical = sub_length len ++ int_to_bytes (Z.shiftl (if critical then 1 else 0) 7 + typeid) 1.
Proof. reflexivity. Qed.
Lemma sub_length_new_length n : sub_length n = new_length n.
Proof. reflexivity. Qed.

(* unlike sub_header_roundtrip, nothing is asked of the following data *)
Theorem sub_len_roundtrip n r : 0 <= n < 4294967296 -> sub_len (sub_length n ++ r) = Some (n, r).
Proof.
  intros H. rewrite sub_length_new_length.
  destruct (Z_lt_ge_dec n 192) as [C1|C1].
  { pose proof (new_len_roundtrip n r H) as K. rewrite new_length_1 in * by lia. cbn [app] in *.
    unfold sub_len. destruct ((192 <=? n) && (n <? 255)) eqn:E; [lia|exact K]. }
  destruct (Z_lt_ge_dec n 8384) as [C2|C2].
  { rewrite new_length_2 by lia. cbn [app]. unfold sub_len.
    assert (B : 0 <= (n - 192) / 256 < 32) by (split; [apply Z.div_pos; lia|apply Z.div_lt_upper_bound; lia]).
    destruct ((192 <=? (n - 192) / 256 + 192) && ((n - 192) / 256 + 192 <? 255)) eqn:E; [|lia].
    rewrite Z.shiftl_mul_pow2 by lia. f_equal. f_equal.
    pose proof (Z.div_mod (n - 192) 256 ltac:(lia)) as D. change (2 ^ 8) with 256. lia. }
  pose proof (new_len_roundtrip n r H) as K. rewrite new_length_5 in * by lia. cbn [app] in *.
  unfold sub_len. destruct ((192 <=? 255) && (255 <? 255)) eqn:E; [discriminate E|exact K].
Qed.
