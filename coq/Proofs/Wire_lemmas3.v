From Coq Require Import ZArith List Bool Lia ZifyBool.
Import ListNotations.
Require Import PV.Lib.Bytes PV.Lib.BytesLemmas PV.Model.Wire PV.Proofs.Wire_lemmas.
Open Scope Z_scope.

(* ---------- the fuel of the partial-length loop is never what stops it ---------- *)
(* a partial length field is one octet and announces at least one body octet *)
Lemma parse_len_partial_shape b off pl size : parse_len b off = Some (pl, size, true) ->
  size = 1%nat /\ 1 <= pl /\ (off < length b)%nat.
Proof.
  unfold parse_len. destruct (nth_error b off) as [fo|] eqn:E; [|discriminate].
  assert (Hoff : (off < length b)%nat) by (apply nth_error_Some; congruence).
  destruct (192 >? fo); [discriminate|]. destruct (224 >? fo); [discriminate|].
  destruct (255 >? fo); [|discriminate].
  intros [= <- <-]. split; [reflexivity|]. split; [|exact Hoff].
  rewrite Z.shiftl_1_l.
  assert (0 <= Z.land fo 31) by (apply Z.land_nonneg; right; lia).
  pose proof (Z.pow_pos_nonneg 2 (Z.land fo 31) ltac:(lia) ltac:(lia)). lia.
Qed.

Theorem partial_loop_fuel_irrelevant : forall f1 f2 b total,
  (f1 > length b - total)%nat -> (f2 > length b - total)%nat ->
  partial_loop f1 b total = partial_loop f2 b total.
Proof.
  induction f1 as [|f1 IH]; intros f2 b total H1 H2; [lia|].
  destruct f2 as [|f2]; [lia|]. cbn [partial_loop].
  destruct (parse_len b total) as [[[pl size] partial]|] eqn:E; [|reflexivity].
  destruct partial; [|reflexivity].
  destruct (parse_len_partial_shape b total pl size E) as [-> [Hpl Hoff]].
  set (b' := firstn total b ++ skipn (total + 1) b).
  assert (Lb' : length b' = (length b - 1)%nat).
  { unfold b'. rewrite app_length, firstn_length, skipn_length. lia. }
  apply IH; rewrite Lb'; lia.
Qed.

(* new_len runs the loop with fuel S (length b): any larger fuel gives the same answer, so a `None` of the model is
   always the IndexError of the Python loop, never exhaustion of the fuel *)
Corollary new_len_fuel_sufficient b pl size extra :
  parse_len b 0 = Some (pl, size, true) ->
  new_len b = partial_loop (S (length b) + extra) (skipn size b) (Z.to_nat pl).
Proof.
  intros E. unfold new_len. rewrite E.
  destruct (parse_len_partial_shape b 0 pl size E) as [-> [Hpl Hoff]].
  apply partial_loop_fuel_irrelevant; rewrite skipn_length; lia.
Qed.
