(* A packet read WITHOUT a length field (old format, length type 3: it extends to the end of its input) is kept with a length
   field from then on (repair b07b4af of Header.parse: `self._llen = 1`), so that it is written with one and other packets may
   follow it.  The rule before the repair (stored width 0) is refuted. *)
From Coq Require Import ZArith List Bool Lia ZifyBool.
Import ListNotations.
Require Import PV.Lib.Bytes PV.Model.Wire PV.Proofs.Wire_lemmas2.
Open Scope Z_scope.

(* the tag octet of an old-format header without length field: 1 0 t t t t 1 1 *)
Definition indet_octet (t : Z) : Z := 131 + 4 * t.

Lemma indet_parse t body : 0 <= t < 16 ->
  header_parse (indet_octet t :: body) =
  Some ({| h_lenfmt := 0; h_tag := t; h_llen := 1; h_len := Z.of_nat (length body) |}, body).
Proof.
  intros Ht. assert (C : t = 0 \/ t = 1 \/ t = 2 \/ t = 3 \/ t = 4 \/ t = 5 \/ t = 6 \/ t = 7 \/ t = 8 \/ t = 9 \/
                          t = 10 \/ t = 11 \/ t = 12 \/ t = 13 \/ t = 14 \/ t = 15) by lia.
  repeat (destruct C as [C|C]; [subst t; reflexivity|]). subst t. reflexivity.
Qed.

Theorem indeterminate_reframed t body : 0 <= t < 16 -> Z.of_nat (length body) < 4294967296 ->
  exists h bs,
    header_parse (indet_octet t :: body) = Some (h, body) /\ h_tag h = t /\ h_len h = Z.of_nat (length body) /\
    header_emit h = Some bs /\
    forall r, exists h', header_parse (bs ++ body ++ r) = Some (h', body ++ r) /\ h_tag h' = t /\ h_len h' = Z.of_nat (length body) /\
                         Z.of_nat (length bs) = 1 + h_llen h' /\ Z.of_nat (length body) < 256 ^ h_llen h'.
Proof.
  intros Ht Hn.
  assert (Hn' : 0 <= Z.of_nat (length body) < 4294967296) by lia.
  destruct (old_header_never_narrow t (Z.of_nat (length body)) 1 body Ht Hn' (or_introl eq_refl)) as (bs & _ & E & _).
  eexists. exists bs. split; [apply indet_parse; exact Ht|]. cbn [h_tag h_len].
  split; [reflexivity|]. split; [reflexivity|]. split; [exact E|].
  intros r.
  destruct (old_header_never_narrow t (Z.of_nat (length body)) 1 (body ++ r) Ht Hn' (or_introl eq_refl))
    as (bs2 & h' & E2 & P & T & L & _ & W & F).
  assert (bs2 = bs) by congruence. subst bs2.
  exists h'. repeat split; assumption.
Qed.

(* before the repair the stored width was 0: the header was written back WITHOUT a length field, and whatever followed the
   packet was read as part of it *)
Definition indet_header_old (t n : Z) : pheader := {| h_lenfmt := 0; h_tag := t; h_llen := 0; h_len := n |}.
Theorem indeterminate_old_swallows :
  exists t body r bs h' rest,
    header_emit (indet_header_old t (Z.of_nat (length body))) = Some bs /\ length bs = 1%nat /\
    header_parse (bs ++ body ++ r) = Some (h', rest) /\ r <> [] /\ rest = body ++ r /\ h_len h' <> Z.of_nat (length body).
Proof.
  exists 2, [4; 0; 1], [196; 3; 9; 9; 9]. eexists. eexists. eexists.
  split; [vm_compute; reflexivity|]. split; [reflexivity|]. split; [vm_compute; reflexivity|].
  split; [discriminate|]. split; [reflexivity|]. vm_compute. discriminate.
Qed.
