(* Old-format packet headers in the DECODE direction: for every first octet whose bit 6 is clear and every following octet
   string, `Header.parse` reads the tag RFC 4880 4.2 assigns to the octet ((o / 4) mod 16), the length-field width 4.2.1
   assigns to the length type (o mod 4 = 0, 1, 2 -> 1, 2, 4 octets), and the big-endian value of exactly those octets
   (Spec/Rfc4880_wire.v rfc_old_len, which nothing used before this file); length type 3 reads the rest of the input.
   The time field decodes to the big-endian value of its four octets and leaves the rest alone. *)
From Coq Require Import ZArith List Bool Lia ZifyBool.
Import ListNotations.
Require Import PV.Lib.Bytes PV.Model.Wire PV.Spec.Rfc4880_wire PV.Proofs.Wire_lemmas2.
Open Scope Z_scope.

(* what the RFC says about the first octet, written with / and mod *)
Definition rfc_old_tag (o : Z) : Z := (o / 4) mod 16.
Definition rfc_old_lentype (o : Z) : Z := o mod 4.
Definition rfc_is_old (o : Z) : bool := (o / 64) mod 2 =? 0.
Definition rfc_old_width (lt : Z) : Z := if lt =? 0 then 1 else if lt =? 1 then 2 else 4.

(* the model's reading of the first octet alone *)
Definition first_octet_ok (o : Z) : bool :=
  if rfc_is_old o then
    (Z.shiftr (Z.land o 64) 6 =? 0) && (tag_of_octet 0 o =? rfc_old_tag o) &&
    (llen_of_code (Z.land o 3) =? (if rfc_old_lentype o =? 3 then 0 else rfc_old_width (rfc_old_lentype o)))
  else
    (Z.shiftr (Z.land o 64) 6 =? 1) && (tag_of_octet 1 o =? o mod 64).

Lemma first_octet_sweep : forallb first_octet_ok codes256 = true.
Proof. vm_compute. reflexivity. Qed.

Lemma in_codes256 o : 0 <= o < 256 -> In o codes256.
Proof. intros H. unfold codes256. apply in_map_iff. exists (Z.to_nat o). split; [lia|]. apply in_seq. lia. Qed.

Lemma first_octet_old o : 0 <= o < 256 -> rfc_is_old o = true ->
  Z.shiftr (Z.land o 64) 6 = 0 /\ tag_of_octet 0 o = rfc_old_tag o /\
  llen_of_code (Z.land o 3) = (if rfc_old_lentype o =? 3 then 0 else rfc_old_width (rfc_old_lentype o)).
Proof.
  intros Ho Hold.
  pose proof (proj1 (forallb_forall _ codes256) first_octet_sweep o (in_codes256 o Ho)) as K.
  unfold first_octet_ok in K. rewrite Hold in K.
  apply andb_prop in K. destruct K as [K K3]. apply andb_prop in K. destruct K as [K1 K2].
  apply Z.eqb_eq in K1. apply Z.eqb_eq in K2. apply Z.eqb_eq in K3. auto.
Qed.

Lemma first_octet_new o : 0 <= o < 256 -> rfc_is_old o = false ->
  Z.shiftr (Z.land o 64) 6 = 1 /\ tag_of_octet 1 o = o mod 64.
Proof.
  intros Ho Hnew.
  pose proof (proj1 (forallb_forall _ codes256) first_octet_sweep o (in_codes256 o Ho)) as K.
  unfold first_octet_ok in K. rewrite Hnew in K.
  apply andb_prop in K. destruct K as [K1 K2]. apply Z.eqb_eq in K1. apply Z.eqb_eq in K2. auto.
Qed.

Lemma old_width_cases lt : 0 <= lt < 3 ->
  (lt = 0 /\ rfc_old_width lt = 1) \/ (lt = 1 /\ rfc_old_width lt = 2) \/ (lt = 2 /\ rfc_old_width lt = 4).
Proof. intros H. assert (lt = 0 \/ lt = 1 \/ lt = 2) as [-> | [-> | ->]] by lia; cbn; auto. Qed.

(* length types 0, 1, 2: tag, width and value are the RFC's, the rest is what follows the length field *)
Theorem old_header_dec_eq_rfc o rest : 0 <= o < 256 -> rfc_is_old o = true -> rfc_old_lentype o < 3 ->
  match rfc_old_len (rfc_old_lentype o) rest with
  | Some (v, r) =>
      header_parse (o :: rest) =
      Some ({| h_lenfmt := 0; h_tag := rfc_old_tag o; h_llen := rfc_old_width (rfc_old_lentype o); h_len := v |}, r)
  | None => (Z.of_nat (length rest) < rfc_old_width (rfc_old_lentype o))
  end.
Proof.
  intros Ho Hold Hlt.
  destruct (first_octet_old o Ho Hold) as (Hfmt & Htag & Hll).
  assert (0 <= rfc_old_lentype o < 3) as Hrange
    by (split; [unfold rfc_old_lentype; apply Z.mod_pos_bound; lia | exact Hlt]).
  assert (rfc_old_lentype o =? 3 = false) as Hne by lia. rewrite Hne in Hll.
  unfold rfc_old_len, header_parse. rewrite Hfmt, Htag, Hll. cbn [Z.eqb].
  destruct (old_width_cases _ Hrange) as [[E W] | [[E W] | [E W]]]; rewrite E in *; rewrite W; cbn [Z.eqb Z.gtb Z.compare];
    unfold old_len; cbn [Z.gtb Z.compare Z.to_nat Pos.to_nat Pos.iter_op Nat.add];
    match goal with |- context [(length rest <? ?n)%nat] => destruct (Nat.ltb_spec (length rest) n) as [Hs | Hs] end;
    try reflexivity; clear - Hs; cbn in Hs; lia.
Qed.

(* length type 3: no length field; the packet is what is left of the input (4.2.1 "indeterminate length") and is kept with
   a one-octet field from then on (Wire_lemmas4) *)
Theorem old_header_indeterminate_dec o rest : 0 <= o < 256 -> rfc_is_old o = true -> rfc_old_lentype o = 3 ->
  header_parse (o :: rest) =
  Some ({| h_lenfmt := 0; h_tag := rfc_old_tag o; h_llen := 1; h_len := Z.of_nat (length rest) |}, rest).
Proof.
  intros Ho Hold Hlt.
  destruct (first_octet_old o Ho Hold) as (Hfmt & Htag & Hll).
  rewrite Hlt in Hll. cbn [Z.eqb Pos.eqb] in Hll.
  unfold header_parse. rewrite Hfmt, Htag, Hll. reflexivity.
Qed.

(* a new-format first octet: the tag is the low six bits, the length is what 4.2.2 says (new_len_dec_eq_rfc) *)
Theorem new_header_dec_tag o rest : 0 <= o < 256 -> rfc_is_old o = false ->
  header_parse (o :: rest) =
  match new_len rest with
  | None => None
  | Some (l, r) => Some ({| h_lenfmt := 1; h_tag := o mod 64; h_llen := 1; h_len := l |}, r)
  end.
Proof.
  intros Ho Hnew. destruct (first_octet_new o Ho Hnew) as (Hfmt & Htag).
  unfold header_parse. rewrite Hfmt, Htag. reflexivity.
Qed.

(* the input is too short for the width: the model reads the octets that are there (Python slicing); this is the only case the
   RFC assigns no value to *)
Example old_header_short_input : rfc_old_len 1 [7] = None /\ exists h, header_parse [133; 7] = Some (h, []) /\ h_len h = 7.
Proof. split; [reflexivity|]. eexists. split; [vm_compute; reflexivity|]. reflexivity. Qed.

(* non-vacuity: tag 6 with a four-octet length, tag 2 with one octet, tag 11 indeterminate *)
Example old_header_dec_examples :
  header_parse [154; 0; 1; 0; 0; 9] = Some ({| h_lenfmt := 0; h_tag := 6; h_llen := 4; h_len := 65536 |}, [9]) /\
  rfc_old_len (rfc_old_lentype 154) [0; 1; 0; 0; 9] = Some (65536, [9]) /\ rfc_is_old 154 = true /\
  header_parse [175; 1; 2] = Some ({| h_lenfmt := 0; h_tag := 11; h_llen := 1; h_len := 2 |}, [1; 2]).
Proof. vm_compute. repeat split. Qed.

(* four-octet time, decode direction: the value of the first four octets, big endian, whatever follows *)
Theorem untime4_eq_rfc a b c d r : wf_bytes [a; b; c; d] ->
  untime4 (a :: b :: c :: d :: r) = a * 16777216 + b * 65536 + c * 256 + d /\
  0 <= untime4 (a :: b :: c :: d :: r) < 4294967296.
Proof.
  intros H. unfold untime4. cbn [firstn]. unfold unbe. cbn [unbe_acc].
  inversion H as [|? ? Ha H1]; subst. inversion H1 as [|? ? Hb H2]; subst.
  inversion H2 as [|? ? Hc H3]; subst. inversion H3 as [|? ? Hd H4]; subst. lia.
Qed.

(* a new-format header is the tag octet 192 + t followed by the SHORTEST new-format length (new_length_shortest): the header as a
   whole is never longer than any RFC-valid new-format header of the same tag and length, whatever width was stored *)
Lemma new_tag_value_sweep : forallb (fun t => Z.lor (Z.lor 128 (Z.shiftl 1 6)) t =? 192 + t) tags64 = true.
Proof. vm_compute. reflexivity. Qed.
Theorem new_header_emit_shape t n st : 0 <= t < 64 ->
  header_emit {| h_lenfmt := 1; h_tag := t; h_llen := st; h_len := n |} = Some ((192 + t) :: new_length n).
Proof.
  intros Ht. unfold header_emit. cbn [h_lenfmt h_tag h_llen h_len].
  change (negb (1 =? 0)) with true. cbv iota.
  pose proof (proj1 (forallb_forall _ tags64) new_tag_value_sweep t (in_tags64 t Ht)) as K. cbv beta in K.
  apply Z.eqb_eq in K. rewrite K. rewrite int_to_bytes_octet by lia. reflexivity.
Qed.
