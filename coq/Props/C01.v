(* C01 — Signature soundness: verification never accepts what was not signed.
   Statements only; proofs are `exact <lemma>` into Proofs/HashData_lemmas.v.

   What is a theorem here: (1) the octet string PGPy hashes is an INJECTIVE function of everything the property
   lists (subject, signature type, both algorithm ids, the hashed subpacket area) — so two different signed
   statements never share a hash input; (2) PGPKey.verify records success for a (signature, subject) pair only
   through the public-key primitive applied to exactly that hash input, and never when the key has a
   disqualifying issue.  What is NOT a theorem (premises about primitives, outside any Gallina model):
   unforgeability of RSA/DSA/ECDSA/EdDSA and collision resistance of the hash — C01 is partial in that sense. *)
From Coq Require Import ZArith List Bool Lia.
Import ListNotations.
Require Import PV.Lib.Bytes PV.Model.HashData PV.Spec.Rfc4880_sig PV.Proofs.HashData_lemmas.
Require Import PV.Model.Message PV.Model.SignedMsg PV.Proofs.SignedMsg_lemmas.
Open Scope Z_scope.

Theorem C01_hashdata_injective : forall f f' s s' d,
  wf_fields f -> wf_fields f' -> wf_subject s -> wf_subject s' -> In (sf_type f) known_types ->
  hashdata f s = Some d -> hashdata f' s' = Some d ->
  f = f' /\ subject_equiv (sf_type f) s s'.
Proof. exact hashdata_injective. Qed.
Print Assumptions C01_hashdata_injective.

(* premises are satisfiable: a certification over a user id *)
Example C01_injective_premises :
  let f := {| sf_ver := 4; sf_type := 19; sf_pkalg := 22; sf_halg := 8; sf_hashed := [0; 6; 5; 2; 1; 2; 3; 4] |} in
  let s := SUid [4; 0; 0; 0; 1; 22; 1; 2] [65; 66] in
  wf_fields f /\ wf_subject s /\ In (sf_type f) known_types /\ hashdata f s <> None.
Proof. cbv zeta. split; [unfold wf_fields; cbn; lia|]. split; [cbn; unfold wf_keybody; cbn; lia|]. split; [cbn; tauto|]. vm_compute. discriminate. Qed.

Theorem C01_different_fields_different_input : forall f f' s s' d d',
  wf_fields f -> wf_fields f' -> f <> f' -> hashdata f s = Some d -> hashdata f' s' = Some d' -> d <> d'.
Proof. exact different_fields_different_input. Qed.
Print Assumptions C01_different_fields_different_input.

Theorem C01_verify_ok_only_via_primitive : forall pk_verify pub issues fails s subj,
  verify_pair pk_verify pub issues fails s subj = Some 0 ->
  (issues = 0 \/ fails = false) /\
  exists d, hashdata (fields_of s) subj = Some d /\ pk_verify pub d (sg_mpis s) (sg_halg s) = true.
Proof. exact verify_ok_only_via_primitive. Qed.
Print Assumptions C01_verify_ok_only_via_primitive.

Theorem C01_wrong_signature_is_recorded_wrong : forall pk_verify pub issues fails s subj d,
  negb (issues =? 0) && fails = false -> hashdata (fields_of s) subj = Some d ->
  pk_verify pub d (sg_mpis s) (sg_halg s) = false ->
  verify_pair pk_verify pub issues fails s subj = Some 1.
Proof. exact verify_wrong_is_one. Qed.
Print Assumptions C01_wrong_signature_is_recorded_wrong.

Theorem C01_disqualified_never_verifies : forall pk_verify pub issues s subj,
  issues <> 0 -> verify_pair pk_verify pub issues true s subj = Some issues.
Proof. exact disqualified_never_verifies. Qed.
Print Assumptions C01_disqualified_never_verifies.

(* regression witness: before the repair of /repo (fix: attestation ...), type 0x16 was outside every
   branch of hashdata, i.e. it behaved like the subject-less types: two different user ids gave the same input *)
Definition hash_body_prefix (t : Z) (s : subject) : option bytes :=
  if t =? 22 then Some [] else hash_body t s.
Theorem C01_attestation_prefix_refuted :
  exists s s', s <> s' /\ hash_body_prefix 22 s = hash_body_prefix 22 s'.
Proof. exists (SUid [1] [65]), (SUid [1] [66]). split; [discriminate|reflexivity]. Qed.

(* a signature whose issuer is neither the verifying key nor one of its subkeys is never examined: the call raises
   ("No signatures to verify"), so it can never be reported good *)
Theorem C01_wrong_key_never_examined : forall pk_verify pub ids issues fails issuer s subj,
  ~ In issuer ids -> verify_explicit pk_verify pub ids issues fails issuer s subj = None.
Proof. exact wrong_key_never_examined. Qed.
Print Assumptions C01_wrong_key_never_examined.
Theorem C01_filter_sigs_sound : forall (ids : list bytes) (sigs : list (bytes * nat)) s,
  In s (filter_sigs ids sigs) <-> In s sigs /\ In (fst s) ids.
Proof. intros. apply filter_sigs_sound. Qed.
Print Assumptions C01_filter_sigs_sound.

(* ---------- signatures carried in a message (Model/SignedMsg.v, PGPMessage._signed_data after repair 9dba8e2) ---------- *)
(* a binary signature on a literal message covers the literal's OCTETS: two literals whose octets differ never share a hash
   input, whatever format octet, file name or time they carry and however their text would decode *)
Theorem C01_msg_binary_injective : forall f l l' d, sf_type f = 0 ->
  msg_hashdata f l = Some d -> msg_hashdata f l' = Some d -> l_data l = l_data l'.
Proof. exact msg_binary_injective. Qed.
Print Assumptions C01_msg_binary_injective.

(* the rule before the repair hashed the latin-1 and the UTF-8 encoding of one text alike (closed witness) *)
Theorem C01_msg_old_rule_refuted :
  let l1 := {| l_format := 116; l_name := []; l_mtime := 0; l_data := [99; 233] |} in
  let l2 := {| l_format := 116; l_name := []; l_mtime := 0; l_data := [99; 195; 169] |} in
  l_data l1 <> l_data l2 /\ signed_data_lit_old l1 = signed_data_lit_old l2 /\ signed_data_lit l1 <> signed_data_lit l2.
Proof. exact old_rule_collapses_encodings. Qed.
Print Assumptions C01_msg_old_rule_refuted.
