(* C02 — Signatures conform to RFC 4880: the hash input PGPy builds is the RFC 4880 5.2.4 hash input
   (Spec/Rfc4880_sig.v, transcribed separately), for every signature type PGPy knows and every subject.
   The other half of C02 (an independent signer and verifier agree with PGPy on real keys) is the
   correspondence run: the extracted Spec function + the primitive oracle is that independent implementation. *)
From Coq Require Import ZArith List Bool Lia.
Import ListNotations.
Require Import PV.Lib.Bytes PV.Model.HashData PV.Spec.Rfc4880_sig PV.Proofs.HashData_lemmas.
Open Scope Z_scope.

Theorem C02_hashdata_eq_rfc : forall f s, wf_fields f -> wf_subject s -> kind_matches (sf_type f) s = true ->
  hashdata f s = rfc_hashdata f s.
Proof. exact hashdata_eq_rfc. Qed.
Print Assumptions C02_hashdata_eq_rfc.

(* text canonicalisation: PGPy's left-to-right rewrite equals "split at LF, drop one CR, join with CR LF" *)
Theorem C02_canon_eq_rfc : forall d, canon d = rfc_canon d.
Proof. exact canon_eq_rfc. Qed.
Print Assumptions C02_canon_eq_rfc.

Theorem C02_trailer_eq_rfc : forall f, wf_fields f -> trailer f = rfc_trailer f.
Proof. exact trailer_eq. Qed.
Print Assumptions C02_trailer_eq_rfc.

Example C02_premises : kind_matches 24 (SSubkey [4; 1] [4; 2]) = true /\ wf_subject (SSubkey [4; 1] [4; 2]).
Proof. split; [reflexivity|]. cbn. unfold wf_keybody. cbn. lia. Qed.
