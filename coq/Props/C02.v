(* C02 — Signatures conform to RFC 4880: the hash input PGPy builds is the RFC 4880 5.2.4 hash input
   (Spec/Rfc4880_sig.v, transcribed separately), for every signature type PGPy knows and every subject.
   The other half of C02 (an independent signer and verifier agree with PGPy on real keys) is the
   correspondence run: the extracted Spec function + the primitive oracle is that independent implementation. *)
From Coq Require Import ZArith List Bool Lia.
Import ListNotations.
Require Import PV.Lib.Bytes PV.Model.HashData PV.Spec.Rfc4880_sig PV.Proofs.HashData_lemmas.
Require Import PV.Model.Message PV.Model.SignedMsg PV.Proofs.SignedMsg_lemmas.
Open Scope Z_scope.

Theorem C02_hashdata_eq_rfc : forall f s, wf_fields f -> wf_subject s -> kind_matches (sf_type f) s = true ->
  hashdata f s = rfc_hashdata f s.
Proof. exact hashdata_eq_rfc. Qed.
Print Assumptions C02_hashdata_eq_rfc.

(* text canonicalisation: PGPy's left-to-right rewrite equals "split at LF, drop one CR, join with CR LF" *)
Theorem C02_canon_eq_rfc : forall d, canon d = rfc_canon d.
Proof. exact canon_eq_rfc. Qed.
Print Assumptions C02_canon_eq_rfc.

Theorem C02_trailer_eq_rfc : forall f, wf_fields f -> trailer f = rfc_trailer f.
Proof. exact trailer_eq. Qed.
Print Assumptions C02_trailer_eq_rfc.

Example C02_premises : kind_matches 24 (SSubkey [4; 1] [4; 2]) = true /\ wf_subject (SSubkey [4; 1] [4; 2]).
Proof. split; [reflexivity|]. cbn. unfold wf_keybody. cbn. lia. Qed.

(* ---------- per-algorithm encoding of the signature value ---------- *)
Require Import PV.Model.SigEncoding PV.Spec.Der PV.Proofs.SigEncoding_lemmas.

(* DSASignature.from_signer (a hand-rolled DER reader) inverts the DER encoding of two non-negative integers,
   including long-form lengths *)
Theorem C02_dsa_der_roundtrip : forall r s, der_ok r -> der_ok s ->
  Z.of_nat (length (der_uint r ++ der_uint s)) < 4294967296 ->
  dsa_from_signer (der_seq2 r s) = Some (r, s).
Proof. exact dsa_der_roundtrip. Qed.
Print Assumptions C02_dsa_der_roundtrip.

(* EdDSA: splitting the 64-octet signature into two integers and writing them back to 32 octets each is the identity *)
Theorem C02_eddsa_split_join : forall sig r s, wf_bytes sig -> length sig = 64%nat ->
  eddsa_from_signer sig = Some (r, s) -> eddsa_sig r s = sig.
Proof. exact eddsa_split_join. Qed.
Print Assumptions C02_eddsa_split_join.

Example C02_der_premises : der_ok 255 /\ dsa_from_signer (der_seq2 255 1) = Some (255, 1).
Proof. split; [split; [lia|vm_compute; reflexivity]|vm_compute; reflexivity]. Qed.

(* ---------- signer, export, parser and verifier composed (in the model) ---------- *)
Require Import PV.Model.SigCompose PV.Proofs.SigCompose_lemmas.

(* every packet the signer model assembles from well-formed subpackets is accepted by the parser model with exactly
   the fields, hashed area, left 16 bits and signature integers it was made from ... *)
Theorem C02_sign_body_parses : forall digest pk_sign,
  (forall h d, wf_bytes (digest h d) /\ (2 <= length (digest h d))%nat) ->
  (forall priv d h, wf_bytes (pk_sign priv d h)) ->
  forall t pk h hashed unhashed priv subj body,
  wf_area hashed -> wf_area unhashed ->
  sign_body digest pk_sign t pk h hashed unhashed priv subj = Some body ->
  exists s, sig_body_parse body = Some s /\
    fields_of s = {| sf_ver := 4; sf_type := t; sf_pkalg := pk; sf_halg := h; sf_hashed := area_emit hashed |} /\
    exists d, hashdata (fields_of s) subj = Some d /\ sg_hash2 s = firstn 2 (digest h d) /\ sg_mpis s = pk_sign priv d h.
Proof. intros digest pk_sign. exact (sign_body_parses digest pk_sign (fun _ _ _ _ => true)). Qed.
Print Assumptions C02_sign_body_parses.

(* ... and verifies, provided the primitive verifies what it signed (a premise on the primitive, not an axiom) *)
Theorem C02_sign_export_parse_verify : forall digest pk_sign pk_verify,
  (forall h d, wf_bytes (digest h d) /\ (2 <= length (digest h d))%nat) ->
  (forall priv d h, wf_bytes (pk_sign priv d h)) ->
  (forall (priv pub d : bytes) (h : Z), pk_verify pub d (pk_sign priv d h) h = true) ->
  forall t pk h hashed unhashed priv pub subj body,
  wf_area hashed -> wf_area unhashed ->
  sign_body digest pk_sign t pk h hashed unhashed priv subj = Some body ->
  exists s, sig_body_parse body = Some s /\ verify_pair pk_verify pub 0 false s subj = Some 0.
Proof. exact sign_export_parse_verify. Qed.
Print Assumptions C02_sign_export_parse_verify.

Example C02_wf_area_inhabited : wf_area [ {| sp_type := 2; sp_crit := false; sp_body := [95; 0; 0; 1] |} ].
Proof.
  split; [|vm_compute; reflexivity]. constructor; [|constructor].
  unfold wf_subp. cbn [sp_type sp_body length]. split; [lia|]. split; [vm_compute; reflexivity|]. repeat (constructor; [lia|]). constructor.
Qed.

(* ---------- signatures carried in a message (Model/SignedMsg.v, PGPMessage._signed_data after repair 9dba8e2) ---------- *)
(* RFC 4880 5.2.4 / 5.9: a binary signature over a literal message hashes the literal's octets, then the trailer; format octet,
   file name and time are not part of it (tie: the independent signer of tools/harness/c02.py signs exactly these octets and
   PGPy must verify; PGPy-signed messages must verify over them under the independent verifier) *)
Theorem C02_msg_hashdata_binary : forall f l, sf_type f = 0 -> msg_hashdata f l = Some (l_data l ++ trailer f).
Proof. exact msg_hashdata_binary. Qed.
Print Assumptions C02_msg_hashdata_binary.

Theorem C02_msg_hashdata_octets_only : forall f l l', l_data l = l_data l' -> msg_hashdata f l = msg_hashdata f l'.
Proof. exact msg_hashdata_octets_only. Qed.
Print Assumptions C02_msg_hashdata_octets_only.

(* before the repair a valid foreign signature on a 'u' literal that is not UTF-8 could not even be checked *)
Example C02_msg_old_rule_raises :
  signed_data_lit_old {| l_format := 117; l_name := []; l_mtime := 0; l_data := [255] |} = None.
Proof. exact old_rule_raises_on_u. Qed.
