(* C03 — Encryption round-trips and conforms to RFC 4880 / RFC 6637 in both directions.
   Statements only; every proof is `exact <lemma>` into Proofs/Encrypt_lemmas*.v.

   The model (Model/Encrypt.v) follows pgpy/packet/packets.py, fields.py, pgp.py branch by branch.  Cryptographic
   primitives are universally quantified functions; what is assumed about them is stated in each theorem through the
   named premises below (they are ordinary hypotheses, not axioms; Example C03_premises_satisfiable inhabits them).
   PARTIAL: the theorems say that PGPy's COMPOSITION of the primitives round-trips and has the RFC layout; that the
   primitives themselves (SHA-1, CFB, RSA, ECDH, AES key wrap, SHA-2, S2K hashing as implemented by OpenSSL/hashlib)
   are what the RFCs name is outside the proof — the correspondence run exercises them against PGPy only through the
   same libraries. *)
From Coq Require Import ZArith List Bool.
Import ListNotations.
Require Import PV.Lib.Bytes PV.Model.Wire PV.Model.Encrypt PV.Spec.Rfc4880_enc PV.Spec.Rfc6637
  PV.Proofs.Encrypt_lemmas PV.Proofs.Encrypt_lemmas2 PV.Proofs.Encrypt_codec PV.Proofs.Encrypt_toy.
Open Scope Z_scope.

(* ---------- named premises about the primitives ---------- *)
Definition sha1_20 (sha1 : bytes -> bytes) : Prop := forall x, length (sha1 x) = 20%nat.
Definition cfb_inverse (cfb_enc cfb_dec : Z -> bytes -> bytes -> option bytes) : Prop :=
  forall a k x c, cfb_enc a k x = Some c -> cfb_dec a k c = Some x.
Definition cfb_keeps_length (cfb_dec : Z -> bytes -> bytes -> option bytes) : Prop :=
  forall a k c x, cfb_dec a k c = Some x -> length x = length c.
(* PKCS#1 v1.5: the ciphertext is an octet string of the length of the modulus in octets -- (bits + 7) / 8, the modulus need not
   be a multiple of 8 bits long; this is the length the RSA primitive of `cryptography` (the harness oracle) returns --,
   decryption inverts encryption (any randomness); the ciphertext fits a multiprecision integer *)
Definition rsa_correct (rsa_bits : bytes -> Z) (rsa_enc : bytes -> bytes -> bytes -> option bytes)
                       (rsa_dec : bytes -> bytes -> option bytes) : Prop :=
  forall h seed m c, rsa_enc h seed m = Some c ->
    wf_bytes c /\ Z.of_nat (length c) = (rsa_bits h + 7) / 8 /\ rsa_bits h + 7 < 65536 /\ rsa_dec h c = Some m.
(* Diffie-Hellman: the recipient computes the sender's shared secret from the ephemeral public point *)
Definition ecdh_agrees (ecdh_gen : bytes -> bytes -> option (bytes * bytes)) (ecdh_shared : bytes -> bytes -> option bytes) : Prop :=
  forall h seed v s, ecdh_gen h seed = Some (v, s) -> ecdh_shared h v = Some s.
Definition wrap_inverse (aes_wrap aes_unwrap : bytes -> bytes -> option bytes) : Prop :=
  forall z x c, aes_wrap z x = Some c -> aes_unwrap z c = Some x.

Example C03_premises_satisfiable :
  sha1_20 t_sha1 /\ cfb_inverse t_cfb_enc t_cfb_dec /\ cfb_keeps_length t_cfb_dec /\
  rsa_correct t_rsa_bits t_rsa_enc t_rsa_dec /\ ecdh_agrees t_ecdh_gen t_ecdh_shared /\ wrap_inverse t_wrap t_unwrap.
Proof.
  split; [exact t_sha1_len|]. split; [exact t_cfb_inverse|]. split; [exact t_cfb_len|].
  split; [exact t_rsa_ok|]. split; [exact t_ecdh_ok|exact t_wrap_ok].
Qed.

(* ---------- Symmetrically Encrypted Integrity Protected Data ---------- *)
(* what is handed to the cipher is byte for byte RFC 4880 5.13:
   prefix || its last two octets || data || D3 14 || SHA-1(prefix || repeat || data || D3 14) *)
Theorem C03_seipd_layout_eq_rfc : forall sha1, sha1_20 sha1 -> forall iv data, (2 <= length iv)%nat ->
  seipd_plain sha1 iv data = rfc_seipd_plain sha1 iv (length iv) data.
Proof. exact seipd_layout_eq_rfc. Qed.
Print Assumptions C03_seipd_layout_eq_rfc.

(* all data (also empty), every key, every prefix of block size: decrypt returns exactly the data (prefix and MDC packet removed) *)
Theorem C03_seipd_roundtrip : forall sha1 cfb_enc cfb_dec, sha1_20 sha1 -> cfb_inverse cfb_enc cfb_dec ->
  forall alg key iv data c,
  length iv = block_octets alg -> (2 <= block_octets alg)%nat ->
  seipd_encrypt sha1 cfb_enc alg key iv data = Ok c ->
  seipd_decrypt sha1 cfb_dec alg key c = Ok data.
Proof. exact seipd_roundtrip. Qed.
Print Assumptions C03_seipd_roundtrip.
(* every cipher PGPy has a key size for has a block of at least two octets *)
Theorem C03_block_sizes : forall a n, key_octets a = Some n -> (2 <= block_octets a)%nat /\ sym_valid a = true.
Proof. exact key_octets_block. Qed.
Print Assumptions C03_block_sizes.

(* ---------- session key block "m" of a PKESK ---------- *)
Theorem C03_pkesk_m_eq_rfc : forall alg key, 0 <= alg < 256 -> pkesk_m alg key = rfc_pkesk_m alg key.
Proof. exact pkesk_m_eq_rfc. Qed.
Print Assumptions C03_pkesk_m_eq_rfc.
(* a key of the cipher's length is recovered whatever follows it (PKCS#5 padding included) *)
Theorem C03_pkesk_m_roundtrip : forall alg key n pad,
  sym_valid alg = true -> key_octets alg = Some n -> length key = n ->
  pkesk_open (pkesk_m alg key ++ pad) = Ok (alg, key).
Proof. exact pkesk_m_roundtrip. Qed.
Print Assumptions C03_pkesk_m_roundtrip.
(* ... and ONLY then: a 16-octet key under the AES-256 identifier would not be recovered from m, which is why encrypt_sk
   refuses such a key (C03_wrong_length_refused; this guard entered /repo as the repair of C03/sessionkey-length-unchecked) *)
Theorem C03_pkesk_m_wrong_length_refuted :
  exists alg key, sym_valid alg = true /\ pkesk_open (pkesk_m alg key) <> Ok (alg, key).
Proof. exact pkesk_m_wrong_length_refuted. Qed.
Print Assumptions C03_pkesk_m_wrong_length_refuted.

Theorem C03_wrong_length_refused : forall rsa_enc ecdh_gen hash aes_wrap k seed alg sk n,
  key_octets alg = Some n -> length sk <> n ->
  pkesk_encrypt rsa_enc ecdh_gen hash aes_wrap k seed alg sk = Raise EEncrypt.
Proof. exact pkesk_encrypt_wrong_length. Qed.
Print Assumptions C03_wrong_length_refused.
Theorem C03_pkesk_encrypt_ok_length : forall rsa_enc ecdh_gen hash aes_wrap k seed alg sk e,
  pkesk_encrypt rsa_enc ecdh_gen hash aes_wrap k seed alg sk = Ok e -> exists n, key_octets alg = Some n /\ length sk = n.
Proof. exact pkesk_encrypt_ok_length. Qed.
Print Assumptions C03_pkesk_encrypt_ok_length.
(* the passphrase path refuses such a key too (SKESessionKeyV4.encrypt_sk; repair 29ef9ad of C03/sessionkey-length-unchecked on
   this path: the data would be keyed with a key that does not fit the cipher the message names) *)
Theorem C03_skesk_wrong_length_refused : forall cfb_enc s2k symalg sp pass sk n,
  key_octets symalg = Some n -> length sk <> n -> skesk_encrypt cfb_enc s2k symalg sp pass sk = Raise EEncrypt.
Proof. exact skesk_encrypt_wrong_length. Qed.
Print Assumptions C03_skesk_wrong_length_refused.
Theorem C03_skesk_encrypt_ok_length : forall cfb_enc s2k symalg sp pass sk e,
  skesk_encrypt cfb_enc s2k symalg sp pass sk = Ok e -> exists n, key_octets symalg = Some n /\ length sk = n.
Proof. exact skesk_encrypt_ok_length. Qed.
Print Assumptions C03_skesk_encrypt_ok_length.
(* regression: before the repair a 16-octet key went out under the AES-256 identifier *)
Theorem C03_skesk_any_length_old_refuted :
  (exists e, skesk_encrypt_gen_old t_cfb_enc t_s2k 9 9 t_spec1 [112] (repeat 1 16) = Ok e) /\
  skesk_encrypt t_cfb_enc t_s2k 9 t_spec1 [112] (repeat 1 16) = Raise EEncrypt.
Proof. split; [eexists|]; vm_compute; reflexivity. Qed.
Print Assumptions C03_skesk_any_length_old_refuted.

(* ---------- PKCS#5 ---------- *)
Theorem C03_pad_unpad : forall m, pkcs5_unpad (pkcs5_pad m) = Some m.
Proof. exact pad_unpad. Qed.
Print Assumptions C03_pad_unpad.
Theorem C03_pad_eq_rfc : forall m, pkcs5_pad m = rfc_pad8 m /\ rfc_padded_ok (pkcs5_pad m) m.
Proof. exact pad_eq_rfc. Qed.
Print Assumptions C03_pad_eq_rfc.
(* the recipient side takes off ANY PKCS#5 padding, not only PGPy's own: RFC 6637 section 8 lets a sender hide the key
   size by padding m to 40 octets (21 / 13 / 5 octets of padding on the 19 / 27 / 35 octets of an AES-128 / 192 / 256 m) *)
Theorem C03_unpad_padded : forall m n, 1 <= n -> pkcs5_unpad (m ++ repeat n (Z.to_nat n)) = Some m.
Proof. exact unpad_padded. Qed.
Print Assumptions C03_unpad_padded.
Theorem C03_unpad_pad40 : forall m, (length m < 40)%nat ->
  pkcs5_unpad (rfc_pad40 m) = Some m /\ length (rfc_pad40 m) = 40%nat.
Proof. exact unpad_pad40. Qed.
Print Assumptions C03_unpad_pad40.
Theorem C03_pad40_rfc_amounts : forall m,
  (length m = 19%nat -> rfc_pad40 m = m ++ repeat 21 21) /\ (length m = 27%nat -> rfc_pad40 m = m ++ repeat 13 13) /\
  (length m = 35%nat -> rfc_pad40 m = m ++ repeat 5 5).
Proof. exact unpad_pad40_rfc_amounts. Qed.
Print Assumptions C03_pad40_rfc_amounts.
(* regression (repair 830c52d): the unpadder used before refused the 40-octet forms of AES-128 and AES-192 keys *)
Theorem C03_unpad_old_pad40_refuted :
  pkcs5_unpad_old (rfc_pad40 (repeat 7 19)) = None /\ pkcs5_unpad_old (rfc_pad40 (repeat 8 27)) = None /\
  pkcs5_unpad (rfc_pad40 (repeat 7 19)) = Some (repeat 7 19) /\ pkcs5_unpad (rfc_pad40 (repeat 8 27)) = Some (repeat 8 27).
Proof. exact unpad_old_pad40_refuted. Qed.
Print Assumptions C03_unpad_old_pad40_refuted.

(* ---------- RFC 6637 ---------- *)
Theorem C03_ecdh_param_eq_rfc6637 : forall oid halg kek fp, ecdh_param oid halg kek fp = rfc_param oid halg kek fp.
Proof. exact ecdh_param_eq_rfc6637. Qed.
Print Assumptions C03_ecdh_param_eq_rfc6637.
(* the key-derivation call is one hash over 00 00 00 01 || Z || Param whenever the KEK is no longer than the digest *)
Theorem C03_kdf_eq_rfc6637 : forall hash halg s len param d,
  hash halg ([0; 0; 0; 1] ++ s ++ param) = Some d -> (0 < len <= length d)%nat ->
  ecdh_kdf hash halg s len param = Some (rfc_kdf (hash_total hash halg) s len param).
Proof. exact kdf_eq_rfc6637. Qed.
Print Assumptions C03_kdf_eq_rfc6637.

(* ---------- public-key encrypted session key: RSA and ECDH compositions ---------- *)
(* decrypt_sk "pads up ct with null bytes": the primitive receives exactly the octets the encryption produced, also
   when they start with zero octets (1 in 256 ciphertexts) *)
Theorem C03_rsa_ct_restore : forall c k, wf_bytes c -> length c = k -> Z.of_nat k < 8192 ->
  zeros (Z.of_nat k - Z.of_nat (length (mpi_body (bytes_to_int c)))) ++ mpi_body (bytes_to_int c) = c.
Proof. exact rsa_ct_restore. Qed.
Print Assumptions C03_rsa_ct_restore.
Theorem C03_pkesk_roundtrip : forall rsa_bits rsa_enc rsa_dec ecdh_gen ecdh_shared hash aes_wrap aes_unwrap,
  rsa_correct rsa_bits rsa_enc rsa_dec -> ecdh_agrees ecdh_gen ecdh_shared -> wrap_inverse aes_wrap aes_unwrap ->
  forall k seed alg sk n e,
  sym_valid alg = true -> key_octets alg = Some n -> length sk = n ->
  pkesk_encrypt rsa_enc ecdh_gen hash aes_wrap k seed alg sk = Ok e ->
  exists c, e = PK (k_id k) (k_alg k) c /\
            pkesk_decrypt_sk rsa_bits rsa_dec ecdh_shared hash aes_unwrap k (k_alg k) c = Ok (alg, sk).
Proof. exact pkesk_roundtrip. Qed.
Print Assumptions C03_pkesk_roundtrip.

(* what an RFC 6637 sender that hides the key size writes (m padded to `total` octets before the key wrap; 40 in the RFC's
   example) is read back by decrypt_sk as well: every cipher with a key size, every total that leaves room for one octet *)
Theorem C03_pkesk_padded_roundtrip : forall rsa_bits rsa_dec ecdh_gen ecdh_shared hash aes_wrap aes_unwrap,
  ecdh_agrees ecdh_gen ecdh_shared -> wrap_inverse aes_wrap aes_unwrap ->
  forall total k seed alg sk n e,
  sym_valid alg = true -> key_octets alg = Some n -> length sk = n -> Z.of_nat n + 3 < total ->
  pkesk_encrypt_to ecdh_gen hash aes_wrap total k seed alg sk = Ok e ->
  exists c, e = PK (k_id k) 18 c /\
            pkesk_decrypt_sk rsa_bits rsa_dec ecdh_shared hash aes_unwrap k 18 c = Ok (alg, sk).
Proof. exact pkesk_padded_roundtrip. Qed.
Print Assumptions C03_pkesk_padded_roundtrip.
Theorem C03_pad_to_40_eq_rfc : forall m, pkcs5_pad_to 40 m = rfc_pad40 m.
Proof. exact pad_to_40. Qed.
Print Assumptions C03_pad_to_40_eq_rfc.

(* regression (repair 9a4ce40): the width used before, bits / 8, is one octet short for a modulus that is no multiple of 8 bits
   long; a ciphertext with a leading zero octet then reached the primitive too short (15-bit toy modulus, ciphertext 00 05) *)
Theorem C03_rsa_pad_old_refuted :
  rsa_ct_padded (15 / 8) (bytes_to_int [0; 5]) = [5] /\ rsa_ct_padded ((15 + 7) / 8) (bytes_to_int [0; 5]) = [0; 5] /\
  let bits := fun _ : bytes => 15 in
  let dec := fun (_ c : bytes) => if (length c =? 2)%nat then Some c else None in
  rsa_decrypt_m_old bits dec [] (bytes_to_int [0; 5]) = Raise EPrim /\ rsa_decrypt_m bits dec [] (bytes_to_int [0; 5]) = Ok [0; 5].
Proof. exact rsa_pad_old_refuted. Qed.
Print Assumptions C03_rsa_pad_old_refuted.

(* ---------- symmetric-key encrypted session key ---------- *)
(* any algorithm octet in front of the session key (PGPy writes its own cipher; others write a different one) *)
Theorem C03_skesk_roundtrip : forall cfb_enc cfb_dec s2k, cfb_inverse cfb_enc cfb_dec -> cfb_keeps_length cfb_dec ->
  forall outer inner sp pass sk e,
  sym_valid inner = true ->
  skesk_encrypt_gen cfb_enc s2k outer inner sp pass sk = Ok e ->
  exists c, e = SK outer sp c /\ skesk_decrypt_sk cfb_dec s2k outer sp c pass = Ok (inner, sk).
Proof. exact skesk_gen_roundtrip. Qed.
Print Assumptions C03_skesk_roundtrip.
(* no encrypted session key: the S2K output is the session key, the packet's cipher the data cipher *)
Theorem C03_skesk_direct : forall cfb_dec s2k symalg sp pass,
  skesk_decrypt_sk cfb_dec s2k symalg sp [] pass = bind (s2k_derive s2k symalg sp pass) (fun k => Ok (symalg, k)).
Proof. exact skesk_direct. Qed.
Print Assumptions C03_skesk_direct.

(* ---------- whole messages, one or many recipients mixing keys and passphrases ---------- *)
(* Every key recipient — holding the recipient key as primary key or as any of its subkeys — decrypts to exactly the
   plaintext packets that were encrypted.  Key ids must identify keys among the recipients and the holder's
   key packets (PGPKey.decrypt selects by key id). *)
Theorem C03_message_roundtrip_key :
  forall sha1 cfb_enc cfb_dec rsa_bits rsa_enc rsa_dec ecdh_gen ecdh_shared hash aes_wrap aes_unwrap s2k,
  sha1_20 sha1 -> cfb_inverse cfb_enc cfb_dec -> cfb_keeps_length cfb_dec ->
  rsa_correct rsa_bits rsa_enc rsa_dec -> ecdh_agrees ecdh_gen ecdh_shared -> wrap_inverse aes_wrap aes_unwrap ->
  forall alg sk iv m rs n es ct,
  sym_valid alg = true -> key_octets alg = Some n -> length sk = n -> length iv = block_octets alg ->
  encrypt_to sha1 cfb_enc rsa_enc ecdh_gen hash aes_wrap s2k alg sk iv rs m = Ok (es, Some ct) ->
  forall holder : fullkey,
  (forall k1 k2,
     ((exists s, In (RKey k1 s) rs) \/ k1 = fk_key holder \/ In k1 (fk_subs holder)) ->
     ((exists s, In (RKey k2 s) rs) \/ k2 = fk_key holder \/ In k2 (fk_subs holder)) ->
     k_id k1 = k_id k2 -> k1 = k2) ->
  forall k seed, In (RKey k seed) rs -> (k = fk_key holder \/ In k (fk_subs holder)) ->
  decrypt_with sha1 cfb_dec rsa_bits rsa_dec ecdh_shared hash aes_unwrap s2k (SKey holder) (es, Some ct)
  = Ok m.
Proof. exact message_roundtrip_key. Qed.
Print Assumptions C03_message_roundtrip_key.

(* Every passphrase recipient decrypts to the same.  PGPMessage.decrypt tries the SKESK packets in order and takes the
   first that passes the integrity gate, so the statement needs: the packets of the OTHER passphrase recipients,
   tried with this passphrase, are refused by an exception the loop catches (bad algorithm octet, bad key size, MDC
   mismatch).  That a wrong key passes the SHA-1 gate by accident is not excluded by structure — it is the strength
   of SHA-1/CFB (see C04) — hence a premise, shown satisfiable in C03_run_example. *)
Theorem C03_message_roundtrip_pass :
  forall sha1 cfb_enc cfb_dec rsa_bits rsa_enc rsa_dec ecdh_gen ecdh_shared hash aes_wrap aes_unwrap s2k,
  sha1_20 sha1 -> cfb_inverse cfb_enc cfb_dec -> cfb_keeps_length cfb_dec ->
  rsa_correct rsa_bits rsa_enc rsa_dec -> ecdh_agrees ecdh_gen ecdh_shared -> wrap_inverse aes_wrap aes_unwrap ->
  forall alg sk iv m rs n es ct,
  sym_valid alg = true -> key_octets alg = Some n -> length sk = n -> length iv = block_octets alg ->
  encrypt_to sha1 cfb_enc rsa_enc ecdh_gen hash aes_wrap s2k alg sk iv rs m = Ok (es, Some ct) ->
  forall p sp,
  (forall p' sp' e', In (RPass p' sp') rs -> skesk_encrypt cfb_enc s2k alg sp' p' sk = Ok e' -> (p', sp') <> (p, sp) ->
     exists x, skesk_try sha1 cfb_dec s2k e' p ct = Raise x /\ caught x = true) ->
  In (RPass p sp) rs ->
  decrypt_with sha1 cfb_dec rsa_bits rsa_dec ecdh_shared hash aes_unwrap s2k (SPass p) (es, Some ct)
  = Ok m.
Proof. exact message_roundtrip_pass. Qed.
Print Assumptions C03_message_roundtrip_pass.


(* ---------- packet codecs: from octets to octets ---------- *)
(* shape of the data the emitter is used on: 8-octet key ids; RSA values / EC points (04||X||Y or 40||X) that fit an
   MPI; wrapped key shorter than 256 octets; ANY octets under an algorithm id without ciphertext class (another
   recipient's session key: every id but 1, 2, 16, 18, 20 -- listed in PubKeyAlgorithm or not); S2K specifiers simple /
   salted / iterated with an 8-octet salt *)
Definition C03_wf_pkct (a : Z) (ct : pkct) : Prop :=
  match ct with
  | CRsa v => (a = 1 \/ a = 2) /\ 0 <= v /\ bit_length v < 65536
  | CEcdh xy c => a = 18 /\ wf_bytes xy /\ Z.of_nat (length xy) <= 8000 /\ (length c < 256)%nat /\
                  exists r, (xy = 4 :: r /\ Nat.even (length r) = true) \/ xy = 64 :: r
  | COpaque x => pk_class a = false
  | _ => False
  end.
Definition C03_wf_spec (sp : s2kspec) : Prop :=
  hash_valid (s_hash sp) = true /\
  ((s_type sp = 0 /\ s_salt sp = [] /\ s_count sp = 0) \/
   (s_type sp = 1 /\ length (s_salt sp) = 8%nat /\ s_count sp = 0) \/
   (s_type sp = 3 /\ length (s_salt sp) = 8%nat)).
Definition C03_wf_esk (e : esk) : Prop :=
  match e with
  | PK id a ct => length id = 8%nat /\ C03_wf_pkct a ct
  | SK a sp ct => sym_valid a = true /\ C03_wf_spec sp
  end.
(* the model of PGPMessage.parse reads back exactly the session-key list and encrypted data that were written
   (new-format headers of every length class, MPIs, EC points, S2K specifiers; following packets untouched) *)
Theorem C03_msg_codec_roundtrip : forall es c b,
  Forall C03_wf_esk es -> msg_emit (es, Some c) = Ok b -> Z.of_nat (length b) < 4294967296 ->
  msg_parse b = Ok (es, Some c).
Proof. exact msg_codec_roundtrip. Qed.
Print Assumptions C03_msg_codec_roundtrip.

(* a session key packet PGPy cannot use itself (algorithm without ciphertext class, listed or not; any octets after the
   algorithm octet) is read back exactly as written, the packets after it untouched: it stays in the message for its
   recipient (repairs 3c26ab3, 0f569a7, f2ab7da) *)
Theorem C03_opaque_pkesk_roundtrip : forall id a x p rest fuel acc ct,
  length id = 8%nat -> pk_class a = false -> esk_packet (PK id a (COpaque x)) = Ok p -> Z.of_nat (length p) < 4294967296 ->
  msg_parse_loop (S fuel) (p ++ rest) acc ct = msg_parse_loop fuel rest (acc ++ [PK id a (COpaque x)]) ct.
Proof. exact opaque_pkesk_roundtrip. Qed.
Print Assumptions C03_opaque_pkesk_roundtrip.
Theorem C03_opaque_pkesk_alone : forall id a x p,
  length id = 8%nat -> pk_class a = false -> esk_packet (PK id a (COpaque x)) = Ok p -> Z.of_nat (length p) < 4294967296 ->
  msg_parse p = Ok ([PK id a (COpaque x)], None).
Proof. exact opaque_pkesk_alone. Qed.
Print Assumptions C03_opaque_pkesk_alone.
Example C03_opaque_premises : pk_class 22 = false /\ pk_class 100 = false /\ pk_class 0 = false /\
  exists p, esk_packet (PK [1; 2; 3; 4; 5; 6; 7; 8] 100 (COpaque [7; 8; 9])) = Ok p.
Proof. repeat split. eexists. vm_compute. reflexivity. Qed.
(* regression: the reader before these repairs lost the octets of a listed algorithm without class (here it did not even
   take them off the buffer) and wrote zeros for them, and refused an unlisted algorithm id -- and the message with it *)
Theorem C03_pkesk_parse_old_refuted :
  let h := {| h_lenfmt := 1; h_tag := 1; h_llen := 1; h_len := 13 |} in
  let id := [1; 2; 3; 4; 5; 6; 7; 8] in
  pkesk_parse_old h (id ++ [22; 7; 8; 9]) = Ok (PK id 22 (COpaque [0; 0; 0]), [7; 8; 9]) /\
  pkesk_parse_old h (id ++ [100; 7; 8; 9]) = Raise EPGP /\
  pkesk_parse h (id ++ [22; 7; 8; 9]) = Ok (PK id 22 (COpaque [7; 8; 9]), []) /\
  pkesk_parse h (id ++ [100; 7; 8; 9]) = Ok (PK id 100 (COpaque [7; 8; 9]), []).
Proof. exact pkesk_parse_old_refuted. Qed.
Print Assumptions C03_pkesk_parse_old_refuted.

Definition ecdh_point_encoded (ecdh_gen : bytes -> bytes -> option (bytes * bytes)) : Prop :=
  forall h seed v s, ecdh_gen h seed = Some (v, s) ->
    wf_bytes v /\ Z.of_nat (length v) <= 8000 /\ exists r, (v = 4 :: r /\ Nat.even (length r) = true) \/ v = 64 :: r.
Definition wrap_short (aes_wrap : bytes -> bytes -> option bytes) : Prop :=
  forall z x c, aes_wrap z x = Some c -> (length c < 256)%nat.
Definition C03_wf_recipient (r : recipient) : Prop :=
  match r with RPass _ sp => C03_wf_spec sp | RKey k _ => length (k_id k) = 8%nat end.

Example C03_codec_premises_satisfiable : ecdh_point_encoded t_ecdh_gen /\ wrap_short t_wrap.
Proof. split; [exact t_ecdh_point|exact t_wrap_short]. Qed.

(* octets to octets: what encrypt_to builds, written out, read by the parser model and decrypted by a key recipient *)
Theorem C03_wire_roundtrip_key :
  forall sha1 cfb_enc cfb_dec rsa_bits rsa_enc rsa_dec ecdh_gen ecdh_shared hash aes_wrap aes_unwrap s2k,
  sha1_20 sha1 -> cfb_inverse cfb_enc cfb_dec -> cfb_keeps_length cfb_dec ->
  rsa_correct rsa_bits rsa_enc rsa_dec -> ecdh_agrees ecdh_gen ecdh_shared -> ecdh_point_encoded ecdh_gen ->
  wrap_inverse aes_wrap aes_unwrap -> wrap_short aes_wrap ->
  forall alg sk iv m rs n es ct b,
  sym_valid alg = true -> key_octets alg = Some n -> length sk = n -> length iv = block_octets alg ->
  Forall C03_wf_recipient rs ->
  encrypt_to sha1 cfb_enc rsa_enc ecdh_gen hash aes_wrap s2k alg sk iv rs m = Ok (es, Some ct) ->
  msg_emit (es, Some ct) = Ok b -> Z.of_nat (length b) < 4294967296 ->
  forall holder k seed,
  (forall k1 k2,
     ((exists s, In (RKey k1 s) rs) \/ k1 = fk_key holder \/ In k1 (fk_subs holder)) ->
     ((exists s, In (RKey k2 s) rs) \/ k2 = fk_key holder \/ In k2 (fk_subs holder)) ->
     k_id k1 = k_id k2 -> k1 = k2) ->
  In (RKey k seed) rs -> (k = fk_key holder \/ In k (fk_subs holder)) ->
  bind (msg_parse b) (decrypt_with sha1 cfb_dec rsa_bits rsa_dec ecdh_shared hash aes_unwrap s2k (SKey holder))
  = Ok m.
Proof. exact wire_roundtrip_key. Qed.
Print Assumptions C03_wire_roundtrip_key.

Theorem C03_wire_roundtrip_pass :
  forall sha1 cfb_enc cfb_dec rsa_bits rsa_enc rsa_dec ecdh_gen ecdh_shared hash aes_wrap aes_unwrap s2k,
  sha1_20 sha1 -> cfb_inverse cfb_enc cfb_dec -> cfb_keeps_length cfb_dec ->
  rsa_correct rsa_bits rsa_enc rsa_dec -> ecdh_agrees ecdh_gen ecdh_shared -> ecdh_point_encoded ecdh_gen ->
  wrap_inverse aes_wrap aes_unwrap -> wrap_short aes_wrap ->
  forall alg sk iv m rs n es ct b,
  sym_valid alg = true -> key_octets alg = Some n -> length sk = n -> length iv = block_octets alg ->
  Forall C03_wf_recipient rs ->
  encrypt_to sha1 cfb_enc rsa_enc ecdh_gen hash aes_wrap s2k alg sk iv rs m = Ok (es, Some ct) ->
  msg_emit (es, Some ct) = Ok b -> Z.of_nat (length b) < 4294967296 ->
  forall p sp,
  (forall p' sp' e', In (RPass p' sp') rs -> skesk_encrypt cfb_enc s2k alg sp' p' sk = Ok e' -> (p', sp') <> (p, sp) ->
     exists x, skesk_try sha1 cfb_dec s2k e' p ct = Raise x /\ caught x = true) ->
  In (RPass p sp) rs ->
  bind (msg_parse b) (decrypt_with sha1 cfb_dec rsa_bits rsa_dec ecdh_shared hash aes_unwrap s2k (SPass p))
  = Ok m.
Proof. exact wire_roundtrip_pass. Qed.
Print Assumptions C03_wire_roundtrip_pass.

(* a state in which all of the above can be evaluated: two passphrases, an RSA key, an ECDH subkey; every recipient
   decrypts, a wrong passphrase and a stranger's key do not, and the premise of the passphrase theorem holds *)
Example C03_run_example :
  exists es ct, t_encrypt = Ok (es, Some ct) /\ length es = 4%nat /\
    t_decrypt (SPass [112; 119]) (es, Some ct) = Ok t_target /\
    t_decrypt (SPass [113]) (es, Some ct) = Ok t_target /\
    t_decrypt (SKey {| fk_key := t_key1; fk_subs := [] |}) (es, Some ct) = Ok t_target /\
    t_decrypt (SKey t_holder) (es, Some ct) = Ok t_target /\
    t_decrypt (SPass [114]) (es, Some ct) = Raise EDecrypt /\
    t_decrypt (SKey t_stranger) (es, Some ct) = Raise EPGP /\
    (forall e', In e' es -> is_sk e' = true ->
       skesk_try t_sha1 t_cfb_dec t_s2k e' [113] ct = Ok t_target \/
       exists x, skesk_try t_sha1 t_cfb_dec t_s2k e' [113] ct = Raise x /\ caught x = true).
Proof. exact toy_run. Qed.

(* regression (defect F10, repaired in /repo): the old scan of the session-key list died with AttributeError on the
   first passphrase packet, so a key recipient could not read a message that also had a passphrase recipient *)
Theorem C03_mixed_recipients_prefix_refuted :
  forall sha1 cfb_dec rsa_bits rsa_dec ecdh_shared hash aes_unwrap k a sp c r ct,
  key_decrypt_leaf_prefix sha1 cfb_dec rsa_bits rsa_dec ecdh_shared hash aes_unwrap k (SK a sp c :: r) ct = Raise EAttr.
Proof. exact mixed_recipients_prefix_refuted. Qed.
Print Assumptions C03_mixed_recipients_prefix_refuted.
