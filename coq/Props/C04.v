(* C04 — Ciphertext integrity: tampered or mis-keyed encrypted messages never decrypt.
   Statements only; every proof is `exact <lemma>` into Proofs/Encrypt_lemmas*.v.  Model: Model/Encrypt.v (shared with C03).

   WHAT IS PROVED (for all inputs, with the primitives as arbitrary functions): the STRUCTURE of every path on which a
   decrypt entry point returns a plaintext — there is exactly one way through IntegrityProtectedSKEDataV1.decrypt
   (trailing 22 octets = D3 14 || SHA-1 of everything before the digest, and the repeated prefix octets), one way
   through PKESessionKeyV3.decrypt_sk (a key of the cipher's length and the 16-bit checksum), one through the PKCS#5 unpadder; PGPKey.decrypt and
   PGPMessage.decrypt return a plaintext only through these gates, and a key that is no recipient / a failing
   passphrase ends in an exception.  These are the statements that removing or inverting the MDC comparison, the
   quick check, the checksum test or the recipient match falsifies.

   WHAT IS NOT A THEOREM (PARTIAL): that an adversary cannot FIND another ciphertext, session-key packet or passphrase
   whose decryption passes the gate.  That is the strength of SHA-1 over CFB-encrypted data (and of the 16-bit
   checksum under RSA/AES-key-wrap), not a property of PGPy's code; it is explored by the fault enumeration of the
   harness (every single-bit flip, truncation, splice, ... on real ciphertexts) and never proved here.
   Also outside: the legacy Symmetrically Encrypted Data packet (tag 9, no MDC) which PGPy still decrypts. *)
From Coq Require Import ZArith List Bool.
Import ListNotations.
Require Import PV.Lib.Bytes PV.Model.Wire PV.Model.Encrypt PV.Spec.Rfc4880_enc PV.Spec.Rfc6637
  PV.Proofs.Encrypt_lemmas PV.Proofs.Encrypt_lemmas2.
Open Scope Z_scope.

(* ---------- the SEIPD gate ---------- *)
(* decrypt returns p IFF the cipher produced some pt whose last 22 octets are D3 14 || SHA-1(pt without its last 20
   octets), and, with body := pt without those 22 octets, octets bs-1, bs of body equal octets bs+1, bs+2, and p is body
   without its first bs+2 octets.  No other path to Ok. *)
Theorem C04_seipd_accept_iff : forall sha1 cfb_dec alg key ct p,
  seipd_decrypt sha1 cfb_dec alg key ct = Ok p <->
  exists pt, cfb_dec alg key ct = Some pt /\
    lastn 22 pt = [211; 20] ++ sha1 (firstn (length pt - 20) pt) /\
    lastn 2 (firstn (block_octets alg) (firstn (length pt - 22) pt))
      = firstn 2 (skipn (block_octets alg) (firstn (length pt - 22) pt)) /\
    p = skipn 2 (skipn (block_octets alg) (firstn (length pt - 22) pt)).
Proof. exact seipd_accept_iff. Qed.
Print Assumptions C04_seipd_accept_iff.

(* the first condition is exactly RFC 4880 5.13/5.14's valid MDC: the text ends in an MDC packet with the two-octet
   header D3 14 whose 20-octet body is the SHA-1 of all that precedes the body *)
Theorem C04_gate_eq_rfc_mdc : forall sha1, (forall x, length (sha1 x) = 20%nat) -> forall pt,
  lastn 22 pt = [211; 20] ++ sha1 (firstn (length pt - 20) pt) <-> rfc_mdc_valid sha1 pt.
Proof. exact gate_mdc_eq_rfc. Qed.
Print Assumptions C04_gate_eq_rfc_mdc.

(* every refusal is PGPDecryptionError, except a cipher that cannot be set up *)
Theorem C04_seipd_reject_kinds : forall sha1 cfb_dec alg key ct e,
  seipd_decrypt sha1 cfb_dec alg key ct = Raise e -> e = EDecrypt \/ (e = EPrim /\ cfb_dec alg key ct = None).
Proof. exact seipd_reject_kinds. Qed.
Print Assumptions C04_seipd_reject_kinds.

(* encrypted data shorter than an MDC packet is never accepted (CFB keeps lengths) ... *)
Theorem C04_seipd_short_rejects : forall sha1 cfb_dec, (forall x, length (sha1 x) = 20%nat) ->
  (forall a k c x, cfb_dec a k c = Some x -> length x = length c) ->
  forall alg key ct p, (length ct < 22)%nat -> seipd_decrypt sha1 cfb_dec alg key ct <> Ok p.
Proof. exact seipd_short_rejects. Qed.
Print Assumptions C04_seipd_short_rejects.
(* ... and whatever is accepted is an MDC packet alone (empty text without prefix: the one degenerate form the code
   lets through) or has room for prefix, repeat and MDC: nothing of the MDC packet is ever read as prefix *)
Theorem C04_seipd_accept_lengths : forall sha1 cfb_dec, (forall x, length (sha1 x) = 20%nat) ->
  (forall a k c x, cfb_dec a k c = Some x -> length x = length c) ->
  forall alg key ct p, (2 <= block_octets alg)%nat ->
  seipd_decrypt sha1 cfb_dec alg key ct = Ok p ->
  (length ct = 22%nat /\ p = []) \/ (block_octets alg + 2 + 22 <= length ct)%nat.
Proof. exact seipd_accept_lengths. Qed.
Print Assumptions C04_seipd_accept_lengths.

(* ---------- the session-key checksum gate ---------- *)
(* (the key must have the full length of the cipher's key: an m cut off inside the key is refused, repair 774c7db) *)
Theorem C04_pkesk_open_accept_iff : forall m a k,
  pkesk_open m = Ok (a, k) <->
  exists r n, m = a :: r /\ sym_valid a = true /\ key_octets a = Some n /\ k = firstn n r /\ length k = n /\
              sumz k mod 65536 = bytes_to_int (firstn 2 (skipn n r)).
Proof. exact pkesk_open_accept_iff. Qed.
Print Assumptions C04_pkesk_open_accept_iff.
(* every refusal behind the primitive is PGPDecryptionError: an empty m, an octet that is no cipher, a cipher without a
   key size, a short key, a wrong checksum *)
Theorem C04_pkesk_open_reject_kinds : forall m e, pkesk_open m = Raise e -> e = EDecrypt.
Proof. exact pkesk_open_reject_kinds. Qed.
Print Assumptions C04_pkesk_open_reject_kinds.
(* regression: what the tail of decrypt_sk did before that repair, on the same inputs *)
Theorem C04_pkesk_open_old_refuted :
  pkesk_open_old [] = Raise EIndex /\ pkesk_open_old [5] = Raise EValue /\ pkesk_open_old [1] = Ok (1, []) /\
  pkesk_open_old [0] = Raise ENotImpl /\ pkesk_open_old [9; 0; 0] = Ok (9, [0; 0]) /\
  pkesk_open [] = Raise EDecrypt /\ pkesk_open [5] = Raise EDecrypt /\ pkesk_open [1] = Raise EDecrypt /\
  pkesk_open [0] = Raise EDecrypt /\ pkesk_open [9; 0; 0] = Raise EDecrypt.
Proof. exact pkesk_open_old_refuted. Qed.
Print Assumptions C04_pkesk_open_old_refuted.

(* ---------- PKCS#5 unpadding after AES key unwrap (ECDH) ---------- *)
(* accepted IFF the string is some m followed by n >= 1 octets of value n (RFC 6637 section 8 does not bound n by 8: the
   sender may pad up to 40 octets; the 8-octet granularity of the whole is AES key wrap's, not the unpadder's) *)
Theorem C04_unpad_accept_inv : forall p m, pkcs5_unpad p = Some m -> rfc_pkcs5_padded p m.
Proof. exact unpad_accept_inv. Qed.
Print Assumptions C04_unpad_accept_inv.
Theorem C04_unpad_accept_iff : forall p m, pkcs5_unpad p = Some m <-> rfc_pkcs5_padded p m.
Proof. exact unpad_accept_iff. Qed.
Print Assumptions C04_unpad_accept_iff.
(* the unpadder used before repair 830c52d accepted only the 8-granular form with n <= 8 *)
Theorem C04_unpad_old_accept_inv : forall p m, pkcs5_unpad_old p = Some m -> rfc_padded_ok p m.
Proof. exact unpad_old_accept_inv. Qed.
Print Assumptions C04_unpad_old_accept_inv.

(* ---------- PGPKey.decrypt ---------- *)
(* a plaintext comes out only through a PKESK addressed to the key id and algorithm of the key itself or of one of its
   subkeys, whose decrypted m passed the checksum gate, and through the SEIPD gate *)
Theorem C04_key_decrypt_ok_inv : forall sha1 cfb_dec rsa_bits rsa_dec ecdh_shared hash aes_unwrap holder es ct pt,
  key_decrypt sha1 cfb_dec rsa_bits rsa_dec ecdh_shared hash aes_unwrap holder (es, Some ct) = Ok pt ->
  exists k c alg key, (k = fk_key holder \/ In k (fk_subs holder)) /\ In (PK (k_id k) (k_alg k) c) es /\
    pkesk_decrypt_sk rsa_bits rsa_dec ecdh_shared hash aes_unwrap k (k_alg k) c = Ok (alg, key) /\
    seipd_decrypt sha1 cfb_dec alg key ct = Ok pt.
Proof. exact key_decrypt_ok_inv. Qed.
Print Assumptions C04_key_decrypt_ok_inv.

(* ... and a PKESK yields a session key only through the checksum gate applied to the output of RSA decryption or of
   ECDH unwrap + unpad; any other public-key algorithm is refused *)
Theorem C04_pkesk_decrypt_sk_ok_inv : forall rsa_bits rsa_dec ecdh_shared hash aes_unwrap k a c alg key,
  pkesk_decrypt_sk rsa_bits rsa_dec ecdh_shared hash aes_unwrap k a c = Ok (alg, key) ->
  exists m, pkesk_open m = Ok (alg, key) /\
    ((a = 1 /\ exists v, c = CRsa v /\ rsa_decrypt_m rsa_bits rsa_dec (k_fp k) v = Ok m) \/
     (a = 18 /\ exists xy w, c = CEcdh xy w /\ ecdh_decrypt_m ecdh_shared hash aes_unwrap k xy w = Ok m)).
Proof. exact pkesk_decrypt_sk_ok_inv. Qed.
Print Assumptions C04_pkesk_decrypt_sk_ok_inv.

(* what decrypt_sk raises when it yields no session key (repair 774c7db): PGPDecryptionError for every failure of a
   primitive (bad PKCS#1 padding, point not on the curve, key unwrap), of the unpadding and of the tail; otherwise only
   NotImplementedError (algorithm neither RSA nor ECDH / KDF cipher without key size), TypeError (ciphertext fields of the
   other algorithm), IndexError (key unwrap returned the EMPTY string -- RFC 3394 never does) *)
Theorem C04_pkesk_decrypt_sk_raise_kinds : forall rsa_bits rsa_dec ecdh_shared hash aes_unwrap k a c e,
  pkesk_decrypt_sk rsa_bits rsa_dec ecdh_shared hash aes_unwrap k a c = Raise e ->
  e = EDecrypt \/
  (e = ENotImpl /\ ((a <> 1 /\ a <> 18) \/ (a = 18 /\ key_octets (k_kdf_enc k) = None))) \/
  (e = EType /\ ((a = 1 /\ forall v, c <> CRsa v) \/ (a = 18 /\ forall xy w, c <> CEcdh xy w))) \/
  (e = EIndex /\ exists xy w z, c = CEcdh xy w /\ aes_unwrap z w = Some []).
Proof. exact pkesk_decrypt_sk_raise_kinds. Qed.
Print Assumptions C04_pkesk_decrypt_sk_raise_kinds.
Theorem C04_pkesk_decrypt_sk_failure_is_decrypt : forall rsa_bits rsa_dec ecdh_shared hash aes_unwrap k a c e,
  (forall z w, aes_unwrap z w <> Some []) ->
  (a = 1 /\ exists v, c = CRsa v) \/ (a = 18 /\ (exists xy w, c = CEcdh xy w) /\ key_octets (k_kdf_enc k) <> None) ->
  pkesk_decrypt_sk rsa_bits rsa_dec ecdh_shared hash aes_unwrap k a c = Raise e -> e = EDecrypt.
Proof. exact pkesk_decrypt_sk_failure_is_decrypt. Qed.
Print Assumptions C04_pkesk_decrypt_sk_failure_is_decrypt.
Example C04_failure_is_decrypt_premises :
  (forall z w, (fun z c : bytes => match skipn (length z) c with [] => None | x => Some x end) z w <> Some []) /\
  key_octets 7 <> None.
Proof. split; [intros z w; destruct (skipn (length z) w); discriminate|discriminate]. Qed.

(* every failure of PGPKey.decrypt on a message with an encrypted data packet: PGPDecryptionError, PGPError (not a
   recipient; a session key packet naming the key id under another algorithm -- StopIteration before the repair), the three
   classes above, or a cipher that cannot be set up for the data *)
Theorem C04_key_decrypt_failure_kinds : forall sha1 cfb_dec rsa_bits rsa_dec ecdh_shared hash aes_unwrap holder es ct x,
  key_decrypt sha1 cfb_dec rsa_bits rsa_dec ecdh_shared hash aes_unwrap holder (es, Some ct) = Raise x ->
  x = EDecrypt \/ x = EPGP \/ x = ENotImpl \/ x = EType \/ x = EIndex \/ x = EPrim.
Proof. exact key_decrypt_failure_kinds. Qed.
Print Assumptions C04_key_decrypt_failure_kinds.
Theorem C04_key_decrypt_leaf_old_refuted : forall sha1 cfb_dec rsa_bits rsa_dec ecdh_shared hash aes_unwrap k id a c ct,
  a <> k_alg k ->
  key_decrypt_leaf_old sha1 cfb_dec rsa_bits rsa_dec ecdh_shared hash aes_unwrap k [PK id a c] ct = Raise EStopIter /\
  key_decrypt_leaf sha1 cfb_dec rsa_bits rsa_dec ecdh_shared hash aes_unwrap k [PK id a c] ct = Raise EPGP.
Proof. exact key_decrypt_leaf_old_refuted. Qed.
Print Assumptions C04_key_decrypt_leaf_old_refuted.

(* a session key packet kept for another recipient (algorithm without ciphertext class: opaque octets) never yields a
   session key, whatever private key is tried and whatever the octets are: decrypt_sk raises *)
Theorem C04_unknown_recipient_does_not_open : forall rsa_bits rsa_dec ecdh_shared hash aes_unwrap k a x,
  exists e, pkesk_decrypt_sk rsa_bits rsa_dec ecdh_shared hash aes_unwrap k a (COpaque x) = Raise e /\ (e = EType \/ e = ENotImpl).
Proof. exact opaque_does_not_open. Qed.
Print Assumptions C04_unknown_recipient_does_not_open.
(* ... hence a message whose public-key session key packets are all of that kind opens for no private key *)
Theorem C04_opaque_only_never_opens : forall sha1 cfb_dec rsa_bits rsa_dec ecdh_shared hash aes_unwrap holder es ct pt,
  (forall id a c, In (PK id a c) es -> exists x, c = COpaque x) ->
  key_decrypt sha1 cfb_dec rsa_bits rsa_dec ecdh_shared hash aes_unwrap holder (es, Some ct) <> Ok pt.
Proof. exact key_decrypt_opaque_only. Qed.
Print Assumptions C04_opaque_only_never_opens.

(* session key packets that are not followed by an encrypted data packet (a message cut right after them): PGPError
   (repair b46a5dd; the input object used to come back as if it were the decrypted message) *)
Theorem C04_key_decrypt_no_data_raises : forall sha1 cfb_dec rsa_bits rsa_dec ecdh_shared hash aes_unwrap holder es,
  es <> [] -> key_decrypt sha1 cfb_dec rsa_bits rsa_dec ecdh_shared hash aes_unwrap holder (es, None) = Raise EPGP.
Proof. exact key_decrypt_no_data_raises. Qed.
Print Assumptions C04_key_decrypt_no_data_raises.

(* a private key none of whose key ids is named by a PKESK raises PGPError, whatever else the message contains *)
Theorem C04_decrypt_wrong_recipient_raises : forall sha1 cfb_dec rsa_bits rsa_dec ecdh_shared hash aes_unwrap holder es ct,
  id_in (k_id (fk_key holder)) (encrypters es) = false ->
  (forall s, In s (fk_subs holder) -> id_in (k_id s) (encrypters es) = false) ->
  key_decrypt sha1 cfb_dec rsa_bits rsa_dec ecdh_shared hash aes_unwrap holder (es, Some ct) = Raise EPGP.
Proof. exact decrypt_wrong_recipient_raises. Qed.
Print Assumptions C04_decrypt_wrong_recipient_raises.
Example C04_wrong_recipient_premises :
  id_in [9; 9] (encrypters [SK 7 {| s_type := 3; s_hash := 8; s_salt := []; s_count := 0 |} []; PK [1; 2] 1 (CRsa 5)]) = false.
Proof. reflexivity. Qed.

(* ---------- PGPMessage.decrypt ---------- *)
(* a plaintext comes out only through one SKESK of the message whose S2K-derived key (or the session key it
   decrypts to) passes the SEIPD gate *)
Theorem C04_decrypt_pass_ok_inv : forall sha1 cfb_dec s2k es ct p pt,
  decrypt_pass sha1 cfb_dec s2k (es, Some ct) p = Ok pt ->
  exists symalg sp c alg key, In (SK symalg sp c) es /\ skesk_decrypt_sk cfb_dec s2k symalg sp c p = Ok (alg, key) /\
    seipd_decrypt sha1 cfb_dec alg key ct = Ok pt.
Proof. exact decrypt_pass_ok_inv. Qed.
Print Assumptions C04_decrypt_pass_ok_inv.

(* the loop converts every caught failure into PGPDecryptionError("Decryption failed"); a message without encrypted
   data is refused with PGPError; nothing else leaves except exception classes the loop does not catch *)
Theorem C04_decrypt_pass_failure_kinds : forall sha1 cfb_dec s2k m p x,
  decrypt_pass sha1 cfb_dec s2k m p = Raise x -> x = EDecrypt \/ x = EPGP \/ caught x = false.
Proof. exact decrypt_pass_failure_kinds. Qed.
Print Assumptions C04_decrypt_pass_failure_kinds.
