(* C05 — The hashed subpacket area is verified verbatim, exactly as received.
   (After the repair "fix: verify and re-export the hashed subpacket area exactly as received".) *)
From Coq Require Import ZArith List Bool.
Import ListNotations.
Require Import PV.Lib.Bytes PV.Model.HashData PV.Proofs.HashData_lemmas.
Open Scope Z_scope.

(* the packet body of every accepted signature is  type, pk alg, hash alg, <hashed region kept by the parser>, rest *)
Theorem C05_hashed_region_verbatim : forall p s, sig_body_parse p = Some s ->
  exists rest, p = [sg_type s; sg_pkalg s; sg_halg s] ++ sp_hashed_raw (sg_sub s) ++ rest.
Proof. exact hashed_region_verbatim. Qed.
Print Assumptions C05_hashed_region_verbatim.

(* what is fed to the hash for the signature's own header and hashed subpackets is literally the received octets *)
Theorem C05_hcontext_is_received : forall p s, sig_body_parse p = Some s ->
  hcontext (fields_of s) = 4 :: firstn (3 + length (sp_hashed_raw (sg_sub s))) p.
Proof. exact hcontext_is_received. Qed.
Print Assumptions C05_hcontext_is_received.

(* the kept region is exactly as long as the declared two-octet count says (an area whose subpackets overrun it is rejected) *)
Theorem C05_hashed_area_length : forall p sp rest, subpackets_parse p = Some (sp, rest) -> (2 <= length p)%nat ->
  length (sp_hashed_raw sp) = (2 + Z.to_nat (unbe (firstn 2 p)))%nat.
Proof. exact hashed_area_length. Qed.
Print Assumptions C05_hashed_area_length.

(* changing any octet of the signed region of an accepted signature changes the hash input, whatever the subjects *)
Theorem C05_signed_region_change_changes_input : forall p p' s s' subj subj' d d',
  sig_body_parse p = Some s -> sig_body_parse p' = Some s' ->
  wf_fields (fields_of s) -> wf_fields (fields_of s') ->
  firstn (3 + length (sp_hashed_raw (sg_sub s))) p <> firstn (3 + length (sp_hashed_raw (sg_sub s'))) p' ->
  hashdata (fields_of s) subj = Some d -> hashdata (fields_of s') subj' = Some d' -> d <> d'.
Proof. exact signed_region_change_changes_input. Qed.
Print Assumptions C05_signed_region_change_changes_input.

(* a concrete accepted packet body: boolean true, unknown flag bits, non-minimal length *)
Example C05_accepts_foreign : exists s, sig_body_parse [19; 22; 8; 0; 12; 2; 4; 1; 2; 27; 255; 255; 0; 0; 0; 1; 101; 0; 0; 171; 205; 0; 1; 1] = Some s
  /\ sp_hashed_raw (sg_sub s) = [0; 12; 2; 4; 1; 2; 27; 255; 255; 0; 0; 0; 1; 101].
Proof. eexists. split; vm_compute; reflexivity. Qed.
