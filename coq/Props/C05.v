(* C05 — The hashed subpacket area is verified verbatim, exactly as received.
   (After the repair "fix: verify and re-export the hashed subpacket area exactly as received".) *)
From Coq Require Import ZArith List Bool.
Import ListNotations.
Require Import PV.Lib.Bytes PV.Model.HashData PV.Model.SubArea PV.Proofs.HashData_lemmas PV.Proofs.SubArea_lemmas.
Open Scope Z_scope.

(* the packet body of every accepted signature is  type, pk alg, hash alg, <hashed region kept by the parser>, rest *)
Theorem C05_hashed_region_verbatim : forall p s, sig_body_parse p = Some s ->
  exists rest, p = [sg_type s; sg_pkalg s; sg_halg s] ++ sp_hashed_raw (sg_sub s) ++ rest.
Proof. exact hashed_region_verbatim. Qed.
Print Assumptions C05_hashed_region_verbatim.

(* what is fed to the hash for the signature's own header and hashed subpackets is literally the received octets *)
Theorem C05_hcontext_is_received : forall p s, sig_body_parse p = Some s ->
  hcontext (fields_of s) = 4 :: firstn (3 + length (sp_hashed_raw (sg_sub s))) p.
Proof. exact hcontext_is_received. Qed.
Print Assumptions C05_hcontext_is_received.

(* the kept region is exactly as long as the declared two-octet count says (an area whose subpackets overrun it is rejected) *)
Theorem C05_hashed_area_length : forall p sp rest, subpackets_parse p = Some (sp, rest) -> (2 <= length p)%nat ->
  length (sp_hashed_raw sp) = (2 + Z.to_nat (unbe (firstn 2 p)))%nat.
Proof. exact hashed_area_length. Qed.
Print Assumptions C05_hashed_area_length.

(* changing any octet of the signed region of an accepted signature changes the hash input, whatever the subjects *)
Theorem C05_signed_region_change_changes_input : forall p p' s s' subj subj' d d',
  sig_body_parse p = Some s -> sig_body_parse p' = Some s' ->
  wf_fields (fields_of s) -> wf_fields (fields_of s') ->
  firstn (3 + length (sp_hashed_raw (sg_sub s))) p <> firstn (3 + length (sp_hashed_raw (sg_sub s'))) p' ->
  hashdata (fields_of s) subj = Some d -> hashdata (fields_of s') subj' = Some d' -> d <> d'.
Proof. exact signed_region_change_changes_input. Qed.
Print Assumptions C05_signed_region_change_changes_input.

(* a concrete accepted packet body: boolean true, unknown flag bits, non-minimal length *)
Example C05_accepts_foreign : exists s, sig_body_parse [19; 22; 8; 0; 12; 2; 4; 1; 2; 27; 255; 255; 0; 0; 0; 1; 101; 0; 0; 171; 205; 0; 1; 1] = Some s
  /\ sp_hashed_raw (sg_sub s) = [0; 12; 2; 4; 1; 2; 27; 255; 255; 0; 0; 0; 1; 101].
Proof. eexists. split; vm_compute; reflexivity. Qed.

(* ---------- the SubPackets object as a state machine (Model/SubArea.v): parse, add subpackets, copy, serialise ---------- *)
(* what a parsed signature feeds to the hash for its hashed area is the received area, for EVERY way the parsed objects
   might serialise (reser), ... *)
Theorem C05_hashed_emit_is_received : forall reser p st rest, sa_parse p = Some (st, rest) ->
  sa_hashed_emit reser st = firstn (Z.to_nat (unbe (firstn 2 p)) + 2) p.
Proof. exact hashed_emit_is_received. Qed.
Print Assumptions C05_hashed_emit_is_received.

(* ... and stays so along every history of copies (PGPKey.pubkey, copy.copy) and additions to the UNHASHED area *)
Theorem C05_parsed_then_history_hashes_received : forall reser p st rest ops,
  sa_parse p = Some (st, rest) -> forallb (fun o => negb (touches_hashed o)) ops = true ->
  sa_hashed_emit reser (sa_run st ops) = firstn (Z.to_nat (unbe (firstn 2 p)) + 2) p.
Proof. exact parsed_then_history_hashes_received. Qed.
Print Assumptions C05_parsed_then_history_hashes_received.

(* no stale octets: after a subpacket was added to the hashed area the received octets of that area are gone *)
Theorem C05_never_stale : forall reser ops s,
  (sa_hraw (sa_run s ops) = None -> sa_hashed_emit reser (sa_run s ops) = reser (sa_h (sa_run s ops))) /\
  (existsb touches_hashed ops = true -> sa_hraw (sa_run s ops) = None) /\
  (existsb touches_unhashed ops = true -> sa_uraw (sa_run s ops) = None).
Proof. exact never_stale. Qed.
Print Assumptions C05_never_stale.

(* the premise is inhabited by a history with a copy and an added unhashed subpacket *)
Example C05_history_example : exists st rest,
  sa_parse [0; 3; 2; 4; 2;  0; 0;  9; 9] = Some (st, rest) /\
  sa_hashed_emit (fun _ => []) (sa_run st [Copy; SetU (16, false, [1; 2; 3; 4; 5; 6; 7; 8]); Copy]) = [0; 3; 2; 4; 2].
Proof. eexists. eexists. split; vm_compute; reflexivity. Qed.
