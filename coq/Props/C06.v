(* C06 -- Secret keys at rest: passphrase protection is correct, checked, wiped after use.
   Statements only; every proof is `exact <lemma>` into Proofs/KeyProtect_lemmas*.v.
   The primitives (CFB mode of every cipher, SHA-1, the S2K derivation) are universally quantified; the two premises used are
   `cfb_dec a k iv (cfb_enc a k iv x) = x` and `length (sha1 x) = 20`.
   PARTIAL: the model is the Python object state (fields, S2K specifier, ciphertext).  CPython heap residue of freed
   integers / bytearrays (the MPI objects dropped by clear(), the plaintext bytearray of decrypt_keyblob, the derived key) is
   outside the model and outside what the harness can observe; the harness checks instead that no secret integer and no octet
   string holding one is REACHABLE from the key object graph after every scope exit.
   Full statement that is out of reach:  "after the scope ends no copy of a secret integer exists in the process memory". *)
From Coq Require Import ZArith List Bool.
Import ListNotations.
Require Import PV.Lib.Bytes PV.Model.Wire PV.Spec.Rfc4880_keyprotect PV.Model.KeyProtect.
Require Import PV.Proofs.KeyProtect_lemmas PV.Proofs.KeyProtect_lemmas2.
Open Scope Z_scope.

Definition prim4 := Z -> bytes -> bytes -> bytes -> bytes.
Definition s2kfn := Z -> Z -> Z -> bytes -> Z -> bytes -> bytes.

(* ---- layout: what encrypt_keyblob + __bytearray__ write is the RFC 4880 5.5.3 secret part (usage 254, iterated+salted S2K) ---- *)
Theorem C06_protect_layout_eq_rfc : forall (cfb_enc : prim4) (sha1 : bytes -> bytes) (s2k : s2kfn) mpis pass iv salt count alg halg,
  wf_mpis mpis ->
  protect cfb_enc sha1 s2k mpis pass iv salt count alg halg
  = rfc_secret_part cfb_enc sha1 254 alg (RIterSalted halg salt count) iv (s2k 3 halg alg salt count pass) mpis.
Proof. exact protect_layout_eq_rfc. Qed.
Print Assumptions C06_protect_layout_eq_rfc.
Example C06_wf_mpis_inhabited : wf_mpis [65537; 0; 2 ^ 2047 + 1].
Proof. repeat constructor; vm_compute; congruence. Qed.

(* the foreign forms the model writes for PGPy to read (usage 254 / 255; simple, salted, iterated) are RFC layouts too *)
Theorem C06_write_form_eq_rfc : forall (cfb_enc : prim4) (sha1 : bytes -> bytes) (s2k : s2kfn) u a sp h salt c iv pass ms,
  wf_mpis ms -> (u = 254 \/ u = 255) -> (sp = 0 /\ salt = [] \/ sp = 1 \/ sp = 3) ->
  write_secret cfb_enc sha1 s2k (WStd u a sp h salt c iv pass) ms
  = rfc_secret_part cfb_enc sha1 u a (spec_of sp h salt c) iv (s2k sp h a salt c pass) ms.
Proof. exact write_form_eq_rfc. Qed.
Print Assumptions C06_write_form_eq_rfc.

(* per-algorithm secret layouts: RSA d,p,q,u; DSA / ElGamal x; ECDSA / EdDSA / ECDH s *)
Theorem C06_nsecret_eq_rfc : forall a, nsecret a = rfc_nsecret a.
Proof. exact nsecret_eq_rfc. Qed.
Print Assumptions C06_nsecret_eq_rfc.

(* ---- round trip: the right passphrase gives back exactly the secret integers (both usage conventions, every S2K type) ---- *)
Theorem C06_unprotect_protect : forall (cfb_enc cfb_dec : prim4) (sha1 : bytes -> bytes) (s2k : s2kfn),
  (forall a k iv x, cfb_dec a k iv (cfb_enc a k iv x) = x) -> (forall x, length (sha1 x) = 20%nat) ->
  forall u a sp h salt c iv pass ms, wf_mpis ms -> (u = 254 \/ u = 255) ->
  unprotect cfb_dec sha1 s2k (length ms) (mk_sblob cfb_enc sha1 s2k u a sp h salt c iv pass ms) pass = Some ms.
Proof. exact unprotect_protect. Qed.
Print Assumptions C06_unprotect_protect.

(* ... and String2Key.parse reads back the header octets it is given (the reader sees the blob the writer meant) *)
Theorem C06_s2k_parse_emit : forall b,
  wf_form (b_usage b) (b_alg b) (b_spec b) (b_halg b) (b_salt b) (b_count b) (b_iv b) ->
  s2k_parse (blob_emit (BStd b)) = Some (inr (BStd b), []).
Proof. exact s2k_parse_emit. Qed.
Print Assumptions C06_s2k_parse_emit.
Example C06_wf_form_inhabited : wf_form 254 9 3 8 [1;2;3;4;5;6;7;8] 255 (repeat 7 16).
Proof.
  split; [left; reflexivity|]. split; [reflexivity|]. split; [exists 16; split; reflexivity|].
  right. right. repeat split.
Qed.
(* GNU stubs (S2K specifier 101: no secret / divert to card): the reader gets back the stub the writer meant, the empty serial
   number included -- since repair 05bf06b the length octet of the serial is written whenever the extension is 2 *)
Theorem C06_s2k_parse_emit_gnu : forall u a ext serial rest, wf_gnu u a ext serial ->
  s2k_parse (blob_emit (BGnu u a ext serial rest)) = Some (inr (BGnu u a ext serial rest), []).
Proof. exact s2k_parse_emit_gnu. Qed.
Print Assumptions C06_s2k_parse_emit_gnu.
Example C06_wf_gnu_inhabited : wf_gnu 255 0 2 [] /\ wf_gnu 254 0 1 [] /\ wf_gnu 255 0 2 [1; 2; 3].
Proof.
  repeat split; try (left; reflexivity); try (right; reflexivity);
    try (left; split; reflexivity); right; (split; [reflexivity | cbn; repeat constructor]).
Qed.
(* the rule before the repair (length octet only for a non-empty serial) does not round-trip *)
Theorem C06_s2k_parse_emit_gnu_old_refuted : exists u a ext serial rest, wf_gnu u a ext serial /\
  s2k_parse (s2k_emit_gnu_old u a ext serial ++ rest) <> Some (inr (BGnu u a ext serial rest), []).
Proof. exact s2k_parse_emit_gnu_old_refuted. Qed.
Print Assumptions C06_s2k_parse_emit_gnu_old_refuted.

(* reader o writer on the octets: parsing what the writer emitted and decrypting with the passphrase gives the integers back *)
Theorem C06_reader_recovers_written : forall (cfb_enc cfb_dec : prim4) (sha1 : bytes -> bytes) (s2k : s2kfn),
  (forall a k iv x, cfb_dec a k iv (cfb_enc a k iv x) = x) -> (forall x, length (sha1 x) = 20%nat) ->
  forall u a sp h salt c iv pass ms, wf_form u a sp h salt c iv -> wf_mpis ms ->
  exists b, s2k_parse (write_secret cfb_enc sha1 s2k (WStd u a sp h salt c iv pass) ms) = Some (inr (BStd b), []) /\
            unprotect cfb_dec sha1 s2k (length ms) b pass = Some ms.
Proof. exact reader_recovers_written. Qed.
Print Assumptions C06_reader_recovers_written.

(* ---- the gate is the only path to acceptance ---- *)
Theorem C06_unprotect_accept_iff : forall (cfb_dec : prim4) (sha1 : bytes -> bytes) (s2k : s2kfn) n b pass ms r,
  unprotect_std cfb_dec sha1 s2k n b pass = UOk ms r <->
  gate sha1 (b_usage b) (decrypt_std cfb_dec s2k b pass) = true /\ parse_mpis n (decrypt_std cfb_dec s2k b pass) = (ms, r).
Proof. exact unprotect_accept_iff. Qed.
Print Assumptions C06_unprotect_accept_iff.
Theorem C06_unprotect_reject_iff : forall (cfb_dec : prim4) (sha1 : bytes -> bytes) (s2k : s2kfn) n b pass,
  unprotect_std cfb_dec sha1 s2k n b pass = UBadPass <-> gate sha1 (b_usage b) (decrypt_std cfb_dec s2k b pass) = false.
Proof. exact unprotect_reject_iff. Qed.
Print Assumptions C06_unprotect_reject_iff.
(* usage 254: the last 20 octets are the SHA-1 of everything before them; usage 255: the last two are the 16-bit sum *)
Theorem C06_gate_254_iff : forall (sha1 : bytes -> bytes) pt,
  gate sha1 254 pt = true <-> lastn 20 pt = sha1 (firstn (length pt - 20) pt).
Proof. exact gate_254_iff. Qed.
Print Assumptions C06_gate_254_iff.
Theorem C06_gate_255_iff : forall (sha1 : bytes -> bytes) pt,
  gate sha1 255 pt = true <-> unbe (lastn 2 pt) = sumz (firstn (length pt - 2) pt) mod 65536.
Proof. exact gate_255_iff. Qed.
Print Assumptions C06_gate_255_iff.

(* ---- the lock automaton over arbitrary histories ---- *)
(* [inv]: no real unlock scope open  ->  every protected packet has all its secret fields zero.
   It holds for every freshly parsed key (empty scope stack, protected packets parsed with zero fields) and is kept by
   EVERY operation: protect (accepted or refused), enter (good / bad passphrase, unprotected subkeys passed over), exit,
   exception in scope, sign, decrypt, export, re-import, add_subkey -- hence after every interleaving. *)
Theorem C06_inv_all_histories : forall (cfb_enc cfb_dec : prim4) (sha1 : bytes -> bytes) (s2k : s2kfn) ops st,
  inv st = true -> inv (run cfb_enc cfb_dec sha1 s2k ops st) = true.
Proof. exact inv_run. Qed.
Print Assumptions C06_inv_all_histories.
Theorem C06_no_open_scope_locked : forall st, inv st = true -> open_scope st = false ->
  forall c, In c (k_pkts st) -> protected c = true -> all_zero c = true /\ exists b, view c = Locked b.
Proof. exact inv_locked. Qed.
Print Assumptions C06_no_open_scope_locked.
Example C06_inv_parsed_key : forall bl ms chk,
  inv {| k_pkts := [ {| p_blob := Some bl; p_fields := [0; 0; 0; 0]; p_chk := [] |}; {| p_blob := None; p_fields := ms; p_chk := chk |} ];
         k_scopes := [] |} = true.
Proof. reflexivity. Qed.

(* every exit of a real unlock scope clears every PROTECTED packet, whatever else is open; key material that is not protected
   (there is no ciphertext to recover it from) is left alone: [relock c = if protected c then clear c else c] (repair e967622) *)
Theorem C06_exit_clears : forall (cfb_enc cfb_dec : prim4) (sha1 : bytes -> bytes) (s2k : s2kfn) st o s,
  exit_op o -> k_scopes st = true :: s ->
  fst (step cfb_enc cfb_dec sha1 s2k st o) = {| k_pkts := map relock (k_pkts st); k_scopes := s |}.
Proof. exact exit_clears. Qed.
Print Assumptions C06_exit_clears.
Theorem C06_relock_spec : forall c, (protected c = true -> relock c = clear c /\ all_zero (relock c) = true) /\ (protected c = false -> relock c = c).
Proof. exact relock_spec. Qed.
Print Assumptions C06_relock_spec.
(* the statement before the repair -- every packet cleared -- is false of the repaired code *)
Theorem C06_exit_clears_all_old_refuted : forall (cfb_enc cfb_dec : prim4) (sha1 : bytes -> bytes) (s2k : s2kfn),
  exists st s, k_scopes st = true :: s /\
  fst (step cfb_enc cfb_dec sha1 s2k st OExit) <> {| k_pkts := map clear (k_pkts st); k_scopes := s |}.
Proof. exact exit_clears_all_old_refuted. Qed.
Print Assumptions C06_exit_clears_all_old_refuted.
(* the witness of e967622: a subkey attached with add_subkey inside the scope keeps its secret integers when the scope ends *)
Theorem C06_subkey_added_in_scope_survives : forall (cfb_enc cfb_dec : prim4) (sha1 : bytes -> bytes) (s2k : s2kfn) st ms chk o s,
  exit_op o -> k_scopes st = true :: s -> primary_unlocked (k_pkts st) = true ->
  fst (step cfb_enc cfb_dec sha1 s2k (fst (step cfb_enc cfb_dec sha1 s2k st (OAddSub ms chk))) o) =
  {| k_pkts := map relock (k_pkts st) ++ [{| p_blob := None; p_fields := ms; p_chk := chk |}]; k_scopes := s |}.
Proof. exact subkey_added_in_scope_survives. Qed.
Print Assumptions C06_subkey_added_in_scope_survives.
(* add_subkey on a key whose primary is unlocked (or not protected) attaches the unprotected packet; on a locked key it is refused
   and -- since repair 163b208 -- leaves the key as it was (before, the packet stayed attached without a binding signature) *)
Theorem C06_add_sub_unlocked : forall (cfb_enc cfb_dec : prim4) (sha1 : bytes -> bytes) (s2k : s2kfn) st ms chk,
  primary_unlocked (k_pkts st) = true ->
  step cfb_enc cfb_dec sha1 s2k st (OAddSub ms chk) =
  ({| k_pkts := k_pkts st ++ [{| p_blob := None; p_fields := ms; p_chk := chk |}]; k_scopes := k_scopes st |}, BDone).
Proof. exact add_sub_unlocked. Qed.
Print Assumptions C06_add_sub_unlocked.
Theorem C06_add_sub_locked_unchanged : forall (cfb_enc cfb_dec : prim4) (sha1 : bytes -> bytes) (s2k : s2kfn) st ms chk,
  primary_unlocked (k_pkts st) = false -> step cfb_enc cfb_dec sha1 s2k st (OAddSub ms chk) = (st, BRefused).
Proof. exact add_sub_locked_unchanged. Qed.
Print Assumptions C06_add_sub_locked_unchanged.
Theorem C06_add_sub_old_refuted : forall (cfb_enc cfb_dec : prim4) (sha1 : bytes -> bytes) (s2k : s2kfn),
  exists st ms chk, primary_unlocked (k_pkts st) = false /\
  k_pkts (fst (add_sub_old st ms chk)) <> k_pkts (fst (step cfb_enc cfb_dec sha1 s2k st (OAddSub ms chk))).
Proof. exact add_sub_old_refuted. Qed.
Print Assumptions C06_add_sub_old_refuted.
(* over ANY history without protect / add_subkey (enter with any passphrase, exits, exceptions, sign, decrypt, export, re-import):
   no at-rest form changes and key material that is not protected is never touched *)
Theorem C06_unprotected_untouched : forall (cfb_enc cfb_dec : prim4) (sha1 : bytes -> bytes) (s2k : s2kfn) ops st,
  forallb keeps_pkts ops = true ->
  Forall2 (fun c c' => p_blob c' = p_blob c /\ (protected c = false -> c' = c)) (k_pkts st) (k_pkts (run cfb_enc cfb_dec sha1 s2k ops st)).
Proof. exact unprotected_untouched. Qed.
Print Assumptions C06_unprotected_untouched.
Example C06_keeps_pkts_ops : forallb keeps_pkts [OEnter [1]; OSign 0; ORaiseInScope; OEnter [2]; ODecrypt 1; OExport; OExit; OReimport] = true.
Proof. reflexivity. Qed.

(* `with key.unlock(p): body` left normally or by an exception -- including the case where entering fails half-way
   through the subkeys (then the finally block has already cleared the protected packets): every protected packet has all its
   secret fields zero and is Locked, and (when the scope was entered) the scope stack is what it was.  The body may protect
   (accepted or refused cipher), sign, decrypt, export and attach subkeys.  (Before e967622 the conclusion was "ALL secret
   fields are zero", which destroyed unprotected subkeys: C06_exit_clears_all_old_refuted.) *)
Theorem C06_scope_exit_locks : forall (cfb_enc cfb_dec : prim4) (sha1 : bytes -> bytes) (s2k : s2kfn) st0 p body o,
  exit_op o -> forallb scope_neutral body = true -> any_protected (k_pkts st0) = true ->
  let st := run cfb_enc cfb_dec sha1 s2k (OEnter p :: body ++ [o]) st0 in
  forallb locked_or_unprot (k_pkts st) = true /\
  (forall c, In c (k_pkts st) -> protected c = true -> all_zero c = true /\ exists b, view c = Locked b) /\
  (forall k', enter_pkts cfb_dec sha1 s2k p (k_pkts st0) = inr k' -> k_scopes st = k_scopes st0).
Proof. exact scope_exit_locks. Qed.
Print Assumptions C06_scope_exit_locks.
Example C06_scope_neutral_body : forallb scope_neutral [OSign 0; ODecrypt 1; OExport; OProtect [1] 9 8 255 []; OAddSub [7] [0; 8]; OProtect [1] 1 8 255 []] = true.
Proof. reflexivity. Qed.

Theorem C06_failed_enter_clears : forall (cfb_enc cfb_dec : prim4) (sha1 : bytes -> bytes) (s2k : s2kfn) st pass kind,
  any_protected (k_pkts st) = true -> enter_pkts cfb_dec sha1 s2k pass (k_pkts st) = inl kind ->
  step cfb_enc cfb_dec sha1 s2k st (OEnter pass) = ({| k_pkts := map relock (k_pkts st); k_scopes := k_scopes st |}, BRaised kind).
Proof. exact failed_enter_clears. Qed.
Print Assumptions C06_failed_enter_clears.
(* entering passes over key material that is not protected (repair e967622); before the repair such a packet raised TypeError *)
Theorem C06_enter_skips_unprotected : forall (cfb_dec : prim4) (sha1 : bytes -> bytes) (s2k : s2kfn) pass c r, p_blob c = None ->
  enter_pkts cfb_dec sha1 s2k pass (c :: r) =
  match enter_pkts cfb_dec sha1 s2k pass r with inr r' => inr (c :: r') | inl k => inl k end.
Proof. exact enter_skips_unprotected. Qed.
Print Assumptions C06_enter_skips_unprotected.
Theorem C06_enter_unprotected_raises_old_refuted : forall (cfb_dec : prim4) (sha1 : bytes -> bytes) (s2k : s2kfn),
  exists c, p_blob c = None /\ forall pass, enter_pkts cfb_dec sha1 s2k pass [c] <> inl 2.
Proof. exact enter_unprotected_raises_old_refuted. Qed.
Print Assumptions C06_enter_unprotected_raises_old_refuted.

(* a locked key refuses private operations: directly, and after any history that leaves no real scope open.  Since repair
   cab6d36 KeyAction checks the component that does the work: a locked COMPONENT (primary or subkey, OSign i / ODecrypt i are
   carried out by packet i) refuses; a locked primary refuses its own signatures and every decryption *)
Theorem C06_locked_component_refuses : forall (cfb_enc cfb_dec : prim4) (sha1 : bytes -> bytes) (s2k : s2kfn) st c i,
  nth_error (k_pkts st) i = Some c -> protected c = true -> all_zero c = true -> p_fields c <> [] ->
  step cfb_enc cfb_dec sha1 s2k st (OSign i) = (st, BRefused) /\ step cfb_enc cfb_dec sha1 s2k st (ODecrypt i) = (st, BRefused).
Proof. exact locked_component_refuses. Qed.
Print Assumptions C06_locked_component_refuses.
Theorem C06_locked_refuses : forall (cfb_enc cfb_dec : prim4) (sha1 : bytes -> bytes) (s2k : s2kfn) st c rest i,
  k_pkts st = c :: rest -> protected c = true -> all_zero c = true -> p_fields c <> [] ->
  step cfb_enc cfb_dec sha1 s2k st (OSign 0) = (st, BRefused) /\ step cfb_enc cfb_dec sha1 s2k st (ODecrypt i) = (st, BRefused).
Proof. exact locked_refuses. Qed.
Print Assumptions C06_locked_refuses.
Theorem C06_locked_refuses_after_any_history : forall (cfb_enc cfb_dec : prim4) (sha1 : bytes -> bytes) (s2k : s2kfn) st0 ops c rest i,
  inv st0 = true -> open_scope (run cfb_enc cfb_dec sha1 s2k ops st0) = false ->
  k_pkts (run cfb_enc cfb_dec sha1 s2k ops st0) = c :: rest -> protected c = true -> p_fields c <> [] ->
  step cfb_enc cfb_dec sha1 s2k (run cfb_enc cfb_dec sha1 s2k ops st0) (OSign 0) = (run cfb_enc cfb_dec sha1 s2k ops st0, BRefused) /\
  step cfb_enc cfb_dec sha1 s2k (run cfb_enc cfb_dec sha1 s2k ops st0) (ODecrypt i) = (run cfb_enc cfb_dec sha1 s2k ops st0, BRefused).
Proof. exact locked_refuses_run. Qed.
Print Assumptions C06_locked_refuses_after_any_history.
Theorem C06_locked_component_refuses_after_any_history : forall (cfb_enc cfb_dec : prim4) (sha1 : bytes -> bytes) (s2k : s2kfn) st0 ops c i,
  inv st0 = true -> open_scope (run cfb_enc cfb_dec sha1 s2k ops st0) = false ->
  nth_error (k_pkts (run cfb_enc cfb_dec sha1 s2k ops st0)) i = Some c -> protected c = true -> p_fields c <> [] ->
  step cfb_enc cfb_dec sha1 s2k (run cfb_enc cfb_dec sha1 s2k ops st0) (OSign i) = (run cfb_enc cfb_dec sha1 s2k ops st0, BRefused) /\
  step cfb_enc cfb_dec sha1 s2k (run cfb_enc cfb_dec sha1 s2k ops st0) (ODecrypt i) = (run cfb_enc cfb_dec sha1 s2k ops st0, BRefused).
Proof. exact locked_component_refuses_run. Qed.
Print Assumptions C06_locked_component_refuses_after_any_history.

(* a wrong passphrase raises (the gate of the first packet it fails on) and leaves a locked key exactly as it was *)
Theorem C06_bad_gate_raises : forall (cfb_dec : prim4) (sha1 : bytes -> bytes) (s2k : s2kfn) pass c rest b,
  p_blob c = Some (BStd b) -> gate sha1 (b_usage b) (decrypt_std cfb_dec s2k b pass) = false ->
  enter_pkts cfb_dec sha1 s2k pass (c :: rest) = inl 1.
Proof. exact bad_gate_raises. Qed.
Print Assumptions C06_bad_gate_raises.
Theorem C06_wrong_pass_stays_locked : forall (cfb_enc cfb_dec : prim4) (sha1 : bytes -> bytes) (s2k : s2kfn) st pass kind,
  any_protected (k_pkts st) = true -> forallb locked_or_unprot (k_pkts st) = true ->
  enter_pkts cfb_dec sha1 s2k pass (k_pkts st) = inl kind ->
  step cfb_enc cfb_dec sha1 s2k st (OEnter pass) = (st, BRaised kind).
Proof. exact wrong_pass_stays_locked. Qed.
Print Assumptions C06_wrong_pass_stays_locked.

(* the right passphrase restores exactly the secret integers of every packet (primary and subkeys) *)
Theorem C06_protect_then_enter : forall (cfb_enc cfb_dec : prim4) (sha1 : bytes -> bytes) (s2k : s2kfn),
  (forall a k iv x, cfb_dec a k iv (cfb_enc a k iv x) = x) -> (forall x, length (sha1 x) = 20%nat) ->
  forall pass alg halg count k rnd, Forall (fun c => wf_mpis (p_fields c)) k ->
  exists k', enter_pkts cfb_dec sha1 s2k pass (protect_pkts cfb_enc sha1 s2k pass alg halg count rnd k) = inr k' /\
             map p_fields k' = map p_fields k /\
             map p_blob k' = map p_blob (protect_pkts cfb_enc sha1 s2k pass alg halg count rnd k).
Proof. exact protect_then_enter. Qed.
Print Assumptions C06_protect_then_enter.
(* a protected primary with subkeys that are not protected unlocks: the protected part is restored, the rest is as it was *)
Theorem C06_mixed_key_enters : forall (cfb_enc cfb_dec : prim4) (sha1 : bytes -> bytes) (s2k : s2kfn),
  (forall a k iv x, cfb_dec a k iv (cfb_enc a k iv x) = x) -> (forall x, length (sha1 x) = 20%nat) ->
  forall pass alg halg count rnd c subs, wf_mpis (p_fields c) -> Forall (fun s => p_blob s = None) subs ->
  enter_pkts cfb_dec sha1 s2k pass (protect_pkt cfb_enc sha1 s2k pass alg halg count rnd c :: subs) =
  inr ({| p_blob := p_blob (protect_pkt cfb_enc sha1 s2k pass alg halg count rnd c); p_fields := p_fields c; p_chk := p_chk c |} :: subs).
Proof. exact mixed_key_enters. Qed.
Print Assumptions C06_mixed_key_enters.

(* ---- a refused protect (Plaintext, IDEA, Twofish256) leaves the key unchanged (repair a3ce830): the state is the same, so
   is every later observation -- the export octets, and which passphrase opens the key ---- *)
Theorem C06_refused_protect_unchanged : forall (cfb_enc cfb_dec : prim4) (sha1 : bytes -> bytes) (s2k : s2kfn) st pass alg halg count rnd,
  can_encrypt alg = false ->
  fst (step cfb_enc cfb_dec sha1 s2k st (OProtect pass alg halg count rnd)) = st /\
  (snd (step cfb_enc cfb_dec sha1 s2k st (OProtect pass alg halg count rnd)) = BWarned \/
   snd (step cfb_enc cfb_dec sha1 s2k st (OProtect pass alg halg count rnd)) = BRaised 2).
Proof. exact refused_protect_unchanged. Qed.
Print Assumptions C06_refused_protect_unchanged.
Theorem C06_refused_protect_invisible : forall (cfb_enc cfb_dec : prim4) (sha1 : bytes -> bytes) (s2k : s2kfn) st pass alg halg count rnd ops,
  can_encrypt alg = false ->
  run cfb_enc cfb_dec sha1 s2k (OProtect pass alg halg count rnd :: ops) st = run cfb_enc cfb_dec sha1 s2k ops st /\
  run_obs cfb_enc cfb_dec sha1 s2k ops (fst (step cfb_enc cfb_dec sha1 s2k st (OProtect pass alg halg count rnd))) = run_obs cfb_enc cfb_dec sha1 s2k ops st.
Proof. exact refused_protect_invisible. Qed.
Print Assumptions C06_refused_protect_invisible.
Theorem C06_accepted_protect : forall (cfb_enc cfb_dec : prim4) (sha1 : bytes -> bytes) (s2k : s2kfn) st pass alg halg count rnd,
  can_encrypt alg = true -> any_locked (k_pkts st) = false ->
  step cfb_enc cfb_dec sha1 s2k st (OProtect pass alg halg count rnd) =
  ({| k_pkts := protect_pkts cfb_enc sha1 s2k pass alg halg count rnd (k_pkts st); k_scopes := k_scopes st |}, BDone).
Proof. exact accepted_protect. Qed.
Print Assumptions C06_accepted_protect.
Example C06_can_encrypt_table : map can_encrypt [0; 1; 2; 3; 4; 7; 8; 9; 10; 11; 12; 13]
  = [false; false; true; true; true; true; true; true; false; true; true; true].
Proof. reflexivity. Qed.

(* ---- export of a protected packet = public header octets + ciphertext: after ANY history, what is written for a protected
   packet is the value of a term in which no secret integer occurs outside the plaintext of a CFB encryption ---- *)
Theorem C06_export_protected_is_public_plus_ciphertext : forall (cfb_enc cfb_dec : prim4) (sha1 : bytes -> bytes) (s2k : s2kfn) st0 ops,
  exists syms, Forall2 (fun c t => protected c = true -> export_secret c = eval cfb_enc sha1 s2k t /\ guarded t = true)
                       (k_pkts (run cfb_enc cfb_dec sha1 s2k ops st0)) syms.
Proof. exact export_protected_symbolic. Qed.
Print Assumptions C06_export_protected_is_public_plus_ciphertext.
Theorem C06_export_obs : forall (cfb_enc cfb_dec : prim4) (sha1 : bytes -> bytes) (s2k : s2kfn) st,
  step cfb_enc cfb_dec sha1 s2k st OExport = (st, BExported (map export_secret (k_pkts st))).
Proof. exact export_obs. Qed.
Print Assumptions C06_export_obs.
(* the term protect creates, and that [guarded] is not vacuous: the clear-text form of an unprotected packet is NOT guarded *)
Theorem C06_protect_sym : forall (cfb_enc : prim4) (sha1 : bytes -> bytes) (s2k : s2kfn) mpis pass iv salt count alg halg,
  eval cfb_enc sha1 s2k (protect_sym mpis pass iv salt count alg halg) = protect cfb_enc sha1 s2k mpis pass iv salt count alg halg
  /\ guarded (protect_sym mpis pass iv salt count alg halg) = true.
Proof. exact protect_sym_ok. Qed.
Print Assumptions C06_protect_sym.
Example C06_guarded_not_vacuous : guarded (sym_of_pkt {| p_blob := None; p_fields := [5]; p_chk := [0; 7] |}) = false.
Proof. reflexivity. Qed.

(* ---- round of repairs 080d1e8 / a8a4c11 / 9a72221 / 8563c06 ---- *)
(* protect refuses (warning, nothing changed) while ANY component is protected and locked; unlock enters when ANY component is
   protected; a GNU-extension stub is passed over by unlock and stays as it is *)
Theorem C06_protect_refused_while_any_locked : forall (cfb_enc cfb_dec : prim4) (sha1 : bytes -> bytes) (s2k : s2kfn) st pass alg halg count rnd,
  any_locked (k_pkts st) = true -> step cfb_enc cfb_dec sha1 s2k st (OProtect pass alg halg count rnd) = (st, BWarned).
Proof. exact protect_refused_while_any_locked. Qed.
Print Assumptions C06_protect_refused_while_any_locked.
Theorem C06_enter_skips_stub : forall (cfb_dec : prim4) (sha1 : bytes -> bytes) (s2k : s2kfn) pass c r u a e sn rs,
  p_blob c = Some (BGnu u a e sn rs) ->
  enter_pkts cfb_dec sha1 s2k pass (c :: r) = match enter_pkts cfb_dec sha1 s2k pass r with inr r' => inr (c :: r') | inl k => inl k end.
Proof. exact enter_skips_stub. Qed.
Print Assumptions C06_enter_skips_stub.
(* the rules before the repairs looked at the primary key only: the old protect on [unprotected primary; locked subkey] is carried
   out and writes for the subkey a ciphertext of its CLEARED fields ([0]) -- the subkey's secret is lost; the old unlock on
   [unprotected primary; protected subkey] only warns *)
Theorem C06_protect_old_refuted : forall (cfb_enc cfb_dec : prim4) (sha1 : bytes -> bytes) (s2k : s2kfn),
  exists st, any_locked (k_pkts st) = true /\
  step cfb_enc cfb_dec sha1 s2k st (OProtect [1] 9 8 96 []) = (st, BWarned) /\
  snd (protect_old cfb_enc sha1 s2k st [1] 9 8 96 []) = BDone /\
  nth_error (k_pkts (fst (protect_old cfb_enc sha1 s2k st [1] 9 8 96 []))) 1 =
    Some {| p_blob := Some (BStd (mk_sblob cfb_enc sha1 s2k 254 9 3 8 [] 96 [] [1] [0])); p_fields := [0]; p_chk := [] |}.
Proof. exact protect_old_refuted. Qed.
Print Assumptions C06_protect_old_refuted.
Theorem C06_enter_old_refuted : forall (cfb_enc cfb_dec : prim4) (sha1 : bytes -> bytes) (s2k : s2kfn),
  exists st pass, any_protected (k_pkts st) = true /\ snd (enter_old cfb_dec sha1 s2k st pass) = BWarned /\
  step cfb_enc cfb_dec sha1 s2k st (OEnter pass) <> enter_old cfb_dec sha1 s2k st pass.
Proof. exact enter_old_refuted. Qed.
Print Assumptions C06_enter_old_refuted.

(* after ANY history (protect accepted / refused / warned, unlock with any passphrase, exits, exceptions, private operations,
   export, re-import, add_subkey) every component still carries its original secret integers: in the clear when it is not
   protected, otherwise inside a ciphertext that decrypts to them; a protected component's fields are those integers or cleared.
   In particular protect never wrote the ciphertext of a locked component's cleared fields.  Premises: the round-trip ones and
   the idealised gate (two accepted passphrases give the same integers). *)
Theorem C06_protect_never_encrypts_a_locked_component : forall (cfb_enc cfb_dec : prim4) (sha1 : bytes -> bytes) (s2k : s2kfn),
  (forall a k iv x, cfb_dec a k iv (cfb_enc a k iv x) = x) -> (forall x, length (sha1 x) = 20%nat) ->
  (forall n b p1 p2 m1 r1 m2 r2, unprotect_std cfb_dec sha1 s2k n b p1 = UOk m1 r1 -> unprotect_std cfb_dec sha1 s2k n b p2 = UOk m2 r2 -> m2 = m1) ->
  forall ops st orig, Forall wf_mpis orig -> faithful cfb_dec sha1 s2k orig (k_pkts st) -> Forall op_wf ops ->
  faithful cfb_dec sha1 s2k (run_orig cfb_enc cfb_dec sha1 s2k ops st orig) (k_pkts (run cfb_enc cfb_dec sha1 s2k ops st)).
Proof. exact protect_never_encrypts_a_locked_component. Qed.
Print Assumptions C06_protect_never_encrypts_a_locked_component.
Theorem C06_faithful_spec : forall (cfb_dec : prim4) (sha1 : bytes -> bytes) (s2k : s2kfn) orig k, faithful cfb_dec sha1 s2k orig k ->
  Forall2 (fun s c => (p_blob c = None -> p_fields c = s) /\
                      (forall b, p_blob c = Some (BStd b) -> exists pass r, unprotect_std cfb_dec sha1 s2k (length s) b pass = UOk s r)) orig k.
Proof. exact faithful_spec. Qed.
Print Assumptions C06_faithful_spec.
(* non-vacuity: the three premises hold for the identity cipher; every unprotected key is faithful to its own fields *)
Example C06_faithful_premises_inhabited :
  (forall a k iv x, triv_cfb a k iv (triv_cfb a k iv x) = x) /\ (forall x, length (triv_sha1 x) = 20%nat) /\
  (forall n b p1 p2 m1 r1 m2 r2, unprotect_std triv_cfb triv_sha1 triv_s2k n b p1 = UOk m1 r1 ->
                                 unprotect_std triv_cfb triv_sha1 triv_s2k n b p2 = UOk m2 r2 -> m2 = m1).
Proof. exact triv_prims_ok. Qed.
Example C06_faithful_initial : forall (cfb_dec : prim4) (sha1 : bytes -> bytes) (s2k : s2kfn) k,
  Forall (fun c => p_blob c = None) k -> faithful cfb_dec sha1 s2k (map p_fields k) k.
Proof. exact unprotected_faithful. Qed.

(* `with key.unlock(p): <sign / decrypt / export>` on a key whose components may be protected differently (unprotected primary,
   protected subkeys, stubs): inside the scope every component that is not protected -- and nothing about any at-rest form -- is as
   it was ([same_unprot]); after the scope (normal exit or exception) the key is EXACTLY what it was *)
Theorem C06_scope_relocks_exactly_what_it_unlocked : forall (cfb_enc cfb_dec : prim4) (sha1 : bytes -> bytes) (s2k : s2kfn) st0 p body o k',
  exit_op o -> forallb reads_only body = true ->
  any_protected (k_pkts st0) = true -> forallb locked_or_unprot (k_pkts st0) = true ->
  enter_pkts cfb_dec sha1 s2k p (k_pkts st0) = inr k' ->
  fst (step cfb_enc cfb_dec sha1 s2k st0 (OEnter p)) = {| k_pkts := k'; k_scopes := true :: k_scopes st0 |} /\
  Forall2 (fun c c' => p_blob c' = p_blob c /\ (protected c = false -> c' = c)) (k_pkts st0) k' /\
  run cfb_enc cfb_dec sha1 s2k (OEnter p :: body ++ [o]) st0 = st0.
Proof. exact scope_relocks_exactly. Qed.
Print Assumptions C06_scope_relocks_exactly_what_it_unlocked.
Example C06_scope_premises_inhabited : forall (cfb_dec : prim4) (sha1 : bytes -> bytes) (s2k : s2kfn),
  let k := [ {| p_blob := None; p_fields := [5]; p_chk := [0; 5] |}; {| p_blob := Some (BGnu 254 0 1 [] []); p_fields := [0]; p_chk := [] |} ] in
  any_protected k = true /\ forallb locked_or_unprot k = true /\ enter_pkts cfb_dec sha1 s2k [1] k = inr k.
Proof. exact scope_premises_inhabited. Qed.

(* the legacy form of RFC 4880 5.5.3 (usage octet = cipher id; key = MD5 simple S2K of the passphrase; IV; 16-bit checksum inside
   the ciphertext): what is written is  usage ‖ IV ‖ CFB(mpis ‖ sum16),  String2Key.parse reads the specifier back, and decryption
   with the passphrase gives the integers back *)
Theorem C06_legacy_usage_roundtrip : forall (cfb_enc cfb_dec : prim4) (sha1 : bytes -> bytes) (s2k : s2kfn),
  (forall a k iv x, cfb_dec a k iv (cfb_enc a k iv x) = x) -> (forall x, length (sha1 x) = 20%nat) ->
  forall u iv pass ms, wf_legacy u iv -> wf_mpis ms ->
  let b := mk_sblob cfb_enc sha1 s2k u u 0 1 [] 0 iv pass ms in
  blob_emit (BStd b) = [u] ++ iv ++ cfb_enc u (s2k 0 1 u [] 0 pass) iv (secret_plain ms ++ int_to_bytes (sumz (secret_plain ms) mod 65536) 2) /\
  s2k_parse (blob_emit (BStd b)) = Some (inr (BStd b), []) /\
  unprotect cfb_dec sha1 s2k (length ms) b pass = Some ms.
Proof. exact legacy_usage_roundtrip. Qed.
Print Assumptions C06_legacy_usage_roundtrip.
(* ... and that layout is the RFC 4880 5.5.3 transcription of the "usage octet = cipher" form *)
Theorem C06_write_legacy_eq_rfc : forall (cfb_enc : prim4) (sha1 : bytes -> bytes) (s2k : s2kfn) u iv pass ms,
  wf_mpis ms -> legacy u = true ->
  write_secret cfb_enc sha1 s2k (WStd u u 0 1 [] 0 iv pass) ms = rfc_secret_part_legacy cfb_enc sha1 u iv (s2k 0 1 u [] 0 pass) ms.
Proof. exact write_legacy_eq_rfc. Qed.
Print Assumptions C06_write_legacy_eq_rfc.
Example C06_wf_legacy_inhabited : wf_legacy 7 (repeat 0 16) /\ wf_legacy 3 (repeat 0 8) /\ wf_legacy 9 (repeat 1 16).
Proof. repeat split; try (exists 16; split; reflexivity); exists 8; split; reflexivity. Qed.
(* decrypt o encrypt for ANY usage octet: 254 carries the SHA-1, everything else the 16-bit checksum (since 8563c06 also checked) *)
Theorem C06_unprotect_protect_any_usage : forall (cfb_enc cfb_dec : prim4) (sha1 : bytes -> bytes) (s2k : s2kfn),
  (forall a k iv x, cfb_dec a k iv (cfb_enc a k iv x) = x) -> (forall x, length (sha1 x) = 20%nat) ->
  forall u a sp h salt c iv pass ms, wf_mpis ms ->
  unprotect_std cfb_dec sha1 s2k (length ms) (mk_sblob cfb_enc sha1 s2k u a sp h salt c iv pass ms) pass = UOk ms (tail_of sha1 u ms).
Proof. exact unprotect_std_protect_any. Qed.
Print Assumptions C06_unprotect_protect_any_usage.
(* before the repair nothing was checked under a legacy usage octet *)
Theorem C06_gate_old_refuted : forall (sha1 : bytes -> bytes), exists u pt, legacy u = true /\ gate_old sha1 u pt = true /\ gate sha1 u pt = false.
Proof. exact gate_old_refuted. Qed.
Print Assumptions C06_gate_old_refuted.
