(* C07 — Public export never carries or exercises secret material.
   Statements only; every proof is `exact <lemma>` into Proofs/.
   PARTIAL in one respect, stated here and in the manifest: "the export contains no octet sequence of a secret
   integer" is PROVED as non-interference (the exported octets are a function of the public fields alone: two
   private keys that differ in every secret field, S2K parameter, lock state and secret-packet header export the
   same octets) and TESTED as a literal substring search by the harness.  A literal "no substring" theorem would
   be false for trivial reasons (a short secret integer can coincide with public octets by chance). *)
From Coq Require Import ZArith List Bool Lia.
Import ListNotations.
Require Import PV.Lib.Bytes PV.Model.Wire PV.Model.KeyPackets PV.Model.Fingerprint PV.Model.PubExport PV.Spec.Rfc4880_keys.
Require Import PV.Proofs.KeyPackets_lemmas PV.Proofs.Fingerprint_lemmas PV.Proofs.PubExport_lemmas.
Open Scope Z_scope.

(* a key packet of a supported algorithm has a public half (Some: pubkey() does not refuse), and its body is the first
   6 + publen octets of the secret packet body, nothing after them is copied *)
Theorem C07_pub_body_is_prefix : forall k, wf_pub k ->
  pub_packet_body k = Some (firstn (Z.to_nat (6 + publen k)) (sec_packet_body k)).
Proof. exact pub_body_is_prefix. Qed.
Print Assumptions C07_pub_body_is_prefix.

(* PGPKey.pubkey is PARTIAL since repair 3c1c8c6 (None = NotImplementedError).  It refuses a private key exactly when one
   of its key packets holds opaque material (an algorithm id without a material class): where the public part of such
   material ends is unknown, so NO octet of it is exported - the right outcome for "the public export carries no secret" *)
Theorem C07_pubkey_refuses_iff : forall t, all_private t ->
  (pubkey_of t = None <-> exists k, In k (keys_of t) /\ is_opaque (k_mat k) = true).
Proof. exact pubkey_of_none_iff. Qed.
Print Assumptions C07_pubkey_refuses_iff.
(* every twin that IS produced - no premise on the key material - holds public halves only: each key packet is the
   public half of the private key's packet and has no secret part; and none of the private key's packets was opaque *)
Theorem C07_twin_public_halves : forall t p, all_private t -> pubkey_of t = Some p ->
  keys_of p = map pub_half (keys_of t) /\
  Forall (fun k => is_private k = false) (keys_of p) /\
  Forall (fun k => is_opaque (k_mat k) = false) (keys_of t).
Proof. intros t p H E. destruct (pubkey_of_some t p H E) as [_ R]. exact R. Qed.
Print Assumptions C07_twin_public_halves.
Theorem C07_twin_fingerprints : forall sha1 t p, all_private t -> pubkey_of t = Some p -> Forall real_publen (keys_of t) ->
  map (fingerprint sha1) (keys_of p) = map (fingerprint sha1) (keys_of t).
Proof. exact twin_fingerprints. Qed.
Print Assumptions C07_twin_fingerprints.

(* non-interference: secret integers, S2K block, ciphertext, checksum, lock state, secret-packet header format
   do not influence a single octet of the public export - nor whether there is one (pub_export: None = refused) *)
Theorem C07_pub_export_noninterference : forall t t', all_private t -> all_private t' -> same_public t t' ->
  pub_export t = pub_export t'.
Proof. exact pub_export_noninterference. Qed.
Print Assumptions C07_pub_export_noninterference.
(* ... the twins are equal as objects, so everything later computed from them is equal too *)
Theorem C07_pubkey_of_same : forall t t', all_private t -> all_private t' -> same_public t t' -> pubkey_of t = pubkey_of t'.
Proof. exact pubkey_of_same. Qed.
Print Assumptions C07_pubkey_of_same.

(* for keys of supported algorithms: the twin exists, its export exists, and an independent packet splitter reads it
   back as exactly the twin's packets *)
Theorem C07_pub_export_parse : forall t, wf_tkey t -> all_private t ->
  exists p bs, pubkey_of t = Some p /\ export p = Some bs /\
    forall fuel, (length (export_pkts p) < fuel)%nat ->
      parse_packets fuel bs = Some (map view (export_pkts p)).
Proof. exact pub_export_parse. Qed.
Print Assumptions C07_pub_export_parse.

(* fuel = number of octets + 1 (what the driver passes) always suffices: OutOfFuel is excluded, not hidden *)
Theorem C07_pub_export_parse_fuel : forall t, wf_tkey t -> all_private t ->
  exists p bs, pubkey_of t = Some p /\ export p = Some bs /\
    parse_packets (S (length bs)) bs = Some (map view (export_pkts p)).
Proof. exact pub_export_parse_fuel. Qed.
Print Assumptions C07_pub_export_parse_fuel.

(* every packet of it is a public-key (6), public-subkey (14), user-id (13), user-attribute (17) or signature (2) packet *)
Theorem C07_pub_export_tags : forall t, wf_tkey t -> all_private t ->
  exists p, pubkey_of t = Some p /\ Forall (fun x => In (fst x) [6; 14; 13; 17; 2]) (map view (export_pkts p)).
Proof. exact pub_export_tags. Qed.
Print Assumptions C07_pub_export_tags.
Theorem C07_pub_export_no_secret_tag : forall t, wf_tkey t -> all_private t ->
  exists p, pubkey_of t = Some p /\ forall x, In x (map view (export_pkts p)) -> fst x <> 5 /\ fst x <> 7.
Proof. exact pub_export_no_secret_tag. Qed.
Print Assumptions C07_pub_export_no_secret_tag.

(* same fingerprints (RFC hash of the exported key packets = what the private key reports), identities, signatures *)
Theorem C07_pub_same_ids : forall sha1 t, wf_tkey t -> all_private t ->
  Forall (fun k => 6 + publen k < 65536) (keys_of t) ->
  exists p, pubkey_of t = Some p /\
  map (fun k => rfc_fingerprint sha1 (key_body k)) (keys_of p) = map (fingerprint sha1) (keys_of t) /\
  map (fingerprint sha1) (keys_of p) = map (fingerprint sha1) (keys_of t) /\
  t_uids p = t_uids t /\ t_sigs p = t_sigs t /\
  map sb_sigs (t_subs p) = map sb_sigs (t_subs t).
Proof. exact pub_same_ids. Qed.
Print Assumptions C07_pub_same_ids.

(* the getter BEFORE repair 3c1c8c6 (pubkey_of_old: total, opaque material emptied) is refuted: the twin of a private
   key with opaque material had another fingerprint (identity in place of SHA-1); the repaired getter refuses that key;
   on keys of supported algorithms the two agree *)
Theorem C07_pubkey_of_old_refuted :
  all_private opaque_tkey /\
  map (fingerprint (fun x => x)) (keys_of (pubkey_of_old opaque_tkey)) <> map (fingerprint (fun x => x)) (keys_of opaque_tkey) /\
  pubkey_of opaque_tkey = None.
Proof. exact pubkey_of_old_refuted. Qed.
Print Assumptions C07_pubkey_of_old_refuted.
Theorem C07_pubkey_of_old_same_supported : forall t, wf_tkey t -> pubkey_of t = Some (pubkey_of_old t).
Proof. exact pubkey_of_old_same. Qed.
Print Assumptions C07_pubkey_of_old_same_supported.

(* premises are inhabited: a private RSA key with a locked ECDH subkey, one user id with a local (non-exportable)
   and an exportable certification, an old-format direct signature *)
Definition ex_sig (fmt : Z) (e : bool) : sigm :=
  {| sg_pkt := {| p_fmt := fmt; p_llen := 1; p_tag := 2; p_body := [4; 19; 1; 8] |}; sg_exportable := e; sg_embedded := false |}.
Definition ex_key : tkey :=
  {| t_key := {| km_fmt := 0; km_llen := 2;
                 km_key := {| k_sub := false; k_created := 1577934245; k_alg := 1; k_mat := PRSA 1000003 65537;
                              k_sec := Some {| s_usage := 0; s_s2k := []; s_enc := []; s_priv := [77; 11; 13; 6]; s_chk := [0; 200] |} |} |};
     t_sigs := [ex_sig 0 true];
     t_uids := [{| u_pkt := {| p_fmt := 1; p_llen := 1; p_tag := 13; p_body := [65; 108] |}; u_sigs := [ex_sig 1 false; ex_sig 1 true] |}];
     t_subs := [{| sb_key := {| km_fmt := 1; km_llen := 1;
                                km_key := {| k_sub := true; k_created := 1577934245; k_alg := 18;
                                             k_mat := PECDH C25519 (EPNative [1; 2; 3]) 8 7;
                                             k_sec := Some {| s_usage := 254; s_s2k := [9; 3; 8; 1; 2; 3; 4; 5; 6; 7; 8; 255];
                                                              s_enc := [1; 2; 3]; s_priv := [0]; s_chk := [] |} |} |};
                   sb_sigs := [ex_sig 1 true] |}] |}.
Example C07_premises_inhabited : wf_tkey ex_key /\ all_private ex_key.
Proof.
  assert (W1 : wf_pub (km_key (t_key ex_key))) by (vm_compute; intuition discriminate).
  assert (W2 : wf_pub {| k_sub := true; k_created := 1577934245; k_alg := 18; k_mat := PECDH C25519 (EPNative [1; 2; 3]) 8 7;
                         k_sec := Some {| s_usage := 254; s_s2k := [9; 3; 8; 1; 2; 3; 4; 5; 6; 7; 8; 255]; s_enc := [1; 2; 3]; s_priv := [0]; s_chk := [] |} |}).
  { split; [vm_compute; intuition discriminate|]. split; [vm_compute; intuition discriminate|].
    cbn. split; [split; [repeat constructor; vm_compute; intuition discriminate|reflexivity]|]. vm_compute; intuition discriminate. }
  assert (S0 : forall e, wf_sig (ex_sig 0 e)).
  { intros e. split; [|reflexivity]. split; [vm_compute; reflexivity|]. right. cbn.
    split; [reflexivity|]. split; [lia|]. left; reflexivity. }
  assert (S1 : forall e, wf_sig (ex_sig 1 e)).
  { intros e. split; [|reflexivity]. split; [vm_compute; reflexivity|]. left. cbn. split; [reflexivity|lia]. }
  split.
  - unfold wf_tkey. split; [|split; [|split; [|split]]].
    + cbn [keys_of ex_key t_key t_subs map sb_key km_key]. constructor; [exact W1|]. constructor; [exact W2|constructor].
    + reflexivity.
    + cbn [ex_key t_subs]. constructor; [|constructor]. split; [reflexivity|]. constructor; [apply S1|constructor].
    + cbn [ex_key t_sigs]. constructor; [apply S0|constructor].
    + cbn [ex_key t_uids]. constructor; [|constructor]. split; [|split].
      * split; [vm_compute; reflexivity|]. left. cbn. split; [reflexivity|lia].
      * left; reflexivity.
      * cbn. constructor; [apply S1|]. constructor; [apply S1|constructor].
  - split; [reflexivity|]. constructor; [reflexivity|constructor].
Qed.
(* ... and on it the export of the twin computes to public packets only, the local certification left out *)
Example C07_example_export :
  match pubkey_of ex_key with
  | Some p =>
    match export p with
    | Some bs => parse_packets 20 bs = Some (map view (export_pkts p)) /\
                 map fst (map view (export_pkts p)) = [6; 2; 13; 2; 14; 2]
    | None => False
    end
  | None => False
  end.
Proof. vm_compute. split; reflexivity. Qed.
(* the same key with an opaque private subkey attached has no twin at all *)
Example C07_example_refusal :
  pubkey_of {| t_key := t_key ex_key; t_sigs := t_sigs ex_key; t_uids := t_uids ex_key;
               t_subs := t_subs ex_key ++ [{| sb_key := {| km_fmt := 1; km_llen := 1;
                 km_key := opaque_sec true 1000 21 [0; 9; 1; 255] {| s_usage := 0; s_s2k := []; s_enc := []; s_priv := []; s_chk := [] |} |};
                 sb_sigs := [] |}] |} = None.
Proof. reflexivity. Qed.

(* Objects that hold only public material fail the precondition of every private operation
   (sign, certify, revoke, revoker, bind, decrypt), whatever else is true of them.  ks_public / ks_protected /
   ks_cleartext are the attributes of the component the decorator selects for the work (repair cab6d36: a subkey when
   only it carries the usage flag); all components of a public object are public *)
Theorem C07_public_refuses_private_ops : forall a st, In a private_actions -> ks_public st = true -> key_action a st <> Run.
Proof. exact public_refuses_private_ops. Qed.
Print Assumptions C07_public_refuses_private_ops.
Theorem C07_public_refusal_reason : forall a st, In a private_actions -> ks_public st = true ->
  ks_haskey st = true -> ks_nuids st <> 0%nat -> (ks_flag_ok st = true \/ ks_require_flags st = false) ->
  key_action a st = ErrAttr IsPublic.
Proof. exact public_refusal_reason. Qed.
Print Assumptions C07_public_refusal_reason.
(* a protected key whose integers are not in memory refuses as well *)
Theorem C07_locked_refuses : forall a st, In a private_actions -> ks_public st = false -> ks_protected st = true ->
  ks_cleartext st = false -> key_action a st <> Run.
Proof. exact locked_refuses. Qed.
Print Assumptions C07_locked_refuses.
(* the table is not vacuous: a complete, unprotected private key with the usage flag runs each of them *)
Example C07_private_runs : forall a, In a private_actions ->
  key_action a {| ks_haskey := true; ks_nuids := 1; ks_primary := true; ks_public := false; ks_protected := false;
                  ks_cleartext := true; ks_flag_ok := true; ks_require_flags := true |} = Run.
Proof. intros a Ha. cbn in Ha. destruct Ha as [<-|[<-|[<-|[<-|[<-|[<-|[]]]]]]]; reflexivity. Qed.
