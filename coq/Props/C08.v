(* C08 — Packet codec: own output re-parses byte-exactly (consuming exactly its own length, leaving following data
   untouched) and re-serialises identically.  One generic theorem (dec_enc, by induction on fuel, for every format
   term, every value, every trailing data) + the fact that every packet type of Model/Packets.v is a self-delimiting
   format.  The "foreign input normalises once" half is decided by the correspondence run on the implementation
   (old-format headers, partial lengths, non-canonical MPIs); the model covers canonical new-format encodings. *)
From Coq Require Import ZArith List Bool.
Import ListNotations.
Require Import PV.Lib.Bytes PV.Model.Wire PV.Model.Fmt PV.Model.Packets PV.Proofs.Fmt_lemmas PV.Proofs.Packets_lemmas.
Open Scope Z_scope.

Theorem C08_dec_enc : forall fuel f m v b r,
  wf m f = true -> enc f v = Some b -> (fuel > depth f + length (inp m b r))%nat ->
  dec fuel f (inp m b r) = Some (v, out m r).
Proof. exact dec_enc. Qed.
Print Assumptions C08_dec_enc.

Theorem C08_packet_emit_parse : forall f v b r, In f all_formats -> enc f v = Some b -> dec_full f (b ++ r) = Some (v, r).
Proof. exact packet_emit_parse. Qed.
Print Assumptions C08_packet_emit_parse.

Theorem C08_packet_emit_parse_emit : forall f v b r, In f all_formats -> enc f v = Some b ->
  exists v', dec_full f (b ++ r) = Some (v', r) /\ enc f v' = Some b.
Proof. exact packet_emit_parse_emit. Qed.
Print Assumptions C08_packet_emit_parse_emit.

Theorem C08_packet_header_length : forall tag body c y b, enc (pkt tag body) (VP (VB c) y) = Some b ->
  exists p, enc body y = Some p /\ b = [192 + tag] ++ new_length (Z.of_nat (length p)) ++ p.
Proof. exact packet_header_length. Qed.
Print Assumptions C08_packet_header_length.

(* premises are satisfiable: a literal data packet "b", name "a.txt", time 1, data 01 02 *)
Example C08_literal_example :
  exists b, enc f_literal (VP (VB [203]) (VP (VZ 98) (VP (VB [97; 46; 116; 120; 116]) (VP (VZ 1) (VB [1; 2]))))) = Some b
  /\ In f_literal all_formats.
Proof. eexists. split; [vm_compute; reflexivity|]. unfold all_formats. cbn. tauto. Qed.
