(* C08 — Packet codec: own output re-parses byte-exactly (consuming exactly its own length, leaving following data
   untouched) and re-serialises identically.  One generic theorem (dec_enc, by induction on fuel, for every format
   term, every value, every trailing data) + the fact that every packet type of Model/Packets.v is a self-delimiting
   format.  The "foreign input normalises once" half is decided by the correspondence run on the implementation
   (old-format headers, partial lengths, non-canonical MPIs); the model covers canonical new-format encodings. *)
From Coq Require Import ZArith List Bool.
Import ListNotations.
Require Import PV.Lib.Bytes PV.Model.Wire PV.Model.Fmt PV.Model.Packets PV.Model.HashData PV.Model.SubArea PV.Proofs.Fmt_lemmas PV.Proofs.Packets_lemmas
  PV.Proofs.SubArea_lemmas.
Open Scope Z_scope.

Theorem C08_dec_enc : forall fuel f m v b r,
  wf m f = true -> enc f v = Some b -> (fuel > depth f + length (inp m b r))%nat ->
  dec fuel f (inp m b r) = Some (v, out m r).
Proof. exact dec_enc. Qed.
Print Assumptions C08_dec_enc.

Theorem C08_packet_emit_parse : forall f v b r, In f all_formats -> enc f v = Some b -> dec_full f (b ++ r) = Some (v, r).
Proof. exact packet_emit_parse. Qed.
Print Assumptions C08_packet_emit_parse.

Theorem C08_packet_emit_parse_emit : forall f v b r, In f all_formats -> enc f v = Some b ->
  exists v', dec_full f (b ++ r) = Some (v', r) /\ enc f v' = Some b.
Proof. exact packet_emit_parse_emit. Qed.
Print Assumptions C08_packet_emit_parse_emit.

Theorem C08_packet_header_length : forall tag body c y b, enc (pkt tag body) (VP (VB c) y) = Some b ->
  exists p, enc body y = Some p /\ b = [192 + tag] ++ new_length (Z.of_nat (length p)) ++ p.
Proof. exact packet_header_length. Qed.
Print Assumptions C08_packet_header_length.

(* premises are satisfiable: a literal data packet "b", name "a.txt", time 1, data 01 02 *)
Example C08_literal_example :
  exists b, enc f_literal (VP (VB [203]) (VP (VZ 98) (VP (VB [97; 46; 116; 120; 116]) (VP (VZ 1) (VB [1; 2]))))) = Some b
  /\ In f_literal all_formats.
Proof. eexists. split; [vm_compute; reflexivity|]. unfold all_formats. cbn. tauto. Qed.

(* ---------- foreign signature packets: the two subpacket areas (Model/SubArea.v, after repairs 54a6db5 and 88a5e9e) ---------- *)
(* whatever encoding another producer chose inside the areas (length forms, flag widths, text charset) and however the parsed
   objects would serialise, an accepted packet's areas are re-exported octet for octet with the following data untouched ... *)
Theorem C08_subpacket_areas_verbatim : forall reser p st rest, sa_parse p = Some (st, rest) -> sa_emit reser st ++ rest = p.
Proof. exact emit_parse_verbatim. Qed.
Print Assumptions C08_subpacket_areas_verbatim.

(* ... so the export is a fixed point of a further parse / serialise pass *)
Theorem C08_subpacket_areas_fixed_point : forall reser p st rest st' rest',
  sa_parse p = Some (st, rest) -> sa_parse (sa_emit reser st ++ rest) = Some (st', rest') ->
  sa_emit reser st' ++ rest' = sa_emit reser st ++ rest.
Proof. exact emit_parse_fixed_point. Qed.
Print Assumptions C08_subpacket_areas_fixed_point.

(* the behaviour before the repairs (always re-serialise) is refuted by a closed witness *)
Theorem C08_reserialising_refuted : exists (reser : list sub3 -> bytes) p st rest,
  sa_parse p = Some (st, rest) /\ sa_emit_old reser st ++ rest <> p.
Proof. exact old_emit_refuted. Qed.
Print Assumptions C08_reserialising_refuted.

Example C08_nonminimal_area_accepted : exists st rest,
  sa_parse [0; 3; 2; 4; 2;  0; 7; 255; 0; 0; 0; 2; 27; 3;  9; 9] = Some (st, rest) /\ rest = [9; 9] /\ sa_u st = [(27, false, [3])].
Proof. exact parse_accepts_nonminimal. Qed.
