(* C08 — Packet codec: own output re-parses byte-exactly (consuming exactly its own length, leaving following data
   untouched) and re-serialises identically.  One generic theorem (dec_enc, by induction on fuel, for every format
   term, every value, every trailing data) + the fact that every packet type of Model/Packets.v is a self-delimiting
   format.  The "foreign input normalises once" half: theorem C08_foreign_normalises_once_partial below (every encoding the
   tolerant decoder accepts that has complete, encodable multiprecision integers and no partial body lengths re-encodes to a
   defined packet that is no longer, parses back to the same value and is a fixed point), the closed witnesses of what is
   outside it (C08_foreign_normalises_once_refuted), and, for old-format headers, partial lengths and everything the model has
   no format for, the correspondence run on the implementation. *)
From Coq Require Import ZArith List Bool.
Import ListNotations.
Require Import PV.Lib.Bytes PV.Model.Wire PV.Model.Fmt PV.Model.Packets PV.Model.HashData PV.Model.SubArea PV.Proofs.Fmt_lemmas PV.Proofs.Packets_lemmas
  PV.Proofs.SubArea_lemmas PV.Model.FmtStrict PV.Proofs.Fmt_lemmas2.
Open Scope Z_scope.

Theorem C08_dec_enc : forall fuel f m v b r,
  wf m f = true -> enc f v = Some b -> (fuel > depth f + length (inp m b r))%nat ->
  dec fuel f (inp m b r) = Some (v, out m r).
Proof. exact dec_enc. Qed.
Print Assumptions C08_dec_enc.

Theorem C08_packet_emit_parse : forall f v b r, In f all_formats -> enc f v = Some b -> dec_full f (b ++ r) = Some (v, r).
Proof. exact packet_emit_parse. Qed.
Print Assumptions C08_packet_emit_parse.

Theorem C08_packet_emit_parse_emit : forall f v b r, In f all_formats -> enc f v = Some b ->
  exists v', dec_full f (b ++ r) = Some (v', r) /\ enc f v' = Some b.
Proof. exact packet_emit_parse_emit. Qed.
Print Assumptions C08_packet_emit_parse_emit.

Theorem C08_packet_header_length : forall tag body c y b, enc (pkt tag body) (VP (VB c) y) = Some b ->
  exists p, enc body y = Some p /\ b = [192 + tag] ++ new_length (Z.of_nat (length p)) ++ p.
Proof. exact packet_header_length. Qed.
Print Assumptions C08_packet_header_length.

(* premises are satisfiable: a literal data packet "b", name "a.txt", time 1, data 01 02 *)
Example C08_literal_example :
  exists b, enc f_literal (VP (VB [203]) (VP (VZ 98) (VP (VB [97; 46; 116; 120; 116]) (VP (VZ 1) (VB [1; 2]))))) = Some b
  /\ In f_literal all_formats.
Proof. eexists. split; [vm_compute; reflexivity|]. unfold all_formats. cbn. tauto. Qed.

(* ---------- foreign signature packets: the two subpacket areas (Model/SubArea.v, after repairs 54a6db5 and 88a5e9e) ---------- *)
(* whatever encoding another producer chose inside the areas (length forms, flag widths, text charset) and however the parsed
   objects would serialise, an accepted packet's areas are re-exported octet for octet with the following data untouched ... *)
Theorem C08_subpacket_areas_verbatim : forall reser p st rest, sa_parse p = Some (st, rest) -> sa_emit reser st ++ rest = p.
Proof. exact emit_parse_verbatim. Qed.
Print Assumptions C08_subpacket_areas_verbatim.

(* ... so the export is a fixed point of a further parse / serialise pass *)
Theorem C08_subpacket_areas_fixed_point : forall reser p st rest st' rest',
  sa_parse p = Some (st, rest) -> sa_parse (sa_emit reser st ++ rest) = Some (st', rest') ->
  sa_emit reser st' ++ rest' = sa_emit reser st ++ rest.
Proof. exact emit_parse_fixed_point. Qed.
Print Assumptions C08_subpacket_areas_fixed_point.

(* the behaviour before the repairs (always re-serialise) is refuted by a closed witness *)
Theorem C08_reserialising_refuted : exists (reser : list sub3 -> bytes) p st rest,
  sa_parse p = Some (st, rest) /\ sa_emit_old reser st ++ rest <> p.
Proof. exact old_emit_refuted. Qed.
Print Assumptions C08_reserialising_refuted.

Example C08_nonminimal_area_accepted : exists st rest,
  sa_parse [0; 3; 2; 4; 2;  0; 7; 255; 0; 0; 0; 2; 27; 3;  9; 9] = Some (st, rest) /\ rest = [9; 9] /\ sa_u st = [(27, false, [3])].
Proof. exact parse_accepts_nonminimal. Qed.


(* ---------- foreign input normalises once (Model/FmtStrict.v, Proofs/Fmt_lemmas2.v) ---------- *)
(* dec_strict2 is the tolerant decoder `dec` with these further refusals: a multiprecision integer must be present in full and have
   a value the encoder can write (bit length below 65536), and the first octet of a length is not 224..254 (for a packet body
   that is a partial length; for a subpacket it is the two-octet form of a length 8384..16319, which the encoder writes with five
   octets).  What it accepts, `dec` accepts with the same result (so the tie of `dec` to the implementation covers it) ... *)
Theorem C08_strict_is_a_restriction_of_tolerant : forall f i x, dec_strict2_full f i = Some x -> dec_full f i = Some x.
Proof. intros f i x H. apply dec_strict_full_dec_full, dec_strict2_full_dec_strict_full, H. Qed.
Print Assumptions C08_strict_is_a_restriction_of_tolerant.

(* ... everything the encoder writes is accepted by it (so the theorem below is about a superset of PGPy's own output) ... *)
Theorem C08_strict_accepts_own_output : forall f v b r, In f all_formats -> enc f v = Some b -> dec_strict2_full f (b ++ r) = Some (v, r).
Proof. exact dec_strict2_full_enc. Qed.
Print Assumptions C08_strict_accepts_own_output.

(* ... and whatever other encoding of a packet it accepts (five-octet or non-minimal lengths, integers whose bit count covers leading
   zero bits or octets, any value of any field) re-serialises to a DEFINED packet, not longer than what was read, that parses back to
   the same field values with the following data untouched and is a fixed point of a further parse / serialise pass.
   `_partial`: partial body lengths, two-octet subpacket lengths of 8384 and more, and integers with missing octets or 65536
   significant bits are outside the hypothesis (next theorem). *)
Theorem C08_foreign_normalises_once_partial : forall f i v r,
  In f all_formats -> wf_bytes i -> dec_strict2_full f i = Some (v, r) ->
  exists b, enc f v = Some b /\ (length b + length r <= length i)%nat /\
    dec_full f (b ++ r) = Some (v, r) /\
    (exists v', dec_full f (b ++ r) = Some (v', r) /\ enc f v' = Some b).
Proof. exact foreign_normalises_once_partial. Qed.
Print Assumptions C08_foreign_normalises_once_partial.

(* what is outside the hypothesis is refuted with closed witnesses in Props/C08_refuted.v (a file of its own: see there) *)

(* premises are satisfiable by an encoding that is NOT PGPy's own: five-octet length, modulus 200 declared with 16 bits,
   exponent 65537 declared with 24 bits; the re-encoding is 5 octets shorter *)
Example C08_foreign_example :
  In (f_pubkey 6 pub_rsa) all_formats /\ wf_bytes ex_in /\
  dec_strict2_full (f_pubkey 6 pub_rsa) ex_in = Some (ex_val, [1; 2; 3]) /\
  dec_strict_full (f_pubkey 6 pub_rsa) ex_in = Some (ex_val, [1; 2; 3]) /\
  enc (f_pubkey 6 pub_rsa) ex_val = Some ex_out /\
  (length ex_out + length [1; 2; 3] < length ex_in)%nat /\
  dec_full (f_pubkey 6 pub_rsa) (ex_out ++ [1; 2; 3]) = Some (ex_val, [1; 2; 3]).
Proof. exact foreign_example. Qed.
