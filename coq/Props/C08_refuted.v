(* C08, continued: the closed witnesses showing that "foreign input normalises once" cannot be stated without the restrictions of
   C08_foreign_normalises_once_partial (Props/C08.v).  A file of its own because its witnesses are large (65537-octet inputs, a
   65536-bit integer): coqc checks it in about 25 s through vm_compute, coqchk needs far longer (DESIGN.md 10.6), so the coqchk
   run over the closure of Props/C08.v does not include it and it is re-checked by coqchk on its own. *)
From Coq Require Import ZArith List Bool.
Import ListNotations.
Require Import PV.Lib.Bytes PV.Model.Wire PV.Model.Fmt PV.Model.Packets PV.Model.FmtStrict PV.Proofs.Fmt_lemmas2 PV.Proofs.Fmt_refuted.
Open Scope Z_scope.

(* without the refusals the statement is false of the model, and of the implementation: (1) a user id packet written with partial
   lengths re-encodes LONGER (8388 -> 8390 octets), and so does, without any partial length, a subpacket of 8384..16319 octets
   written with the two-octet length RFC 4880 5.2.3.1 allows (first octet 224..254): the encoder uses the packet rule and spends
   five octets (Fmt_lemmas2.foreign_subpacket_longer: 16327 -> 16330; harmless as such, C08 does not ask for shortness); (2) inside
   a two-octet-counted subpacket area that growth can exceed the count: an area of 65535 octets holding four subpackets of 16319
   octets re-encodes to 65547 octets of content and the model encoder says None (subpacket lengths are read with the subpacket
   rule, Fmt.FSubLen = Wire.sub_len, so this is not a model artefact: the area is well-formed by the RFC); (3) an integer declaring
   65529..65535 bits whose top value bit is set has bit length 65536, which no two-octet bit count can express - such an integer is
   not well-formed (RFC 4880 3.2: the value does not fit the declared count), the implementation accepts it and cannot write it
   back (OverflowError), the model encoder says None. *)
Theorem C08_foreign_normalises_once_refuted :
  (exists f i v r b, In f all_formats /\ wf_bytes i /\ dec_strict_full f i = Some (v, r) /\
     enc f v = Some b /\ (length i < length b + length r)%nat) /\
  (exists f i v r, In f all_formats /\ wf_bytes i /\ dec_strict_full f i = Some (v, r) /\ enc f v = None) /\
  (exists i v r, wf_bytes i /\ dec_strict_full f_pkesk_rsa i = Some (v, r) /\ enc f_pkesk_rsa v = None /\
     new_len_np (skipn 1 i) = new_len (skipn 1 i)).
Proof. exact foreign_normalises_once_refuted. Qed.
Print Assumptions C08_foreign_normalises_once_refuted.


(* the tolerant decoder itself accepts an input whose value the encoder refuses (witness 3 read through dec_full) *)
Theorem C08_tolerant_accepts_unencodable :
  exists f i v r, In f all_formats /\ wf_bytes i /\ dec_full f i = Some (v, r) /\ enc f v = None.
Proof. exact tolerant_accepts_unencodable. Qed.
Print Assumptions C08_tolerant_accepts_unencodable.
