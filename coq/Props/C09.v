(* C09 — Primitive wire codecs are exact over their whole domain.
   This file holds statements only; every proof is `exact <lemma>` into Proofs/. *)
From Coq Require Import ZArith List Bool.
Import ListNotations.
Require Import PV.Lib.Bytes PV.Model.Wire PV.Spec.Rfc4880_wire PV.Proofs.Wire_lemmas PV.Proofs.Wire_lemmas2 PV.Proofs.Wire_lemmas3 PV.Proofs.Wire_lemmas5.
Open Scope Z_scope.

(* every representable new-format length round-trips, leaving following data untouched *)
Theorem C09_new_len_roundtrip : forall n r, 0 <= n < 4294967296 -> new_len (new_length n ++ r) = Some (n, r).
Proof. exact new_len_roundtrip. Qed.
Print Assumptions C09_new_len_roundtrip.

(* decoding equals the value RFC 4880 4.2.2 assigns to the octets, for every octet string *)
Theorem C09_new_len_dec_eq_rfc : forall b, wf_bytes b ->
  match rfc_new_len b with
  | Some (v, false, r) => new_len b = Some (v, r)
  | Some (v, true, r) => parse_len b 0 = Some (v, 1%nat, true) /\ r = skipn 1 b
  | None => match b with
            | [] => new_len b = None
            | fo :: r => (192 <= fo < 224 /\ r = []) \/ (fo = 255 /\ (length r < 4)%nat)
            end
  end.
Proof. exact new_len_dec_eq_rfc. Qed.
Print Assumptions C09_new_len_dec_eq_rfc.

(* shortest form *)
Theorem C09_new_length_shortest : forall e n, wf_bytes e -> 0 <= n < 4294967296 ->
  rfc_new_len e = Some (n, false, []) -> (length (new_length n) <= length e)%nat.
Proof. exact new_length_shortest. Qed.
Print Assumptions C09_new_length_shortest.

(* partial body lengths: any number of chunks of any legal size reassemble to the body *)
Theorem C09_partial_reassembly : forall k d cs last r,
  Forall chunk_ok ((k, d) :: cs) -> Z.of_nat (length last) < 4294967296 ->
  new_len (encode_chunks ((k, d) :: cs) last ++ r)
  = Some (Z.of_nat (chunks_len ((k, d) :: cs) + length last), chunks_data ((k, d) :: cs) ++ last ++ r).
Proof. exact partial_reassembly. Qed.
Print Assumptions C09_partial_reassembly.
Example C09_partial_premises : Forall chunk_ok [(1, [7; 8]); (0, [9])].
Proof. repeat (constructor; [split; cbn; [split|]; try reflexivity; discriminate|]). constructor. Qed.

(* the fuel of the partial-length loop is never what stops it: a `None` of the model is always the IndexError of the
   Python loop (running off the end of the buffer), for EVERY input *)
Theorem C09_partial_loop_fuel_irrelevant : forall f1 f2 b total,
  (f1 > length b - total)%nat -> (f2 > length b - total)%nat -> partial_loop f1 b total = partial_loop f2 b total.
Proof. exact partial_loop_fuel_irrelevant. Qed.
Print Assumptions C09_partial_loop_fuel_irrelevant.

(* old-format header: never narrower than the value needs, whatever width was stored *)
Theorem C09_old_header_never_narrow : forall t n st body,
  0 <= t < 16 -> 0 <= n < 4294967296 -> (st = 1 \/ st = 2 \/ st = 4) ->
  exists bs h', header_emit {| h_lenfmt := 0; h_tag := t; h_llen := st; h_len := n |} = Some bs /\
    header_parse (bs ++ body) = Some (h', body) /\ h_tag h' = t /\ h_len h' = n /\ h_lenfmt h' = 0 /\
    Z.of_nat (length bs) = 1 + h_llen h' /\ n < 256 ^ h_llen h'.
Proof. exact old_header_never_narrow. Qed.
Print Assumptions C09_old_header_never_narrow.

(* old-format header, decode direction: for EVERY first octet with bit 6 clear and every following octet string, tag, width of
   the length field and value are the ones RFC 4880 4.2 / 4.2.1 assigns (written there with / and mod, Spec rfc_old_len);
   the only inputs the RFC assigns nothing to are those shorter than the width *)
Theorem C09_old_header_dec_eq_rfc : forall o rest, 0 <= o < 256 -> rfc_is_old o = true -> rfc_old_lentype o < 3 ->
  match rfc_old_len (rfc_old_lentype o) rest with
  | Some (v, r) =>
      header_parse (o :: rest) =
      Some ({| h_lenfmt := 0; h_tag := rfc_old_tag o; h_llen := rfc_old_width (rfc_old_lentype o); h_len := v |}, r)
  | None => (Z.of_nat (length rest) < rfc_old_width (rfc_old_lentype o))
  end.
Proof. exact old_header_dec_eq_rfc. Qed.
Print Assumptions C09_old_header_dec_eq_rfc.
Theorem C09_old_header_indeterminate_dec : forall o rest, 0 <= o < 256 -> rfc_is_old o = true -> rfc_old_lentype o = 3 ->
  header_parse (o :: rest) =
  Some ({| h_lenfmt := 0; h_tag := rfc_old_tag o; h_llen := 1; h_len := Z.of_nat (length rest) |}, rest).
Proof. exact old_header_indeterminate_dec. Qed.
Print Assumptions C09_old_header_indeterminate_dec.
Example C09_old_header_dec_premises :
  header_parse [154; 0; 1; 0; 0; 9] = Some ({| h_lenfmt := 0; h_tag := 6; h_llen := 4; h_len := 65536 |}, [9]) /\
  rfc_old_len (rfc_old_lentype 154) [0; 1; 0; 0; 9] = Some (65536, [9]) /\ rfc_is_old 154 = true /\
  header_parse [175; 1; 2] = Some ({| h_lenfmt := 0; h_tag := 11; h_llen := 1; h_len := 2 |}, [1; 2]).
Proof. exact old_header_dec_examples. Qed.
(* a new-format first octet carries its tag in the low six bits; the length is C09_new_len_dec_eq_rfc's *)
Theorem C09_new_header_dec_tag : forall o rest, 0 <= o < 256 -> rfc_is_old o = false ->
  header_parse (o :: rest) =
  match new_len rest with
  | None => None
  | Some (l, r) => Some ({| h_lenfmt := 1; h_tag := o mod 64; h_llen := 1; h_len := l |}, r)
  end.
Proof. exact new_header_dec_tag. Qed.
Print Assumptions C09_new_header_dec_tag.

(* the pre-repair emitter is refuted: one-octet field for 300 *)
Theorem C09_old_header_prefix_refuted :
  exists h bs h' r, header_emit_prefix h = Some bs /\ header_parse (bs ++ [1; 2; 3]) = Some (h', r) /\ h_len h' <> h_len h.
Proof.
  exists {| h_lenfmt := 0; h_tag := 5; h_llen := 1; h_len := 300 |}. eexists. eexists. eexists.
  split; [vm_compute; reflexivity|]. split; [vm_compute; reflexivity|]. vm_compute. discriminate.
Qed.

Theorem C09_new_header_roundtrip : forall t n st body,
  0 <= t < 64 -> 0 <= n < 4294967296 ->
  exists bs h', header_emit {| h_lenfmt := 1; h_tag := t; h_llen := st; h_len := n |} = Some bs /\
    header_parse (bs ++ body) = Some (h', body) /\ h_tag h' = t /\ h_len h' = n /\ h_lenfmt h' = 1.
Proof. exact new_header_roundtrip. Qed.
Print Assumptions C09_new_header_roundtrip.

(* whatever width was stored, a new-format header is the tag octet followed by the shortest length field (C09_new_length_shortest) *)
Theorem C09_new_header_emit_shape : forall t n st, 0 <= t < 64 ->
  header_emit {| h_lenfmt := 1; h_tag := t; h_llen := st; h_len := n |} = Some ((192 + t) :: new_length n).
Proof. exact new_header_emit_shape. Qed.
Print Assumptions C09_new_header_emit_shape.

(* multiprecision integers *)
Theorem C09_mpi_roundtrip : forall v r, 0 <= v -> bit_length v < 65536 -> mpi_parse (to_mpibytes v ++ r) = (v, r).
Proof. exact mpi_roundtrip. Qed.
Print Assumptions C09_mpi_roundtrip.
Theorem C09_mpi_bits_exact : forall v, 0 < v -> bit_length v < 65536 ->
  exists bits body, to_mpibytes v = be 2 bits ++ body /\ 2 ^ (bits - 1) <= v < 2 ^ bits /\
    Z.of_nat (length body) = (bits + 7) / 8 /\ unbe body = v.
Proof. exact mpi_bits_exact. Qed.
Print Assumptions C09_mpi_bits_exact.
Theorem C09_mpi_dec_eq_rfc : forall b, wf_bytes b ->
  match rfc_mpi b with Some (v, r) => mpi_parse b = (v, r) | None => True end.
Proof. exact mpi_dec_eq_rfc. Qed.
Print Assumptions C09_mpi_dec_eq_rfc.

(* timestamps *)
Theorem C09_time4_roundtrip : forall t r, 0 <= t < 4294967296 -> length (time4 t) = 4%nat /\ untime4 (time4 t ++ r) = t.
Proof. exact time4_roundtrip. Qed.
Print Assumptions C09_time4_roundtrip.

Theorem C09_untime4_eq_rfc : forall a b c d r, wf_bytes [a; b; c; d] ->
  untime4 (a :: b :: c :: d :: r) = a * 16777216 + b * 65536 + c * 256 + d /\
  0 <= untime4 (a :: b :: c :: d :: r) < 4294967296.
Proof. exact untime4_eq_rfc. Qed.
Print Assumptions C09_untime4_eq_rfc.

(* S2K coded count, all 256 codes *)
Theorem C09_count_eq_rfc : forall c, 0 <= c < 256 -> s2k_count c = rfc_count c.
Proof. exact count_eq_rfc. Qed.
Print Assumptions C09_count_eq_rfc.

(* signature subpacket lengths *)
Theorem C09_sub_len_eq_rfc : forall b, wf_bytes b ->
  match rfc_sub_len b with Some (v, r) => sub_len b = Some (v, r) | None => True end.
Proof. exact sub_len_eq_rfc. Qed.
Print Assumptions C09_sub_len_eq_rfc.
Theorem C09_sub_header_roundtrip : forall n t crit r, 0 <= n < 4294967296 -> 0 <= t < 128 -> wf_bytes r ->
  sub_header_parse (sub_header_emit n t crit ++ r) = Some (n, t, crit, r).
Proof. exact sub_header_roundtrip. Qed.
Print Assumptions C09_sub_header_roundtrip.
