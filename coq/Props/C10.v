(* C10 -- ASCII armor is a faithful, checksummed, correctly labelled envelope.
   This file holds statements only; every proof is `exact <lemma>` into Proofs/ (or a closed computation
   on a concrete witness). *)
From Coq Require Import ZArith List Bool.
Import ListNotations.
Require Import PV.Lib.Bytes PV.Model.Armor PV.Spec.Rfc4880_armor
  PV.Proofs.Armor_lemmas PV.Proofs.Armor_lemmas2 PV.Proofs.Armor_lemmas3.
Open Scope Z_scope.

(* ---- radix-64 ---- *)
(* every octet string decodes back (Python's non-strict a2b_base64 state machine run on b64encode's output) *)
Theorem C10_b64_roundtrip : forall p, wf_bytes p -> b64_dec (b64_enc p) = Some p.
Proof. exact b64_roundtrip. Qed.
Print Assumptions C10_b64_roundtrip.

Theorem C10_b64_alphabet : forall p, wf_bytes p -> forallb (fun c => is_b64c c || (c =? 61)) (b64_enc p) = true.
Proof. exact b64_alphabet. Qed.
Print Assumptions C10_b64_alphabet.

(* the encoder is the RFC 4880 6.3 encoding (24-bit groups, table lookup, = padding) *)
Theorem C10_b64_enc_eq_rfc : forall p, wf_bytes p -> b64_enc p = rfc_b64_enc p.
Proof. exact b64_enc_eq_rfc. Qed.
Print Assumptions C10_b64_enc_eq_rfc.

(* characters outside the alphabet (line ends, blanks) never change what is decoded *)
Theorem C10_b64_dec_skips_foreign : forall s, b64_dec (filter (fun c => is_b64c c || (c =? 61)) s) = b64_dec s.
Proof. intros s. exact (a2b_skip s 0%nat 0 0%nat). Qed.
Print Assumptions C10_b64_dec_skips_foreign.

(* ---- line wrap ---- *)
Theorem C10_wrap_line_le_64 : forall s, Forall (fun l => (length l <= 64)%nat) (wrap s).
Proof. exact wrap_line_le_64. Qed.
Print Assumptions C10_wrap_line_le_64.

Theorem C10_wrap_lines_within_rfc_limit : forall s, Forall (fun l => (length l <= rfc_max_line)%nat) (wrap s).
Proof. intros s. eapply Forall_impl; [|exact (wrap_line_le_64 s)]. cbn. intros l H. unfold rfc_max_line. apply (Nat.le_trans _ 64); [exact H|]. repeat constructor. Qed.
Print Assumptions C10_wrap_lines_within_rfc_limit.

Theorem C10_wrap_concat : forall s, concat (wrap s) = s.
Proof. exact wrap_concat. Qed.
Print Assumptions C10_wrap_concat.

(* every body line is itself the radix-64 text of a 48-octet piece of the payload *)
Theorem C10_wrap_b64 : forall p, wrap (b64_enc p) = map b64_enc (chunks (length p) 48 p).
Proof. exact wrap_b64. Qed.
Print Assumptions C10_wrap_b64.

(* ---- CRC-24 ---- *)
(* PGPy masks only at the end; the RFC's crc24 is a 24-bit quantity.  Equal for every octet string. *)
Theorem C10_crc24_eq_rfc : forall d, wf_bytes d -> crc24 d = crc24_rfc d.
Proof. exact crc24_eq_rfc. Qed.
Print Assumptions C10_crc24_eq_rfc.

(* the invariant behind it: the unmasked accumulator never leaves 24 bits, the final mask is the identity *)
Theorem C10_crc24_unmasked : forall d, wf_bytes d -> crc24 d = fold_left crc_octet d 11994318.
Proof. exact crc24_unmasked. Qed.
Print Assumptions C10_crc24_unmasked.

Theorem C10_crc24_lt_2_24 : forall d, 0 <= crc24 d < 16777216.
Proof. exact crc24_lt_2_24. Qed.
Print Assumptions C10_crc24_lt_2_24.

(* ---- reader on writer ---- *)
(* str(x) read by ascii_unarmor: the label, the headers, exactly the payload, its CRC, no warning *)
Theorem C10_unarmor_armor : forall k h p, wf_magic k = true -> wf_headers h -> wf_bytes p -> p <> [] ->
  unarmor (armor k h p) = UArmor k (headers_opt h) p (crc24 p) false None.
Proof. exact unarmor_armor. Qed.
Print Assumptions C10_unarmor_armor.

(* the same text with every LF turned into CR LF *)
Theorem C10_unarmor_armor_crlf : forall k h p, wf_magic k = true -> wf_headers h -> wf_bytes p -> p <> [] ->
  unarmor (to_crlf (armor k h p)) = UArmor k (headers_opt h) p (crc24 p) false None.
Proof. exact unarmor_armor_crlf. Qed.
Print Assumptions C10_unarmor_armor_crlf.

(* LF or CR LF line ends, any lines of foreign text in front (none of which opens a block), any ASCII text behind *)
Theorem C10_unarmor_armor_embedded : forall k h p eol, is_eol eol -> wf_magic k = true -> wf_headers h -> wf_bytes p -> p <> [] ->
  forall pre post,
  Forall (fun l => forallb line_char l = true /\ nostart l = true) pre -> is_ascii_text post = true ->
  unarmor (concat (map (fun l => l ++ [10]) pre) ++ with_eol eol (armor_lines k h p) ++ post)
  = UArmor k (headers_opt h) p (crc24 p) false None.
Proof. exact unarmor_armor_embedded. Qed.
Print Assumptions C10_unarmor_armor_embedded.

Theorem C10_armor_is_its_lines : forall k h p, p <> [] -> armor k h p = with_eol [] (armor_lines k h p).
Proof. exact armor_eq_lines. Qed.
Print Assumptions C10_armor_is_its_lines.

(* the premises are satisfiable: every real kind, header pairs with spaces, colons and a tab *)
Example C10_premises_magic : forallb wf_magic [m_public; m_private; m_message; m_signature] = true.
Proof. reflexivity. Qed.
Example C10_premises_headers : wf_headers [([86; 101; 114], [80; 71; 80; 32; 49]); ([67], [97; 58; 32; 98; 9; 99; 58; 32])].
Proof. split; [reflexivity|]. repeat constructor; cbn; intuition discriminate. Qed.
Example C10_premises_embedded :
  Forall (fun l => forallb line_char l = true /\ nostart l = true) [[70; 114; 111; 109; 58; 32; 120; 13]; []; [45; 45; 45; 45; 45]].
Proof. repeat constructor. Qed.

(* header pairs outside wf_headers do not read back as written: a key containing ": " is split at its first ": "
   (such a key is not an RFC 4880 6.2 header key) *)
Theorem C10_headers_refuted : exists k h p, wf_magic k = true /\ wf_bytes p /\ p <> [] /\
  unarmor (armor k h p) <> UArmor k (headers_opt h) p (crc24 p) false None.
Proof.
  exists m_message, [([65; 58; 32; 66], [121])], [1; 2; 3].
  split; [reflexivity|]. split; [repeat constructor; cbn; intuition discriminate|]. split; [discriminate|].
  vm_compute. discriminate.
Qed.

(* the header split before commit 0c3c3b8 (greedy key group): a VALUE containing ": " did not read back;
   the present split returns it *)
Theorem C10_headers_prefix_refuted : exists kv, wf_header kv = true /\
  parse_hdr_prefix (hdr_line kv) <> kv /\ parse_hdr (hdr_line kv) = kv.
Proof. exists ([67], [78; 58; 32; 120]). repeat split. vm_compute. discriminate. Qed.

(* ---- checksum report ---- *)
Theorem C10_crc_flag_iff : forall t m h body crc warn c,
  unarmor t = UArmor m h body crc warn c -> (warn = true <-> crc24 body <> crc).
Proof. exact crc_flag_iff. Qed.
Print Assumptions C10_crc_flag_iff.

(* a block whose CRC line was altered is reported: concrete block, CRC character changed *)
Example C10_crc_mismatch_reported :
  exists body crc, unarmor (begin_pfx ++ m_message ++ dash5 ++ [10; 10] ++ b64_enc [1; 2; 3] ++ [10; 61] ++ [65; 65; 65; 65] ++ [10]
                            ++ end_pfx ++ m_message ++ dash5 ++ [10]) = UArmor m_message None body crc true None.
Proof. eexists. eexists. vm_compute. reflexivity. Qed.

Theorem C10_unarmor_binary : forall t, is_ascii_text t = false -> unarmor t = UBinary t.
Proof. exact unarmor_binary. Qed.
Print Assumptions C10_unarmor_binary.

(* ---- kinds ---- *)
Theorem C10_right_kind_accepted : forall k, rejected (parse_decision (class_of k) (Some (magic_of k)) (is_clear k)) = false.
Proof. exact right_kind_accepted. Qed.
Print Assumptions C10_right_kind_accepted.

(* a block offered to a class of another kind is refused; the one exception is named: the SIGNATURE block that
   ends a cleartext message is a signature block and loads as a PGPSignature *)
Theorem C10_wrong_kind_rejected : forall k c, cls_eqb c (class_of k) = false ->
  (k = KCleartext /\ c = ClsSignature) \/ rejected (parse_decision c (Some (magic_of k)) (is_clear k)) = true.
Proof. exact wrong_kind_rejected. Qed.
Print Assumptions C10_wrong_kind_rejected.

Theorem C10_armor_label_matches_kind :
  magic_of KPublicKey = rfc_label RPublicKeyBlock /\ magic_of KPrivateKey = rfc_label RPrivateKeyBlock /\
  magic_of KMessage = rfc_label RMessage /\ magic_of KSignature = rfc_label RSignature /\
  magic_of KCleartext = rfc_label RSignature.
Proof. repeat split; reflexivity. Qed.

Theorem C10_armor_first_last_line : forall k h p, exists mid,
  armor k h p = (begin_pfx ++ k ++ dash5 ++ [10]) ++ mid ++ (end_pfx ++ k ++ dash5 ++ [10]).
Proof. exact armor_first_last_line. Qed.
Print Assumptions C10_armor_first_last_line.
