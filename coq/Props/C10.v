(* C10 -- ASCII armor is a faithful, checksummed, correctly labelled envelope.  Statements only. *)
From Coq Require Import ZArith List Bool.
Import ListNotations.
Require Import PV.Lib.Bytes PV.Model.Armor PV.Spec.Rfc4880_armor.
Open Scope Z_scope.

Example C10_smoke : b64_dec (b64_enc [1; 2; 3; 4]) = Some [1; 2; 3; 4].
Proof. reflexivity. Qed.
