(* C11 -- Cleartext signature framework preserves the text and the signature.  Statements only. *)
From Coq Require Import ZArith List Bool.
Import ListNotations.
Require Import PV.Lib.Bytes PV.Model.Armor PV.Model.Cleartext PV.Spec.Rfc4880_cleartext.
Open Scope Z_scope.

Example C11_smoke : dash_unescape (dash_escape [45; 10; 45]) = [45; 10; 45].
Proof. reflexivity. Qed.
