(* C11 -- Cleartext signature framework preserves the text and the signature.
   This file holds statements only; every proof is `exact <lemma>` into Proofs/ (or a closed computation
   on a concrete witness). *)
From Coq Require Import ZArith List Bool.
Import ListNotations.
Require Import PV.Lib.Bytes PV.Model.Armor PV.Model.Cleartext PV.Spec.Rfc4880_cleartext
  PV.Proofs.Cleartext_lemmas PV.Proofs.Cleartext_lemmas2 PV.Proofs.Cleartext_lemmas3.
Open Scope Z_scope.

(* ---- dash escaping ---- *)
(* removed exactly once on reading, for every text *)
Theorem C11_unescape_escape : forall t, dash_unescape (dash_escape t) = t.
Proof. exact unescape_escape. Qed.
Print Assumptions C11_unescape_escape.

(* applied to every line that needs it and to no other: it is the RFC 4880 7.1 dash-escaped text *)
Theorem C11_dash_escape_eq_rfc : forall t, dash_escape t = rfc_dash_escape t.
Proof. exact dash_escape_eq_rfc. Qed.
Print Assumptions C11_dash_escape_eq_rfc.

(* every line of the escaped text either does not start with "-" or starts with "- " ... *)
Theorem C11_escaped_lines_safe : forall t, Forall (fun l => safe_line l = true) (split_lines (dash_escape t)).
Proof. exact escaped_lines_safe. Qed.
Print Assumptions C11_escaped_lines_safe.

(* ... hence no line of it can be taken for an armor header line (BEGIN PGP ... / BEGIN PGP SIGNED MESSAGE) *)
Theorem C11_no_line_is_armor_header : forall l, safe_line l = true -> nostart l = true.
Proof. exact no_line_is_armor_header. Qed.
Print Assumptions C11_no_line_is_armor_header.

(* ---- the frame: written out and read back ---- *)
(* for every ASCII text: the Hash: list, the armor headers and the signature packets come back unchanged and
   without CRC warning; the text comes back up to one final CR (class C11/final-lone-cr-ambiguous) *)
Theorem C11_frame_roundtrip : forall names t h p,
  names <> [] -> Forall (fun n => wf_hash_name n = true) names ->
  is_ascii_text t = true -> wf_headers h -> wf_bytes p -> p <> [] ->
  read (render names t h p) = Some (Some (hash_names names), strip_cr t, headers_opt h, p, false).
Proof. exact frame_roundtrip. Qed.
Print Assumptions C11_frame_roundtrip.

(* outside the defect classes the text itself comes back and the signed octets are the RFC 4880 7.1 octets *)
Theorem C11_frame_outside_defects : forall names t h p,
  names <> [] -> Forall (fun n => wf_hash_name n = true) names -> wf_headers h -> wf_bytes p -> p <> [] ->
  defect_non_ascii t = false -> defect_final_cr t = false -> defect_trailing_blanks t = false ->
  read (render names t h p) = Some (Some (hash_names names), t, headers_opt h, p, false)
  /\ canon_pgpy t = canon_rfc71 t.
Proof.
  intros names t h p Nn Fn Hh Wp Np D1 D2 D3. split.
  - rewrite <- (proj1 (final_cr_iff t) D2) at 2. apply frame_roundtrip; try assumption.
    unfold defect_non_ascii in D1. destruct (is_ascii_text t); [reflexivity|discriminate].
  - apply canon_agree_iff, D3.
Qed.
Print Assumptions C11_frame_outside_defects.

(* the same message after every LF of the armored text became CR LF (e-mail transport): Hash: list, headers and
   packets unchanged, the text comes back with CR LF line ends ... *)
Theorem C11_frame_crlf : forall names t h p,
  names <> [] -> Forall (fun n => wf_hash_name n = true) names ->
  is_ascii_text t = true -> wf_headers h -> wf_bytes p -> p <> [] ->
  read (to_crlf (render names t h p)) = Some (Some (hash_names names), to_crlf t, headers_opt h, p, false).
Proof. exact frame_crlf. Qed.
Print Assumptions C11_frame_crlf.

(* ... whose signed octets are those of the text that was signed (for a text without CR) *)
Theorem C11_canon_to_crlf : forall t, forallb (fun c => negb (c =? 13)) t = true -> canon_pgpy (to_crlf t) = canon_pgpy t.
Proof. exact canon_to_crlf. Qed.
Print Assumptions C11_canon_to_crlf.

Example C11_frame_premises :
  Forall (fun n => wf_hash_name n = true) [[83; 72; 65; 50; 53; 54]; [83; 72; 65; 45; 49]] /\
  defect_non_ascii [45; 32; 97; 10; 45; 45; 10; 13; 10; 70] = false /\
  defect_final_cr [45; 32; 97; 10; 45; 45; 10; 13; 10; 70] = false /\
  defect_trailing_blanks [45; 32; 97; 10; 45; 45; 10; 13; 10; 70] = false.
Proof. repeat split; repeat constructor. Qed.

(* ---- Hash: header ---- *)
Theorem C11_hash_header_lists_all : forall names n, In n (hash_names names) <-> In n names.
Proof. exact hash_names_in. Qed.
Print Assumptions C11_hash_header_lists_all.

(* ---- signed octets ---- *)
(* PGPy's \r?\n -> \r\n told line by line *)
Theorem C11_canon_pgpy_lines : forall t, canon_pgpy t = join [13; 10] (canon_lines t).
Proof. exact canon_pgpy_lines. Qed.
Print Assumptions C11_canon_pgpy_lines.

(* the signed octets are the RFC 4880 7.1 octets exactly when no line ends in SP / TAB *)
Theorem C11_canon_agree_iff : forall t, canon_pgpy t = canon_rfc71 t <-> defect_trailing_blanks t = false.
Proof. exact canon_agree_iff. Qed.
Print Assumptions C11_canon_agree_iff.

(* C11/trailing-blanks-signed: "a \n" *)
Theorem C11_canon_agree_refuted : exists t, canon_pgpy t <> canon_rfc71 t.
Proof. exists [97; 32; 10]. vm_compute. discriminate. Qed.

(* C11/non-ascii-cleartext-unreadable: a text outside [ -~\r\n\t] is never read back *)
Theorem C11_non_ascii_unreadable : forall names t h p, defect_non_ascii t = true -> read (render names t h p) = None.
Proof. exact non_ascii_unreadable. Qed.
Print Assumptions C11_non_ascii_unreadable.
Example C11_non_ascii_witness : defect_non_ascii [99; 97; 102; 233] = true.
Proof. reflexivity. Qed.

(* C11/final-lone-cr-ambiguous: "a\r" written with LF line ends reads back as "a" *)
Theorem C11_frame_final_cr_refuted : exists names t h p r,
  is_ascii_text t = true /\ read (render names t h p) = Some r /\ snd (fst (fst (fst r))) <> t.
Proof.
  exists [[83; 72; 65; 50; 53; 54]], [97; 13], [], [1; 2; 3]. eexists.
  split; [reflexivity|]. split; [vm_compute; reflexivity|]. vm_compute. discriminate.
Qed.

(* the reader before commit debc39b (greedy last cleartext line): a message carried over a CR LF transport read
   back with a final CR, so its signed octets changed; the present reader gives the same signed octets *)
Theorem C11_crlf_transport_prefix_refuted : exists names t h p r,
  read_prefix (to_crlf (render names t h p)) = Some r /\ canon_pgpy (snd (fst (fst (fst r)))) <> canon_pgpy t.
Proof.
  exists [[83; 72; 65; 50; 53; 54]], [120; 10; 45; 121], [], [1; 2; 3]. eexists.
  split; [vm_compute; reflexivity|]. vm_compute. discriminate.
Qed.
Example C11_crlf_transport_now : exists r,
  read (to_crlf (render [[83; 72; 65; 50; 53; 54]] [120; 10; 45; 121] [] [1; 2; 3])) = Some r /\
  canon_pgpy (snd (fst (fst (fst r)))) = canon_pgpy [120; 10; 45; 121].
Proof. eexists. split; vm_compute; reflexivity. Qed.
