(* C12 — String-to-key derivation equals the RFC 4880 section 3.7.1 definition.
   Statements only; every proof is `exact <lemma>` into Proofs/S2K_lemmas.v (and Wire_lemmas2.v for the count).
   H / hlen (the hash primitive and its digest size in octets) are universally quantified. *)
From Coq Require Import ZArith List Bool.
Import ListNotations.
Require Import PV.Lib.Bytes PV.Model.Wire PV.Model.S2K PV.Spec.Rfc4880_wire PV.Spec.Rfc4880_s2k
  PV.Proofs.Wire_lemmas2 PV.Proofs.S2K_lemmas.
Open Scope Z_scope.

(* the derived key is the RFC key: every supported specifier (simple 0, salted 1, iterated 3), hash, key size
   (8*kb bits), salt, coded count and passphrase -- the empty passphrase included *)
Theorem C12_derive_eq_rfc : forall (H : Z -> bytes -> bytes) (hlen : Z -> Z) spec halg kb salt c pass,
  spec = 0 \/ spec = 1 \/ spec = 3 -> 0 <= c < 256 -> 0 < hlen halg -> 0 <= kb ->
  derive H hlen spec halg (8 * kb) salt c pass = rfc_s2k H hlen spec halg kb salt c pass.
Proof. exact derive_eq_rfc. Qed.
Print Assumptions C12_derive_eq_rfc.
Example C12_derive_eq_rfc_premises : (3 = 0 \/ 3 = 1 \/ 3 = 3) /\ 0 <= 255 < 256 /\ 0 < 16 /\ 0 <= 32.
Proof. repeat split; try discriminate; auto. Qed.

(* the hashed stream is the salt+passphrase read cyclically, `count` octets of it *)
Theorem C12_stream_eq : forall hlen spec halg keylen salt c pass,
  let p := derive_plan hlen spec halg keylen salt c pass in
  p_sp p <> [] -> hashdata p = cycle_take (Z.to_nat (p_count p)) (p_sp p).
Proof. exact stream_eq. Qed.
Print Assumptions C12_stream_eq.

Theorem C12_stream_shape : forall (sp : bytes) count, sp <> [] -> 0 <= count ->
  rep (Z.to_nat (count / Z.of_nat (length sp))) sp
    ++ firstn (Z.to_nat (count - count / Z.of_nat (length sp) * Z.of_nat (length sp))) sp
  = cycle_take (Z.to_nat count) sp.
Proof. exact stream_eq_Z. Qed.
Print Assumptions C12_stream_shape.

(* what the cyclic reading is: n octets, the i-th being octet (i mod |sp|) of salt+passphrase *)
Theorem C12_cycle_take_nth : forall (l : bytes) d n i, l <> [] -> (i < n)%nat ->
  nth i (cycle_take n l) d = nth (i mod length l) l d.
Proof. exact (@cycle_take_nth Z). Qed.
Print Assumptions C12_cycle_take_nth.
Theorem C12_cycle_take_length : forall n (l : bytes), l <> [] -> length (cycle_take n l) = n.
Proof. exact (@length_cycle_take Z). Qed.
Print Assumptions C12_cycle_take_length.

(* the slice bound is never negative and the rest is a proper prefix (Python's slice semantics for negative bounds never arise) *)
Theorem C12_plan_bounds : forall hlen spec halg keylen salt c pass,
  let p := derive_plan hlen spec halg keylen salt c pass in
  0 <= p_hleft p /\ (p_sp p <> [] -> p_hleft p < Z.of_nat (length (p_sp p))) /\ 0 <= p_hcount p.
Proof. exact plan_hleft_bounds. Qed.
Print Assumptions C12_plan_bounds.

(* number of hash contexts: the least n with n * hash size >= key size; PGPy's ceil(keylen / hashlen) is that number *)
Theorem C12_contexts_least : forall kb hl, 0 < hl -> 0 <= kb ->
  (rfc_contexts kb hl - 1) * hl < kb <= rfc_contexts kb hl * hl.
Proof. exact rfc_contexts_least. Qed.
Print Assumptions C12_contexts_least.
Theorem C12_ceil_div_contexts : forall kb hl, 0 < hl -> 0 <= kb -> ceil_div (8 * kb) (hl * 8) = rfc_contexts kb hl.
Proof. exact ceil_div_contexts. Qed.
Print Assumptions C12_ceil_div_contexts.

(* truncation: exactly the key size, whenever digests have the advertised size *)
Theorem C12_derive_length : forall (H : Z -> bytes -> bytes) (hlen : Z -> Z),
  (forall a x, length (H a x) = Z.to_nat (hlen a)) ->
  forall spec halg kb salt c pass, 0 < hlen halg -> 0 <= kb ->
  length (derive H hlen spec halg (8 * kb) salt c pass) = Z.to_nat kb.
Proof. exact derive_length. Qed.
Print Assumptions C12_derive_length.

(* simple S2K, empty passphrase: the RFC key H("") (truncated), no error *)
Theorem C12_derive_empty_simple : forall (H : Z -> bytes -> bytes) (hlen : Z -> Z) halg keylen salt c,
  hashdata (derive_plan hlen 0 halg keylen salt c []) = [] /\
  (0 < keylen <= hlen halg * 8 ->
   derive H hlen 0 halg keylen salt c [] = firstn (Z.to_nat (keylen / 8)) (H halg [])).
Proof. exact derive_empty_simple. Qed.
Print Assumptions C12_derive_empty_simple.

(* coded count, all 256 codes (shared with C09) *)
Theorem C12_count_eq_rfc : forall c, 0 <= c < 256 -> s2k_count c = rfc_count c.
Proof. exact count_eq_rfc. Qed.
Print Assumptions C12_count_eq_rfc.

(* the compressed-stream form run by the correspondence driver is the same function *)
Theorem C12_derive_sym_eq : forall (H : Z -> bytes -> bytes) (hlen : Z -> Z) Hrep spec halg keylen salt c pass,
  (forall a i sp q r, Hrep a i sp q r = H a (repeat 0 i ++ rep (Z.to_nat q) sp ++ firstn (Z.to_nat r) sp)) ->
  derive_sym hlen Hrep spec halg keylen salt c pass = derive H hlen spec halg keylen salt c pass.
Proof. exact derive_sym_eq. Qed.
Print Assumptions C12_derive_sym_eq.

(* ---- regression (defect F6): the pre-repair code raised for the simple specifier with an empty passphrase ---- *)
Theorem C12_derive_empty_simple_prefix_refuted : forall H hlen,
  exists halg keylen salt c, derive_prefix H hlen 0 halg keylen salt c [] = None.
Proof. intros H hlen. exists 8, 256, [], 0. apply derive_empty_simple_prefix_raises. Qed.
(* ... and that was the only difference *)
Theorem C12_derive_prefix_outside_defect : forall H hlen spec halg keylen salt c pass,
  p_sp (derive_plan hlen spec halg keylen salt c pass) <> [] ->
  derive_prefix H hlen spec halg keylen salt c pass = Some (derive H hlen spec halg keylen salt c pass).
Proof. exact derive_prefix_nonempty. Qed.
Print Assumptions C12_derive_prefix_outside_defect.
