(* C13 -- Every operation draws fresh secret randomness of the right size.
   Statements only; every proof is `exact <lemma>` into Proofs/Fresh_lemmas.v.
   The random source is an allocator of numbered cells; a draw takes the next cell.  PARTIAL by nature: that two different
   cells hold different, unpredictable values is a property of the operating system / OpenSSL generator and outside any
   model (as is the RSA PKCS#1 v1.5 padding randomness drawn inside OpenSSL).  What is proved: each operation asks for the
   values the property lists, of the right size, in call order; no cell is ever used for two purposes or by two operations;
   which cells are drawn does not depend on message, passphrase or recipient; secret cells are never readable in an output.
   Full statement that is out of reach:  "the VALUES used by two operations differ and are unpredictable". *)
From Coq Require Import ZArith List Bool.
Import ListNotations.
Require Import PV.Lib.Bytes PV.Model.Fresh PV.Proofs.Fresh_lemmas.
Open Scope Z_scope.

(* session key = key size of the cipher, prefix = block size, salt = 8, IV = block size -- for every operation ... *)
Theorem C13_draw_sizes : forall o n, forallb (size_ok (cipher_of o)) (tr (exec o n)) = true.
Proof. exact draw_sizes. Qed.
Print Assumptions C13_draw_sizes.
(* ... and along every sequence of operations *)
Theorem C13_draw_sizes_run : forall ops n,
  Forall2 (fun o r => forallb (size_ok (cipher_of o)) (snd r) = true) ops (fst (run ops n)).
Proof. exact draw_sizes_run. Qed.
Print Assumptions C13_draw_sizes_run.
(* the shape of the traces (call order of the real code) *)
Example C13_trace_pass : tr (exec (EncPass 9 [1] [2] None false) 5)
  = [ {| d_purpose := PSessionKey; d_size := 32; d_cell := 5 |}; {| d_purpose := PSalt; d_size := 8; d_cell := 6 |};
      {| d_purpose := PPrefix; d_size := 16; d_cell := 7 |} ].
Proof. reflexivity. Qed.
Example C13_trace_ecdh : tr (exec (EncKey 7 (KEcdh 32) 0 [2] None false) 0)
  = [ {| d_purpose := PSessionKey; d_size := 16; d_cell := 0 |}; {| d_purpose := PEphemeral; d_size := 32; d_cell := 1 |};
      {| d_purpose := PPrefix; d_size := 16; d_cell := 2 |} ].
Proof. reflexivity. Qed.
Example C13_trace_protect : map d_purpose (tr (exec (Protect 2 [1] 2) 0)) = [PIV; PSalt; PIV; PSalt]
  /\ map d_size (tr (exec (Protect 2 [1] 2) 0)) = [8; 8; 8; 8].
Proof. split; reflexivity. Qed.
(* protect with a cipher PGPy encrypts with: per key packet, in this order, an IV of the block size and a salt of 8 octets
   (repair a3ce830 moved the two draws into a String2Key object built on the side: same calls, same order, same sizes) *)
Theorem C13_accepted_protect_trace : forall c pass k n, can_protect c = true -> tr (exec (Protect c pass k) n) = protect_trace c k n.
Proof. exact accepted_protect_trace. Qed.
Print Assumptions C13_accepted_protect_trace.
(* a refused protect has no output; IDEA / Twofish256 are refused by _encrypt after the first packet's IV and salt were
   drawn (fresh cells, dropped with the unused specifier), Plaintext / non-ciphers before anything is drawn *)
Theorem C13_refused_protect_trace : forall c pass k n, can_protect c = false ->
  outs (exec (Protect c pass k) n) = [] /\
  (tr (exec (Protect c pass k) n) = [] \/
   tr (exec (Protect c pass k) n) = [ {| d_purpose := PIV; d_size := blk_octets c; d_cell := n |}; {| d_purpose := PSalt; d_size := 8; d_cell := S n |} ]).
Proof. exact refused_protect_trace. Qed.
Print Assumptions C13_refused_protect_trace.
Example C13_trace_refused_protect : exec (Protect 1 [1] 3) 4 = ([], [ {| d_purpose := PIV; d_size := 8; d_cell := 4 |}; {| d_purpose := PSalt; d_size := 8; d_cell := 5 |} ], 6%nat)
  /\ exec (Protect 0 [1] 3) 4 = ([], [], 4%nat) /\ map can_protect [0; 1; 2; 3; 4; 7; 8; 9; 10; 11; 12; 13] = [false; false; true; true; true; true; true; true; false; true; true; true].
Proof. repeat split; reflexivity. Qed.

(* a caller-supplied session key whose length is not the cipher's key size is refused before ANYTHING is drawn -- by the
   passphrase path since repair 29ef9ad (SKESessionKeyV4.encrypt_sk: the guard precedes the salt), by the public-key path
   before the ephemeral key pair *)
Theorem C13_refused_key_draws_nothing : forall c pass k rcpt msg b enc n, Z.of_nat (length b) <> key_octets c ->
  exec (EncPass c pass msg (Some b) enc) n = ([], [], n) /\ exec (EncKey c k rcpt msg (Some b) enc) n = ([], [], n).
Proof. exact refused_key_draws_nothing. Qed.
Print Assumptions C13_refused_key_draws_nothing.
(* an encryption is carried out (has an output) exactly when no key was supplied or the supplied key fits *)
Theorem C13_pass_accepted_iff_output : forall c pass msg sk enc n, sk_fits c sk = true <-> outs (exec (EncPass c pass msg sk enc) n) <> [].
Proof. exact pass_accepted_iff_output. Qed.
Print Assumptions C13_pass_accepted_iff_output.
Theorem C13_key_accepted_iff_output : forall c k rcpt msg sk enc n, sk_fits c sk = true <-> outs (exec (EncKey c k rcpt msg sk enc) n) <> [].
Proof. exact key_accepted_iff_output. Qed.
Print Assumptions C13_key_accepted_iff_output.
(* the rule before the repair drew the salt (and went on to label the message with a cipher it is not keyed for) *)
Theorem C13_refused_key_old_refuted : exists c pass msg b enc n, Z.of_nat (length b) <> key_octets c /\
  tr (exec_pass_old c pass msg (Some b) enc n) <> [].
Proof. exact refused_key_old_refuted. Qed.
Print Assumptions C13_refused_key_old_refuted.

(* the i-th draw of a process takes cell n + i: cells strictly increase over any sequence of operations ... *)
Theorem C13_cells_strictly_increasing : forall ops n, cells (traces ops n) = seq n (length (traces ops n)).
Proof. exact cells_strictly_increasing. Qed.
Print Assumptions C13_cells_strictly_increasing.
(* ... hence no cell is shared: not between two purposes, not between two operations (identical or not) *)
Theorem C13_no_cell_shared : forall ops n, NoDup (cells (traces ops n)).
Proof. exact no_cell_shared. Qed.
Print Assumptions C13_no_cell_shared.
Theorem C13_ops_disjoint : forall a o1 b o2 r n c,
  let ops := a ++ o1 :: b ++ o2 :: r in
  In c (cells (tr (exec o1 (snd (run a n))))) -> In c (cells (tr (exec o2 (snd (run (a ++ o1 :: b) n))))) -> False.
Proof. exact ops_disjoint. Qed.
Print Assumptions C13_ops_disjoint.

(* non-interference: which cells are drawn, for what, of what size, depends only on (cipher, recipient kind, whether a session
   key was supplied and whether its LENGTH is the cipher's key size, whether the message is already encrypted, number of
   key packets) -- never on message, passphrase, recipient identity or the supplied key octets *)
Theorem C13_draws_independent_of_message : forall ops1 ops2 n, map shape_of ops1 = map shape_of ops2 ->
  traces ops1 n = traces ops2 n /\ snd (run ops1 n) = snd (run ops2 n).
Proof. exact draws_independent_of_message. Qed.
Print Assumptions C13_draws_independent_of_message.
Example C13_same_shape : map shape_of [EncPass 9 [1] [2] None false; EncKey 7 KRsa 0 [3] (Some [4]) false]
                       = map shape_of [EncPass 9 [7; 7] [8; 8; 8] None false; EncKey 7 KRsa 5 [] (Some [9; 9]) false].
Proof. reflexivity. Qed.
Example C13_same_shape_refused : shape_of (EncPass 7 [1] [2] (Some [1; 2; 3]) false) = shape_of (EncPass 7 [5] [] (Some [9; 9; 9; 9]) false)
  /\ shape_of (EncPass 7 [1] [2] (Some [1; 2; 3]) false) <> shape_of (EncPass 7 [1] [2] (Some (repeat 0 16)) false).
Proof. split; [reflexivity | discriminate]. Qed.

(* subterm lemma over whole sequences: a cell drawn as session key, prefix or ephemeral secret is readable in NO output of the
   sequence (it occurs only as key / plaintext of an encryption, under a key agreement, or as the public point) *)
Theorem C13_session_key_only_under_encryption : forall ops n x,
  In x (secret_cells (traces ops n)) -> In x (exposed_all (outputs ops n)) -> False.
Proof. exact session_key_only_under_encryption. Qed.
Print Assumptions C13_session_key_only_under_encryption.
(* [exposed] is not vacuous: the salt of a passphrase encryption IS readable in its output *)
Theorem C13_salt_is_exposed : forall c pass msg n, In (S n) (exposed_all (outs (exec (EncPass c pass msg None false) n))).
Proof. exact salt_is_exposed. Qed.
Print Assumptions C13_salt_is_exposed.

(* a supplied session key is used as given, nothing is drawn for it, and it is not readable in the output;
   without one the first draw of the operation is the session key, of the cipher's key size, and no other draw is *)
Theorem C13_supplied_key_not_redrawn : forall o n b, sk_of o = Some (Some b) ->
  sk_term o n = Some (Given b) /\
  filter (fun d => match d_purpose d with PSessionKey => true | _ => false end) (tr (exec o n)) = [] /\
  given_all (outs (exec o n)) = [].
Proof. exact supplied_key_not_redrawn. Qed.
Print Assumptions C13_supplied_key_not_redrawn.
Theorem C13_absent_key_drawn_first : forall o n, sk_of o = Some None ->
  sk_term o n = Some (Tok n) /\
  exists t, tr (exec o n) = {| d_purpose := PSessionKey; d_size := key_octets (cipher_of o); d_cell := n |} :: t /\
            filter (fun d => match d_purpose d with PSessionKey => true | _ => false end) t = [].
Proof. exact absent_key_drawn_first. Qed.
Print Assumptions C13_absent_key_drawn_first.
