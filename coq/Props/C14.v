(* C14 - Transferable keys survive export and import with their structure intact.
   Statements only; every proof is `exact <lemma>` into Proofs/ (refutations are closed witnesses by vm_compute).
   Model: Model/KeyStruct.v (PGPKey.parse / __bytearray__ / __or__ / __copy__ / pubkey, PGPUID.__or__ / __lt__ / selfsig,
   SorteDeque.insort / resort), tied to /repo by the correspondence run of tools/harness/c14.py.
   "Still verifying" after import is C15 (symbolic) plus real verification in the harness. *)
From Coq Require Import ZArith List Bool Permutation.
Import ListNotations.
Require Import PV.Model.KeyStruct PV.Proofs.KeyStruct_lemmas PV.Proofs.KeyStruct_lemmas2 PV.Proofs.KeyStruct_lemmas3.
Require Import PV.Lib.Bytes PV.Model.SubArea PV.Proofs.SubArea_lemmas.
Open Scope Z_scope.

(* ------------------------------------------------------------------ import . export *)
(* For EVERY key whose subkeys are public exactly when the key is (PGPy cannot build another one), importing the export
   yields exactly one key: the key without its non-exportable signature packets, rebuilt with PGPy's attachment operators
   (`copy` is that rebuilding).  No sortedness, no distinctness assumed. *)
Theorem C14_import_export : forall k, wf_pub k -> import (export k) = Ok [copy (strip_nonexportable k)].
Proof. exact import_export. Qed.
Print Assumptions C14_import_export.

(* If the lists of the stripped key are in order, the rebuilt key IS the stripped key: same material, same user ids in
   the same order with the same signature LISTS, same subkeys, same signature packets per component in the same order
   (the embedded copies in PGPKey._signatures are derived data and are re-derived). *)
Theorem C14_import_export_exact : forall k, wfk k -> sorted_keyP (strip_nonexportable k) ->
  exists k', import (export k) = Ok [k'] /\ key_equiv k' (strip_nonexportable k).
Proof. exact import_export_exact. Qed.
Print Assumptions C14_import_export_exact.

(* the premise holds for every key in order whose user id signatures are all exportable *)
Theorem C14_strip_keeps_order : forall k, sorted_keyP k -> uids_exportable k -> sorted_keyP (strip_nonexportable k).
Proof. exact strip_sorted. Qed.
Print Assumptions C14_strip_keeps_order.

(* Without any order assumption: same material, and per component exactly the exportable signatures (user ids up to the
   order PGPUID.__lt__ gives them once a non-exportable newest self-signature is gone). *)
Theorem C14_only_nonexportable_omitted : forall k, wf_pub k ->
  exists k', import (export k) = Ok [k'] /\ p_label k' = p_label k /\ p_public k' = p_public k
  /\ (forall s, In s (tops (p_sigs k')) <-> In s (tops (p_sigs k)) /\ exportable (s_core s) = true)
  /\ (exists us, Permutation (p_uids k') us /\ Forall2 (fun u' u => u_isuid u' = u_isuid u /\ u_content u' = u_content u
        /\ forall s, In s (u_sigs u') <-> In s (u_sigs u) /\ exportable (s_core s) = true) us (p_uids k))
  /\ (NoDup (map sk_label (p_subs k)) ->
      Forall2 (fun sk' sk => sk_label sk' = sk_label sk /\ sk_public sk' = sk_public sk /\ sk_cansign sk' = sk_cansign sk
        /\ forall s, In s (tops (sk_sigs sk')) <-> In s (tops (sk_sigs sk)) /\ exportable (s_core s) = true) (p_subs k') (p_subs k)).
Proof. exact only_nonexportable_omitted. Qed.
Print Assumptions C14_only_nonexportable_omitted.

(* several keys in one blob *)
Theorem C14_concat_splits : forall kl,
  (forall k, In k kl -> wf_pub k) -> NoDup (map kid kl) ->
  import (flat_map export kl) = Ok (map (fun k => copy (strip_nonexportable k)) kl).
Proof. exact concat_splits. Qed.
Print Assumptions C14_concat_splits.

(* the second round trip is the identity on the exported packets *)
Theorem C14_export_import_export_fixpoint : forall k, wf_pub k ->
  exists k1 k2, import (export k) = Ok [k1] /\ import (export k1) = Ok [k2] /\ export k2 = export k1.
Proof. exact export_import_export_fixpoint. Qed.
Print Assumptions C14_export_import_export_fixpoint.

(* what is imported is always in order and well formed *)
Theorem C14_rebuilt_in_order : forall pub k, sorted_keyP (rebuild_as pub k) /\ wfk (rebuild_as pub k).
Proof. intros. split; [apply rebuild_sorted | apply rebuild_wfk]. Qed.
Print Assumptions C14_rebuilt_in_order.

(* ------------------------------------------------------------------ copy *)
Theorem C14_copy_equiv : forall k, sorted_keyP k -> wfk k -> key_equiv (copy k) k.
Proof. exact copy_equiv. Qed.
Print Assumptions C14_copy_equiv.
Theorem C14_copy_exports_identically : forall k, sorted_keyP k -> wfk k -> export (copy k) = export k.
Proof. exact copy_exports_identically. Qed.
Print Assumptions C14_copy_exports_identically.
(* the public twin of a private key: the same key with the public flag set *)
Theorem C14_twin_equiv : forall k, sorted_keyP k -> NoDup (map sk_label (p_subs k)) -> key_equiv (rebuild_as true k) (set_pub true k).
Proof. intros k. exact (rebuild_equiv true k). Qed.
Print Assumptions C14_twin_equiv.

(* a non-trivial key meeting all premises: two same-second signatures, explicit exportable 1 and 0, a signing subkey with
   embedded cross-signature, a direct signature *)
Definition dd : digest := {| d_subj := OnKey 0; d_type := 0; d_created := 0; d_exp := None; d_primary := false; d_info := []; d_issuer := 0 |}.
Definition mk (issuer typ created : Z) (e : option bool) (prim : bool) (id : Z) : score :=
  {| c_issuer := issuer; c_type := typ; c_created := created; c_exp := e; c_primary := prim; c_info := [id]; c_signer := issuer; c_digest := dd |}.
Definition ps (c : score) : sig := {| s_core := c; s_emb := [] |}.
Definition k_ex : key :=
  {| p_label := 1; p_public := true;
     p_sigs := [Top (ps (mk 1 31 90 None false 1))];
     p_uids := [ {| u_isuid := true; u_content := [7]; u_sigs := [ps (mk 1 19 100 None true 2); ps (mk 2 16 100 (Some true) false 3); ps (mk 3 16 100 (Some false) false 4)] |};
                 {| u_isuid := false; u_content := [8]; u_sigs := [ps (mk 1 19 95 None false 5)] |} ];
     p_subs := [ {| sk_label := 5; sk_public := true; sk_cansign := true;
                    sk_sigs := [Top {| s_core := mk 1 24 100 None false 6; s_emb := [mk 5 25 100 None false 7] |}; Emb (mk 5 25 100 None false 7)] |} ] |}.
Example C14_premises_inhabited : wfk k_ex /\ sorted_keyP k_ex /\ sorted_keyP (strip_nonexportable k_ex) /\ wf_pub k_ex
  /\ strip_nonexportable k_ex <> k_ex.
Proof.
  split; [apply wfkb_P; vm_compute; reflexivity|]. split; [apply all_sortedb_P; vm_compute; reflexivity|].
  split; [apply all_sortedb_P; vm_compute; reflexivity|]. split; [apply wf_pubb_wf_pub; vm_compute; reflexivity|].
  vm_compute. discriminate.
Qed.

(* before the F9 repair (bisect_left): two signatures of one second change places in the copy *)
Theorem C14_copy_exports_identically_prefix_refuted :
  exists k, wfk k /\ sorted_keyP k /\ export (copy_prefix k) <> export k.
Proof.
  exists k_ex. split; [apply wfkb_P; vm_compute; reflexivity|]. split; [apply all_sortedb_P; vm_compute; reflexivity|].
  vm_compute. discriminate.
Qed.

(* ------------------------------------------------------------------ explicit exportable=True *)
Theorem C14_explicit_exportable_true_kept : forall k, wf_pub k ->
  exists k1, import (export k) = Ok [k1]
  /\ (forall s, In s (tops (p_sigs k)) -> c_exp (s_core s) = Some true -> In s (tops (p_sigs k1)) /\ In (PSig s) (export k1))
  /\ (forall u s, In u (p_uids k) -> In s (u_sigs u) -> c_exp (s_core s) = Some true ->
        exists u1, In u1 (p_uids k1) /\ u_isuid u1 = u_isuid u /\ u_content u1 = u_content u /\ In s (u_sigs u1) /\ In (PSig s) (export k1))
  /\ (forall sk s, In sk (p_subs k) -> NoDup (map sk_label (p_subs k)) -> In s (tops (sk_sigs sk)) -> c_exp (s_core s) = Some true ->
        exists sk1, In sk1 (p_subs k1) /\ sk_label sk1 = sk_label sk /\ In s (tops (sk_sigs sk1)) /\ In (PSig s) (export k1)).
Proof. exact explicit_exportable_true_kept. Qed.
Print Assumptions C14_explicit_exportable_true_kept.

(* before the F2 repair (a parsed Boolean subpacket lost its value): the signature is imported but no longer exported *)
Theorem C14_explicit_exportable_true_prefix_refuted :
  exists k u s k1, In u (p_uids k) /\ In s (u_sigs u) /\ c_exp (s_core s) = Some true /\ In (PSig s) (export k)
    /\ import_prefix_f2 (export k) = Ok [k1] /\ (forall p, In p (export k1) -> p <> PSig s /\ p <> PSig (psig_prefix_f2 s)).
Proof.
  exists {| p_label := 1; p_public := true; p_sigs := []; p_subs := [];
            p_uids := [{| u_isuid := true; u_content := [7]; u_sigs := [ps (mk 2 16 100 (Some true) false 3)] |}] |}.
  eexists. exists (ps (mk 2 16 100 (Some true) false 3)). eexists.
  split; [left; reflexivity|]. split; [left; reflexivity|]. split; [reflexivity|]. split; [vm_compute; auto|].
  split; [vm_compute; reflexivity|].
  intros p Hp. vm_compute in Hp. destruct Hp as [Hp|[Hp|[]]]; subst p; split; discriminate.
Qed.

(* ------------------------------------------------------------------ SorteDeque *)
(* bisect_right by binary search finds the boundary of every partitioned list *)
Theorem C14_bisect_finds_boundary : forall (A : Type) (p : A -> bool) (l1 l2 : list A),
  forallb (fun y => negb (p y)) l1 = true -> forallb p l2 = true ->
  bsearch p (l1 ++ l2) (S (length (l1 ++ l2))) 0 (length (l1 ++ l2)) = length l1.
Proof. exact bisect_finds_boundary. Qed.
Print Assumptions C14_bisect_finds_boundary.

Theorem C14_insort_sorted : forall s l, sortedb sig_lt l = true -> sortedb sig_lt (insort sig_lt s l) = true.
Proof. exact (insort_sorted sig_lt sig_lt_irrefl sig_lt_trans sig_lt_negtrans). Qed.
Print Assumptions C14_insort_sorted.
Theorem C14_insort_uid_sorted : forall k u l, sortedb (uid_lt k) l = true -> sortedb (uid_lt k) (insort (uid_lt k) u l) = true.
Proof. intro k. exact (insort_sorted (uid_lt k) (uid_lt_irrefl k) (uid_lt_trans k) (uid_lt_negtrans k)). Qed.
Print Assumptions C14_insort_uid_sorted.
Theorem C14_insort_perm : forall s l, Permutation (insort sig_lt s l) (s :: l).
Proof. exact (insort_perm sig_lt). Qed.
Print Assumptions C14_insort_perm.
(* stability: everything not greater than the new element - its equals included - stays in front of it *)
Theorem C14_insort_after_equals : forall s l, sortedb sig_lt l = true ->
  exists l1 l2, l = l1 ++ l2 /\ insort sig_lt s l = l1 ++ s :: l2
                /\ (forall y, In y l1 -> sig_lt s y = false) /\ (forall y, In y l2 -> sig_lt s y = true).
Proof. exact (insort_after_equals sig_lt sig_lt_negtrans). Qed.
Print Assumptions C14_insort_after_equals.
(* hence re-inserting a list in order reproduces it (copy / import keep the order of equal timestamps) *)
Theorem C14_reinsert_sorted_is_identity : forall l, sortedb sig_lt l = true -> insort_all sig_lt l [] = l.
Proof. exact (insort_all_sorted_id sig_lt sig_lt_negtrans). Qed.
Print Assumptions C14_reinsert_sorted_is_identity.
Theorem C14_insort_prefix_reverses_ties_refuted :
  exists a b, c_created (s_core a) = c_created (s_core b) /\ insort_all (fun _ _ => false) [] [a; b] = [a; b]
              /\ fold_left (fun acc x => insort_prefix sig_lt x acc) [a; b] [] = [b; a]
              /\ insort_all sig_lt [a; b] [] = [a; b].
Proof.
  exists (ps (mk 1 19 100 None false 1)), (ps (mk 2 16 100 None false 2)). repeat split; vm_compute; reflexivity.
Qed.

(* SorteDeque.resort (repair d951222) restores the order; the code before it could leave a user id list unsorted *)
Theorem C14_resort_sorted : forall k j l, (j < length l)%nat -> sortedb (uid_lt k) (remove_nth j l) = true ->
  sortedb (uid_lt k) (resort (uid_lt k) j l) = true /\ Permutation (resort (uid_lt k) j l) l.
Proof.
  intros k j l Hj Hs. split.
  - exact (resort_sorted (uid_lt k) (uid_lt_irrefl k) (uid_lt_trans k) (uid_lt_negtrans k) j l Hj Hs).
  - apply resort_perm.
Qed.
Print Assumptions C14_resort_sorted.
Theorem C14_resort_prefix_refuted :
  exists k j l, (j < length l)%nat /\ sortedb (uid_lt k) (remove_nth j l) = true /\ sortedb (uid_lt k) (resort_prefix (uid_lt k) j l) = false.
Proof.
  (* three user ids marked primary; the middle one has just been re-certified without the primary mark (a revocation by the key
     no longer counts as its self-signature: repair 812bc0f) *)
  exists 1, 1%nat,
    [ {| u_isuid := true; u_content := [3]; u_sigs := [ps (mk 1 19 3 None true 3)] |};
      {| u_isuid := true; u_content := [2]; u_sigs := [ps (mk 1 19 2 None true 2); ps (mk 1 19 10 None false 4)] |};
      {| u_isuid := true; u_content := [1]; u_sigs := [ps (mk 1 19 1 None true 1)] |} ].
  repeat split; vm_compute; auto.
Qed.

(* ------------------------------------------------------------------ the identity order reads PGPUID.selfsig (repair 812bc0f) *)
(* selfsig is the newest self-CERTIFICATION: attaching a certification revocation, an attestation or any third-party signature to an
   identity changes neither its primary mark nor its place among the identities of the key *)
Theorem C14_uid_order_ignores_noncert : forall K a b s,
  (is_cert_type (c_type (s_core s)) = false \/ c_issuer (s_core s) <> K) ->
  uid_is_primary K (uid_or_sig a s) = uid_is_primary K a
  /\ uid_lt K (uid_or_sig a s) b = uid_lt K a b /\ uid_lt K b (uid_or_sig a s) = uid_lt K b a.
Proof. exact uid_lt_ignores_noncert. Qed.
Print Assumptions C14_uid_order_ignores_noncert.
(* before that repair the newest signature of any type by the key was taken: a revocation (an attestation) replaced the
   certification as "self-signature", today it does not *)
Theorem C14_selfsig_old_refuted :
  exists K u r t, is_cert_type (c_type (s_core r)) = false /\ is_cert_type (c_type (s_core t)) = false
    /\ selfsig_old K (uid_or_sig u r) = Some r /\ selfsig_old K (uid_or_sig u t) = Some t /\ selfsig_old K u <> Some r
    /\ selfsig K (uid_or_sig u r) = selfsig K u /\ selfsig K (uid_or_sig u t) = selfsig K u /\ selfsig K u = selfsig_old K u.
Proof.
  exists 1, {| u_isuid := true; u_content := [2]; u_sigs := [ps (mk 1 19 2 None true 2)] |},
         (ps (mk 1 T_CERT_REV 10 None false 4)), (ps (mk 1 T_ATTESTATION 10 None false 5)).
  repeat split; vm_compute; congruence.
Qed.

(* the same through PGPKey.parse: two identities marked primary, the NEWER one revoked afterwards.  It stays the first identity
   (primary, newer certification); with the old rule the revocation was its self-signature, it lost the primary mark and went last -
   and likewise for an attestation *)
Definition blob_revoked (typ : Z) : list packet :=
  [PKey true true true 1; PUid true [1]; PSig (ps (mk 1 19 100 None true 1));
   PUid true [2]; PSig (ps (mk 1 19 101 None true 2)); PSig (ps (mk 1 typ 102 None false 3))].
Theorem C14_import_selfsig_old_refuted : forall typ, typ = T_CERT_REV \/ typ = T_ATTESTATION ->
  exists a b, import (blob_revoked typ) = Ok [a] /\ map u_content (p_uids a) = [[2]; [1]]
    /\ map (uid_is_primary 1) (p_uids a) = [true; true]
    /\ import_old_selfsig (blob_revoked typ) = Ok [b] /\ map u_content (p_uids b) = [[1]; [2]]
    /\ map (uid_is_primary_with selfsig_old 1) (p_uids b) = [true; false].
Proof.
  intros typ [->| ->]; (eexists; eexists; split; [vm_compute; reflexivity|]; split; [reflexivity|]; split; [reflexivity|];
    split; [vm_compute; reflexivity|]; split; reflexivity).
Qed.
Print Assumptions C14_import_selfsig_old_refuted.

(* ------------------------------------------------------------------ a blob that repeats a key (repair 84a9ce0) *)
(* A, B, A again followed by a user id and a subkey: both attach to the key they follow (the dictionary entry of A, which keeps
   its first position); before the repair they were attached to B, the last dictionary entry *)
Definition blob_aba : list packet :=
  [PKey true true true 1; PUid true [1]; PKey true true true 2; PUid true [2]; PKey true true true 1; PUid true [3]; PKey false true true 4].
Theorem C14_repeated_key_components_follow_their_key :
  exists a b, import blob_aba = Ok [a; b] /\ p_label a = 1 /\ p_label b = 2
    /\ map u_content (p_uids a) = [[3]] /\ map sk_label (p_subs a) = [4] /\ map u_content (p_uids b) = [[2]] /\ p_subs b = [].
Proof. eexists. eexists. split; [vm_compute; reflexivity|]. repeat split. Qed.
Theorem C14_repeated_key_prefix_refuted :
  exists a b, import_prefix_dup blob_aba = Ok [a; b] /\ p_label a = 1 /\ p_label b = 2
    /\ p_uids a = [] /\ map u_content (p_uids b) = [[2]; [3]] /\ map sk_label (p_subs b) = [4].
Proof. eexists. eexists. split; [vm_compute; reflexivity|]. repeat split. Qed.

(* ------------------------------------------------------------------ packets that are not understood (repair bf7dbf5) *)
(* The orphan repair: what is no part of a key - signatures before the first non-signature packet, a stray packet (a Marker packet as
   old PGP wrote in front of keyrings, ...) with the signatures grouped with it - is set aside and the parse goes on; nothing else is
   dropped.  Leading signatures change nothing: *)
Theorem C14_leading_signatures_ignored : forall ss ps, forallb is_sigpkt ss = true -> import (ss ++ ps) = import ps.
Proof. exact leading_signatures_ignored. Qed.
Print Assumptions C14_leading_signatures_ignored.

(* ... and a stray packet with the signatures that follow it, in front of, between or after the packets of the keys - anywhere but directly
   in front of signatures (which would then be grouped with it instead of the component before) - changes nothing either *)
Theorem C14_stray_packets_do_not_disturb : forall a id ss b, forallb is_sigpkt ss = true -> fst (groups (filter not_trust b)) = [] ->
  import (a ++ PStray id :: ss ++ b) = import (a ++ b).
Proof. exact stray_packets_do_not_disturb. Qed.
Print Assumptions C14_stray_packets_do_not_disturb.

(* the same on the groups the parse loop sees: all stray groups removed, the skipping pass leaves the same groups to build keys from *)
Theorem C14_stray_groups_invisible : forall gs b, drop_skipped b (filter (fun g => negb (stray_group g)) gs) = drop_skipped b gs.
Proof. exact drop_skipped_filter_stray. Qed.
Print Assumptions C14_stray_groups_invisible.

(* hence also for exported keys: markers and stray signatures around and between them do not disturb the separation *)
Example C14_stray_between_exports : forall k1 k2 id1 id2 ss, wf_pub k1 -> wf_pub k2 -> kid k1 <> kid k2 -> forallb is_sigpkt ss = true ->
  import (PStray id1 :: ss ++ export k1 ++ PStray id2 :: ss ++ export k2)
  = Ok [copy (strip_nonexportable k1); copy (strip_nonexportable k2)].
Proof.
  intros k1 k2 id1 id2 ss H1 H2 Hne Hs.
  assert (Hx : forall k r, fst (groups (filter not_trust (export k ++ r))) = []).
  { intros k r. unfold export. rewrite <- app_comm_cons. cbn [filter not_trust groups]. destruct (groups _). reflexivity. }
  change (PStray id1 :: ss ++ export k1 ++ PStray id2 :: ss ++ export k2)
    with ([] ++ PStray id1 :: ss ++ (export k1 ++ PStray id2 :: ss ++ export k2)).
  rewrite (stray_packets_do_not_disturb [] id1 ss _ Hs (Hx k1 _)). cbn [app].
  assert (Hy : fst (groups (filter not_trust (export k2))) = []) by (rewrite <- (app_nil_r (export k2)); apply Hx).
  rewrite (stray_packets_do_not_disturb (export k1) id2 ss (export k2) Hs Hy).
  pose proof (concat_splits [k1; k2]) as H. cbn [flat_map map] in H. rewrite app_nil_r in H. apply H.
  - intros k [<-|[<-|[]]]; assumption.
  - constructor; [intros [E|[]]; congruence|constructor; [intros []|constructor]].
Qed.

(* the witnesses, and the rules before refuted: HEAD before the orphan repair left the loop and restarted it, which lost the packet
   itertools.groupby had read ahead (import_pre_orphanfix); before bf7dbf5 a leading signature raised *)
Definition sg7 : packet := PSig (ps (mk 1 19 100 None true 7)).
Theorem C14_leading_signature_orphaned :
  (exists a b, import [sg7; PKey true true true 1; PKey true true true 2; PUid true [3]] = Ok [a; b]
     /\ p_label a = 1 /\ p_uids a = [] /\ p_label b = 2 /\ map u_content (p_uids b) = [[3]])
  /\ (exists a, import [sg7; PKey true true true 1; PUid true [3]] = Ok [a] /\ p_label a = 1 /\ map u_content (p_uids a) = [[3]])
  /\ import [POpaque true 5; sg7; PKey true true true 1; PUid true [3]] = import [PKey true true true 1; PUid true [3]]
  /\ (exists b, import_pre_orphanfix [sg7; PKey true true true 1; PKey true true true 2; PUid true [3]] = Ok [b] /\ p_label b = 2)
  /\ import_pre_orphanfix [sg7; PKey true true true 1; PUid true [3]] = ErrNoPrimary
  /\ import_pre_bf7 [sg7; PKey true true true 1; PUid true [3]] = ErrLeadingSignature.
Proof.
  split; [eexists; eexists; split; [vm_compute; reflexivity|]; repeat split|].
  split; [eexists; split; [vm_compute; reflexivity|]; repeat split|].
  split; [reflexivity|]. split; [eexists; split; [vm_compute; reflexivity|]; reflexivity|]. split; reflexivity.
Qed.
Print Assumptions C14_leading_signature_orphaned.

(* key 1, a stray packet, key 2: two keys with their own user ids - one key carrying both user ids under the rule before;
   a stray packet in front of a key: the key - a TypeError (no primary key for its user id) under the rule before *)
Definition blob_stray : list packet := [PKey true true true 1; PUid true [1]; PStray 0; PKey true true true 2; PUid true [2]].
Theorem C14_stray_packet_pre_orphanfix_refuted :
  (exists a b, import blob_stray = Ok [a; b] /\ p_label a = 1 /\ map u_content (p_uids a) = [[1]]
     /\ p_label b = 2 /\ map u_content (p_uids b) = [[2]])
  /\ (exists a, import_pre_orphanfix blob_stray = Ok [a] /\ p_label a = 1 /\ map u_content (p_uids a) = [[1]; [2]])
  /\ (exists a, import [PStray 0; PKey true true true 1; PUid true [1]] = Ok [a] /\ p_label a = 1 /\ map u_content (p_uids a) = [[1]])
  /\ import_pre_orphanfix [PStray 0; PKey true true true 1; PUid true [1]] = ErrNoPrimary.
Proof.
  split; [eexists; eexists; split; [vm_compute; reflexivity|]; repeat split|].
  split; [eexists; split; [vm_compute; reflexivity|]; repeat split|].
  split; [eexists; split; [vm_compute; reflexivity|]; repeat split|]. reflexivity.
Qed.
Print Assumptions C14_stray_packet_pre_orphanfix_refuted.

(* after a primary key packet of unknown version nothing is kept until an understood primary key packet comes *)
Theorem C14_opaque_primary_skips_what_follows : forall gs,
  (forall g, In g gs -> match fst g with PKey true _ _ _ => False | _ => True end) -> drop_skipped true gs = [].
Proof. exact drop_skipped_true_nokey. Qed.
Print Assumptions C14_opaque_primary_skips_what_follows.

(* A, then a primary key of unknown version with a user id and a subkey of its own, then B: A and B come back with their own
   components only.  Before the repair the unknown key's user id and subkey were attached to A, and a leading signature raised *)
Definition blob_unknown : list packet :=
  [PKey true true true 1; PUid true [1]; POpaqueKey 9; PSig (ps (mk 9 31 100 None false 1)); PUid true [2]; PSig (ps (mk 9 19 100 None true 2));
   PKey false true true 4; POpaque false 3; PUid true [5]; PKey true true true 2; PUid true [3]].
Theorem C14_unknown_primary_keeps_its_components :
  exists a b, import blob_unknown = Ok [a; b] /\ p_label a = 1 /\ p_label b = 2
    /\ map u_content (p_uids a) = [[1]] /\ p_subs a = [] /\ map u_content (p_uids b) = [[3]] /\ p_subs b = [].
Proof. eexists. eexists. split; [vm_compute; reflexivity|]. repeat split. Qed.
Theorem C14_unknown_primary_prefix_refuted :
  (exists a b, import_pre_bf7 blob_unknown = Ok [a; b] /\ p_label a = 1
     /\ map u_content (p_uids a) = [[1]; [2]; [5]] /\ map sk_label (p_subs a) = [4])
  /\ import_pre_bf7 (PSig (ps (mk 1 19 100 None true 7)) :: blob_unknown) = ErrLeadingSignature.
Proof. split; [eexists; eexists; split; [vm_compute; reflexivity|]; repeat split|reflexivity]. Qed.

(* the general form: whatever follows a primary key packet of unknown version - signatures, user ids, attributes, subkeys, stray and
   opaque packets, further primary keys of unknown version, Trust packets - up to the next understood primary key packet, the two
   neighbours come back exactly as if the unknown key were not there.  No side condition on how junk begins: signatures directly after
   the unknown key packet are grouped with IT (and dropped with it), they do not reach the last component of k1.  (The premise excludes
   only an understood primary key packet inside junk: that one would be a third key.) *)
Theorem C14_unknown_primary_between_exports : forall k1 k2 (junk : list packet) v,
  wf_pub k1 -> wf_pub k2 -> kid k1 <> kid k2 ->
  (forall p, In p junk -> match p with PKey true _ _ _ => False | _ => True end) ->
  import (export k1 ++ POpaqueKey v :: junk ++ export k2) = Ok [copy (strip_nonexportable k1); copy (strip_nonexportable k2)].
Proof. exact unknown_primary_between_exports. Qed.
Print Assumptions C14_unknown_primary_between_exports.

(* non-vacuity: k_ex (above) and a second key around an unknown key that brings signatures, a user id, a subkey with a binding, a stray
   packet, a Trust packet, an opaque signature and a further unknown primary key *)
Definition k_ex2 : key :=
  {| p_label := 2; p_public := true; p_sigs := [];
     p_uids := [ {| u_isuid := true; u_content := [9]; u_sigs := [ps (mk 2 19 100 None true 20)] |} ]; p_subs := [] |}.
Definition junk_ex : list packet :=
  [PSig (ps (mk 9 31 100 None false 30)); PTrust; PUid true [2]; PSig (ps (mk 9 19 100 None true 31)); PStray 1; PSig (ps (mk 1 16 100 None false 32));
   PKey false true true 4; PSig (ps (mk 9 24 100 None false 33)); POpaque true 6; POpaqueKey 8; PUid false [3]].
Example C14_unknown_primary_between_exports_inhabited :
  wf_pub k_ex /\ wf_pub k_ex2 /\ kid k_ex <> kid k_ex2
  /\ (forall p, In p junk_ex -> match p with PKey true _ _ _ => False | _ => True end)
  /\ import (export k_ex ++ POpaqueKey 7 :: junk_ex ++ export k_ex2) = Ok [copy (strip_nonexportable k_ex); copy (strip_nonexportable k_ex2)]
  /\ (* the rule before repair bf7dbf5 gave the unknown key's user ids and subkey to k_ex *)
     (exists a b, import_pre_bf7 (export k_ex ++ POpaqueKey 7 :: junk_ex ++ export k_ex2) = Ok [a; b]
                  /\ length (p_uids a) = 4%nat /\ length (p_subs a) = 2%nat).
Proof.
  split; [apply wf_pubb_wf_pub; vm_compute; reflexivity|]. split; [apply wf_pubb_wf_pub; vm_compute; reflexivity|].
  split; [vm_compute; congruence|]. split.
  - intros p Hp. vm_compute in Hp. repeat (destruct Hp as [<-|Hp]; [exact I|]). destruct Hp.
  - split; [vm_compute; reflexivity|]. eexists. eexists. split; [vm_compute; reflexivity|]. split; reflexivity.
Qed.

(* ------------------------------------------------------------------ signature packets inside the key keep their octets *)
(* KeyStruct treats a signature packet as an atom; that is justified for the two subpacket areas by Model/SubArea.v:
   copies (copy.copy, PGPKey.pubkey) export what the original exports, and a parsed packet exports what was read *)
Theorem C14_signature_copy_same_octets : forall reser s,
  sa_emit reser (sa_copy s) = sa_emit reser s /\ sa_hashed_emit reser (sa_copy s) = sa_hashed_emit reser s.
Proof. exact copy_same_emit. Qed.
Print Assumptions C14_signature_copy_same_octets.

Theorem C14_signature_areas_verbatim : forall reser p st rest, sa_parse p = Some (st, rest) -> sa_emit reser st ++ rest = p.
Proof. exact emit_parse_verbatim. Qed.
Print Assumptions C14_signature_areas_verbatim.
