(* C15 - Key-management histories keep a key self-consistent.
   Statements only; proofs are `exact <lemma>` into Proofs/KeyHist_lemmas.v (witnesses by vm_compute).
   Model: Model/KeyHist.v over Model/KeyStruct.v.  PARTIAL in one named sense: signatures are symbolic records and
   "verifies" is the recomputation of the digest term (subject + hashed fields) under the issuer's label; nothing is
   said about the signature primitive (that is checked on the real code by tools/harness/c15.py with Ed25519 keys).
   PGPUID.selfsig is the newest self-CERTIFICATION (types 0x10-0x13 issued by the key; repair 812bc0f): after revoke(uid) or an
   attestation the effective attributes of the identity and the key expiry are still those of the certification.  The rule before the
   repair (newest signature of any type by the key) is kept as selfsig_old / effective_old / key_expiry_old and refuted below. *)
From Coq Require Import ZArith List Bool Permutation.
Import ListNotations.
Require Import PV.Model.KeyStruct PV.Model.KeyHist PV.Proofs.KeyStruct_lemmas PV.Proofs.KeyStruct_lemmas2 PV.Proofs.KeyStruct_lemmas3
  PV.Proofs.KeyHist_lemmas.
Open Scope Z_scope.

(* ------------------------------------------------------------------ the invariant *)
(* inv_world w: for every key object of the world, good_key = inv_key && all_sortedb && wfkb, where inv_key says (Prop reading below):
   every signature on a user id verifies under its issuer for (this key, this user id); every signature in the key's own list is a
   signature packet, not a subkey binding, verifying for this key; every element of a subkey's list verifies for (this key, this subkey),
   a binding carries only verifying 0x19 cross-signatures by the subkey and at least one if the subkey can sign, and every extracted
   embedded signature is such a cross-signature.  all_sortedb: all four kinds of list are in order.  wfkb: subkeys public iff the key is,
   one dictionary entry per subkey. *)
Theorem C15_inv_meaning : forall k, inv_key k = true <->
  (forall u s, In u (p_uids k) -> In s (u_sigs u) -> uid_sig_ok k u s = true)
  /\ (forall it, In it (p_sigs k) -> key_item_ok k it = true)
  /\ (forall sk it, In sk (p_subs k) -> In it (sk_sigs sk) -> sub_item_ok k sk it = true).
Proof. exact inv_key_P. Qed.
Print Assumptions C15_inv_meaning.

Theorem C15_inv_init : inv_world [] = true.
Proof. reflexivity. Qed.
Print Assumptions C15_inv_init.

Theorem C15_inv_step : forall w o, inv_world w = true -> inv_world (apply w o) = true.
Proof. exact inv_step_b. Qed.
Print Assumptions C15_inv_step.

(* every finite sequence over create / add_uid (text or image, any attribute list) / recertify / third-party certify / revoke uid / attest /
   third-party direct-key certify / add_subkey / add_subkey of a key with identities (refused) / revoke subkey / revoke key / add revoker / del_uid / protect / unlock / lock / copy / export+import / publish the public
   twin, in any order, interleaved across any number of keys *)
Theorem C15_inv_reachable : forall ops, inv_world (run ops) = true.
Proof. exact inv_reachable_b. Qed.
Print Assumptions C15_inv_reachable.

(* what "verifies" demands: the signer, and a digest made over exactly this subject with the hashed fields of the signature *)
Theorem C15_verifies_sound : forall pk c subj, verifies pk c subj = true ->
  c_signer c = pk /\ d_subj (c_digest c) = subj /\ d_type (c_digest c) = c_type c /\ d_created (c_digest c) = c_created c
  /\ d_issuer (c_digest c) = c_issuer c /\ d_info (c_digest c) = c_info c.
Proof. exact verifies_sound. Qed.
Print Assumptions C15_verifies_sound.
Theorem C15_sign_verifies : forall sk typ t e p info subj, verifies sk (sign sk typ t e p info subj) subj = true.
Proof. exact verifies_sign. Qed.
Print Assumptions C15_sign_verifies.

(* also after export and import (uses C14's import_export) *)
Theorem C15_inv_survives_export_import : forall k, good_key k = true ->
  exists k', import (export k) = Ok [k'] /\ good_key k' = true.
Proof. exact inv_survives_export_import. Qed.
Print Assumptions C15_inv_survives_export_import.

(* a history that exercises every operation; its final world has 3 key objects *)
Definition P1 : list Z := [3; -1; 8; 10; -1; 9; 7; -1; 2; 1; -1].
Definition P2 : list Z := [2; 630720000; 10; -1; 9; -1; 0; -1].
Definition h_ex : list op :=
  [OCreate 0; OCreate 1; OAddUid 0 true [1] P1 true 1; OAddUid 1 true [5] P1 false 1; OAddUid 0 false [4] P2 false 2;
   OAddUid 0 true [2] P2 true 2; ORecertify 0 true [1] P2 false 2; ORecertify 0 true [1] P1 true 2; OCertify 1 0 true [1] (Some false) 2;
   OCertify 1 0 true [1] (Some true) 3; OAddSubkey 0 10 true 2 3; OAddSubkey 0 11 false 12 3; ORevokeSubkey 0 10 4; OAddRevoker 0 1 4; OAdoptKey 0 1 4;
   ORevokeUid 0 true [2] 4; OAttest 0 true [1] 4; OPublish 0; OCertify 1 2 true [1] None 5; OCertifyKey 1 0 (Some false) 5; OCertifyKey 1 2 (Some true) 5; ODelUid 0 [2]; OProtect 0; ORevokeKey 0 6; OUnlock 0; ORevokeKey 0 6;
   OCopy 0; OLock 0; OReimport 0; OReimport 2; OCopy 2].
Example C15_history_example :
  length (run h_ex) = 3%nat /\ inv_world (run h_ex) = true
  /\ map (fun ob => (length (p_uids (o_key ob)), length (p_subs (o_key ob)), length (p_sigs (o_key ob)), o_lock ob)) (run h_ex)
     = [(2%nat, 2%nat, 2%nat, 2); (1%nat, 0%nat, 0%nat, 0); (3%nat, 2%nat, 2%nat, 0)].
Proof. vm_compute. repeat split. Qed.

(* ------------------------------------------------------------------ the effective self-signature *)
(* PGPUID.selfsig: a certification (0x10-0x13) issued by the key, and no certification issued by the key is newer *)
Theorem C15_effective_is_most_recent : forall K u s, sortedb sig_lt (u_sigs u) = true -> selfsig K u = Some s ->
  In s (u_sigs u) /\ c_issuer (s_core s) = K /\ is_cert_type (c_type (s_core s)) = true
  /\ forall s', In s' (u_sigs u) -> c_issuer (s_core s') = K -> is_cert_type (c_type (s_core s')) = true ->
       c_created (s_core s') <= c_created (s_core s).
Proof. exact effective_is_most_recent. Qed.
Print Assumptions C15_effective_is_most_recent.
(* (sortedness of every signature list is part of the invariant of reachable worlds) *)

(* ... and None exactly when the key has issued no certification on the identity *)
Theorem C15_effective_none_iff : forall K u, selfsig K u = None <->
  forall s, In s (u_sigs u) -> c_issuer (s_core s) = K -> is_cert_type (c_type (s_core s)) = false.
Proof. exact effective_none_iff. Qed.
Print Assumptions C15_effective_none_iff.

(* with the stable insort the later-added of two same-second self-certifications is the effective one *)
Theorem C15_later_added_wins_ties : forall K u s, sortedb sig_lt (u_sigs u) = true -> c_issuer (s_core s) = K ->
  is_cert_type (c_type (s_core s)) = true ->
  (forall s', In s' (u_sigs u) -> c_created (s_core s') <= c_created (s_core s)) ->
  selfsig K (uid_or_sig u s) = Some s.
Proof. exact later_added_wins_ties. Qed.
Print Assumptions C15_later_added_wins_ties.

(* attaching anything that is not a certification by the key (a certification revocation, an attestation, a third-party signature)
   leaves the effective self-signature - hence flags, preferences, primary mark, key expiry, identity order - as it was *)
Theorem C15_noncert_keeps_effective : forall K u s,
  (is_cert_type (c_type (s_core s)) = false \/ c_issuer (s_core s) <> K) ->
  selfsig K (uid_or_sig u s) = selfsig K u.
Proof. exact noncert_keeps_effective. Qed.
Print Assumptions C15_noncert_keeps_effective.

Theorem C15_revocation_keeps_effective : forall K u isuid c t typ, typ = T_CERT_REV \/ typ = T_ATTESTATION ->
  selfsig K (uid_or_sig u (plain (sign K typ t None false no_info (OnUid K isuid c)))) = selfsig K u.
Proof. exact revocation_keeps_effective. Qed.
Print Assumptions C15_revocation_keeps_effective.

(* the rule before repair 812bc0f (newest signature of ANY type by the key) is refuted on two three-step histories: an identity
   certified with a key expiration and then revoked (resp. attested) - the old rule reads the revocation (the attestation): no flags,
   no preferences, no primary mark, and the key no longer expires; the repaired rule still reads the certification *)
Definition P3 : list Z := [12; 630720000; 8; -1; 7; -1; 1; -1].
Definition h_revoked : list op := [OCreate 0; OAddUid 0 true [1] P3 true 1; ORevokeUid 0 true [1] 5].
Definition h_attested : list op := [OCreate 0; OAddUid 0 true [1] P3 true 1; OAttest 0 true [1] 5].
Theorem C15_selfsig_old_refuted :
  (exists ob u, nth_error (run h_revoked) 0 = Some ob /\ p_uids (o_key ob) = [u] /\ inv_world (run h_revoked) = true
     /\ effective (o_key ob) u = Some (T_POSITIVE, P3, true) /\ key_expiry (o_key ob) = 630720000
     /\ effective_old (o_key ob) u = Some (T_CERT_REV, no_info, false) /\ key_expiry_old (o_key ob) = -1)
  /\ (exists ob u, nth_error (run h_attested) 0 = Some ob /\ p_uids (o_key ob) = [u] /\ inv_world (run h_attested) = true
     /\ effective (o_key ob) u = Some (T_POSITIVE, P3, true) /\ key_expiry (o_key ob) = 630720000
     /\ effective_old (o_key ob) u = Some (T_ATTESTATION, no_info, false) /\ key_expiry_old (o_key ob) = -1).
Proof.
  split; (eexists; eexists; split; [vm_compute; reflexivity|]; split; [vm_compute; reflexivity|]; repeat split; vm_compute; reflexivity).
Qed.
Print Assumptions C15_selfsig_old_refuted.

Definition dd : digest := {| d_subj := OnKey 0; d_type := 0; d_created := 0; d_exp := None; d_primary := false; d_info := []; d_issuer := 0 |}.
Definition mk (issuer typ created : Z) (prim : bool) (id : Z) : sig :=
  {| s_core := {| c_issuer := issuer; c_type := typ; c_created := created; c_exp := None; c_primary := prim; c_info := [id];
                  c_signer := issuer; c_digest := dd |}; s_emb := [] |}.
(* before the F9 repair the OLDER of two same-second self-signatures was "most recent" *)
Theorem C15_later_added_wins_ties_prefix_refuted :
  exists K u s, sortedb sig_lt (u_sigs u) = true /\ c_issuer (s_core s) = K /\ is_cert_type (c_type (s_core s)) = true
    /\ (forall s', In s' (u_sigs u) -> c_created (s_core s') <= c_created (s_core s))
    /\ selfsig K (uid_or_sig_prefix u s) <> Some s /\ selfsig K (uid_or_sig u s) = Some s.
Proof.
  exists 1, {| u_isuid := true; u_content := [1]; u_sigs := [mk 1 19 100 false 1] |}, (mk 1 19 100 true 2).
  split; [reflexivity|]. split; [reflexivity|]. split; [reflexivity|]. split.
  - intros s' [E|[]]. subst s'. vm_compute. discriminate.
  - split; [vm_compute; discriminate | vm_compute; reflexivity].
Qed.

(* repair 96d5157: a key expiration time of zero means that the key never expires (before: it "expired" at its creation time) *)
Definition P0 : list Z := [2; 0; 8; -1; 9; -1; 1; -1].
Theorem C15_key_expiration_zero_means_never :
  (forall k, key_expiry k <> 0)
  /\ exists ob, nth_error (run [OCreate 0; OAddUid 0 true [1] P0 true 1]) 0 = Some ob
       /\ key_expiry (o_key ob) = -1 /\ key_expiry_pre96 (o_key ob) = 0.
Proof.
  split.
  - intros k. unfold key_expiry, key_expiry_with. destruct (key_expiry_raw selfsig k =? 0) eqn:E; [discriminate|].
    apply Z.eqb_neq. exact E.
  - eexists. split; [vm_compute; reflexivity|]. split; vm_compute; reflexivity.
Qed.
Print Assumptions C15_key_expiration_zero_means_never.

(* repair a832629: add_subkey of a key that has identities of its own is refused before anything changes *)
Theorem C15_adopt_key_with_identities_refused : forall w i j t, apply w (OAdoptKey i j t) = w.
Proof. reflexivity. Qed.
Print Assumptions C15_adopt_key_with_identities_refused.

(* ------------------------------------------------------------------ removed identities *)
Theorem C15_removed_uid_absent : forall w i c ob j,
  nth_error w i = Some ob -> find_uid true c (p_uids (o_key ob)) = Some j ->
  NoDup (map ukey (p_uids (o_key ob))) ->
  exists ob', nth_error (apply w (ODelUid i c)) i = Some ob'
    /\ p_uids (o_key ob') = remove_nth j (p_uids (o_key ob))
    /\ find_uid true c (p_uids (o_key ob')) = None
    /\ ~ In (PUid true c) (export (o_key ob'))
    /\ ~ In (PUid true c) (export (copy (o_key ob')))
    /\ ~ In (PUid true c) (export (pubkey_of (o_key ob')))
    /\ (forall k2, import (export (o_key ob')) = Ok [k2] -> wf_pub (o_key ob') -> find_uid true c (p_uids k2) = None).
Proof. exact removed_uid_absent. Qed.
Print Assumptions C15_removed_uid_absent.

(* ------------------------------------------------------------------ revocations are reported for exactly the revoked component *)
Theorem C15_revoke_key_exact : forall w i t ob, nth_error w i = Some ob -> revoke_ok ob = true ->
  exists ob', nth_error (apply w (ORevokeKey i t)) i = Some ob'
    /\ key_revocations (o_key ob') <> []
    /\ p_uids (o_key ob') = p_uids (o_key ob) /\ p_subs (o_key ob') = p_subs (o_key ob)
    /\ (forall it, In it (p_sigs (o_key ob')) -> In it (p_sigs (o_key ob)) \/ (c_type (icore it) = T_KEY_REV /\ c_created (icore it) = t))
    /\ forall i', i <> i' -> nth_error (apply w (ORevokeKey i t)) i' = nth_error w i'.
Proof. exact revoke_key_exact. Qed.
Print Assumptions C15_revoke_key_exact.

Theorem C15_revoke_subkey_exact : forall w i label t ob j sk, nth_error w i = Some ob -> revoke_ok ob = true ->
  find_sub label (p_subs (o_key ob)) = Some j -> nth_error (p_subs (o_key ob)) j = Some sk ->
  exists ob' sk', nth_error (apply w (ORevokeSubkey i label t)) i = Some ob'
    /\ nth_error (p_subs (o_key ob')) j = Some sk' /\ sk_label sk' = sk_label sk
    /\ sub_revocations (o_key ob') sk' <> []
    /\ (forall j', j <> j' -> nth_error (p_subs (o_key ob')) j' = nth_error (p_subs (o_key ob)) j')
    /\ p_uids (o_key ob') = p_uids (o_key ob) /\ p_sigs (o_key ob') = p_sigs (o_key ob)
    /\ forall i', i <> i' -> nth_error (apply w (ORevokeSubkey i label t)) i' = nth_error w i'.
Proof. exact revoke_subkey_exact. Qed.
Print Assumptions C15_revoke_subkey_exact.

Theorem C15_revoke_uid_exact : forall w i isuid c t ob j u, nth_error w i = Some ob -> revoke_ok ob = true ->
  find_uid isuid c (p_uids (o_key ob)) = Some j -> nth_error (p_uids (o_key ob)) j = Some u ->
  exists ob' s, nth_error (apply w (ORevokeUid i isuid c t)) i = Some ob'
    /\ c_type (s_core s) = T_CERT_REV /\ c_issuer (s_core s) = p_label (o_key ob)
    /\ Permutation (p_uids (o_key ob')) (replace_nth j (uid_or_sig u s) (p_uids (o_key ob)))
    /\ In s (uid_revocations (o_key ob') (uid_or_sig u s))
    /\ p_subs (o_key ob') = p_subs (o_key ob) /\ p_sigs (o_key ob') = p_sigs (o_key ob)
    /\ forall i', i <> i' -> nth_error (apply w (ORevokeUid i isuid c t)) i' = nth_error w i'.
Proof. exact revoke_uid_exact. Qed.
Print Assumptions C15_revoke_uid_exact.

(* the premises of the three theorems are met in the example history (object 0 before its key is revoked) *)
Example C15_revoke_premises_inhabited :
  exists ob j sk ju u, nth_error (run (firstn 12 h_ex)) 0 = Some ob /\ revoke_ok ob = true
    /\ find_sub 10 (p_subs (o_key ob)) = Some j /\ nth_error (p_subs (o_key ob)) j = Some sk
    /\ find_uid true [2] (p_uids (o_key ob)) = Some ju /\ nth_error (p_uids (o_key ob)) ju = Some u
    /\ NoDup (map ukey (p_uids (o_key ob))).
Proof.
  eexists. eexists. eexists. eexists. eexists. split; [vm_compute; reflexivity|]. split; [vm_compute; reflexivity|].
  split; [vm_compute; reflexivity|]. split; [vm_compute; reflexivity|]. split; [vm_compute; reflexivity|]. split; [vm_compute; reflexivity|].
  vm_compute. repeat constructor; simpl; intuition discriminate.
Qed.

(* ------------------------------------------------------------------ the public twin *)
(* every .pubkey call derives the twin anew from the current state: same user ids (same order, same signature lists), same subkeys,
   same signature packets, public flags set; and the twin is itself a good key *)
Theorem C15_twin_reflects_state : forall k, good_key k = true ->
  key_equiv (pubkey_of k) (if p_public k then k else set_pub true k) /\ good_key (pubkey_of k) = true.
Proof. exact twin_reflects_state. Qed.
Print Assumptions C15_twin_reflects_state.

(* ------------------------------------------------------------------ the user id order before repair d951222 *)
(* three identities marked primary, the middle one re-certified WITHOUT the primary mark (until repair 812bc0f a revocation had
   that effect too: it hid the certification): the old SorteDeque.resort left it in the middle; a copy then exports
   the user ids in another order.  With the code as it is now the same history keeps every invariant (C15_inv_reachable). *)
Definition h_stale : list op :=
  [OCreate 0; OAddUid 0 true [1] P1 true 1; OAddUid 0 true [2] P1 true 2; OAddUid 0 true [3] P1 true 3; ORecertify 0 true [2] P1 false 10].
Theorem C15_uid_order_prefix_refuted :
  exists ob, nth_error (fold_left apply_prefix h_stale []) 0 = Some ob
    /\ uids_sortedb (o_key ob) = false /\ export (copy (o_key ob)) <> export (o_key ob)
    /\ exists ob', nth_error (run h_stale) 0 = Some ob' /\ uids_sortedb (o_key ob') = true /\ export (copy (o_key ob')) = export (o_key ob').
Proof.
  eexists. split; [vm_compute; reflexivity|]. split; [vm_compute; reflexivity|]. split; [vm_compute; discriminate|].
  eexists. split; [vm_compute; reflexivity|]. split; vm_compute; reflexivity.
Qed.
