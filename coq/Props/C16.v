(* C16 -- key-usage policy: operations use a component allowed to perform them, or refuse.
   Statements only; every proof is `exact <lemma>` into Proofs/Policy_lemmas.v.
   comp_flags k user = the flag sets of the receiver (component 0) and of its subkeys (components 1..n, insertion order), as
   _get_key_flags computes them; comp_attr k i = the public / protected / unlocked state of component i (every component has its
   own); usage / perform = KeyAction.usage / KeyAction.__call__ under rules_now (the code as it is).  All scan theorems hold for a key
   with ANY number of subkeys (induction over the list). *)
From Coq Require Import ZArith List Bool Sorting.Sorted.
Import ListNotations.
Require Import PV.Model.Policy PV.Proofs.Policy_lemmas.
Open Scope Z_scope.

(* the chosen component has a flag the operation asks for ... *)
Theorem C16_scan_sound : forall k o user i, usage k o user = Chosen i false -> op_flags o <> 0 ->
  exists f, nth_error (comp_flags k user) i = Some (FOk f) /\ Z.land (op_flags o) f <> 0.
Proof. exact scan_sound. Qed.
Print Assumptions C16_scan_sound.

(* ... and it is the first such one: primary before subkeys, subkeys in insertion order *)
Theorem C16_scan_first_capable : forall k o user i, usage k o user = Chosen i false -> op_flags o <> 0 ->
  forall m, (m < i)%nat -> exists x, nth_error (comp_flags k user) m = Some x /\ incapable (op_flags o) x.
Proof. exact scan_first_capable. Qed.
Print Assumptions C16_scan_first_capable.

(* enforcement on: refusal exactly when no component has the capability *)
Theorem C16_refuse_iff_none : forall k o user, k_enforce k = true ->
  (usage k o user = Refused <-> op_flags o <> 0 /\ Forall (incapable (op_flags o)) (comp_flags k user)).
Proof. exact refuse_iff_none. Qed.
Print Assumptions C16_refuse_iff_none.

(* enforcement off: a warning, and the method runs on the last component the loop visited (the last subkey) *)
Theorem C16_enforcement_off_runs_last : forall k o user, k_enforce k = false -> op_flags o <> 0 ->
  Forall (incapable (op_flags o)) (comp_flags k user) -> usage k o user = Chosen (length (k_subs k)) true.
Proof. exact enforcement_off_runs_last. Qed.
Print Assumptions C16_enforcement_off_runs_last.

Theorem C16_warned_only_when_off_and_none : forall k o user i, usage k o user = Chosen i true ->
  k_enforce k = false /\ op_flags o <> 0 /\ Forall (incapable (op_flags o)) (comp_flags k user) /\ i = length (k_subs k).
Proof. exact warned_only_when_off_and_none. Qed.
Print Assumptions C16_warned_only_when_off_and_none.

Theorem C16_no_flag_ops_use_receiver : forall k o user, op_flags o = 0 -> usage k o user = Chosen 0 false.
Proof. exact no_flag_ops_use_receiver. Qed.
Print Assumptions C16_no_flag_ops_use_receiver.

Theorem C16_primary_certifies : forall uids user f, flags_primary uids user = FOk f -> Z.land CERTIFY f <> 0.
Proof. exact primary_certifies. Qed.
Print Assumptions C16_primary_certifies.

(* precondition matrix: form of ONE key object (receiver or subkey) x operation -> the attribute check_attributes complains about *)
Theorem C16_precondition_matrix : forall a f o, has_form a f -> check_attributes a o = matrix f o.
Proof. exact precondition_matrix. Qed.
Print Assumptions C16_precondition_matrix.
Example C16_every_key_has_a_form : forall a, exists f, has_form a f.
Proof. exact every_key_has_a_form. Qed.

(* repair cab6d36: the conditions are those of the component that does the work.  A private operation (everything but encrypt)
   runs only on a component of the receiver that is a private key object and unlocked ... *)
Theorem C16_private_op_runs_only_on_unlocked_private_component : forall k o user i w, o <> OEncrypt -> perform k o user = Run i w ->
  (i < length (comp_attrs k))%nat /\ is_public (comp_attr k i) = false /\ is_unlocked (comp_attr k i) = true.
Proof. exact private_op_runs_only_on_unlocked_private_component. Qed.
Print Assumptions C16_private_op_runs_only_on_unlocked_private_component.

(* ... and public-key encryption only on a public one *)
Theorem C16_encrypt_runs_only_on_public_component : forall k user i w, perform k OEncrypt user = Run i w ->
  (i < length (comp_attrs k))%nat /\ is_public (comp_attr k i) = true.
Proof. exact encrypt_runs_only_on_public_component. Qed.
Print Assumptions C16_encrypt_runs_only_on_public_component.

Theorem C16_private_ops_refuse : forall k o user i w, o <> OEncrypt ->
  (is_public (comp_attr k i) = true \/ is_unlocked (comp_attr k i) = false) -> perform k o user <> Run i w.
Proof. exact private_ops_refuse. Qed.
Print Assumptions C16_private_ops_refuse.

Theorem C16_encrypt_refuses_private : forall k user i w, is_public (comp_attr k i) = false -> perform k OEncrypt user <> Run i w.
Proof. exact encrypt_refuses_private. Qed.
Print Assumptions C16_encrypt_refuses_private.

(* non-vacuity: unprotected primary + locked signing subkey refuses (is_unlocked), unlocked it signs on the subkey; a locked
   primary does not stop its unprotected subkey from signing but cannot certify itself *)
Example C16_mixed_protection_example :
  perform (mixed_key a_plain a_locked) OSign None = BadAttr IsUnlocked /\
  perform (mixed_key a_plain a_unlocked) OSign None = Run 1 false /\
  perform (mixed_key a_locked a_plain) OSign None = Run 1 false /\
  perform (mixed_key a_locked a_plain) OCertify None = BadAttr IsUnlocked /\
  perform (mixed_key a_locked a_locked) OSign None = BadAttr IsUnlocked /\
  perform (mixed_key a_unlocked a_unlocked) OSign None = Run 1 false /\
  perform (mixed_key a_pub a_pub) OSign None = BadAttr IsPublic.
Proof. exact mixed_protection_example. Qed.

(* the rule before cab6d36 (conditions of the RECEIVER) is refuted: it ran a private operation on a locked component, and refused
   a usable subkey because the primary key was locked *)
Theorem C16_lockcheck_old_refuted :
  perform_old_lockcheck (mixed_key a_plain a_locked) OSign None = Run 1 false /\
  is_unlocked (comp_attr (mixed_key a_plain a_locked) 1) = false /\
  perform (mixed_key a_plain a_locked) OSign None = BadAttr IsUnlocked /\
  perform_old_lockcheck (mixed_key a_locked a_plain) OSign None = BadAttr IsUnlocked /\
  is_unlocked (comp_attr (mixed_key a_locked a_plain) 1) = true /\ is_public (comp_attr (mixed_key a_locked a_plain) 1) = false /\
  perform (mixed_key a_locked a_plain) OSign None = Run 1 false.
Proof. exact lockcheck_old_refuted. Qed.
Print Assumptions C16_lockcheck_old_refuted.

(* repair a0cb78f: no outcome is an exception other than PGPError (the Crash constructor is kept only to state the earlier rules) *)
Theorem C16_no_crash : forall k o user c, perform k o user <> Crash c.
Proof. exact no_crash. Qed.
Print Assumptions C16_no_crash.

(* an unknown user= is refused whatever the operation and the flags *)
Theorem C16_unknown_user_refused : forall k o user, k_present k = true -> (k_uids k <> [] \/ k_primary k = false \/ o = OCertify) ->
  user_unknown k user = true -> perform k o user = NoUser.
Proof. exact unknown_user_refused. Qed.
Print Assumptions C16_unknown_user_refused.

(* the rules before a0cb78f are refuted: unknown user= and a subkey without binding signature in effect raised *)
Theorem C16_crash_old_refuted :
  perform_old_crash (mixed_key a_plain a_plain) OSign (Some 98) = Crash CrashUser /\
  perform (mixed_key a_plain a_plain) OSign (Some 98) = NoUser /\
  perform (mixed_key a_plain a_plain) OSign (Some 97) = Run 1 false /\
  perform_old_crash unbound_key OSign None = Crash CrashNoBinding /\
  perform unbound_key OSign None = Run 2 false /\
  perform unbound_key OEncrypt None = NoUsage.
Proof. exact crash_old_refuted. Qed.
Print Assumptions C16_crash_old_refuted.

(* repair 1d6dbd1: a key whose only identity is a user attribute takes its flags from it (before: RuntimeError); user ids go first *)
Theorem C16_identity_old_refuted :
  perform_old_identity image_only_key OSign None = Crash CrashNoUserId /\
  perform image_only_key OSign None = Run 0 false /\
  flags_primary [ {| u_text := false; u_ids := []; u_sigs := [cert_sig 0 SIGN] |}; {| u_text := true; u_ids := [97]; u_sigs := [cert_sig 0 32] |} ] None
    = FOk (Z.lor CERTIFY 32).
Proof. exact identity_old_refuted. Qed.
Print Assumptions C16_identity_old_refuted.

Theorem C16_perform_nokey : forall k o user, k_present k = false -> perform k o user = NoKey.
Proof. exact perform_nokey. Qed.
Print Assumptions C16_perform_nokey.

(* a key without an identity refuses everything but certification, and its first self-certification runs on the primary *)
Theorem C16_no_identity_only_certify : forall k o user, k_present k = true -> k_primary k = true -> k_uids k = [] ->
  (perform k o user = Incomplete <-> o <> OCertify).
Proof. exact no_identity_only_certify. Qed.
Print Assumptions C16_no_identity_only_certify.

Theorem C16_no_identity_first_certification : forall k, k_present k = true -> k_primary k = true -> k_uids k = [] ->
  perform k OCertify None = match check_attributes (k_attr k) OCertify with Some a => BadAttr a | None => Run 0 false end.
Proof. exact no_identity_first_certification. Qed.
Print Assumptions C16_no_identity_first_certification.

Theorem C16_run_requires : forall k o user i w, perform k o user = Run i w ->
  k_present k = true /\ (k_uids k <> [] \/ k_primary k = false \/ o = OCertify) /\ user_unknown k user = false /\
  usage k o user = Chosen i w /\ check_attributes (comp_attr k i) o = None.
Proof. exact run_requires. Qed.
Print Assumptions C16_run_requires.

(* end to end with enforcement on *)
Theorem C16_run_uses_first_capable : forall k o user i w, k_enforce k = true -> op_flags o <> 0 -> perform k o user = Run i w ->
  w = false /\
  (exists f, nth_error (comp_flags k user) i = Some (FOk f) /\ Z.land (op_flags o) f <> 0) /\
  (forall m, (m < i)%nat -> exists x, nth_error (comp_flags k user) m = Some x /\ incapable (op_flags o) x).
Proof. exact run_uses_first_capable. Qed.
Print Assumptions C16_run_uses_first_capable.

(* "most recent self-signature": with signatures stored in creation order (SorteDeque) the flags of a subkey are those of a
   qualifying binding signature of maximal creation time - and the empty set when no binding signature is in effect (a0cb78f);
   for a user id see C16_selfsig_most_recent below *)
Theorem C16_flags_most_recent : forall sigs f, StronglySorted by_created sigs -> flags_sub sigs = FOk f ->
  (exists s, In s sigs /\ s_qual s = true /\ s_flags s = f /\
             forall s', In s' sigs -> s_qual s' = true -> s_created s' <= s_created s)
  \/ ((forall s, In s sigs -> s_qual s = false) /\ f = 0).
Proof. exact flags_most_recent. Qed.
Print Assumptions C16_flags_most_recent.

Theorem C16_flags_sub_total : forall sigs, exists f, flags_sub sigs = FOk f.
Proof. exact flags_sub_total. Qed.
Print Assumptions C16_flags_sub_total.

Theorem C16_flags_sub_unbound : forall sigs, (forall s, In s sigs -> s_qual s = false) -> flags_sub sigs = FOk 0.
Proof. exact flags_sub_unbound. Qed.
Print Assumptions C16_flags_sub_unbound.

(* PGPUID.selfsig (repair 812bc0f): the flags of a user id are those of a CERTIFICATION issued by the key, of maximal creation time
   among those; none when the key has issued no certification on it *)
Theorem C16_selfsig_most_recent : forall u, StronglySorted by_created (u_sigs u) ->
  (exists s, In s (u_sigs u) /\ s_qual s = true /\ s_cert s = true /\ selfsig_flags u = s_flags s /\
             forall s', In s' (u_sigs u) -> s_qual s' = true -> s_cert s' = true -> s_created s' <= s_created s)
  \/ ((forall s, In s (u_sigs u) -> s_qual s = true -> s_cert s = false) /\ selfsig_flags u = 0).
Proof. exact selfsig_most_recent. Qed.
Print Assumptions C16_selfsig_most_recent.

(* a signature that is not a certification (a certification revocation, an attestation) does not change the flags of the user id,
   wherever it stands and whatever KeyFlags subpacket it carries *)
Theorem C16_selfsig_ignores_noncert : forall tx ids l1 x l2, s_cert x = false ->
  selfsig_flags {| u_text := tx; u_ids := ids; u_sigs := l1 ++ x :: l2 |} = selfsig_flags {| u_text := tx; u_ids := ids; u_sigs := l1 ++ l2 |}.
Proof. exact selfsig_ignores_noncert. Qed.
Print Assumptions C16_selfsig_ignores_noncert.

(* the rule before repair 812bc0f (newest signature of ANY type by the key) is refuted end to end: an identity certified for signing
   and then revoked - the key signs, the old rule refused (the revocation has no flags); and a revocation carrying KeyFlags {Sign}
   over a certification without it - the key refuses, the old rule signed *)
Theorem C16_selfsig_old_refuted :
  (forall fc fr, StronglySorted by_created (cert_then_rev fc fr)) /\
  selfsig_flags {| u_text := true; u_ids := [97]; u_sigs := cert_then_rev SIGN 0 |} = SIGN /\
  selfsig_flags_old {| u_text := true; u_ids := [97]; u_sigs := cert_then_rev SIGN 0 |} = 0 /\
  perform (rev_key SIGN 0) OSign None = Run 0 false /\ perform_old_selfsig (rev_key SIGN 0) OSign None = NoUsage /\
  perform (rev_key 0 SIGN) OSign None = NoUsage /\ perform_old_selfsig (rev_key 0 SIGN) OSign None = Run 0 false.
Proof. exact selfsig_old_refuted. Qed.
Print Assumptions C16_selfsig_old_refuted.

(* before a0cb78f that case raised *)
Theorem C16_flags_sub_old_crash_iff : forall sigs,
  flags_sub_with rules_old_crash sigs = FCrash CrashNoBinding <-> forall s, In s sigs -> s_qual s = false.
Proof. exact flags_sub_old_crash_iff. Qed.
Print Assumptions C16_flags_sub_old_crash_iff.

(* the pre-480b116 code (oldest binding) is refuted on a sorted two-signature history, and end to end *)
Theorem C16_flags_most_recent_prefix_refuted :
  StronglySorted by_created f7_sigs /\
  exists f s', flags_sub_with (with_pick rules_now oldest) f7_sigs = FOk f /\ In s' f7_sigs /\ s_qual s' = true /\
               (forall s, In s f7_sigs -> s_qual s = true -> s_flags s = f -> s_created s < s_created s').
Proof. exact flags_most_recent_prefix_refuted. Qed.
Print Assumptions C16_flags_most_recent_prefix_refuted.

Theorem C16_rebinding_changes_selection :
  perform f7_key OSign None = Run 1 false /\ perform_prefix f7_key OSign None = NoUsage.
Proof. exact rebinding_changes_selection. Qed.
Print Assumptions C16_rebinding_changes_selection.

(* decryption finds the addressed subkey *)
Theorem C16_decrypt_finds_addressed : forall own subs enc,
  match decrypt_route own subs enc with
  | RouteOwn => In own enc
  | RouteSub c => ~ In own enc /\ c <> [] /\ forall x, In x c <-> In x subs /\ In x enc
  | RouteCannot => ~ In own enc /\ forall x, In x subs -> ~ In x enc
  end.
Proof. exact decrypt_finds_addressed. Qed.
Print Assumptions C16_decrypt_finds_addressed.
