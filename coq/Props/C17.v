(* C17 — Verification verdicts are coherent: disqualifying conditions always disqualify.
   Statements only; every proof is `exact <lemma>` into Proofs/Verdict_lemmas.v (witnesses by vm_compute). *)
From Coq Require Import ZArith List Bool Permutation.
Import ListNotations.
Require Import PV.Model.Verdict PV.Proofs.Verdict_lemmas.
Open Scope Z_scope.

(* ---- the returned object: every examined signature is listed exactly once, as good or as bad ---- *)
Theorem C17_good_bad_partition : forall r : result, Permutation r (good r ++ bad r).
Proof. exact good_bad_partition. Qed.
Print Assumptions C17_good_bad_partition.

Theorem C17_good_bad_exclusive : forall (r : result) x, In x (good r) -> ~ In x (bad r).
Proof. exact good_bad_exclusive. Qed.
Print Assumptions C17_good_bad_exclusive.

Theorem C17_good_bad_cover : forall (r : result) x, In x r -> In x (good r) \/ In x (bad r).
Proof. exact good_bad_cover. Qed.
Print Assumptions C17_good_bad_cover.

Theorem C17_good_bad_length : forall r : result, (length (good r) + length (bad r) = length r)%nat.
Proof. exact good_bad_length. Qed.
Print Assumptions C17_good_bad_length.

(* ---- truthy exactly when none is bad ---- *)
Theorem C17_truthy_iff_no_bad : forall r : result, truthy r = true <-> bad r = [].
Proof. exact truthy_iff_no_bad. Qed.
Print Assumptions C17_truthy_iff_no_bad.

(* merging results (`sigv &= other`) keeps all three views coherent *)
Theorem C17_truthy_and : forall a b, truthy (sv_and a b) = truthy a && truthy b.
Proof. exact truthy_and. Qed.
Print Assumptions C17_truthy_and.

(* ---- a cryptographically wrong signature is always bad ---- *)
Theorem C17_wrong_sig_is_bad : is_bad SI_WrongSig = true.
Proof. exact wrong_sig_is_bad. Qed.
Print Assumptions C17_wrong_sig_is_bad.

Theorem C17_wrong_sig_bit_is_bad : forall i, Z.testbit i 0 = true -> is_bad i = true.
Proof. exact wrong_sig_bit_is_bad. Qed.
Print Assumptions C17_wrong_sig_bit_is_bad.

Theorem C17_wrong_sig_entry_is_bad : forall k sv i, verify_entry k sv false = Some i -> is_bad i = true.
Proof. exact wrong_sig_entry_is_bad. Qed.
Print Assumptions C17_wrong_sig_entry_is_bad.

Theorem C17_wrong_sig_never_truthy : forall ps r k sv,
  verify_all ps = Some r -> In (k, sv, false) ps -> truthy r = false.
Proof. exact wrong_sig_never_truthy. Qed.
Print Assumptions C17_wrong_sig_never_truthy.

(* ---- an entry added without issues (0xFF) is bad and makes the result falsy ---- *)
Theorem C17_default_entry_is_bad : forall r,
  bad (add_sigsubj r None) = bad r ++ [default_issues] /\ truthy (add_sigsubj r None) = false.
Proof. exact default_entry_is_bad. Qed.
Print Assumptions C17_default_entry_is_bad.

(* ---- a disqualifying issue stays disqualifying whatever is or-ed to it: every integer, bit-level proof ---- *)
Theorem C17_disqualifying_monotone : forall d a, causes_fail d = true -> causes_fail (Z.lor d a) = true.
Proof. exact disqualifying_monotone. Qed.
Print Assumptions C17_disqualifying_monotone.
Example C17_disqualifying_monotone_premise : causes_fail SI_Expired = true /\ causes_fail (Z.lor SI_Expired SI_InsecureCurve) = true.
Proof. split; reflexivity. Qed.

Theorem C17_advisory_never_disqualifies : forall d a, causes_fail a = false -> causes_fail (Z.lor d a) = causes_fail d.
Proof. exact advisory_never_disqualifies. Qed.
Print Assumptions C17_advisory_never_disqualifies.

(* the mask test is the bit-set reading: some bit of {WrongSig, Expired, Disabled, Invalid, NoSelfSignature} is set *)
Theorem C17_causes_fail_bits : forall i, causes_fail i = causes_fail_bits i.
Proof. exact causes_fail_bits_eq. Qed.
Print Assumptions C17_causes_fail_bits.

(* ---- the verify loop: what makes an entry bad is a disqualifying key condition or a wrong signature, nothing else ---- *)
Theorem C17_entry_bad_iff : forall k sv ok i, verify_entry k sv ok = Some i ->
  (is_bad i = true <-> causes_fail (check_management k) = true \/ ok = false).
Proof. exact entry_bad_iff. Qed.
Print Assumptions C17_entry_bad_iff.

Theorem C17_management_fail_iff : forall k,
  causes_fail (check_management k) = k_expired k || k_parent_expired k || causes_fail (k_selfv k).
Proof. exact management_fail_iff. Qed.
Print Assumptions C17_management_fail_iff.

(* a disqualified key (expired / no valid self-signature / disabled / invalid) never yields a truthy result,
   whatever the algorithm, size, curve, revocation state, subject or cryptographic outcome, and whatever else
   was examined in the same call *)
Theorem C17_disqualified_key_never_truthy : forall ps r k sv ok,
  verify_all ps = Some r -> In (k, sv, ok) ps -> causes_fail (check_management k) = true -> truthy r = false.
Proof. exact disqualified_key_never_truthy. Qed.
Print Assumptions C17_disqualified_key_never_truthy.

Theorem C17_expired_disqualifies : forall k, k_expired k = true -> causes_fail (check_management k) = true.
Proof. exact expired_disqualifies. Qed.
Print Assumptions C17_expired_disqualifies.

(* a subkey of an expired primary key is disqualified too *)
Theorem C17_parent_expired_disqualifies : forall k, k_parent_expired k = true -> causes_fail (check_management k) = true.
Proof. exact parent_expired_disqualifies. Qed.
Print Assumptions C17_parent_expired_disqualifies.

Theorem C17_selfv_disqualifies : forall k, causes_fail (k_selfv k) = true -> causes_fail (check_management k) = true.
Proof. exact selfv_disqualifies. Qed.
Print Assumptions C17_selfv_disqualifies.

(* premises are satisfiable: an expired NIST P-256 key next to a sound Ed25519 key, all signatures correct *)
Example C17_disqualified_premises :
  let p256 := {| k_alg := 19; k_size := Curve NIST_P256; k_expired := true; k_parent_expired := false; k_revoked := false; k_selfv := 0 |} in
  let ed := {| k_alg := 22; k_size := Curve Ed25519; k_expired := false; k_parent_expired := false; k_revoked := true; k_selfv := 0 |} in
  verify_all [(ed, false, true); (p256, false, true)] = Some [0; 514] /\ truthy [0; 514] = false /\ good [0; 514] = [0] /\ bad [0; 514] = [514].
Proof. vm_compute. repeat split. Qed.

(* an advisory weakness never changes the verdict of an entry *)
Theorem C17_advisory_independent : forall k k' sv sv' ok i i',
  k_expired k = k_expired k' -> k_parent_expired k = k_parent_expired k' -> k_revoked k = k_revoked k' -> k_selfv k = k_selfv k' ->
  verify_entry k sv ok = Some i -> verify_entry k' sv' ok = Some i' -> is_bad i = is_bad i'.
Proof. exact advisory_independent. Qed.
Print Assumptions C17_advisory_independent.

(* completeness of the loop: the call is truthy exactly when every examined pair has a sound key and a correct signature *)
Theorem C17_verify_all_truthy_iff : forall ps r, verify_all ps = Some r ->
  (truthy r = true <-> forall k sv ok, In (k, sv, ok) ps -> causes_fail (check_management k) = false /\ ok = true).
Proof. exact verify_all_truthy_iff. Qed.
Print Assumptions C17_verify_all_truthy_iff.

Theorem C17_verify_all_length : forall ps r, verify_all ps = Some r -> length r = length ps.
Proof. exact verify_all_length. Qed.
Print Assumptions C17_verify_all_length.

(* the self_verifying mask (clearing HashFunctionNotCollisionResistant from the key's parameter issues) changes nothing *)
Theorem C17_selfv_irrelevant : forall cf mg k ok, verify_entry_gen cf mg k true ok = verify_entry_gen cf mg k false ok.
Proof. exact selfv_irrelevant. Qed.
Print Assumptions C17_selfv_irrelevant.

(* ---- regression: the pre-repair exact-membership test (defect F1) is refuted ---- *)
(* Expired alone fails, Expired|InsecureCurve does not: monotonicity is false of the old definition ... *)
Theorem C17_disqualifying_monotone_prefix_refuted :
  exists d a, causes_fail_prefix d = true /\ causes_fail_prefix (Z.lor d a) = false.
Proof. exists SI_Expired, SI_InsecureCurve. vm_compute. split; reflexivity. Qed.

(* ... and end to end: under it an expired NIST P-256 key yields a truthy result (an expired Ed25519 key does not) *)
Theorem C17_disqualified_key_never_truthy_prefix_refuted :
  exists k r, k_expired k = true /\ verify_all_with causes_fail_prefix [(k, false, true)] = Some r /\
              truthy_with causes_fail_prefix r = true.
Proof.
  exists {| k_alg := 19; k_size := Curve NIST_P256; k_expired := true; k_parent_expired := false; k_revoked := false; k_selfv := 0 |}, [0].
  vm_compute. repeat split.
Qed.
Example C17_prefix_ed25519_still_failed :
  verify_all_with causes_fail_prefix
    [({| k_alg := 22; k_size := Curve Ed25519; k_expired := true; k_parent_expired := false; k_revoked := false; k_selfv := 0 |}, false, true)] = Some [2]
  /\ truthy_with causes_fail_prefix [2] = false.
Proof. vm_compute. split; reflexivity. Qed.

(* ---- regression: before the second repair check_management ignored the primary key's expiry for a subkey ----
   (a signature made by the signing subkey of an expired primary verified truthy through the expired primary) *)
Theorem C17_disqualified_key_never_truthy_subkey_prefix_refuted :
  exists k r, k_parent_expired k = true /\ verify_all_gen causes_fail check_management_prefix [(k, false, true)] = Some r /\
              truthy r = true.
Proof.
  exists {| k_alg := 22; k_size := Curve Ed25519; k_expired := false; k_parent_expired := true; k_revoked := false; k_selfv := 0 |}, [0].
  vm_compute. repeat split.
Qed.
Example C17_subkey_of_expired_primary_now_fails :
  verify_all [({| k_alg := 22; k_size := Curve Ed25519; k_expired := false; k_parent_expired := true; k_revoked := false; k_selfv := 0 |}, false, true)]
  = Some [2] /\ truthy [2] = false.
Proof. vm_compute. split; reflexivity. Qed.
