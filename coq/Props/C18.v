(* C18 — Fingerprints and key ids are the RFC 4880 values and are stable.
   Statements only; every proof is `exact <lemma>` into Proofs/.
   SHA-1 is a universally quantified function; where its output shape matters the premises say so
   (20 octets, each 0..255).  k_created is the integer the code derives from the stored datetime. *)
From Coq Require Import ZArith List Bool.
Import ListNotations.
Require Import PV.Lib.Bytes PV.Model.Wire PV.Model.KeyPackets PV.Model.Fingerprint PV.Spec.Rfc4880_keys.
Require Import PV.Proofs.KeyPackets_lemmas PV.Proofs.KeyPackets_parse PV.Proofs.Fingerprint_lemmas.
Open Scope Z_scope.

(* publen() — the nominal length the fingerprint code slices with — is the real length of the public
   material, for every algorithm (MPI counts, OID field, EC point, ECDH KDF block) *)
Theorem C18_publen_correct : forall m, wf_pubmat m -> Z.of_nat (length (pubmat_bytes m)) = pubmat_len m.
Proof. exact publen_correct. Qed.
Print Assumptions C18_publen_correct.

(* pubkey() produces a twin for every key of a supported algorithm (Some: no refusal), and the public-key packet body
   is exactly the first 6 + publen octets of the secret-key packet body, whatever the secret part (S2K block,
   ciphertext or integers, checksum) holds *)
Theorem C18_pub_body_is_prefix : forall k, wf_pub k ->
  pub_packet_body k = Some (firstn (Z.to_nat (6 + publen k)) (sec_packet_body k)).
Proof. exact pub_body_is_prefix. Qed.
Print Assumptions C18_pub_body_is_prefix.

(* the emitted public body is the RFC 4880 5.5.2 / RFC 6637 section 9 packet body written from the fields *)
Theorem C18_pub_body_eq_rfc : forall k, wf_pub k ->
  pub_packet_body k = Some (rfc_pub_body (k_created k) (k_alg k) (k_mat k)).
Proof. exact pub_body_eq_rfc. Qed.
Print Assumptions C18_pub_body_eq_rfc.

(* the curve OID octets produced by DER-encoding PGPy's dotted OIDs are the RFC table *)
Theorem C18_oid_eq_rfc : forall c, oid_field c = rfc_oid_field c.
Proof. exact oid_field_eq_rfc. Qed.
Print Assumptions C18_oid_eq_rfc.

(* the fingerprint AS THE CODE COMPUTES IT (pieces, publen, slicing of the secret material) is
   SHA-1(0x99 || two-octet length || public packet body as exported) *)
Theorem C18_fp_eq_rfc : forall sha1 k, wf_pub k -> 6 + publen k < 65536 ->
  exists b, pub_packet_body k = Some b /\ fingerprint sha1 k = rfc_fingerprint sha1 b.
Proof. exact fp_eq_rfc. Qed.
Print Assumptions C18_fp_eq_rfc.
Theorem C18_fp_eq_rfc_fields : forall sha1 k, wf_pub k -> 6 + publen k < 65536 ->
  fingerprint sha1 k = rfc_fingerprint sha1 (rfc_pub_body (k_created k) (k_alg k) (k_mat k)).
Proof. exact fp_eq_rfc_fields. Qed.
Print Assumptions C18_fp_eq_rfc_fields.

(* premises are satisfiable: an RSA key with a leading-zero-bit modulus, an ECDH key with KDF block *)
Example C18_wf_rsa : wf_pub {| k_sub := false; k_created := 4294967295; k_alg := 1;
                               k_mat := PRSA 1000003 65537; k_sec := None |} /\
                     6 + pubmat_len (PRSA 1000003 65537) < 65536.
Proof. vm_compute. intuition discriminate. Qed.
Example C18_wf_ecdh : wf_pub {| k_sub := true; k_created := 0; k_alg := 18;
                                k_mat := PECDH C25519 (EPNative [1; 2; 3]) 8 7;
                                k_sec := Some {| s_usage := 0; s_s2k := []; s_enc := []; s_priv := [5]; s_chk := [0; 9] |} |}.
Proof.
  split; [vm_compute; intuition discriminate|]. split; [vm_compute; intuition discriminate|].
  cbn. split; [split; [repeat constructor; vm_compute; intuition discriminate|reflexivity]|].
  vm_compute; intuition discriminate.
Qed.

(* non-interference: two keys with the same creation time, algorithm and public material have the same
   fingerprint, whatever their secret parts, S2K state, lock state or primary/subkey role *)
Theorem C18_fp_public_only : forall sha1 k k', wf_pub k ->
  k_created k = k_created k' -> k_alg k = k_alg k' -> k_mat k = k_mat k' ->
  fingerprint sha1 k = fingerprint sha1 k'.
Proof. exact fp_public_only. Qed.
Print Assumptions C18_fp_public_only.

(* stability along every history of protect / unlock / lock / pubkey / copy / export+import steps: no step refuses
   (run_ops yields Some) and the fingerprint at the end is the one at the start *)
Theorem C18_fp_invariant : forall sha1 ops k, wf_pub k -> parse_consistent k ->
  exists k', run_ops ops k = Some k' /\ fingerprint sha1 k' = fingerprint sha1 k.
Proof. exact fp_invariant. Qed.
Print Assumptions C18_fp_invariant.

(* pubkey() is partial since repair 3c1c8c6: it refuses exactly the PRIVATE packets whose material is opaque
   (algorithm ids without a material class), and what it produces otherwise is the public half *)
Theorem C18_pubkey_refuses_iff : forall k,
  pubkey_pkt k = None <-> is_private k = true /\ is_opaque (k_mat k) = true.
Proof. exact pubkey_pkt_none_iff. Qed.
Print Assumptions C18_pubkey_refuses_iff.
(* EVERY twin that is produced has the fingerprint of its key - supported algorithms and opaque material alike, no
   exception any more.  real_publen (nominal public length = real length) holds for both: *)
Theorem C18_fp_twin_preserved : forall sha1 k k', real_publen k -> pubkey_pkt k = Some k' ->
  fingerprint sha1 k' = fingerprint sha1 k.
Proof. exact fp_twin_preserved. Qed.
Print Assumptions C18_fp_twin_preserved.
Theorem C18_real_publen : forall k, wf_pubmat (k_mat k) \/ is_opaque (k_mat k) = true -> real_publen k.
Proof. intros k [H|H]; [apply real_publen_wf|apply real_publen_opaque]; exact H. Qed.
Print Assumptions C18_real_publen.

(* export + import of one packet: the parser recovers exactly the emitted public fields and leaves the secret tail *)
Theorem C18_parse_emit : forall k, wf_pub k -> parse_consistent k ->
  key_body_parse (key_body k) =
  Some (k_created k, k_alg k, k_mat k, match k_sec k with Some sp => sec_tail sp | None => [] end).
Proof. exact key_body_parse_emit. Qed.
Print Assumptions C18_parse_emit.

(* the key id is the low-order 64 bits of the fingerprint *)
Theorem C18_keyid_low64 : forall sha1,
  (forall x, length (sha1 x) = 20%nat) -> (forall x, wf_bytes (sha1 x)) ->
  forall k, unbe (keyid sha1 k) = unbe (fingerprint sha1 k) mod 2 ^ 64.
Proof. exact keyid_low64. Qed.
Print Assumptions C18_keyid_low64.
Theorem C18_keyid_eq_rfc : forall sha1,
  (forall x, length (sha1 x) = 20%nat) -> (forall x, wf_bytes (sha1 x)) ->
  forall k, wf_pub k -> 6 + publen k < 65536 ->
  exists b, pub_packet_body k = Some b /\ unbe (keyid sha1 k) = rfc_keyid_value sha1 b.
Proof. exact keyid_eq_rfc. Qed.
Print Assumptions C18_keyid_eq_rfc.

(* Issuer / IssuerFingerprint subpackets and the PKESK key id field, as emitted, read back as the key id /
   fingerprint of the key and leave the following octets untouched *)
Theorem C18_emitted_ids_are_keyid : forall sha1,
  (forall x, length (sha1 x) = 20%nat) -> (forall x, wf_bytes (sha1 x)) ->
  forall k r, wf_bytes r -> 0 <= k_alg k < 256 ->
  sub_header_parse (issuer_subpacket sha1 k ++ r) = Some (9, 16, false, keyid sha1 k ++ r) /\
  sub_header_parse (issuer_fpr_subpacket sha1 k ++ r) = Some (22, 33, false, [4] ++ fingerprint sha1 k ++ r) /\
  pkesk_keyid (pkesk_prefix sha1 k ++ r) = Some (keyid sha1 k).
Proof. exact emitted_ids_are_keyid. Qed.
Print Assumptions C18_emitted_ids_are_keyid.

(* ---- algorithm ids PGPy has no material class for (0, 21: OpaquePubKey / OpaquePrivKey) ---- *)
(* after repair e03112d a PUBLIC key of such an algorithm gets the RFC fingerprint of its body, and that body is
   the RFC 5.5.2 body (version, time, algorithm, the opaque octets) *)
Theorem C18_fp_opaque_public_eq_rfc : forall sha1 sub c a d,
  0 <= c < 4294967296 -> 0 <= a < 256 -> 6 + Z.of_nat (length d) < 65536 ->
  fingerprint sha1 (opaque_pub sub c a d) = rfc_fingerprint sha1 (key_body (opaque_pub sub c a d)) /\
  key_body (opaque_pub sub c a d) = rfc_pub_body c a (POpaque d).
Proof. exact fp_opaque_public_eq_rfc. Qed.
Print Assumptions C18_fp_opaque_public_eq_rfc.
(* the code BEFORE the repair (publen() = 0) is refuted: six octets were hashed, not the RFC value
   (witness with the identity in place of SHA-1), for every content *)
Theorem C18_fp_opaque_prefix_refuted :
  fingerprint_prefix (fun x => x) opaque_witness <> rfc_fingerprint (fun x => x) (key_body opaque_witness).
Proof. exact fp_opaque_prefix_refuted. Qed.
Print Assumptions C18_fp_opaque_prefix_refuted.
Theorem C18_fp_opaque_prefix_characterised : forall c a d s sub,
  0 <= c < 4294967296 -> 0 <= a < 256 ->
  fp_input_prefix {| k_sub := sub; k_created := c; k_alg := a; k_mat := POpaque d; k_sec := s |}
  = [153; 0; 6; 4] ++ be 4 c ++ [a].
Proof. exact fp_opaque_prefix_characterised. Qed.
Print Assumptions C18_fp_opaque_prefix_characterised.
(* the repair changed nothing for the supported algorithms *)
Theorem C18_fp_prefix_same_supported : forall k, wf_pubmat (k_mat k) -> fp_input_prefix k = fp_input k.
Proof. exact fp_prefix_same_supported. Qed.
Print Assumptions C18_fp_prefix_same_supported.
(* a PUBLIC key of such an algorithm goes through every history unchanged (copy keeps the opaque octets since repair
   3c1c8c6, PGPKey.pubkey returns a public key itself, export + import reads the octets back): same fingerprint *)
Theorem C18_fp_opaque_public_invariant : forall ops sub c a d, 0 <= c < 4294967296 -> a = 0 \/ a = 21 ->
  run_ops ops (opaque_pub sub c a d) = Some (opaque_pub sub c a d).
Proof. exact opaque_pub_invariant. Qed.
Print Assumptions C18_fp_opaque_public_invariant.
(* a PRIVATE key of an unknown algorithm: its `data` is the whole stored material (the public/secret boundary is
   unknown), all of it is hashed (the ONE thing still outside the property: no public body exists to compare with), and PrivKeyV4.pubkey() REFUSES (NotImplementedError): there is no twin that could
   have another fingerprint *)
Theorem C18_fp_opaque_private_characterised : forall sub c a d sp,
  0 <= c < 4294967296 -> 0 <= a < 256 -> 6 + Z.of_nat (length d) < 65536 ->
  fp_input (opaque_sec sub c a d sp) = [153] ++ be 2 (6 + Z.of_nat (length d)) ++ [4] ++ be 4 c ++ [a] ++ d /\
  pubkey_pkt (opaque_sec sub c a d sp) = None.
Proof. exact fp_opaque_private_characterised. Qed.
Print Assumptions C18_fp_opaque_private_characterised.
(* the code BEFORE repair 3c1c8c6 (pubkey_pkt_old: total, empty twin; copy_pkt_old: opaque octets lost) is refuted:
   the twin hashed six octets, twin and copy had another fingerprint than the key *)
Theorem C18_fp_opaque_private_old_characterised : forall sub c a d sp,
  0 <= c < 4294967296 -> 0 <= a < 256 ->
  fp_input (pubkey_pkt_old (opaque_sec sub c a d sp)) = [153; 0; 6; 4] ++ be 4 c ++ [a].
Proof. exact fp_opaque_private_old_characterised. Qed.
Print Assumptions C18_fp_opaque_private_old_characterised.
Theorem C18_fp_opaque_private_old_refuted :
  fingerprint (fun x => x) opaque_sec_witness <> fingerprint (fun x => x) (pubkey_pkt_old opaque_sec_witness).
Proof. exact fp_opaque_private_old_refuted. Qed.
Print Assumptions C18_fp_opaque_private_old_refuted.
Theorem C18_fp_opaque_copy_old_refuted :
  fingerprint (fun x => x) (copy_pkt_old opaque_witness) <> fingerprint (fun x => x) opaque_witness /\
  fingerprint (fun x => x) (copy_pkt_old opaque_sec_witness) <> fingerprint (fun x => x) opaque_sec_witness /\
  key_body (copy_pkt_old opaque_witness) <> key_body opaque_witness.
Proof. exact fp_opaque_copy_old_refuted. Qed.
Print Assumptions C18_fp_opaque_copy_old_refuted.
(* that repair changed nothing for the supported algorithms: every old step is the new one *)
Theorem C18_steps_old_same_supported : forall k o, wf_pub k -> apply_op k o = Some (apply_op_old k o).
Proof. exact apply_op_old_same. Qed.
Print Assumptions C18_steps_old_same_supported.
(* since repair c516614 a private packet of an unknown algorithm is written back as received: version, time, algorithm
   and the opaque octets, whatever the unused secret-part fields hold; every step but pubkey() (copy, export + import,
   protect / unlock / lock) leaves its body and the hashed octets as they are *)
Theorem C18_opaque_private_reemit : forall sub c a d sp, 0 <= c < 4294967296 -> 0 <= a < 256 ->
  key_body (opaque_sec sub c a d sp) = [4] ++ be 4 c ++ [a] ++ d.
Proof. exact opaque_private_reemit. Qed.
Print Assumptions C18_opaque_private_reemit.
Theorem C18_opaque_private_steps : forall sub c a d sp o, 0 <= c < 4294967296 -> a = 0 \/ a = 21 -> o <> OpPubkey ->
  exists sp', apply_op (opaque_sec sub c a d sp) o = Some (opaque_sec sub c a d sp') /\
    key_body (opaque_sec sub c a d sp') = key_body (opaque_sec sub c a d sp) /\
    fp_input (opaque_sec sub c a d sp') = fp_input (opaque_sec sub c a d sp).
Proof. exact opaque_sec_step. Qed.
Print Assumptions C18_opaque_private_steps.
(* the composition BEFORE that repair (keymaterial_bytes_old / key_body_old: the secret tail after the opaque octets too)
   is refuted: another body than the one received, one octet longer (packet length and later offsets differ); it is
   the repaired composition wherever the material is not opaque *)
Theorem C18_opaque_private_reemit_old_refuted :
  key_body_old opaque_sec_witness <> [4] ++ be 4 1000 ++ [21] ++ [0; 9; 1; 255; 0; 0; 7; 99] /\
  key_body_old opaque_sec_witness <> key_body opaque_sec_witness /\
  length (key_body_old opaque_sec_witness) = S (length (key_body opaque_sec_witness)).
Proof. exact opaque_private_reemit_old_refuted. Qed.
Print Assumptions C18_opaque_private_reemit_old_refuted.
Theorem C18_key_body_old_same : forall k, is_opaque (k_mat k) = false -> key_body_old k = key_body k.
Proof. exact key_body_old_same. Qed.
Print Assumptions C18_key_body_old_same.

(* ---- the secret part after the public material (never hashed: C18_fp_public_only) under String2Key.__bool__ = usage != 0
   (repair 8563c06): every non-zero usage octet - 254, 255 or a cipher id - is followed by what String2Key writes and the
   ciphertext only; usage 0 by the integers and the checksum ---- *)
Theorem C18_sec_tail_protected : forall sp, s_usage sp <> 0 -> sec_tail sp = s_usage sp :: s_s2k sp ++ s_enc sp.
Proof. exact sec_tail_protected. Qed.
Print Assumptions C18_sec_tail_protected.
Theorem C18_sec_tail_clear : forall sp, s_usage sp = 0 -> sec_tail sp = 0 :: flat_map to_mpibytes (s_priv sp) ++ s_chk sp.
Proof. exact sec_tail_clear. Qed.
Print Assumptions C18_sec_tail_clear.
(* the rule before that repair (only 254 / 255 protected) is the same function on 0 / 254 / 255 and refuted on a cipher-id
   usage octet: usage octet and the cleared integers were written, IV and ciphertext dropped *)
Theorem C18_sec_tail_old_same : forall sp, s_usage sp = 0 \/ s_usage sp = 254 \/ s_usage sp = 255 -> sec_tail_old sp = sec_tail sp.
Proof. exact sec_tail_old_same. Qed.
Print Assumptions C18_sec_tail_old_same.
Theorem C18_sec_tail_legacy_old_refuted :
  sec_tail_old legacy_witness <> sec_tail legacy_witness /\
  sec_tail legacy_witness = 7 :: s_s2k legacy_witness ++ s_enc legacy_witness /\
  sec_tail_old legacy_witness = [7; 0; 0].
Proof. exact sec_tail_legacy_old_refuted. Qed.
Print Assumptions C18_sec_tail_legacy_old_refuted.
(* above 65535 octets the code hashes the first and last of three length octets (no RFC value exists there) *)
Theorem C18_fp_length_prefix_above_bound : forall v, 65536 <= v < 16777216 ->
  firstn 1 (int_to_bytes v 2) ++ lastn 1 (int_to_bytes v 2) = [v / 65536; v mod 256].
Proof. exact big_prefix_differs. Qed.
Print Assumptions C18_fp_length_prefix_above_bound.
