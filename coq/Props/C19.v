(* C19 -- the keyring index stays consistent over any load / unload history.
   Statements only; every proof is `exact <lemma>` into Proofs/Keyring_lemmas*.v.
   `sort` is the order _sort_alias obtains from sorted(list(set(..)), key=(created, is_public)): the theorems hold for EVERY
   function that permutes its argument, so dict / set iteration order and the sort key are irrelevant for them.
   `run sort ops` is the model state after the history `ops` starting from the empty keyring; `loaded_after ops` is the
   specification's plain set of loaded key objects (Spec/Keyring_spec.v). *)
From Coq Require Import ZArith List Bool Permutation.
Import ListNotations.
Require Import PV.Lib.Bytes PV.Model.Keyring PV.Spec.Keyring_spec PV.Proofs.Keyring_lemmas PV.Proofs.Keyring_lemmas2
  PV.Proofs.Keyring_lemmas3.
Open Scope Z_scope.

(* re-sorting one alias neither loses nor invents an (identifier, key) pair, and keeps every layer a dict *)
Theorem C19_sort_alias_preserves_pairs : forall sort, (forall l, Permutation l (sort l)) -> forall a ls p,
  Inv ls -> (In p (abs (sort_alias sort a ls)) <-> In p (abs ls)).
Proof. exact sort_alias_preserves_pairs. Qed.
Print Assumptions C19_sort_alias_preserves_pairs.

Theorem C19_sort_alias_ok : forall sort a ls, Inv ls -> Inv (sort_alias sort a ls).
Proof. exact sort_alias_ok. Qed.
Print Assumptions C19_sort_alias_ok.

(* _add_alias adds exactly one pair *)
Theorem C19_add_alias_refines : forall sort, (forall l, Permutation l (sort l)) -> forall a k ls, Inv ls ->
  Inv (add_alias sort a k ls) /\ forall p, In p (abs (add_alias sort a k ls)) <-> p = (a, k) \/ In p (abs ls).
Proof. exact add_alias_refines. Qed.
Print Assumptions C19_add_alias_refines.

(* unload's alias work removes exactly the pairs of the unloaded object *)
Theorem C19_unload_layers : forall sort, (forall l, Permutation l (sort l)) -> forall k ls, Inv ls ->
  let r := fold_left (unstep sort k) (todo k ls) ls in
  Inv r /\ forall p, In p (abs r) <-> In p (abs ls) /\ snd p <> k.
Proof. exact unload_layers_spec. Qed.
Print Assumptions C19_unload_layers.

(* single steps on a state satisfying the invariant (SInv: every layer is a dict, the index represents exactly the pairs of the
   key table, key objects are distinct, the deque is not empty) *)
Theorem C19_abs_add_key : forall sort, (forall l, Permutation l (sort l)) -> forall s k p, SInv s ->
  (In p (abs (lays (add_key sort s k))) <-> spec_pairs (spec_step (keys s) (Load k)) p).
Proof. exact abs_add_key. Qed.
Print Assumptions C19_abs_add_key.

Theorem C19_abs_unload : forall sort, (forall l, Permutation l (sort l)) -> forall s k p, SInv s ->
  (In p (abs (lays (unload sort s k))) <-> spec_pairs (spec_step (keys s) (Unload k)) p).
Proof. exact abs_unload. Qed.
Print Assumptions C19_abs_unload.

Theorem C19_invariant_step : forall sort, (forall l, Permutation l (sort l)) -> forall s o, SInv s -> SInv (step sort s o).
Proof. exact step_SInv. Qed.
Print Assumptions C19_invariant_step.

Theorem C19_invariant_reachable : forall sort, (forall l, Permutation l (sort l)) -> forall ops, SInv (run sort ops).
Proof. exact run_SInv. Qed.
Print Assumptions C19_invariant_reachable.

(* THE refinement: after any history the index holds exactly the (identifier, key) pairs of the loaded keys *)
Theorem C19_abs_reachable : forall sort, (forall l, Permutation l (sort l)) -> forall ops p,
  In p (abs (lays (run sort ops))) <-> spec_pairs (loaded_after ops) p.
Proof. exact abs_reachable. Qed.
Print Assumptions C19_abs_reachable.

Theorem C19_keys_reachable : forall sort ops, keys (run sort ops) = loaded_after ops.
Proof. exact keys_reachable. Qed.
Print Assumptions C19_keys_reachable.

(* `selects i a` (Spec/Keyring_spec.v): key i carries the identifier a as it is written, or a is a fingerprint / key id / short id
   written in groups -- its space-free form is 40, 16 or 8 hexadecimal digits -- and i carries that form (the rule of commit 48f9d25;
   `strip` = remove every blank).  Names, comments and e-mail addresses are never compared modulo blanks. *)
Theorem C19_selects_literal : forall i a, ~ id_shape (strip a) -> (selects i a <-> carries i a).
Proof. exact selects_literal. Qed.
Print Assumptions C19_selects_literal.

Theorem C19_selects_grouped : forall i a, carries i (strip a) -> id_shape (strip a) -> selects i a.
Proof. exact selects_grouped. Qed.
Print Assumptions C19_selects_grouped.

(* the model's _unspaced is the specification's rule *)
Theorem C19_selects_unspaced : forall i a, selects i a <-> carries i a \/ carries i (unspaced a).
Proof. exact selects_unspaced. Qed.
Print Assumptions C19_selects_unspaced.

(* `identifier in keyring`  <=>  some loaded key is selected by it *)
Theorem C19_contains_iff : forall sort, (forall l, Permutation l (sort l)) -> forall ops a,
  containsS a (lays (run sort ops)) = true <-> exists i, In i (loaded_after ops) /\ selects i a.
Proof. exact contains_iff. Qed.
Print Assumptions C19_contains_iff.

(* `with keyring.key(identifier)` yields a loaded key that carries the identifier ... *)
Theorem C19_get_sound : forall sort, (forall l, Permutation l (sort l)) -> forall ops a i,
  get_key (run sort ops) a = Some i -> In i (loaded_after ops) /\ selects i a.
Proof. exact get_sound. Qed.
Print Assumptions C19_get_sound.

(* ... and every identifier of a loaded key does select one (no KeyError) *)
Theorem C19_get_total : forall sort, (forall l, Permutation l (sort l)) -> forall ops a i,
  In i (loaded_after ops) -> selects i a ->
  exists j, get_key (run sort ops) a = Some j /\ In j (loaded_after ops) /\ selects j a.
Proof. exact get_total. Qed.
Print Assumptions C19_get_total.

(* identifiers belonging only to unloaded keys select nothing *)
Theorem C19_unloaded_selects_nothing : forall sort, (forall l, Permutation l (sort l)) -> forall ops a,
  (forall i, In i (loaded_after ops) -> ~ selects i a) ->
  containsS a (lays (run sort ops)) = false /\ get_key (run sort ops) a = None.
Proof. exact unloaded_selects_nothing. Qed.
Print Assumptions C19_unloaded_selects_nothing.

(* `with keyring.key(message)`: the key handed out is loaded and is selected by one of the message's issuers / recipients;
   KeyError (None) exactly when no loaded key is selected by any of them (commit 35c6008: KeyError, also for a message without issuers) *)
Theorem C19_issuers_sound : forall sort, (forall l, Permutation l (sort l)) -> forall ops iss j,
  get_key_issuers (run sort ops) iss = Some j -> exists a, In a iss /\ In j (loaded_after ops) /\ selects j a.
Proof. exact issuers_sound. Qed.
Print Assumptions C19_issuers_sound.

Theorem C19_issuers_keyerror_iff : forall sort, (forall l, Permutation l (sort l)) -> forall ops iss,
  get_key_issuers (run sort ops) iss = None <-> forall a i, In a iss -> In i (loaded_after ops) -> ~ selects i a.
Proof. exact issuers_keyerror_iff. Qed.
Print Assumptions C19_issuers_keyerror_iff.

(* fingerprints(), fingerprints(keyhalf, keytype), len *)
Theorem C19_fingerprints_exact : forall sort ops, fingerprints (run sort ops) None None = map kfp (loaded_after ops).
Proof. exact fingerprints_exact. Qed.
Print Assumptions C19_fingerprints_exact.

Theorem C19_fingerprints_filtered : forall sort ops half typ f,
  In f (fingerprints (run sort ops) half typ) <->
  exists i, In i (loaded_after ops) /\ kfp i = f /\ sel typ (kprimary i) = true /\ sel half (kpublic i) = true.
Proof. exact fingerprints_filtered. Qed.
Print Assumptions C19_fingerprints_filtered.

Theorem C19_len_exact : forall sort ops, klen (run sort ops) = length (loaded_after ops).
Proof. exact len_exact. Qed.
Print Assumptions C19_len_exact.

(* histories that load / unload whole keys of a universe of distinct key objects (every component has its own id, top-level keys are
   primary keys): what is loaded is exactly the primary + subkeys of the keys that are currently in (live_after = plain add / remove).
   Only this reading aid is about whole keys: every other theorem here holds for arbitrary histories, also those that load / unload
   a subkey on its own (C19_fingerprints_exact, C19_abs_reachable, C19_load_result_is_indexed ...) *)
Theorem C19_whole_key_histories : forall U ops, universe_ok U -> (forall o, In o ops -> In (key_of o) U) ->
  forall x, In x (loaded_after ops) <-> exists k, In k (live_after ops) /\ In x (comps k).
Proof. exact whole_key_histories. Qed.
Print Assumptions C19_whole_key_histories.
Example C19_universe_premise : universe_ok [keyA; keyB] /\ forall o, In o f5_history -> In (key_of o) [keyA; keyB].
Proof.
  split; [split|].
  - cbn. repeat constructor; cbn; intuition discriminate.
  - intros k [<-|[<-|[]]]; reflexivity.
  - intros o [<-|[<-|[<-|[<-|[]]]]]; cbn; auto.
Qed.

Theorem C19_loaded_ids_distinct : forall sort : list pkid -> list pkid, (forall l, Permutation l (sort l)) -> forall ops, NoDup (map kid (loaded_after ops)).
Proof. exact loaded_ids_distinct. Qed.
Print Assumptions C19_loaded_ids_distinct.

(* self._aliases[-1] never fails: the deque is never empty *)
Theorem C19_layers_never_empty : forall sort, (forall l, Permutation l (sort l)) -> forall ops, lays (run sort ops) <> [].
Proof. exact layers_never_empty. Qed.
Print Assumptions C19_layers_never_empty.

(* the premise on sort is satisfiable (and this instance is the one used in the concrete examples below) *)
Example C19_sort_premise : forall l, Permutation l (isort l).
Proof. exact isort_perm. Qed.

(* the _add_alias of before commit 1574c30 is refuted: L A, L B, U A, L A with A and B sharing the name "x" *)
Theorem C19_repo_loses_alias_refuted :
  spec_pairs (loaded_after f5_history) (name_x, 2) /\ ~ In (name_x, 2) (abs (lays (run_repo f5_history))).
Proof. exact repo_loses_alias. Qed.
Print Assumptions C19_repo_loses_alias_refuted.

Theorem C19_repo_loses_alias_observable :
  let ops := f5_history ++ [Unload keyA] in
  In (fst keyB) (loaded_after ops) /\ carries (fst keyB) name_x /\
  containsS name_x (lays (run_repo ops)) = false /\ get_key (run_repo ops) name_x = None.
Proof. exact repo_loses_alias_observable. Qed.
Print Assumptions C19_repo_loses_alias_observable.

Example C19_repaired_keeps_alias : In (name_x, 2) (abs (lays (run isort f5_history))).
Proof. exact repaired_keeps_alias. Qed.

(* the membership / lookup rule of before commit 48f9d25 (blanks ignored in every identifier; run_old = the keyring with that
   `alias in self`, get_key_old = its _get_key) is refuted: with only "JohnSmith" loaded, key("John Smith") hands out his key ... *)
Theorem C19_get_sound_old_refuted :
  exists ops a j, get_key_old (run_old isort ops) a = Some j /\ In j (loaded_after ops) /\ ~ selects j a.
Proof. exact get_sound_old_refuted. Qed.
Print Assumptions C19_get_sound_old_refuted.

(* ... and after L "John Smith", L "JohnSmith", U "John Smith" the name "John Smith" is still `in` the keyring and selects a key *)
Theorem C19_unloaded_selects_nothing_old_refuted :
  exists ops a, (forall i, In i (loaded_after ops) -> ~ selects i a) /\
    containsS_old a (lays (run_old isort ops)) = true /\ get_key_old (run_old isort ops) a <> None.
Proof. exact unloaded_selects_nothing_old_refuted. Qed.
Print Assumptions C19_unloaded_selects_nothing_old_refuted.

(* the old reading was strictly more permissive *)
Theorem C19_selects_implies_old : forall i a, selects i a -> selects_old i a.
Proof. exact selects_implies_old. Qed.
Print Assumptions C19_selects_implies_old.

Example C19_repaired_names_literal :
  get_key (run isort [Load keyJS]) name_john_smith = None /\
  containsS name_john_smith (lays (run isort js_history)) = false /\
  get_key (run isort js_history) name_johnsmith = Some (fst keyJS).
Proof. exact repaired_names_literal. Qed.
Example C19_repaired_grouped_id_found :
  unspaced id_dead_beef = id_deadbeef /\ get_key (run isort [Load keyH]) id_dead_beef = Some (fst keyH).
Proof. exact repaired_grouped_id_found. Qed.

(* load() (commit 7e98898): whatever happened before -- also when a subkey was unloaded on its own -- every fingerprint load(k)
   returns (the key's and its subkeys') is reported by fingerprints() afterwards, is `in` the keyring and selects a loaded key.
   objects_consistent: one label (id()) names one key object with one set of data throughout the history. *)
Theorem C19_load_result_is_indexed : forall sort ops k f, objects_consistent (ops ++ [Load k]) -> In f (load_result k) ->
  In f (fingerprints (run sort (ops ++ [Load k])) None None).
Proof. exact load_result_is_indexed. Qed.
Print Assumptions C19_load_result_is_indexed.
Example C19_load_result_premise :
  objects_consistent ([Load keyK; Unload (subS, [])] ++ [Load keyK]) /\ In (kfp subS) (load_result keyK).
Proof. split; [exact reload_history_consistent|vm_compute; auto]. Qed.

Theorem C19_load_result_loaded : forall ops k x, objects_consistent (ops ++ [Load k]) -> In x (comps k) ->
  In x (loaded_after (ops ++ [Load k])).
Proof. exact load_result_loaded. Qed.
Print Assumptions C19_load_result_loaded.

Theorem C19_load_result_selects : forall sort, (forall l, Permutation l (sort l)) -> forall ops k f,
  objects_consistent (ops ++ [Load k]) -> In f (load_result k) ->
  containsS f (lays (run sort (ops ++ [Load k]))) = true /\
  exists j, get_key (run sort (ops ++ [Load k])) f = Some j /\ In j (loaded_after (ops ++ [Load k])) /\ selects j f.
Proof. exact load_result_selects. Qed.
Print Assumptions C19_load_result_selects.

(* the _add_key of before commit 7e98898 (subkeys visited only when the key itself was new; run_old_addkey) is refuted:
   load K, unload sub(K), load K -- load reports sub(K)'s fingerprint, the keyring neither lists nor selects it
   (that keyring did follow the old reading of "loaded", loaded_after_old) *)
Theorem C19_load_result_is_indexed_old_refuted :
  objects_consistent reload_history /\ In (kfp subS) (load_result keyK) /\
  ~ In (kfp subS) (fingerprints (run_old_addkey isort reload_history) None None) /\
  get_key (run_old_addkey isort reload_history) (kfp subS) = None /\
  keys (run_old_addkey isort reload_history) = loaded_after_old reload_history.
Proof. exact load_result_is_indexed_old_refuted. Qed.
Print Assumptions C19_load_result_is_indexed_old_refuted.

Example C19_reload_restores_subkey :
  In (kfp subS) (fingerprints (run isort reload_history) None None) /\
  get_key (run isort reload_history) (kfp subS) = Some subS.
Proof. exact reload_restores_subkey. Qed.
