(* C20 - Messages are well-formed OpenPGP compositions and keep content and metadata.
   This file holds statements only; every proof is `exact <lemma>` into Proofs/.
   Model: Model/Message.v (PGPMessage.__iter__ / __bytearray__ / __or__ / parse / new / encrypt, literal, one-pass and
   compressed packet codecs).  Spec: Spec/Rfc4880_msg.v (RFC 4880 11.3 grammar as an inductive predicate + checker,
   5.4 and 5.9 body decoders).  tok_of / toks (Model/Message_abs.v) view model packets in the Spec vocabulary. *)
From Coq Require Import ZArith List Bool.
Import ListNotations.
Require Import PV.Lib.Bytes PV.Model.Wire PV.Model.Message PV.Spec.Rfc4880_msg PV.Model.Message_abs.
Require Import PV.Proofs.Message_lemmas PV.Proofs.Message_lemmas2 PV.Proofs.Wire_lemmas4.
Open Scope Z_scope.

(* ---------------------------------------------------------------- the run-time grammar check decides the RFC grammar *)
Theorem C20_is_message_iff : forall l, is_message l = true <-> Message l.
Proof. exact is_message_iff. Qed.
Print Assumptions C20_is_message_iff.

(* ---------------------------------------------------------------- every message PGPy builds is in the grammar *)
(* any literal, any compression algorithm, any number of signatures added in any order at any (equal or different) times *)
Theorem C20_export_in_grammar : forall l comp added,
  exists ps, export_pkts (add_sigs (new_msg l comp) added) = Some ps /\ Message (toks ps) /\ is_message (toks ps) = true.
Proof. exact export_in_grammar. Qed.
Print Assumptions C20_export_in_grammar.

(* the same for every state holding a literal and no stray MDC packet, however it was reached (e.g. by import) *)
Theorem C20_export_in_grammar_state : forall m l, m_body m = BLit l /\ m_mdc m = None ->
  exists ps, export_pkts m = Some ps /\ Message (toks ps) /\ is_message (toks ps) = true.
Proof. exact export_in_grammar_state. Qed.
Print Assumptions C20_export_in_grammar_state.
Example C20_state_premises : m_body msg_ok = BLit {| l_format := 116; l_name := [99; 97; 102; 233]; l_mtime := 1577934245; l_data := [104; 105] |}
  /\ m_mdc msg_ok = None.
Proof. split; reflexivity. Qed.

(* why the premise m_mdc = None: a stray MDC packet accepted on import is re-exported in the clear, outside the grammar.
   (PGPMessage.decrypt no longer leaves one behind - 8a513cb; the harness checks that on every decrypted message) *)
Theorem C20_export_with_mdc_refuted :
  exists m ps, import_pkts [PLit lit_example; PMdc [0]] = Some m /\ export_pkts m = Some ps /\ is_message (toks ps) = false.
Proof. exact export_with_mdc_refuted. Qed.

(* ---------------------------------------------------------------- one-pass packets mirror the signatures *)
(* the i-th one-pass packet names type, hash, public-key algorithm and issuer of the (n-1-i)-th signature,
   and carries flag 1 exactly when it is the last *)
Theorem C20_ops_mirror_sigs : forall sigs i s, (i < length sigs)%nat -> nth_error sigs (length sigs - 1 - i) = Some s ->
  nth_error (ops_list sigs) i = Some (POps (with_flag (make_onepass s) (Nat.eqb i (length sigs - 1)))).
Proof. exact ops_mirror_sigs. Qed.
Print Assumptions C20_ops_mirror_sigs.
Theorem C20_ops_count : forall sigs, length (ops_list sigs) = length sigs.
Proof. exact ops_list_length. Qed.
Print Assumptions C20_ops_count.

Theorem C20_ops_last_flag_only : forall sigs,
  ops_flags (ops_list sigs) = match sigs with [] => [] | _ => repeat false (length sigs - 1) ++ [true] end.
Proof. exact ops_last_flag_only. Qed.
Print Assumptions C20_ops_last_flag_only.

(* RFC 4880 5.4 on the whole export: a zero flag is always followed by another one-pass packet *)
Theorem C20_export_flags_ok : forall m l, m_body m = BLit l /\ m_mdc m = None ->
  forall ps, export_pkts m = Some ps -> flags_ok ps = true.
Proof. exact export_flags_ok. Qed.
Print Assumptions C20_export_flags_ok.

(* the rule before the repair (F3): flag 0 for one signer (then the literal follows a "more to come" packet), 0,1,1 for three *)
Theorem C20_ops_flags_prefix_refuted :
  ops_flags (ops_list_prefix [sig_example 1]) = [false] /\
  ops_flags (ops_list_prefix [sig_example 1; sig_example 2; sig_example 3]) = [false; true; true] /\
  exists ps, export_pkts_prefix (add_sigs (new_msg lit_example 0) [sig_example 1]) = Some ps /\ flags_ok ps = false.
Proof. exact ops_flags_prefix_refuted. Qed.

(* ---------------------------------------------------------------- compression wraps the whole signed sequence *)
Theorem C20_compressed_wraps_all : forall m l, m_body m = BLit l /\ m_mdc m = None -> m_comp m <> 0 ->
  export_pkts m = Some [PComp (m_comp m) (ops_list (m_sigs m) ++ [PLit l] ++ map PSig (m_sigs m))].
Proof. exact compressed_wraps_all. Qed.
Print Assumptions C20_compressed_wraps_all.
Theorem C20_uncompressed_export : forall m l, m_body m = BLit l /\ m_mdc m = None -> m_comp m = 0 ->
  export_pkts m = Some (ops_list (m_sigs m) ++ [PLit l] ++ map PSig (m_sigs m)).
Proof. exact uncompressed_export. Qed.
Print Assumptions C20_uncompressed_export.
(* octets: algorithm octet, then the compressor applied to the concatenation of ALL packets *)
Theorem C20_compressed_export_bytes : forall (compress : Z -> bytes -> bytes) m l,
  m_body m = BLit l /\ m_mdc m = None -> valid_calg (m_comp m) = true -> m_comp m <> 0 ->
  export_bytes compress m =
    match emit_pkts compress (ops_list (m_sigs m) ++ [PLit l] ++ map PSig (m_sigs m)) with
    | Some pb => frame 8 (m_comp m :: compress (m_comp m) pb)
    | None => None
    end.
Proof. exact compressed_export_bytes. Qed.
Print Assumptions C20_compressed_export_bytes.

(* ---------------------------------------------------------------- encrypted messages *)
(* any unencrypted message, encrypted with a passphrase (once or again), signed before / after in any order:
   signatures, then at least one session-key packet, then exactly one encrypted container; inside the grammar *)
Theorem C20_encrypted_shape : forall m0 k ct ops, is_encrypted m0 = false ->
  let m := fold_left apply_eop ops (encrypt_msg m0 (PSkesk k) ct) in
  exists sigs esks c, export_pkts m = Some (map PSig sigs ++ esks ++ [c]) /\
    esks <> [] /\ Forall is_esk_pkt esks /\ (exists i ct', c = enc_pkt i ct') /\
    Message (toks (map PSig sigs ++ esks ++ [c])).
Proof. exact encrypted_shape. Qed.
Print Assumptions C20_encrypted_shape.

(* ---------------------------------------------------------------- import (export m) = m *)
(* signatures are kept sorted by creation time whatever the insertion order *)
Theorem C20_add_sigs_sorted : forall m ss, sorted_sigs (m_sigs m) -> sorted_sigs (m_sigs (add_sigs m ss)).
Proof. exact add_sigs_sorted. Qed.
Print Assumptions C20_add_sigs_sorted.

(* packet level: the whole state comes back - content, file name, time, format, compression, signature list *)
Theorem C20_import_export : forall l comp added,
  let m := add_sigs (new_msg l comp) added in
  exists ps, export_pkts m = Some ps /\ import_pkts ps = Some m.
Proof. exact import_export. Qed.
Print Assumptions C20_import_export.

(* octet level, with the compression primitive as a premise: decompress (compress x) = x for every algorithm *)
Theorem C20_import_export_bytes : forall (compress : Z -> bytes -> bytes) (decompress : Z -> bytes -> option bytes),
  (forall a x, valid_calg a = true -> decompress a (compress a x) = Some x) ->
  forall m l ps b fuel, importable m l -> export_pkts m = Some ps -> Forall (wf_pkt compress) ps ->
  emit_pkts compress ps = Some b -> (pkts_size ps < fuel)%nat -> import_bytes decompress fuel b = Ok m.
Proof. exact import_export_bytes. Qed.
Print Assumptions C20_import_export_bytes.
Example C20_import_export_bytes_premises :
  importable msg_ok {| l_format := 116; l_name := [99; 97; 102; 233]; l_mtime := 1577934245; l_data := [104; 105] |} /\
  exists ps b, export_pkts msg_ok = Some ps /\ Forall (wf_pkt id_compress) ps /\ emit_pkts id_compress ps = Some b /\
    (pkts_size ps < 10)%nat /\ import_bytes id_decompress 10 b = Ok msg_ok.
Proof. exact example_premises. Qed.

(* the parser reads back exactly the packets that were emitted (any well-formed sequence, nested compression included);
   fuel = number of packets is enough, OutOfFuel is excluded by the statement *)
Theorem C20_parse_emit : forall (compress : Z -> bytes -> bytes) (decompress : Z -> bytes -> option bytes),
  (forall a x, valid_calg a = true -> decompress a (compress a x) = Some x) ->
  forall fuel ps b, (pkts_size ps < fuel)%nat -> Forall (wf_pkt compress) ps ->
  emit_pkts compress ps = Some b -> parse_pkts decompress fuel b = Ok ps.
Proof. exact parse_emit. Qed.
Print Assumptions C20_parse_emit.

(* ---------------------------------------------------------------- literal data body codec (RFC 4880 5.9) *)
(* round trip: consumes exactly its own length, following data untouched *)
Theorem C20_lit_roundtrip : forall l b r, lit_body l = Some b -> wf_bytes (l_data l) ->
  lit_parse (Z.of_nat (length b)) (b ++ r) = Some (l, r).
Proof. exact lit_roundtrip. Qed.
Print Assumptions C20_lit_roundtrip.
Example C20_lit_premises : exists b, lit_body {| l_format := 98; l_name := [233; 46]; l_mtime := 4294967295; l_data := [0; 255] |} = Some b.
Proof. eexists. vm_compute. reflexivity. Qed.
(* the parser agrees with the RFC decoder on every body the RFC decoder accepts *)
Theorem C20_lit_parse_eq_rfc : forall body r f name t data, wf_bytes body ->
  rfc_lit_dec body = Some (f, name, t, data) ->
  lit_parse (Z.of_nat (length body)) (body ++ r) = Some ({| l_format := f; l_name := name; l_mtime := t; l_data := data |}, r).
Proof. exact lit_parse_eq_rfc. Qed.
Print Assumptions C20_lit_parse_eq_rfc.
(* ... and accepts nothing else: an accepted body is one the RFC decoder accepts, with the same fields, and the octets after the
   declared length are not touched (a literal packet cannot read its name, date or data out of the packets that follow it) *)
Theorem C20_lit_parse_only_rfc : forall body r l r', wf_bytes body -> wf_bytes r ->
  lit_parse (Z.of_nat (length body)) (body ++ r) = Some (l, r') ->
  rfc_lit_dec body = Some (l_format l, l_name l, l_mtime l, l_data l) /\ r' = r.
Proof. exact lit_parse_only_rfc. Qed.
Print Assumptions C20_lit_parse_only_rfc.
(* the premise is met, and the body that used to swallow what follows (name length 255 in six octets) is refused *)
Example C20_lit_parse_only_rfc_premises :
  lit_parse 8 ([98; 2; 97; 98; 0; 0; 0; 1] ++ [202; 3]) = Some ({| l_format := 98; l_name := [97; 98]; l_mtime := 1; l_data := [] |}, [202; 3])
  /\ lit_parse 6 ([98; 255; 0; 0; 0; 0] ++ [202; 3; 80; 71; 80]) = None.
Proof. split; vm_compute; reflexivity. Qed.
(* packet level: a literal data packet and a modification detection code packet are read out of the octets their header declares;
   what follows the declared body is left, untouched, for the next packet (or the packet is refused) *)
Theorem C20_literal_mdc_confined : forall decompress rec b h body r p r', wf_bytes body -> wf_bytes r ->
  header_parse b = Some (h, body ++ r) -> h_len h = Z.of_nat (length body) -> h_tag h = 11 \/ h_tag h = 19 ->
  parse_one decompress rec b = Ok (p, r') -> r' = r.
Proof. exact parse_one_literal_mdc_confined. Qed.
Print Assumptions C20_literal_mdc_confined.
(* premises met by a 20-octet tag 19 packet followed by a marker packet; the 30-octet one of the single-bit flip C3 -> D3 is refused *)
Example C20_literal_mdc_confined_premises :
  (exists h, header_parse ([211; 20] ++ repeat 7 20 ++ [202; 3; 80; 71; 80]) = Some (h, repeat 7 20 ++ [202; 3; 80; 71; 80])
             /\ h_len h = 20 /\ h_tag h = 19)
  /\ parse_one (fun _ _ => None) (fun _ => Reject) ([211; 20] ++ repeat 7 20 ++ [202; 3; 80; 71; 80]) = Ok (PMdc (repeat 7 20), [202; 3; 80; 71; 80])
  /\ parse_one (fun _ _ => None) (fun _ => Reject) ([211; 30] ++ repeat 7 20 ++ [172; 255] ++ repeat 9 8) = Reject.
Proof. split; [eexists; vm_compute; repeat split; reflexivity|split; vm_compute; reflexivity]. Qed.
(* what is emitted is what the RFC decoder reads *)
Theorem C20_lit_body_rfc : forall l b, lit_body l = Some b ->
  rfc_lit_dec b = Some (l_format l, l_name l, l_mtime l, l_data l).
Proof. exact lit_body_rfc. Qed.
Print Assumptions C20_lit_body_rfc.
(* a time that does not fit four octets is refused; whatever is emitted carries a four-octet time *)
Theorem C20_lit_time_refused : forall l, 4294967296 <= l_mtime l -> lit_body l = None.
Proof. exact lit_time_refused. Qed.
Print Assumptions C20_lit_time_refused.
Theorem C20_lit_body_time : forall l b, lit_body l = Some b -> 0 <= l_mtime l < 4294967296.
Proof. exact lit_body_time. Qed.
Print Assumptions C20_lit_body_time.
(* the emitter before the repair (58e1aa9): five octets after 2106-02-07, own output read back with another time and content *)
Theorem C20_lit_time_overflow_prefix_refuted :
  exists l b l' r', lit_body_prefix l = Some b /\ lit_parse (Z.of_nat (length b)) (b ++ [170]) = Some (l', r') /\
    l_mtime l' <> l_mtime l /\ l_data l' <> l_data l.
Proof. exact lit_time_overflow_prefix_refuted. Qed.

(* ---------------------------------------------------------------- one-pass signature body codec (RFC 4880 5.4) *)
Theorem C20_ops_roundtrip : forall o r, length (o_keyid o) = 8%nat -> memz (o_type o) sigtypes = true -> memz (o_pkalg o) pkalgs = true ->
  exists b', ops_body o = 3 :: b' /\ ops_parse (b' ++ r) = Some (o, r) /\ length (ops_body o) = 13%nat.
Proof. exact ops_roundtrip. Qed.
Print Assumptions C20_ops_roundtrip.
Theorem C20_ops_body_rfc : forall o, length (o_keyid o) = 8%nat ->
  rfc_ops_dec (ops_body o) = Some (o_type o, o_halg o, o_pkalg o, o_keyid o, if o_flag o then 1 else 0).
Proof. exact ops_body_rfc. Qed.
Print Assumptions C20_ops_body_rfc.

(* ---------------------------------------------------------------- content read back *)
(* the strict UTF-8 decoder of the model inverts text_to_bytes on every encodable Python string *)
Theorem C20_utf8_roundtrip : forall t, forallb valid_cp t = true -> utf8_decode (utf8 t) = Some t.
Proof. exact utf8_roundtrip. Qed.
Print Assumptions C20_utf8_roundtrip.
(* text given to PGPMessage.new with format 't' or 'u' reads back as the same text *)
Theorem C20_text_roundtrip : forall fmt name mtime t comp, fmt = 116 \/ fmt = 117 -> forallb valid_cp t = true ->
  match m_body (new_text fmt name mtime t comp) with BLit l => contents l = VText t | _ => False end.
Proof. exact text_roundtrip. Qed.
Print Assumptions C20_text_roundtrip.
Example C20_text_premises : forallb valid_cp [99; 97; 102; 233; 9731; 119070] = true.
Proof. reflexivity. Qed.
(* the reader before the repair (b404cfc): 't' decoded latin-1 although stored as UTF-8 *)
Theorem C20_text_t_prefix_refuted :
  exists t, forallb valid_cp t = true /\
    contents_prefix {| l_format := 116; l_name := []; l_mtime := 0; l_data := utf8 t |} <> VText t.
Proof. exact text_t_prefix_refuted. Qed.
(* 't' data of another producer that is not UTF-8 stays readable as latin-1 *)
Theorem C20_text_t_foreign_latin1 : forall l, l_format l = 116 -> utf8_decode (l_data l) = None -> contents l = VText (l_data l).
Proof. exact text_t_foreign_latin1. Qed.
Print Assumptions C20_text_t_foreign_latin1.
Example C20_text_t_foreign_premises : utf8_decode [99; 97; 102; 233] = None.
Proof. reflexivity. Qed.
(* every other format marker hands back the stored octets *)
Theorem C20_contents_octets : forall l, l_format l <> 116 -> l_format l <> 117 -> contents l = VBytes (l_data l).
Proof. exact contents_octets. Qed.
Print Assumptions C20_contents_octets.

(* ---------------------------------------------------------------- encodings of other producers *)
(* partial body lengths (any chunking 2^k, k < 31) and old-format headers decode to the same tag, length and body,
   and the body parsers depend on nothing else *)
Theorem C20_frame_partial_parse : forall tag ks body r, 0 <= tag < 64 -> Forall (fun k => 0 <= k < 31) ks -> small body ->
  exists h, header_parse (frame_partial tag ks body ++ r) = Some (h, body ++ r) /\ h_tag h = tag /\ h_len h = Z.of_nat (length body).
Proof. exact frame_partial_parse. Qed.
Print Assumptions C20_frame_partial_parse.
Theorem C20_frame_old_parse : forall tag w body x r, 0 <= tag < 16 -> (w = 1 \/ w = 2 \/ w = 4) -> small body ->
  frame_old tag w body = Some x ->
  exists h, header_parse (x ++ r) = Some (h, body ++ r) /\ h_tag h = tag /\ h_len h = Z.of_nat (length body).
Proof. exact frame_old_parse. Qed.
Print Assumptions C20_frame_old_parse.
Theorem C20_parse_one_framing : forall decompress rec b1 b2 h1 h2 r,
  header_parse b1 = Some (h1, r) -> header_parse b2 = Some (h2, r) -> h_tag h1 = h_tag h2 -> h_len h1 = h_len h2 ->
  parse_one decompress rec b1 = parse_one decompress rec b2.
Proof. exact parse_one_framing. Qed.
Print Assumptions C20_parse_one_framing.

(* a well-formed packet framed with partial body lengths / an old-format header is parsed to the SAME packet
   (premises as for C20_parse_emit; `rec` is the parser used for decompressed data) *)
Theorem C20_partial_framing_same_packet : forall (compress : Z -> bytes -> bytes) (decompress : Z -> bytes -> option bytes),
  (forall a x, valid_calg a = true -> decompress a (compress a x) = Some x) ->
  forall rec p t b ks y, wf_pkt compress p -> tag_body compress p = Some (t, b) ->
  (forall a inner pb, p = PComp a inner -> emit_pkts compress inner = Some pb -> rec pb = Ok inner) ->
  Forall (fun k => 0 <= k < 31) ks ->
  parse_one decompress rec (frame_partial t ks b ++ y) = Ok (p, y).
Proof. exact partial_framing_same_packet. Qed.
Print Assumptions C20_partial_framing_same_packet.
Theorem C20_old_framing_same_packet : forall (compress : Z -> bytes -> bytes) (decompress : Z -> bytes -> option bytes),
  (forall a x, valid_calg a = true -> decompress a (compress a x) = Some x) ->
  forall rec p t b w x y, wf_pkt compress p -> tag_body compress p = Some (t, b) ->
  (forall a inner pb, p = PComp a inner -> emit_pkts compress inner = Some pb -> rec pb = Ok inner) ->
  0 <= t < 16 -> (w = 1 \/ w = 2 \/ w = 4) -> frame_old t w b = Some x ->
  parse_one decompress rec (x ++ y) = Ok (p, y).
Proof. exact old_framing_same_packet. Qed.
Print Assumptions C20_old_framing_same_packet.
Example C20_framing_premises : wf_pkt id_compress (PLit lit_example) /\ tag_body id_compress (PLit lit_example) = Some (11, [98; 0; 0; 0; 0; 0; 104; 105]).
Proof. exact example_framing_premises. Qed.

(* ---------- a packet read without a length field (Proofs/Wire_lemmas4.v; repair b07b4af) ---------- *)
(* a message of another producer may end in a packet with an old-format header WITHOUT length field (it extends to the end of the
   input).  Once PGPy adds a signature, packets follow it: it is kept, and written, with a length field that fits its length, and
   whatever follows (any r) is left for the next packet.  131 + 4 t is the tag octet 1 0 t t t t 1 1. *)
Theorem C20_indeterminate_length_reframed : forall t body, 0 <= t < 16 -> Z.of_nat (length body) < 4294967296 ->
  exists h bs,
    header_parse (indet_octet t :: body) = Some (h, body) /\ h_tag h = t /\ h_len h = Z.of_nat (length body) /\
    header_emit h = Some bs /\
    forall r, exists h', header_parse (bs ++ body ++ r) = Some (h', body ++ r) /\ h_tag h' = t /\ h_len h' = Z.of_nat (length body) /\
                         Z.of_nat (length bs) = 1 + h_llen h' /\ Z.of_nat (length body) < 256 ^ h_llen h'.
Proof. exact indeterminate_reframed. Qed.
Print Assumptions C20_indeterminate_length_reframed.
(* the rule before the repair (stored width 0) wrote the header back without length field: the next packet was swallowed *)
Theorem C20_indeterminate_length_old_refuted :
  exists t body r bs h' rest,
    header_emit (indet_header_old t (Z.of_nat (length body))) = Some bs /\ length bs = 1%nat /\
    header_parse (bs ++ body ++ r) = Some (h', rest) /\ r <> [] /\ rest = body ++ r /\ h_len h' <> Z.of_nat (length body).
Proof. exact indeterminate_old_swallows. Qed.
Print Assumptions C20_indeterminate_length_old_refuted.
