(* Proof obligations tying Model/Armor.v to the definitions regenerated from /repo's source on every
   run (Gen/Gen_types.v: Armorable.crc24 with its init / poly constants, the 64 of the line wrap and
   the 3 of the CRC width in Armorable.__str__).  A source edit that changes one of them stops these
   from compiling. *)
From Coq Require Import ZArith List Bool.
Import ListNotations.
Require Import PV.Lib.Bytes PV.Model.Armor PV.Gen.Gen_types.
Open Scope Z_scope.

Lemma refine_crc_bit c : gen_crc_bit c = crc_bit c.
Proof. reflexivity. Qed.
Lemma refine_crc_octet c b : gen_crc_octet c b = crc_octet c b.
Proof. reflexivity. Qed.
Lemma refine_crc24 d : gen_crc24 d = crc24 d.
Proof. reflexivity. Qed.
Lemma refine_armor_wrap : gen_armor_wrap = armor_wrap.
Proof. reflexivity. Qed.
Lemma refine_armor_crc_octets : gen_armor_crc_octets = armor_crc_octets.
Proof. reflexivity. Qed.
