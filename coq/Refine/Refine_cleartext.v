(* Proof obligations tying Model/Cleartext.v (C11) to the constants of PGPMessage.dash_escape / dash_unescape / __str__ as
   regenerated from /repo's pgpy/pgp.py on every run (Gen/Gen_cleartext.v).
   The two dash functions are  re.subn(PATTERN, REPLACEMENT, text, flags=re.MULTILINE)[0]  with PATTERN = '^' followed by
   literal characters.  [subn_bol] below is the meaning of such a call (scan left to right; at the start of the text or
   just after "\n", if the literal follows, emit the replacement and continue BEHIND the literal -- which is not a line
   start, the literal holding no "\n" --, otherwise copy one character).  The lemmas say that, with the pattern and the
   replacement read from the source, this IS the model's dash_escape / dash_unescape for every text. *)
From Coq Require Import String ZArith List Bool Lia.
Import ListNotations.
Require Import PV.Lib.Bytes PV.Model.Armor PV.Model.Cleartext PV.Gen.Gen_cleartext.
Open Scope Z_scope.

Fixpoint prefix_of (p t : text) : bool :=
  match p, t with
  | [], _ => true
  | a :: p', b :: t' => (a =? b) && prefix_of p' t'
  | _ :: _, [] => false
  end.

(* skip = characters of a matched literal still to be dropped *)
Fixpoint subn_go (lit repl : text) (bol : bool) (skip : nat) (t : text) : text :=
  match t with
  | [] => []
  | c :: r =>
    match skip with
    | S k => subn_go lit repl false k r
    | O => if bol && prefix_of lit t then repl ++ subn_go lit repl false (length lit - 1) r
           else c :: subn_go lit repl (c =? 10) 0 r
    end
  end.
(* re.subn('^' + lit, repl, t, flags=re.MULTILINE)[0] for a non-empty literal without "\n" *)
Definition subn_bol (lit repl t : text) : text := subn_go lit repl true 0 t.

(* a pattern of the supported shape: '^' then literal characters, none of them special in a regular expression *)
Definition plain_char (c : Z) : bool :=
  negb (existsb (Z.eqb c) [10; 36; 40; 41; 42; 43; 46; 63; 91; 92; 93; 94; 123; 124; 125]).
Definition bol_literal (pat : text) : option text :=
  match pat with
  | 94 :: lit => if negb (length lit =? 0)%nat && forallb plain_char lit then Some lit else None
  | _ => None
  end.

Lemma esc_is_subn bol t : subn_go [45] [45; 32; 45] bol 0 t = esc bol t.
Proof.
  revert bol. induction t as [|c r IH]; intros bol; [reflexivity|].
  cbn [subn_go prefix_of esc length Nat.sub]. rewrite andb_true_r.
  replace (45 =? c) with (c =? 45) by apply Z.eqb_sym.
  destruct (bol && (c =? 45)) eqn:E.
  - apply andb_true_iff in E. destruct E as [_ E]. apply Z.eqb_eq in E. subst c.
    rewrite IH. reflexivity.
  - rewrite IH. reflexivity.
Qed.

Lemma unesc_is_subn_len n : forall t bol, (length t <= n)%nat -> subn_go [45; 32] [] bol 0 t = unesc bol t.
Proof.
  induction n as [|n IH]; intros t bol Hn.
  - destruct t; [reflexivity|cbn in Hn; lia].
  - destruct t as [|c r]; [reflexivity|]. destruct r as [|d r'].
    + cbn [subn_go prefix_of unesc]. rewrite !andb_false_r. reflexivity.
    + change (subn_go [45; 32] [] bol 0 (c :: d :: r')) with
        (if bol && prefix_of [45; 32] (c :: d :: r') then [] ++ subn_go [45; 32] [] false 1 (d :: r')
         else c :: subn_go [45; 32] [] (c =? 10) 0 (d :: r')).
      cbn [prefix_of]. rewrite andb_true_r.
      replace (45 =? c) with (c =? 45) by apply Z.eqb_sym. replace (32 =? d) with (d =? 32) by apply Z.eqb_sym.
      cbn [unesc]. rewrite andb_assoc.
      destruct (bol && (c =? 45) && (d =? 32)).
      * change (subn_go [45; 32] [] false 1 (d :: r')) with (subn_go [45; 32] [] false 0 r').
        cbn [app]. apply IH. cbn [length] in Hn. lia.
      * f_equal. apply IH. cbn [length] in Hn |- *. lia.
Qed.
Lemma unesc_is_subn bol t : subn_go [45; 32] [] bol 0 t = unesc bol t.
Proof. apply (unesc_is_subn_len (length t)). lia. Qed.

(* ---------- the obligations ---------- *)
Lemma refine_dash_escape_pattern : bol_literal gen_dash_escape_pattern = Some [45] /\ gen_dash_escape_multiline = true.
Proof. split; reflexivity. Qed.
Lemma refine_dash_unescape_pattern : bol_literal gen_dash_unescape_pattern = Some [45; 32] /\ gen_dash_unescape_multiline = true.
Proof. split; reflexivity. Qed.

Theorem refine_dash_escape t :
  match bol_literal gen_dash_escape_pattern with
  | Some lit => subn_bol lit gen_dash_escape_repl t = dash_escape t
  | None => False end.
Proof. cbn [bol_literal gen_dash_escape_pattern]. cbv beta iota. apply esc_is_subn. Qed.

Theorem refine_dash_unescape t :
  match bol_literal gen_dash_unescape_pattern with
  | Some lit => subn_bol lit gen_dash_unescape_repl t = dash_unescape t
  | None => False end.
Proof. cbn [bol_literal gen_dash_unescape_pattern]. cbv beta iota. apply unesc_is_subn. Qed.

(* the cleartext template of PGPMessage.__str__ and its Hash: line, against the constants render / hash_header are built from *)
Definition s2t := s2z.
Lemma refine_cleartext_template :
  gen_cleartext_template =
  signed_begin ++ [10] ++ s2t "{hhdr:s}"%string ++ [10] ++ s2t "{cleartext:s}"%string ++ [10] ++ s2t "{signature:s}"%string.
Proof. reflexivity. Qed.
Lemma refine_hash_header_format :
  gen_hash_header_format = hash_pfx ++ s2t "{hashes:s}"%string ++ [10] /\ gen_hash_header_join = [44] /\ gen_hash_header_empty = [].
Proof. repeat split; reflexivity. Qed.
