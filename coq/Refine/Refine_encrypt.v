(* Proof obligations tying Model/Encrypt.v (C03 / C04) to definitions regenerated from /repo's source on every run:
     pgpy/constants.py       enum member lists, SymmetricKeyAlgorithm.key_size / cipher(.block_size) tables   -> Gen/Gen_tables.v
     pgpy/packet/packets.py  PKESessionKeyV3.encrypt_sk (the value m), decrypt_sk (RSA left padding; everything after the
                             primitive call), IntegrityProtectedSKEDataV1.encrypt / decrypt (whole bodies)      -> Gen/Gen_packets.v
     pgpy/packet/fields.py   ECKDF.derive_key (the RFC 6637 parameter block)                                     -> Gen/Gen_fields.v
   A source edit that changes one of them stops these lemmas from compiling. *)
From Coq Require Import String ZArith List Bool Lia ZifyBool.
Import ListNotations.
Require Import PV.Lib.Bytes PV.Model.Wire PV.Model.Encrypt PV.Gen.Gen_base PV.Gen.Gen_tables PV.Gen.Gen_packets PV.Gen.Gen_fields
               PV.Proofs.PySlice_lemmas.
Open Scope Z_scope.

(* ---------- constants.py ---------- *)
Lemma refine_sym_valid a : sym_valid a = existsb (Z.eqb a) gen_members_SymmetricKeyAlgorithm.
Proof. reflexivity. Qed.
Lemma refine_pk_valid a : pk_valid a = existsb (Z.eqb a) gen_members_PubKeyAlgorithm.
Proof. reflexivity. Qed.
Lemma refine_s2ktype_valid a : s2ktype_valid a = existsb (Z.eqb a) gen_members_String2KeyType.
Proof. reflexivity. Qed.
Lemma refine_hash_valid a : hash_valid a = existsb (Z.eqb a) gen_members_HashAlgorithm.
Proof.
  unfold hash_valid, gen_members_HashAlgorithm. cbn [existsb].
  destruct (Z_lt_dec a 0); [lia|]. destruct (Z_lt_dec 11 a); [lia|].
  assert (H : a = 0 \/ a = 1 \/ a = 2 \/ a = 3 \/ a = 4 \/ a = 5 \/ a = 6 \/ a = 7 \/ a = 8 \/ a = 9 \/ a = 10 \/ a = 11) by lia.
  repeat (destruct H as [-> | H]; [reflexivity|]). subst; reflexivity.
Qed.

Ltac split_alg a :=
  repeat match goal with |- context [Z.eqb a ?k] => destruct (Z.eqb_spec a k) as [->|?]; [reflexivity|] end.

(* key_size: the translated property (dict literal + membership test + NotImplementedError) is the model's table *)
Lemma refine_key_bits a : gen_sym_key_size a = gres_of_opt "NotImplementedError" (key_bits a).
Proof. unfold gen_sym_key_size, zhas, gen_sym_key_size_table, key_bits. cbn [zassoc]. split_alg a. reflexivity. Qed.

(* block_size: cipher table composed with the library's block sizes *)
Lemma refine_block_bits a : gen_sym_block_size a = gres_of_opt "NotImplementedError" (block_bits a).
Proof.
  unfold gen_sym_block_size, zhas, gen_sym_block_size_table, block_bits. cbn [zassoc]. split_alg a.
  replace ((1 <=? a) && (a <=? 4)) with false by lia. replace ((7 <=? a) && (a <=? 13)) with false by lia. reflexivity.
Qed.

Lemma key_bits_cases a b : key_bits a = Some b -> b = 128 \/ b = 192 \/ b = 256.
Proof.
  unfold key_bits.
  repeat match goal with |- context [Z.eqb a ?k] => destruct (Z.eqb a k); [intros [= <-]; lia|] end. discriminate.
Qed.
Lemma block_bits_cases a b : block_bits a = Some b -> b = 64 \/ b = 128.
Proof.
  unfold block_bits.
  repeat match goal with |- context [if ?c then _ else _] => destruct c; [intros [= <-]; lia|] end. discriminate.
Qed.

(* ---------- exceptions: the class names the code raises for the model's constructors ---------- *)
Definition exc_name (e : exc) : string :=
  match e with
  | EDecrypt => "PGPDecryptionError" | EValue => "ValueError" | ENotImpl => "NotImplementedError" | EIndex => "IndexError"
  | EEncrypt => "PGPEncryptionError" | _ => "" end.
Definition gres_of_res {A} (r : res A) : gres A := match r with Ok x => GOk x | Raise e => GRaise (exc_name e) end.

(* ---------- PKESessionKeyV3.encrypt_sk: m ---------- *)
(* the guard and the value m are those of pkesk_encrypt / pkesk_m *)
Lemma refine_pkesk_m alg key :
  gen_pkesk_m alg key =
  match key_octets alg with
  | None => GRaise "NotImplementedError"
  | Some n => if negb (length key =? n)%nat then GRaise "PGPEncryptionError" else GOk (pkesk_m alg key)
  end.
Proof.
  unfold gen_pkesk_m, key_octets. rewrite refine_key_bits. destruct (key_bits alg) as [b|] eqn:E; cbn [gres_of_opt]; [|reflexivity].
  pose proof (key_bits_cases _ _ E) as Hb.
  assert (Hq : 0 <= b / 8) by (apply Z.div_pos; lia).
  replace (Z.of_nat (length key) =? b / 8) with (length key =? Z.to_nat (b / 8))%nat by lia.
  destruct (length key =? Z.to_nat (b / 8))%nat; cbn [negb]; [|reflexivity].
  unfold pkesk_m. rewrite <- app_assoc. reflexivity.
Qed.

(* ---------- PKESessionKeyV3.decrypt_sk ---------- *)
Lemma refine_rsa_ct_padded v bits :
  gen_rsa_ct_padded (to_mpibytes v) bits = rsa_ct_padded ((bits + 7) / 8) v.
Proof. reflexivity. Qed.
(* ... which is what the model's decrypt_sk hands to the primitive *)
Lemma refine_rsa_decrypt_m rsa_bits rsa_dec h v :
  rsa_decrypt_m rsa_bits rsa_dec h v = of_opt EPrim (rsa_dec h (gen_rsa_ct_padded (to_mpibytes v) (rsa_bits h))).
Proof. reflexivity. Qed.

(* everything after the primitive call: same value, same exception class, for every octet string m.  The generated text
   carries the two-step shape of the source (try: cipher id and key length, except IndexError / ValueError /
   NotImplementedError -> PGPDecryptionError; then key, checksum, length-and-checksum test); pkesk_open_spec is its closed
   form, which is the model's pkesk_open read through exc_name *)
Definition pkesk_open_spec (m : bytes) : gres (Z * bytes) :=
  match m with
  | [] => GRaise "PGPDecryptionError"
  | a :: r =>
    if negb (sym_valid a) then GRaise "PGPDecryptionError" else
    match key_octets a with
    | None => GRaise "PGPDecryptionError"
    | Some n =>
      let symkey := firstn n r in
      let checksum := bytes_to_int (firstn 2 (skipn n r)) in
      if negb (length symkey =? n)%nat || negb (sumz symkey mod 65536 =? checksum)
      then GRaise "PGPDecryptionError" else GOk (a, symkey)
    end
  end.
Lemma gen_pkesk_open_spec m : gen_pkesk_open m = pkesk_open_spec m.
Proof.
  unfold gen_pkesk_open, pkesk_open_spec. destruct m as [|a r]; [reflexivity|]. cbn [nth_error].
  change (existsb (Z.eqb a) gen_members_SymmetricKeyAlgorithm) with (sym_valid a).
  destruct (sym_valid a); cbn [negb]; [|reflexivity].
  unfold key_octets. rewrite refine_key_bits. destruct (key_bits a) as [b|] eqn:E; cbn [gres_of_opt]; [|reflexivity].
  pose proof (key_bits_cases _ _ E) as Hb.
  assert (Hq : 0 <= b / 8) by (apply Z.div_pos; lia).
  cbv zeta. cbn [skipn]. rewrite py_upto_nonneg, py_from_nonneg by exact Hq. unfold bytes_to_int.
  replace (Z.of_nat (length (firstn (Z.to_nat (b / 8)) r)) =? b / 8)
    with (length (firstn (Z.to_nat (b / 8)) r) =? Z.to_nat (b / 8))%nat by lia.
  destruct (negb (length (firstn (Z.to_nat (b / 8)) r) =? Z.to_nat (b / 8))%nat
            || negb (sumz (firstn (Z.to_nat (b / 8)) r) mod 65536 =? unbe (firstn 2 (skipn (Z.to_nat (b / 8)) r)))); reflexivity.
Qed.
Lemma refine_pkesk_open m : gen_pkesk_open m = gres_of_res (pkesk_open m).
Proof.
  rewrite gen_pkesk_open_spec. unfold pkesk_open_spec, pkesk_open. destruct m as [|a r]; [reflexivity|].
  destruct (negb (sym_valid a)); [reflexivity|]. destruct (key_octets a) as [n|]; [|reflexivity].
  cbv zeta. destruct (_ || _); reflexivity.
Qed.

(* ---------- IntegrityProtectedSKEDataV1 ---------- *)
Section Seipd.
  Variable sha1 : bytes -> bytes.
  Variable cfb_enc cfb_dec : Z -> bytes -> bytes -> option bytes.

  (* encrypt: prefix, repeated octets, data, MDC packet over (all of it ++ d3 14), one CFB call -- the model's seipd_plain.
     hexlify / the MDC emitter are instantiated with "store the digest" / the model's MDC packet *)
  Lemma refine_seipd_encrypt key alg data iv :
    gen_seipd_encrypt sha1 cfb_enc (fun d => d) mdc_bytes key alg data iv =
    gres_of_opt "_encrypt" (cfb_enc alg key (seipd_plain sha1 iv data)).
  Proof.
    unfold gen_seipd_encrypt, seipd_plain. cbv zeta. rewrite <- !app_assoc. reflexivity.
  Qed.
  Lemma refine_seipd_encrypt_model key alg data iv :
    gen_seipd_encrypt sha1 cfb_enc (fun d => d) mdc_bytes key alg data iv =
    match seipd_encrypt sha1 cfb_enc alg key iv data with Ok c => GOk c | Raise _ => GRaise "_encrypt" end.
  Proof. rewrite refine_seipd_encrypt. unfold seipd_encrypt, of_opt, gres_of_opt. destruct (cfb_enc _ _ _); reflexivity. Qed.

  (* decrypt: the gate (MDC over pt[:-20] compared with pt[-22:], then the repeated octets of the prefix) and the value
     returned, for every cipher PGPy knows a block size for (the code reads alg.block_size AFTER _decrypt used it) *)
  Lemma refine_seipd_decrypt key alg ct :
    block_bits alg <> None ->
    gen_seipd_decrypt sha1 cfb_dec key alg ct =
    match seipd_decrypt sha1 cfb_dec alg key ct with
    | Ok p => GOk p | Raise EPrim => GRaise "_decrypt" | Raise e => GRaise (exc_name e) end.
  Proof.
    intros Hb. unfold gen_seipd_decrypt, seipd_decrypt. destruct (cfb_dec alg key ct) as [pt|]; [|reflexivity].
    cbv zeta. unfold beqb.
    destruct (negb (eqb_bytes (lastn 22 pt) ([211; 20] ++ sha1 (firstn (length pt - 20) pt)))); [reflexivity|].
    rewrite refine_block_bits. unfold block_octets. destruct (block_bits alg) as [b|] eqn:E; [|congruence]. cbn [gres_of_opt].
    pose proof (block_bits_cases _ _ E) as Hc.
    assert (Hq : 0 <= b / 8) by (apply Z.div_pos; lia).
    rewrite py_upto_nonneg, py_from_nonneg by exact Hq.
    match goal with |- context [if ?c then _ else _] => destruct c end; reflexivity.
  Qed.
End Seipd.

(* ---------- ECKDF.derive_key: RFC 6637 parameter block ---------- *)
(* encoder.encode(OID) = 06 len oid (short-form length); public-key algorithm 18 = ECDH *)
Lemma refine_ecdh_param oid halg kek fp :
  gen_ecdh_param ([6; Z.of_nat (length oid)] ++ oid) 18 halg kek fp = ecdh_param oid halg kek fp.
Proof.
  unfold gen_ecdh_param, ecdh_param, anon_sender. cbv zeta. cbn [app skipn].
  repeat (rewrite <- app_assoc; cbn [app]). reflexivity.
Qed.
