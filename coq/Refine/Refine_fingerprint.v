(* Proof obligation tying Model/Fingerprint.v (C18) to PubKeyV4.fingerprint as regenerated from /repo's
   pgpy/packet/packets.py on every run (Gen/Gen_packets.v gen_fingerprint: the whole property body, the hashlib object
   read as the concatenation of the octets fed to it). *)
From Coq Require Import ZArith List Bool Lia ZifyBool.
Import ListNotations.
Require Import PV.Lib.Bytes PV.Model.Wire PV.Model.KeyPackets PV.Model.Fingerprint PV.Proofs.KeyPackets_lemmas
               PV.Gen.Gen_base PV.Gen.Gen_packets PV.Proofs.PySlice_lemmas.
Open Scope Z_scope.

Section Fpr.
Variable sha1 : bytes -> bytes.

(* the octets hashed are the model's fp_input: 0x99, FIRST and LAST octet of int_to_bytes(6 + publen, 2), version 4,
   four-octet creation time, algorithm octet, the first publen octets of the key material *)
Lemma refine_fingerprint k : 0 <= publen k ->
  gen_fingerprint sha1 (publen k) (k_created k) (k_alg k) (keymaterial_bytes k) = fingerprint sha1 k.
Proof.
  intros H. unfold gen_fingerprint, fingerprint, fp_input. cbv zeta. rewrite py_upto_nonneg by exact H.
  f_equal. cbn [app]. repeat (rewrite <- app_assoc; cbn [app]). reflexivity.
Qed.

Lemma refine_fingerprint_wf k : wf_pubmat (k_mat k) ->
  gen_fingerprint sha1 (publen k) (k_created k) (k_alg k) (keymaterial_bytes k) = fingerprint sha1 k.
Proof. intros H. apply refine_fingerprint. apply pubmat_len_nonneg. exact H. Qed.

(* key id / short id are read off the translated fingerprint *)
Lemma refine_keyid k : 0 <= publen k ->
  lastn 8 (gen_fingerprint sha1 (publen k) (k_created k) (k_alg k) (keymaterial_bytes k)) = keyid sha1 k.
Proof. intros H. rewrite refine_fingerprint by exact H. reflexivity. Qed.
End Fpr.
