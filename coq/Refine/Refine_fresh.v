(* Proof obligations tying the size tables of Model/Fresh.v (C13: how many octets gen_key / gen_iv draw) to
   SymmetricKeyAlgorithm.gen_key / gen_iv (the argument of os.urandom) over key_size / cipher(.block_size) as regenerated
   from /repo's pgpy/constants.py on every run (Gen/Gen_tables.v). *)
From Coq Require Import String ZArith List Bool Lia ZifyBool.
Import ListNotations.
Require Import PV.Lib.Bytes PV.Model.Fresh PV.Gen.Gen_base PV.Gen.Gen_tables.
Open Scope Z_scope.

Ltac split_alg a :=
  repeat match goal with |- context [Z.eqb a ?k] => destruct (Z.eqb_spec a k) as [->|?]; [reflexivity|] end.

(* gen_key draws key_size // 8 octets; 0 in the model = the property raises NotImplementedError *)
Lemma refine_key_octets c :
  key_octets c = match gen_sym_gen_key_octets c with GOk n => n | GRaise _ => 0 end.
Proof.
  unfold gen_sym_gen_key_octets, gen_sym_key_size, zhas, gen_sym_key_size_table, key_octets. cbn [zassoc].
  split_alg c. reflexivity.
Qed.

(* gen_iv draws block_size // 8 octets *)
Lemma refine_blk_octets c :
  blk_octets c = match gen_sym_gen_iv_octets c with GOk n => n | GRaise _ => 0 end.
Proof.
  unfold gen_sym_gen_iv_octets, gen_sym_block_size, zhas, gen_sym_block_size_table, blk_octets. cbn [zassoc].
  split_alg c.
  replace ((1 <=? c) && (c <=? 4)) with false by lia. replace ((7 <=? c) && (c <=? 13)) with false by lia. reflexivity.
Qed.

(* every cipher with a key size draws a positive number of octets *)
Lemma refine_key_octets_positive c b : gen_sym_key_size c = GOk b -> 0 < key_octets c.
Proof.
  rewrite refine_key_octets. unfold gen_sym_gen_key_octets, gen_sym_key_size, zhas, gen_sym_key_size_table. cbn [zassoc].
  repeat match goal with |- context [Z.eqb c ?k] => destruct (Z.eqb c k); [intros [= <-]; reflexivity|] end.
  discriminate.
Qed.
