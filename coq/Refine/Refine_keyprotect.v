(* Proof obligations tying Model/KeyProtect.v (C06) to definitions regenerated from /repo's source on every run:
     pgpy/packet/fields.py  PrivKey.decrypt_keyblob (whole body: session key, CFB call, the usage-254 SHA-1 gate and the
                            usage-255 16-bit-sum gate, the value returned), PrivKey.encrypt_keyblob (whole body: the S2K
                            fields written, the loop over __privfields__, the SHA-1 trailer, the CFB call)      -> Gen/Gen_fields.v
                            (since repair a3ce830 the S2K fields are those of a local String2Key object; the statements
                            `s2k = String2Key()` and `self.s2k = s2k` -- built on the side, installed after _encrypt together
                            with self.encbytes -- are pinned text of the translator; that nothing is installed when _encrypt
                            refuses is the [can_encrypt] branch of Model/KeyProtect.v step, tied by the harness histories)
     pgpy/constants.py      enum member lists, SymmetricKeyAlgorithm.cipher(.block_size) table                   -> Gen/Gen_tables.v *)
From Coq Require Import String ZArith List Bool Lia ZifyBool.
Import ListNotations.
Require Import PV.Lib.Bytes PV.Model.Wire PV.Model.KeyProtect PV.Gen.Gen_base PV.Gen.Gen_ptypes PV.Gen.Gen_tables PV.Gen.Gen_fields.
Open Scope Z_scope.

Section KeyBlob.
Variable cfb_enc cfb_dec : Z -> bytes -> bytes -> bytes -> bytes.
Variable sha1 : bytes -> bytes.
Variable s2k : Z -> Z -> Z -> bytes -> Z -> bytes -> bytes.

(* decrypt_keyblob: the plaintext is the model's decrypt_std, it is returned exactly when the model's gate passes,
   and PGPDecryptionError is raised otherwise -- for every usage octet (since repair 8563c06: SHA-1 for 254, the 16-bit sum
   for anything else, 255 or a legacy cipher id) *)
Lemma refine_decrypt_keyblob b pass :
  gen_decrypt_keyblob sha1 cfb_dec s2k (b_usage b) (b_alg b) (b_spec b) (b_halg b) (b_salt b) (b_count b) (b_iv b) (b_enc b) pass =
  let pt := decrypt_std cfb_dec s2k b pass in
  if gate sha1 (b_usage b) pt then GOk pt else GRaise "PGPDecryptionError".
Proof.
  unfold gen_decrypt_keyblob, decrypt_std, gate. cbv zeta. unfold bytes_to_int.
  set (pt := cfb_dec _ _ _ _).
  destruct (b_usage b =? 254); cbn [andb negb].
  - destruct (eqb_bytes _ _); reflexivity.
  - destruct (unbe (lastn 2 pt) =? sumz (firstn (length pt - 2) pt) mod 65536); reflexivity.
Qed.

(* in the vocabulary of unprotect_std: accepted = the MPIs are read from the translated function's result *)
Lemma refine_unprotect_std n b pass :
  unprotect_std cfb_dec sha1 s2k n b pass =
  match gen_decrypt_keyblob sha1 cfb_dec s2k (b_usage b) (b_alg b) (b_spec b) (b_halg b) (b_salt b) (b_count b) (b_iv b) (b_enc b) pass with
  | GOk pt => let '(ms, r) := parse_mpis n pt in UOk ms r
  | GRaise _ => UBadPass
  end.
Proof. rewrite refine_decrypt_keyblob. unfold unprotect_std. cbv zeta. destruct (gate _ _ _); reflexivity. Qed.

(* the loop over __privfields__ *)
Lemma fold_mpibytes l : forall acc,
  fold_left (fun st pf => st ++ gen_to_mpibytes pf) l acc = acc ++ secret_plain l.
Proof.
  induction l as [|x l IH]; intros acc; cbn [fold_left].
  - unfold secret_plain. cbn. rewrite app_nil_r. reflexivity.
  - rewrite IH. unfold secret_plain. cbn [map concat]. rewrite <- app_assoc. reflexivity.
Qed.

(* encrypt_keyblob: usage 254, iterated+salted, the caller's cipher / hash, the draws as IV and salt, the tuned count,
   and as ciphertext the model's protect_enc of (MPIs ++ SHA-1 of the MPIs) *)
Lemma refine_encrypt_keyblob pass alg halg mpis iv salt count :
  gen_encrypt_keyblob sha1 cfb_enc s2k pass alg halg mpis iv salt count =
  (254, alg, 3, halg, salt, count, iv, protect_enc cfb_enc sha1 s2k 254 alg 3 halg salt count iv pass mpis).
Proof.
  unfold gen_encrypt_keyblob, protect_enc. cbv zeta. rewrite fold_mpibytes. cbn [app Z.eqb Pos.eqb]. reflexivity.
Qed.

(* ... which is the at-rest record of protect_pkt and, emitted, the octets of `protect` *)
Lemma refine_encrypt_keyblob_blob pass alg halg mpis iv salt count :
  let '(u, a, sp, h, sl, c, i, e) := gen_encrypt_keyblob sha1 cfb_enc s2k pass alg halg mpis iv salt count in
  {| b_usage := u; b_alg := a; b_spec := sp; b_halg := h; b_salt := sl; b_count := c; b_iv := i; b_enc := e |}
  = mk_sblob cfb_enc sha1 s2k 254 alg 3 halg salt count iv pass mpis.
Proof. rewrite refine_encrypt_keyblob. reflexivity. Qed.

Lemma refine_encrypt_keyblob_emit pass alg halg mpis iv salt count :
  let '(u, a, sp, h, sl, c, i, e) := gen_encrypt_keyblob sha1 cfb_enc s2k pass alg halg mpis iv salt count in
  blob_emit (BStd {| b_usage := u; b_alg := a; b_spec := sp; b_halg := h; b_salt := sl; b_count := c; b_iv := i; b_enc := e |})
  = protect cfb_enc sha1 s2k mpis pass iv salt count alg halg.
Proof.
  rewrite refine_encrypt_keyblob. unfold blob_emit, s2k_emit_std, protect, protect_enc.
  cbn [b_usage]. change (legacy 254) with false. cbv iota.
  cbn [b_usage b_alg b_spec b_halg b_salt b_count b_iv b_enc Z.eqb Pos.eqb Z.leb Z.compare Pos.compare Pos.compare_cont].
  repeat (rewrite <- app_assoc; cbn [app]). reflexivity.
Qed.
End KeyBlob.

(* ---------- constants.py ---------- *)
Lemma refine_block_octets a :
  block_octets a = match gen_sym_block_size a with GOk b => Some (b / 8) | GRaise _ => None end.
Proof.
  unfold gen_sym_block_size, zhas, gen_sym_block_size_table, block_octets. cbn [zassoc].
  repeat match goal with |- context [Z.eqb a ?k] => destruct (Z.eqb_spec a k) as [->|?]; [reflexivity|] end.
  replace ((1 <=? a) && (a <=? 4)) with false by lia. replace ((7 <=? a) && (a <=? 13)) with false by lia. reflexivity.
Qed.

Ltac by_cases a lo hi :=
  destruct (Z_lt_dec a lo); [lia|]; destruct (Z_lt_dec hi a); [lia|].

Lemma refine_valid_symalg a : valid_symalg a = existsb (Z.eqb a) gen_members_SymmetricKeyAlgorithm.
Proof.
  unfold valid_symalg, gen_members_SymmetricKeyAlgorithm. cbn [existsb].
  destruct (Z_lt_dec a 0); [lia|]. destruct (Z_lt_dec 13 a); [lia|].
  assert (H : a = 0 \/ a = 1 \/ a = 2 \/ a = 3 \/ a = 4 \/ a = 5 \/ a = 6 \/ a = 7 \/ a = 8 \/ a = 9 \/ a = 10 \/ a = 11 \/ a = 12 \/ a = 13) by lia.
  repeat (destruct H as [-> | H]; [reflexivity|]). subst; reflexivity.
Qed.
Lemma refine_valid_halg a : valid_halg a = existsb (Z.eqb a) gen_members_HashAlgorithm.
Proof.
  unfold valid_halg, gen_members_HashAlgorithm. cbn [existsb].
  destruct (Z_lt_dec a 0); [lia|]. destruct (Z_lt_dec 11 a); [lia|].
  assert (H : a = 0 \/ a = 1 \/ a = 2 \/ a = 3 \/ a = 4 \/ a = 5 \/ a = 6 \/ a = 7 \/ a = 8 \/ a = 9 \/ a = 10 \/ a = 11) by lia.
  repeat (destruct H as [-> | H]; [reflexivity|]). subst; reflexivity.
Qed.
Lemma refine_valid_spec a : valid_spec a = existsb (Z.eqb a) gen_members_String2KeyType.
Proof.
  unfold valid_spec, gen_members_String2KeyType. cbn [existsb].
  destruct (Z.eqb_spec a 101) as [->|?]; [reflexivity|].
  destruct (Z_lt_dec a 0); [lia|]. destruct (Z_lt_dec 3 a); [lia|].
  assert (H : a = 0 \/ a = 1 \/ a = 2 \/ a = 3) by lia.
  repeat (destruct H as [-> | H]; [reflexivity|]). subst; reflexivity.
Qed.
(* GNU extension numbers of s2k_parse: 1 (no secret) and 2 (smartcard) *)
Lemma refine_gnu_ext : gen_members_S2KGNUExtension = [1; 2].
Proof. reflexivity. Qed.
