(* Proof obligation tying Model/Keyring.v (C19) to PGPKeyring._add_alias as regenerated from /repo's pgpy/pgp.py on every
   run (Gen/Gen_keyring.v gen_add_alias): the if / elif / else of the method is translated; the statements that work on the
   deque of dicts are pinned by their exact text (a change of any of them stops the translation) and stand for the model
   operations named below. *)
From Coq Require Import ZArith List Bool.
Import ListNotations.
Require Import PV.Lib.Bytes PV.Model.Keyring PV.Gen.Gen_base PV.Gen.Gen_keyring.
Open Scope Z_scope.

Section K.
Variable sort : list pkid -> list pkid.

(*   `alias in self`                                             containsS
     `pkid in set(m[alias] for m in self._aliases if alias in m)` existsb (Z.eqb pkid) (pids alias ls)
     `self._aliases[-1][alias] = pkid`                            set_last
     for m in self._aliases: if alias not in m: m[alias] = pkid; break  else: self._aliases.appendleft({alias: pkid})
                                                                  insert_free  (= ins, else push in front)
     `self._sort_alias(alias)`                                    sort_alias *)
Definition gen_add_alias_model : layers -> alias -> pkid -> layers :=
  gen_add_alias alias layers
    (fun ls a => containsS a ls)
    (fun ls a k => existsb (Z.eqb k) (pids a ls))
    (fun ls a k => set_last a k ls)
    (fun ls a k => insert_free a k ls)
    (fun ls a => sort_alias sort a ls).

(* the three-way decision and the order insert-then-sort of the method are those of the model's add_alias *)
Theorem refine_add_alias ls a k : gen_add_alias_model ls a k = add_alias sort a k ls.
Proof.
  unfold gen_add_alias_model, gen_add_alias, add_alias, add_alias_with.
  destruct (containsS a ls); cbn [negb andb]; [|reflexivity].
  destruct (existsb (Z.eqb k) (pids a ls)); reflexivity.
Qed.

(* folded over the aliases of a key it is the `lays` component of add_one *)
Corollary refine_add_aliases i ls :
  fold_left (fun l a => gen_add_alias_model l a (kid i)) (aliases_of i) ls
  = fold_left (fun l a => add_alias sort a (kid i) l) (aliases_of i) ls.
Proof.
  generalize (aliases_of i) as al. intros al. revert ls.
  induction al as [|a al IH]; intros ls; [reflexivity|]. cbn [fold_left]. rewrite refine_add_alias. apply IH.
Qed.
End K.
