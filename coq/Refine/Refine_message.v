(* Proof obligations tying the packet codecs of Model/Message.v (C20) to definitions regenerated from /repo's source on
   every run:
     pgpy/packet/packets.py  OnePassSignatureV3.__bytearray__ / parse, LiteralData.__bytearray__ / parse (whole bodies,
                             with the enum-constructing setters of sigtype / pubalg pinned)                  -> Gen/Gen_packets.v
     pgpy/constants.py       SignatureType / PubKeyAlgorithm / CompressionAlgorithm member lists               -> Gen/Gen_tables.v *)
From Coq Require Import String ZArith List Bool Lia ZifyBool.
Import ListNotations.
Require Import PV.Lib.Bytes PV.Model.Message PV.Gen.Gen_base PV.Gen.Gen_tables PV.Gen.Gen_packets PV.Proofs.PySlice_lemmas.
Open Scope Z_scope.

(* ---------- enum members ---------- *)
Lemma refine_sigtypes : sigtypes = gen_members_SignatureType.
Proof. reflexivity. Qed.
Lemma refine_pkalgs : pkalgs = gen_members_PubKeyAlgorithm.
Proof. reflexivity. Qed.
Lemma refine_valid_calg a : valid_calg a = existsb (Z.eqb a) gen_members_CompressionAlgorithm.
Proof.
  unfold valid_calg, gen_members_CompressionAlgorithm. cbn [existsb].
  destruct (Z_lt_dec a 0); [lia|]. destruct (Z_lt_dec 3 a); [lia|].
  assert (H : a = 0 \/ a = 1 \/ a = 2 \/ a = 3) by lia.
  repeat (destruct H as [-> | H]; [reflexivity|]). subst; reflexivity.
Qed.

(* ---------- one-pass signature ---------- *)
(* the versioned header ends with the version octet 3 *)
Lemma refine_ops_emit h o :
  gen_ops_emit (h ++ [3]) (o_type o) (o_halg o) (o_pkalg o) (o_keyid o) (o_flag o) = h ++ ops_body o.
Proof.
  unfold gen_ops_emit, ops_body. cbv zeta. cbn [app]. repeat (rewrite <- app_assoc; cbn [app]). reflexivity.
Qed.

Lemma skip1 {A} (x : A) l : skipn 1 (x :: l) = l.
Proof. reflexivity. Qed.

(* parse: same record, same rest; every exception of the code (IndexError on a short body, ValueError of the two enum
   constructors) is the model's None *)
Lemma refine_ops_parse p :
  ops_parse p = match gen_ops_parse p with
                | GOk (t, h, a, k, f, r) => Some ({| o_type := t; o_halg := h; o_pkalg := a; o_keyid := k; o_flag := f |}, r)
                | GRaise _ => None end.
Proof.
  unfold ops_parse, gen_ops_parse, memz. rewrite refine_sigtypes, refine_pkalgs.
  destruct p as [|t [|h [|a r]]]; cbv zeta; cbn [nth_error]; rewrite ?skip1; cbn [nth_error]; try reflexivity;
    destruct (existsb (Z.eqb t) gen_members_SignatureType); cbn [andb]; try reflexivity.
  rewrite ?skip1. cbn [nth_error].
  destruct (existsb (Z.eqb a) gen_members_PubKeyAlgorithm); [|reflexivity].
  rewrite ?skip1. destruct (skipn 8 r) as [|f r'] eqn:E; reflexivity.
Qed.

(* ---------- literal data ---------- *)
Lemma refine_lit_emit l : 0 <= l_mtime l ->
  lit_body l = match gen_lit_emit [] [l_format l] (l_name l) (l_mtime l) (l_data l) with GOk b => Some b | GRaise _ => None end.
Proof.
  intros Hm. unfold lit_body, gen_lit_emit, latin1_ok. cbv zeta. cbn [forallb app]. unfold byteb at 1. rewrite andb_true_r.
  change (forallb (fun c : Z => (0 <=? c) && (c <? 256)) (l_name l)) with (forallb byteb (l_name l)).
  destruct ((0 <=? l_format l) && (l_format l <? 256)); cbn [andb]; [|reflexivity].
  replace (0 <=? Z.of_nat (length (l_name l))) with true by lia. cbn [andb].
  replace (Z.of_nat (length (l_name l)) <? 256) with (Z.of_nat (length (l_name l)) <=? 255) by lia.
  destruct (Z.of_nat (length (l_name l)) <=? 255); cbn [andb]; [|reflexivity].
  destruct (forallb byteb (l_name l)); cbn [andb]; [|reflexivity].
  replace (0 <=? l_mtime l) with true by lia. cbn [andb].
  change (Z.shiftl 1 32) with 4294967296.
  replace (l_mtime l >=? 4294967296) with (negb (l_mtime l <? 4294967296)) by lia.
  destruct (l_mtime l <? 4294967296); cbn [negb]; [|reflexivity].
  repeat (rewrite <- app_assoc; cbn [app]). reflexivity.
Qed.

Lemma py_take_upto k l : py_take k l = py_upto k l.
Proof.
  unfold py_take, py_upto, py_index, clamp. destruct (k <? 0) eqn:E; [reflexivity|].
  f_equal. lia.
Qed.
Lemma py_drop_from k l : py_drop k l = py_from k l.
Proof.
  unfold py_drop, py_from, py_index, clamp. destruct (k <? 0) eqn:E; [reflexivity|].
  f_equal. lia.
Qed.

(* parse, for a buffer of octets (the name length is then non-negative): same fields, same rest; the mtime setter
   receives the four octets whose big-endian value the model stores *)
Lemma refine_lit_parse len p : wf_bytes p ->
  lit_parse len p = match gen_lit_parse len p with
                    | GOk ([f], n, mt, c, r) => Some ({| l_format := f; l_name := n; l_mtime := unbe mt; l_data := c |}, r)
                    | _ => None end.
Proof.
  intros Hwf. unfold lit_parse, gen_lit_parse.
  destruct p as [|f [|fnl r]]; cbv zeta; cbn [nth_error]; rewrite ?skip1; cbn [nth_error]; try reflexivity.
  assert (Hf : 0 <= fnl) by (inversion Hwf as [|? ? _ H2]; inversion H2; lia).
  rewrite ?skip1. destruct (len <? 6 + fnl); [reflexivity|].
  rewrite py_upto_nonneg, py_from_nonneg by exact Hf.
  rewrite py_take_upto, py_drop_from. reflexivity.
Qed.
