(* Proof obligations tying Model/Policy.v (C16) to definitions regenerated from /repo's source on every run (Gen/Gen_policy.v):
     pgpy/pgp.py         the @KeyAction(...) line above each of PGPKey.sign / certify / revoke / revoker / bind / encrypt / decrypt
     pgpy/decorators.py  KeyAction.check_attributes, KeyAction.usage (the for / break / else scan over the key and its subkeys),
                         the wrapper installed by KeyAction.__call__ (the two guards, the unknown-user refusal, usage,
                         check_attributes ON THE COMPONENT usage() YIELDS, the call)
   Key objects are numbered as the model numbers components: 0 = the receiver, i = its i-th subkey. *)
From Coq Require Import String ZArith List Bool Lia ZifyBool.
Import ListNotations.
Require Import PV.Model.Policy PV.Proofs.Policy_lemmas PV.Gen.Gen_base PV.Gen.Gen_policy.
Open Scope Z_scope.

Definition opers : list oper := [OSign; OCertify; ORevoke; ORevoker; OBind; OEncrypt; ODecrypt].
Definition attr_code (a : attr) : Z := match a with IsUnlocked => 0 | IsPublic => 1 end.
Definition attr_of_code (c : Z) : attr := if c =? 0 then IsUnlocked else IsPublic.
Definition cond_code (c : attr * bool) : Z * bool := (attr_code (fst c), snd c).

(* the decorator arguments in the source are the model's op_flags / op_conds, method by method *)
Lemma refine_key_actions : gen_key_actions = map (fun o => (op_flags o, map cond_code (op_conds o))) opers.
Proof. reflexivity. Qed.

Definition action_row (o : oper) : Z * list (Z * bool) :=
  nth (match o with OSign => 0 | OCertify => 1 | ORevoke => 2 | ORevoker => 3 | OBind => 4 | OEncrypt => 5 | ODecrypt => 6 end)%nat
      gen_key_actions (0, []).
Lemma refine_action_row o : action_row o = (op_flags o, map cond_code (op_conds o)).
Proof. destruct o; reflexivity. Qed.

(* check_attributes on one key object (lock state c): raises PGPError exactly when the model reports a violated condition *)
Lemma refine_check_attributes c o :
  gen_check_attributes (fun a => attr_val c (attr_of_code a)) (snd (action_row o)) =
  match check_attributes c o with None => GOk tt | Some _ => GRaise "PGPError" end.
Proof.
  rewrite refine_action_row. unfold gen_check_attributes, check_attributes. cbn [snd].
  destruct o; cbn [op_conds map cond_code attr_code fst snd existsb find attr_of_code Z.eqb option_map attr_val];
    destruct (is_unlocked c), (is_public c); reflexivity.
Qed.

(* ---------- usage: the scan ---------- *)
Section Scan.
  Variable req : Z.
  Variable g : Z -> Z.      (* flags of component i *)
  Let hit (i : Z) : bool := negb (Z.land req (g i) =? 0).

  Lemma scan_find n : forall idx last,
    scan req (map (fun i => FOk (g (Z.of_nat i))) (seq idx n)) idx last =
    match find hit (map Z.of_nat (seq idx n)) with
    | Some i => Found (Z.to_nat i)
    | None => Exhausted (match n with O => last | S m => idx + m end)
    end.
  Proof.
    induction n as [|n IH]; intros idx last; [reflexivity|].
    cbn [seq map scan find]. unfold hit at 1.
    destruct (Z.land req (g (Z.of_nat idx)) =? 0); cbn [negb].
    - rewrite IH. destruct (find hit (map Z.of_nat (seq (S idx) n))); [reflexivity|].
      destruct n; f_equal; lia.
    - f_equal. lia.
  Qed.

End Scan.

Lemma last_ids m : forall s d, List.last (map Z.of_nat (seq s (S m))) d = Z.of_nat (s + m).
Proof.
  induction m as [|m IH]; intros s d.
  - cbn. f_equal. lia.
  - change (seq s (S (S m))) with (s :: seq (S s) (S m)). cbn [map].
    change (seq (S s) (S m)) with (S s :: seq (S (S s)) m). cbn [map].
    change (List.last (Z.of_nat s :: Z.of_nat (S s) :: map Z.of_nat (seq (S (S s)) m)) d)
      with (List.last (Z.of_nat (S s) :: map Z.of_nat (seq (S (S s)) m)) d).
    change (Z.of_nat (S s) :: map Z.of_nat (seq (S (S s)) m)) with (map Z.of_nat (seq (S s) (S m))).
    rewrite IH. f_equal. lia.
Qed.

Lemma find_ids_nonneg (h : Z -> bool) l i : find h (map Z.of_nat l) = Some i -> Z.of_nat (Z.to_nat i) = i.
Proof.
  intros H. apply find_some in H. destruct H as [H _]. apply in_map_iff in H. destruct H as [n [<- _]]. lia.
Qed.

(* the key usage() yields, for any rules r of the model.  Premise: component i of the receiver (0 = itself, i = its i-th subkey)
   reports the flag set g i, i.e. no _get_key_flags call raises (under rules_now none does: Props/C16.v C16_no_crash) *)
Theorem refine_usage r k o user g m :
  comp_flags_with r k user = map (fun i => FOk (g (Z.of_nat i))) (seq 0 (S m)) ->
  gen_usage (op_flags o) g (k_enforce k) 0 (map Z.of_nat (seq 1 m)) =
  match usage_with r k o user with
  | Chosen i _ => GOk (Z.of_nat i) | Refused => GRaise "PGPError" | Crashed _ => GRaise "" end.
Proof.
  intros H. unfold gen_usage, usage_with. destruct (op_flags o =? 0); cbn [negb]; [reflexivity|].
  rewrite H, scan_find.
  change (0 :: map Z.of_nat (seq 1 m)) with (map Z.of_nat (seq 0 (S m))).
  destruct (find _ (map Z.of_nat (seq 0 (S m)))) as [i|] eqn:E.
  - rewrite (find_ids_nonneg _ _ _ E). reflexivity.
  - rewrite last_ids. destruct (k_enforce k); reflexivity.
Qed.

(* the wrapper: the two guards, the unknown-user refusal, then usage, then check_attributes ON THE YIELDED COMPONENT, then the method
   on it.  getattr of key object c = the attribute of component c of the model; holds for every rule set that refuses an unknown
   user= up front and checks the chosen component (rules_now; the rules before cab6d36 / a0cb78f do NOT refine the source any more) *)
Theorem refine_key_action r k o user g m :
  r_usercheck r = true -> r_onchosen r = true ->
  comp_flags_with r k user = map (fun i => FOk (g (Z.of_nat i))) (seq 0 (S m)) ->
  gen_key_action (op_flags o) g (k_enforce k) 0 (map Z.of_nat (seq 1 m))
                 (fun c a => attr_val (comp_attr k (Z.to_nat c)) (attr_of_code a)) (snd (action_row o))
                 (negb (k_present k)) (Z.of_nat (length (k_uids k))) (k_primary k) (negb (is_certify o)) (user_unknown k user) =
  match perform_with r k o user with
  | Run i _ => GOk (Z.of_nat i)
  | NoKey | Incomplete | NoUser | NoUsage | BadAttr _ => GRaise "PGPError"
  | Crash _ => GRaise "" end.
Proof.
  intros Hu Hc H. unfold gen_key_action, perform_with.
  destruct (k_present k); cbn [negb]; [|reflexivity].
  replace (Z.of_nat (length (k_uids k)) =? 0) with (length (k_uids k) =? 0)%nat by lia.
  destruct ((length (k_uids k) =? 0)%nat && k_primary k && negb (is_certify o)); [reflexivity|].
  rewrite Hu, Hc. cbn [andb]. destruct (user_unknown k user); [reflexivity|].
  rewrite (refine_usage r k o user g m H).
  destruct (usage_with r k o user) as [i w| |c]; try reflexivity.
  cbv zeta. rewrite Nat2Z.id, refine_check_attributes.
  destruct (check_attributes (comp_attr k i) o); reflexivity.
Qed.

(* the rules before cab6d36 are refuted as a refinement of the source too: on the mixed key of Props/C16.v the generated wrapper
   refuses (PGPError) where perform_old_lockcheck runs the method on the locked subkey *)
Example refine_old_lockcheck_refuted :
  let k := Policy_lemmas.mixed_key Policy_lemmas.a_plain Policy_lemmas.a_locked in
  gen_key_action (op_flags OSign) (fun i => if i =? 0 then 33 else 2) (k_enforce k) 0 [1]
                 (fun c a => attr_val (comp_attr k (Z.to_nat c)) (attr_of_code a)) (snd (action_row OSign))
                 (negb (k_present k)) (Z.of_nat (length (k_uids k))) (k_primary k) (negb (is_certify OSign)) (user_unknown k None)
  = GRaise "PGPError" /\ perform_old_lockcheck k OSign None = Run 1 false /\ perform k OSign None = BadAttr IsUnlocked.
Proof. repeat split. Qed.

(* the flags row of a method is what its wrapper scans for *)
Lemma refine_action_flags o : fst (action_row o) = op_flags o.
Proof. rewrite refine_action_row. reflexivity. Qed.

(* the premise of refine_usage / refine_key_action is inhabited: a primary key without user ids and subkeys reports {Certify} *)
Example refine_usage_premise :
  comp_flags_with rules_now {| k_present := true; k_primary := true; k_uids := []; k_bind := []; k_subs := [];
                               k_attr := {| a_public := false; a_protected := false; a_unl := true |}; k_enforce := true |} None
  = map (fun i => FOk ((fun _ => CERTIFY) (Z.of_nat i))) (seq 0 1).
Proof. reflexivity. Qed.
