(* Proof obligations tying the C12 model to the definitions regenerated from /repo's source on every run:
   pgpy/packet/fields.py String2Key.count getter              -> Gen/Gen_ptypes.v gen_s2k_count,
   the straight-line arithmetic of String2Key.derive_key
   (count, hcount, hleft; the shape of the hashdata expression) -> Gen/Gen_ptypes.v gen_s2k_arith.
   (The remaining statements of derive_key -- ctx, the hashing loop, the truncation -- are tied by the pinned
   source text in tools/harness/c12.py and the correspondence run.) *)
From Coq Require Import ZArith List Bool Lia.
Import ListNotations.
Require Import PV.Lib.Bytes PV.Model.Wire PV.Model.S2K PV.Spec.Rfc4880_wire PV.Gen.Gen_ptypes.
Open Scope Z_scope.

Lemma refine_s2k_count_model c : gen_s2k_count c = s2k_count c.
Proof. reflexivity. Qed.

(* the translated getter gives the RFC 4880 3.7.1.3 count for all 256 codes (finite sweep, bound in the statement) *)
Definition codes : list Z := map Z.of_nat (seq 0 256).
Lemma refine_s2k_count_sweep : forallb (fun c => gen_s2k_count c =? rfc_count c) codes = true.
Proof. vm_compute. reflexivity. Qed.
Lemma refine_s2k_count_rfc c : 0 <= c < 256 -> gen_s2k_count c = rfc_count c.
Proof.
  intros H. apply Z.eqb_eq. apply (proj1 (forallb_forall _ codes) refine_s2k_count_sweep c).
  unfold codes. apply in_map_iff. exists (Z.to_nat c). split; [lia|]. apply in_seq. lia.
Qed.

(* smallest and largest count: 1024 and 65011712 octets *)
Lemma refine_s2k_count_range : gen_s2k_count 0 = 1024 /\ gen_s2k_count 255 = 65011712.
Proof. split; reflexivity. Qed.

(* count / hcount / hleft of the model's plan are the translated arithmetic applied to
   (specifier, decoded count, len(hsalt + hpass)) -- for every input *)
Lemma refine_s2k_arith hlen spec halg keylen salt c pass :
  let p := derive_plan hlen spec halg keylen salt c pass in
  gen_s2k_arith spec (gen_s2k_count c) (Z.of_nat (length (p_sp p))) = (p_count p, p_hcount p, p_hleft p).
Proof.
  unfold gen_s2k_arith, derive_plan. cbn [p_sp p_count p_hcount p_hleft]. cbv zeta.
  change (gen_s2k_count c) with (s2k_count c).
  match goal with |- context [if ?b then s2k_count c else _] => destruct b end; reflexivity.
Qed.
