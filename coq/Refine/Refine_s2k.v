(* Proof obligations tying the C12 model to the definition regenerated from /repo's source on every run:
   pgpy/packet/fields.py String2Key.count getter -> Gen/Gen_ptypes.v gen_s2k_count.
   (The arithmetic of derive_key itself is not translated; its source text is pinned by tools/harness/c12.py.) *)
From Coq Require Import ZArith List Bool Lia.
Import ListNotations.
Require Import PV.Lib.Bytes PV.Model.Wire PV.Spec.Rfc4880_wire PV.Gen.Gen_ptypes.
Open Scope Z_scope.

Lemma refine_s2k_count_model c : gen_s2k_count c = s2k_count c.
Proof. reflexivity. Qed.

(* the translated getter gives the RFC 4880 3.7.1.3 count for all 256 codes (finite sweep, bound in the statement) *)
Definition codes : list Z := map Z.of_nat (seq 0 256).
Lemma refine_s2k_count_sweep : forallb (fun c => gen_s2k_count c =? rfc_count c) codes = true.
Proof. vm_compute. reflexivity. Qed.
Lemma refine_s2k_count_rfc c : 0 <= c < 256 -> gen_s2k_count c = rfc_count c.
Proof.
  intros H. apply Z.eqb_eq. apply (proj1 (forallb_forall _ codes) refine_s2k_count_sweep c).
  unfold codes. apply in_map_iff. exists (Z.to_nat c). split; [lia|]. apply in_seq. lia.
Qed.

(* smallest and largest count: 1024 and 65011712 octets *)
Lemma refine_s2k_count_range : gen_s2k_count 0 = 1024 /\ gen_s2k_count 255 = 65011712.
Proof. split; reflexivity. Qed.
