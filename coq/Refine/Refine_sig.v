(* Proof obligations tying Model/HashData.v (C01 / C02 / C05) to PGPSignature.hashdata as regenerated from
   /repo's pgpy/pgp.py on every run (Gen/Gen_pgp.v gen_hashdata: the WHOLE method body, statement by statement,
   with the attributes it reads off the subject as opaque inputs).
   For every kind of subject of the model, and every signature type for which the model says that the code
   does not raise, the regenerated function returns exactly  hash_body ++ trailer  -- i.e. the 0x99 / 0xB4 / 0xD1
   framing (key_block, uid_block), the order of the pieces, the choice of pieces per signature type, the hashed
   fields, b'\x04\xff' and the four-octet length are those of the model the theorems of Props/C01 C02 C05 are about. *)
From Coq Require Import ZArith List Bool Lia.
Import ListNotations.
Require Import PV.Lib.Bytes PV.Model.HashData PV.Gen.Gen_base PV.Gen.Gen_pgp.
Open Scope Z_scope.

(* the signature types the method body mentions *)
Ltac split_type t :=
  destruct (Z.eqb_spec t 0) as [->|?]; [|
  destruct (Z.eqb_spec t 1) as [->|?]; [|
  destruct (Z.eqb_spec t 16) as [->|?]; [|
  destruct (Z.eqb_spec t 17) as [->|?]; [|
  destruct (Z.eqb_spec t 18) as [->|?]; [|
  destruct (Z.eqb_spec t 19) as [->|?]; [|
  destruct (Z.eqb_spec t 22) as [->|?]; [|
  destruct (Z.eqb_spec t 48) as [->|?]; [|
  destruct (Z.eqb_spec t 24) as [->|?]; [|
  destruct (Z.eqb_spec t 25) as [->|?]; [|
  destruct (Z.eqb_spec t 31) as [->|?]; [|
  destruct (Z.eqb_spec t 32) as [->|?]; [|
  destruct (Z.eqb_spec t 40) as [->|?]]]]]]]]]]]]].

Ltac other_type t :=
  repeat match goal with H : t <> ?c |- _ =>
    let E := fresh "E" in pose proof (proj2 (Z.eqb_neq t c) H) as E; clear H; rewrite ?E end.

Ltac finish :=
  cbv zeta;
  (let H := fresh in intros H; first [discriminate H | injection H as <-]);
  unfold trailer, hcontext, key_block, uid_block; cbn [sf_ver sf_type sf_pkalg sf_halg sf_hashed];
  rewrite ?Z.gtb_ltb;
  repeat match goal with |- context [if ?c then _ else _] => destruct c end;
  repeat (progress (cbn [app]; repeat rewrite <- app_assoc)); try reflexivity.

Ltac run t :=
  unfold gen_hashdata, hash_body, is_cert_type, is_binding_type, is_key_type; cbn [existsb];
  split_type t; cbn [orb andb negb Z.eqb Pos.eqb]; finish.

Section Sig.
Variable f : sigfields.
Let G := gen_hashdata canon (sf_type f) (sf_pkalg f) (sf_halg f) (sf_ver f) (sf_hashed f).

(* a document (bytes / str after encoding / literal-message contents); the key / uid inputs are never read *)
Lemma refine_hashdata_doc d b ske b1 b2 b3 b4 x1 x2 x3 x4 :
  hash_body (sf_type f) (SDoc d) = Some b ->
  G d ske b1 b2 b3 b4 x1 x2 x3 x4 = b ++ trailer f.
Proof. subst G. destruct f as [ver t pk h hashed]. cbn [sf_ver sf_type sf_pkalg sf_halg sf_hashed]. run t. Qed.

(* a user id u on the key whose packet body is kb: subject is a PGPUID (isinstance .. PGPUID, is_uid),
   subject._parent.hashdata = kb, subject.hashdata = u *)
Lemma refine_hashdata_uid kb u b d ske b2 b3 x3 x4 :
  hash_body (sf_type f) (SUid kb u) = Some b ->
  G d ske true b2 b3 true u kb x3 x4 = b ++ trailer f.
Proof. subst G. destruct f as [ver t pk h hashed]. cbn [sf_ver sf_type sf_pkalg sf_halg sf_hashed]. run t. Qed.

(* a user attribute: a PGPUID whose is_uid is false *)
Lemma refine_hashdata_uattr kb ua b d ske b2 b3 x3 x4 :
  hash_body (sf_type f) (SUattr kb ua) = Some b ->
  G d ske true b2 b3 false ua kb x3 x4 = b ++ trailer f.
Proof. subst G. destruct f as [ver t pk h hashed]. cbn [sf_ver sf_type sf_pkalg sf_halg sf_hashed]. run t. Qed.

(* a key (direct-key signature 0x1F, key revocation 0x20): subject.hashdata = kb *)
Lemma refine_hashdata_key kb b d ske b1 b2 b3 b4 x2 x3 x4 :
  hash_body (sf_type f) (SKey kb) = Some b ->
  G d ske b1 b2 b3 b4 kb x2 x3 x4 = b ++ trailer f.
Proof. subst G. destruct f as [ver t pk h hashed]. cbn [sf_ver sf_type sf_pkalg sf_halg sf_hashed]. run t. Qed.

(* subkey sb of primary pb, the Python-level subject being the SUBKEY object (bindings 0x18 / 0x19, subkey
   revocation 0x28): not a PGPUID, a PGPKey, not primary; _parent.hashdata = parent.hashdata = pb, hashdata = sb *)
Lemma refine_hashdata_subkey pb sb b d ske b4 x4 :
  hash_body (sf_type f) (SSubkey pb sb) = Some b ->
  G d ske false true false b4 sb pb pb x4 = b ++ trailer f.
Proof. subst G. destruct f as [ver t pk h hashed]. cbn [sf_ver sf_type sf_pkalg sf_halg sf_hashed]. run t. Qed.

(* the same pair with the PRIMARY as the Python-level subject (bindings only): hashdata = pb,
   subkeys[self.signer].hashdata = sb *)
Lemma refine_hashdata_subkey_via_primary pb sb b d ske b4 x2 x3 :
  is_binding_type (sf_type f) = true ->
  hash_body (sf_type f) (SSubkey pb sb) = Some b ->
  G d ske false true true b4 pb x2 x3 sb = b ++ trailer f.
Proof.
  subst G. destruct f as [ver t pk h hashed]. cbn [sf_ver sf_type sf_pkalg sf_halg sf_hashed].
  unfold is_binding_type at 1. cbn [existsb]. intros Hb.
  assert (Ht : t = 24 \/ t = 25) by lia. clear Hb.
  destruct Ht as [-> | ->]; unfold gen_hashdata, hash_body, is_cert_type, is_binding_type, is_key_type;
    cbn [existsb orb andb negb Z.eqb Pos.eqb]; finish.
Qed.

(* corollary in the vocabulary of the model: whenever the model's hashdata is defined, the code's octets are the model's *)
Lemma refine_hashdata_doc_model d r ske b1 b2 b3 b4 x1 x2 x3 x4 :
  hashdata f (SDoc d) = Some r -> G d ske b1 b2 b3 b4 x1 x2 x3 x4 = r.
Proof.
  unfold hashdata. destruct (hash_body (sf_type f) (SDoc d)) eqn:E; [|discriminate].
  intros [= <-]. apply refine_hashdata_doc. exact E.
Qed.
Lemma refine_hashdata_uid_model kb u r d ske b2 b3 x3 x4 :
  hashdata f (SUid kb u) = Some r -> G d ske true b2 b3 true u kb x3 x4 = r.
Proof.
  unfold hashdata. destruct (hash_body (sf_type f) (SUid kb u)) eqn:E; [|discriminate].
  intros [= <-]. apply refine_hashdata_uid. exact E.
Qed.
End Sig.

(* the trailer alone (standalone / timestamp / third-party-confirmation signatures hash nothing else) *)
Lemma refine_trailer f d ske b1 b2 b3 b4 x1 x2 x3 x4 :
  sf_type f = 2 \/ sf_type f = 64 \/ sf_type f = 80 ->
  gen_hashdata canon (sf_type f) (sf_pkalg f) (sf_halg f) (sf_ver f) (sf_hashed f) d ske b1 b2 b3 b4 x1 x2 x3 x4 = trailer f.
Proof.
  intros H. change (trailer f) with ([] ++ trailer f). apply refine_hashdata_doc.
  unfold hash_body. destruct H as [-> | [-> | ->]]; reflexivity.
Qed.
