(* Proof obligations tying Model/HashData.v (C01 / C02 / C05) to PGPSignature.hashdata as regenerated from
   /repo's pgpy/pgp.py on every run (Gen/Gen_pgp.v gen_hashdata: the WHOLE method body, statement by statement,
   with the attributes it reads off the subject as opaque inputs).
   For every kind of subject of the model, and every signature type for which the model says that the code
   does not raise, the regenerated function returns exactly  hash_body ++ trailer  -- i.e. the 0x99 / 0xB4 / 0xD1
   framing (key_block, uid_block), the order of the pieces, the choice of pieces per signature type, the hashed
   fields, b'\x04\xff' and the four-octet length are those of the model the theorems of Props/C01 C02 C05 are about. *)
From Coq Require Import ZArith List Bool Lia.
Import ListNotations.
Require Import PV.Lib.Bytes PV.Model.HashData PV.Gen.Gen_base PV.Gen.Gen_pgp.
Open Scope Z_scope.

(* the signature types the method body mentions *)
Ltac split_type t :=
  destruct (Z.eqb_spec t 0) as [->|?]; [|
  destruct (Z.eqb_spec t 1) as [->|?]; [|
  destruct (Z.eqb_spec t 16) as [->|?]; [|
  destruct (Z.eqb_spec t 17) as [->|?]; [|
  destruct (Z.eqb_spec t 18) as [->|?]; [|
  destruct (Z.eqb_spec t 19) as [->|?]; [|
  destruct (Z.eqb_spec t 22) as [->|?]; [|
  destruct (Z.eqb_spec t 48) as [->|?]; [|
  destruct (Z.eqb_spec t 24) as [->|?]; [|
  destruct (Z.eqb_spec t 25) as [->|?]; [|
  destruct (Z.eqb_spec t 31) as [->|?]; [|
  destruct (Z.eqb_spec t 32) as [->|?]; [|
  destruct (Z.eqb_spec t 40) as [->|?]]]]]]]]]]]]].

Ltac other_type t :=
  repeat match goal with H : t <> ?c |- _ =>
    let E := fresh "E" in pose proof (proj2 (Z.eqb_neq t c) H) as E; clear H; rewrite ?E end.

Ltac finish :=
  cbv zeta; cbn [app length];
  (let H := fresh in intros H; first [discriminate H | injection H as <-]);
  unfold trailer, hcontext, key_block, uid_block; cbn [sf_ver sf_type sf_pkalg sf_halg sf_hashed];
  rewrite ?Z.gtb_ltb;
  repeat match goal with |- context [if ?c then _ else _] => destruct c end;
  cbn [app]; repeat rewrite <- app_assoc; cbn [app]; try reflexivity.

Ltac run t :=
  unfold gen_hashdata, hash_body, is_cert_type, is_binding_type, is_key_type;
  split_type t; [cbn [existsb orb andb negb Z.eqb Pos.eqb] .. | other_type t; cbn [existsb orb andb negb] ]; finish.

Section Sig.
Variable f : sigfields.
Let G := gen_hashdata canon (sf_type f) (sf_pkalg f) (sf_halg f) (sf_ver f) (sf_hashed f).

(* a document (bytes / str after encoding / literal-message contents); the key / uid inputs are never read *)
Lemma refine_hashdata_doc d b ske b1 b2 b3 b4 x1 x2 x3 x4 :
  hash_body (sf_type f) (SDoc d) = Some b ->
  G d ske b1 b2 b3 b4 x1 x2 x3 x4 = b ++ trailer f.
Proof. subst G. destruct f as [ver t pk h hashed]. cbn [sf_ver sf_type sf_pkalg sf_halg sf_hashed]. run t. Qed.
End Sig.
