(* Proof obligations tying Model/SubArea.v (C05 / C08 / C14: the two subpacket areas of a signature as a state machine) to
   class SubPackets as regenerated from /repo's pgpy/packet/fields.py on every run (Gen/Gen_subarea.v):
     __hashbytearray__ / __unhashbytearray__ / __bytearray__   whole bodies, the loop over the parsed objects included
     __setitem__     which received area is dropped, as a function of key.startswith('h_')
     __copy__        the four attributes
     parse           the two counts, the two kept slices, the two overrun guards, the order of the assignments
                     (the two subpacket-eating `while` loops are pinned text standing for the model's sp_walk)
   A source edit that changes one of them stops these lemmas from compiling. *)
From Coq Require Import String ZArith List Bool Lia ZifyBool.
Import ListNotations.
Require Import PV.Lib.Bytes PV.Lib.BytesLemmas PV.Model.Wire PV.Model.HashData PV.Model.SubArea
               PV.Proofs.HashData_lemmas PV.Proofs.SubArea_lemmas PV.Proofs.PySlice_lemmas
               PV.Gen.Gen_base PV.Gen.Gen_subarea.
Open Scope Z_scope.

(* ---------- emission ---------- *)
Section Emit.
  (* how one parsed subpacket object counts and serialises: arbitrary, as in the model *)
  Variable sp_len : sub3 -> Z.
  Variable sp_bytes : sub3 -> bytes.

  (* the re-serialisation the code performs when no received octets are kept: two-octet count, then every object *)
  Definition reser_code (l : list sub3) : bytes :=
    int_to_bytes (fold_right Z.add 0 (map sp_len l)) 2 ++ concat (map sp_bytes l).

  Lemma fold_sp_bytes l : forall acc,
    fold_left (fun st x => st ++ sp_bytes x) l acc = acc ++ concat (map sp_bytes l).
  Proof.
    induction l as [|x l IH]; intros acc; cbn [fold_left map concat]; [rewrite app_nil_r; reflexivity|].
    rewrite IH, <- app_assoc. reflexivity.
  Qed.

  Lemma refine_hashed_emit s :
    gen_sub_hashed_emit sub3 sp_len sp_bytes (sa_hraw s) (sa_h s) = GOk (sa_hashed_emit reser_code s).
  Proof.
    unfold gen_sub_hashed_emit, sa_hashed_emit, reser_code. destruct (sa_hraw s); [reflexivity|].
    cbv zeta. rewrite fold_sp_bytes. reflexivity.
  Qed.

  Lemma refine_unhashed_emit s :
    gen_sub_unhashed_emit sub3 sp_len sp_bytes (sa_uraw s) (sa_u s) = GOk (sa_unhashed_emit reser_code s).
  Proof.
    unfold gen_sub_unhashed_emit, sa_unhashed_emit, reser_code. destruct (sa_uraw s); [reflexivity|].
    cbv zeta. rewrite fold_sp_bytes. reflexivity.
  Qed.

  (* __bytearray__ = hashed area then unhashed area *)
  Lemma refine_sub_emit s :
    gen_sub_emit sub3 sp_len sp_bytes (sa_hraw s) (sa_uraw s) (sa_h s) (sa_u s) = GOk (sa_emit reser_code s).
  Proof. unfold gen_sub_emit. rewrite refine_hashed_emit, refine_unhashed_emit. reflexivity. Qed.
End Emit.

(* ---------- __setitem__ ---------- *)
(* the value goes to the hashed dictionary exactly for an 'h_' key, and only THAT area's received octets are dropped *)
Lemma refine_sub_setitem hashed x s :
  gen_sub_setitem hashed (sa_hraw s) (sa_uraw s) = (hashed, sa_hraw (sa_set hashed x s), sa_uraw (sa_set hashed x s)).
Proof. destruct hashed; reflexivity. Qed.

Lemma refine_sub_setitem_fields hashed x s :
  let '(d, hr, ur) := gen_sub_setitem hashed (sa_hraw s) (sa_uraw s) in
  sa_set hashed x s = {| sa_h := if d then sa_h s ++ [x] else sa_h s; sa_u := if d then sa_u s else sa_u s ++ [x];
                         sa_hraw := hr; sa_uraw := ur |}.
Proof. destruct hashed; reflexivity. Qed.

(* ---------- __copy__ ---------- *)
Lemma refine_sub_copy s :
  gen_sub_copy (list sub3) (sa_h s) (sa_u s) (sa_hraw s) (sa_uraw s) =
  (sa_h (sa_copy s), sa_u (sa_copy s), sa_hraw (sa_copy s), sa_uraw (sa_copy s)).
Proof. reflexivity. Qed.

(* ---------- parse ---------- *)
(* the pinned `while` loops: what is left of the buffer once at least n octets of whole subpackets are consumed *)
Definition walk_model (p : bytes) (n : Z) : bytes :=
  match sp_walk (S (length p)) p (Z.to_nat n) 0 with Some (_, r, _) => r | None => p end.

Lemma wf_firstn n (p : bytes) : wf_bytes p -> wf_bytes (firstn n p).
Proof. intros H. rewrite <- (firstn_skipn n p) in H. apply wf_bytes_app in H. tauto. Qed.
Lemma wf_suffix (r p : bytes) : suffix r p -> wf_bytes p -> wf_bytes r.
Proof. intros [pre ->] H. apply wf_bytes_app in H. tauto. Qed.
Lemma unbe2_nonneg (p : bytes) : wf_bytes p -> 0 <= unbe (firstn 2 p).
Proof. intros H. pose proof (unbe_bounds _ (wf_firstn 2 p H)). lia. Qed.

(* one area: count, kept slice, walk, overrun guard *)
Lemma walk_guard p n sps r tot : 0 <= n ->
  sp_walk (S (length p)) p (Z.to_nat n) 0 = Some (sps, r, tot) ->
  walk_model p n = r /\
  negb (Z.of_nat (length p) - Z.of_nat (length r) =? n) = negb (tot =? Z.to_nat n)%nat.
Proof.
  intros Hn W. unfold walk_model. rewrite W. split; [reflexivity|].
  destruct (sp_walk_spec _ _ _ _ _ _ _ W) as [_ [L _]]. f_equal.
  destruct (tot =? Z.to_nat n)%nat eqn:E; lia.
Qed.

(* SubPackets.parse, for every buffer of octets on which the two subpacket walks do not raise: same accept / reject decision as
   the model (PGPError for either overrun), and on acceptance the same kept octets of both areas and the same rest.
   hraw0 / uraw0 = the attributes before the call (None on a new object): they do not matter *)
Theorem refine_sub_parse p hraw0 uraw0 hs p2 tot :
  wf_bytes p ->
  sp_walk (S (length (skipn 2 p))) (skipn 2 p) (Z.to_nat (unbe (firstn 2 p))) 0 = Some (hs, p2, tot) ->
  sp_walk (S (length (skipn 2 p2))) (skipn 2 p2) (Z.to_nat (unbe (firstn 2 p2))) 0 <> None ->
  gen_sub_parse walk_model hraw0 uraw0 p =
  match sa_parse p with
  | Some (st, rest) => GOk (sa_hraw st, sa_uraw st, rest)
  | None => GRaise "PGPError"
  end.
Proof.
  intros Hwf W1 W2def.
  assert (Hh : 0 <= unbe (firstn 2 p)) by (apply unbe2_nonneg; exact Hwf).
  destruct (walk_guard _ _ _ _ _ Hh W1) as [R1 G1].
  unfold gen_sub_parse, sa_parse, subpackets_parse, bytes_to_int. cbv zeta. rewrite W1, R1, G1.
  destruct (tot =? Z.to_nat (unbe (firstn 2 p)))%nat eqn:T1; cbn [negb]; [|reflexivity].
  apply Nat.eqb_eq in T1. subst tot.
  pose proof (sp_walk_exact_rest _ _ _ _ _ W1) as E2. rewrite skipn_skipn' in E2.
  destruct (sp_walk_spec _ _ _ _ _ _ _ W1) as [S1 _].
  assert (Hwf1 : wf_bytes (skipn 2 p)).
  { pose proof Hwf as H0. rewrite <- (firstn_skipn 2 p) in H0. apply wf_bytes_app in H0. tauto. }
  assert (Hwf2 : wf_bytes p2) by exact (wf_suffix _ _ S1 Hwf1).
  assert (Hu : 0 <= unbe (firstn 2 p2)) by (apply unbe2_nonneg; exact Hwf2).
  destruct (sp_walk (S (length (skipn 2 p2))) (skipn 2 p2) (Z.to_nat (unbe (firstn 2 p2))) 0) as [[[us p4] tot2]|] eqn:W2.
  2: { exfalso. apply W2def. reflexivity. }
  destruct (walk_guard _ _ _ _ _ Hu W2) as [R2 G2]. rewrite R2, G2.
  destruct (tot2 =? Z.to_nat (unbe (firstn 2 p2)))%nat; cbn [negb]; [|reflexivity].
  cbn [sa_hraw sa_uraw sp_hashed_raw].
  rewrite !py_upto_nonneg by lia. rewrite <- E2.
  replace (Z.to_nat (2 + unbe (firstn 2 p))) with (Z.to_nat (unbe (firstn 2 p)) + 2)%nat by lia.
  replace (Z.to_nat (2 + unbe (firstn 2 p2))) with (Z.to_nat (unbe (firstn 2 p2)) + 2)%nat by lia.
  reflexivity.
Qed.

(* the slices that are kept, in the model's words: on acceptance the code keeps firstn (hl + 2) p and firstn (uhl + 2) p2 *)
Corollary refine_sub_parse_kept p hraw0 uraw0 st rest :
  wf_bytes p -> sa_parse p = Some (st, rest) ->
  let hl := Z.to_nat (unbe (firstn 2 p)) in
  let p2 := skipn (hl + 2) p in
  let uhl := Z.to_nat (unbe (firstn 2 p2)) in
  gen_sub_parse walk_model hraw0 uraw0 p = GOk (Some (firstn (hl + 2) p), Some (firstn (uhl + 2) p2), rest).
Proof.
  intros Hwf Hs. cbv zeta.
  assert (Hs' := Hs). unfold sa_parse in Hs'.
  destruct (subpackets_parse p) as [[sp r]|] eqn:Ep; [|discriminate].
  destruct (subpackets_parse_rest _ _ _ Ep) as [Hraw _].
  injection Hs' as <- <-.
  unfold subpackets_parse in Ep.
  destruct (sp_walk (S (length (skipn 2 p))) (skipn 2 p) (Z.to_nat (unbe (firstn 2 p))) 0) as [[[hs p2] tot]|] eqn:W1; [|discriminate].
  destruct (negb (tot =? Z.to_nat (unbe (firstn 2 p)))%nat); [discriminate|].
  assert (W2 : sp_walk (S (length (skipn 2 p2))) (skipn 2 p2) (Z.to_nat (unbe (firstn 2 p2))) 0 <> None).
  { destruct (sp_walk (S (length (skipn 2 p2))) (skipn 2 p2) (Z.to_nat (unbe (firstn 2 p2))) 0); [discriminate|discriminate]. }
  rewrite (refine_sub_parse p hraw0 uraw0 hs p2 tot Hwf W1 W2), Hs. cbn [sa_hraw sa_uraw]. rewrite Hraw. reflexivity.
Qed.

(* and a rejected buffer (either overrun) raises PGPError, provided the walks themselves do not raise *)
Corollary refine_sub_parse_reject p hraw0 uraw0 hs p2 tot :
  wf_bytes p ->
  sp_walk (S (length (skipn 2 p))) (skipn 2 p) (Z.to_nat (unbe (firstn 2 p))) 0 = Some (hs, p2, tot) ->
  sp_walk (S (length (skipn 2 p2))) (skipn 2 p2) (Z.to_nat (unbe (firstn 2 p2))) 0 <> None ->
  sa_parse p = None -> gen_sub_parse walk_model hraw0 uraw0 p = GRaise "PGPError".
Proof. intros Hwf W1 W2 Hn. rewrite (refine_sub_parse p hraw0 uraw0 hs p2 tot Hwf W1 W2), Hn. reflexivity. Qed.

(* the premises of refine_sub_parse are inhabited: one hashed subpacket (length 1, type 2), empty unhashed area, one octet following *)
Example refine_sub_parse_premises :
  let p := [0; 2; 1; 2; 0; 0; 7] in
  wf_bytes p /\
  sp_walk (S (length (skipn 2 p))) (skipn 2 p) (Z.to_nat (unbe (firstn 2 p))) 0 = Some ([(2, false, [])], [0; 0; 7], 2%nat) /\
  sp_walk (S (length (skipn 2 [0; 0; 7]))) (skipn 2 [0; 0; 7]) (Z.to_nat (unbe (firstn 2 [0; 0; 7]))) 0 <> None /\
  gen_sub_parse walk_model None None p = GOk (Some [0; 2; 1; 2], Some [0; 0], [7]).
Proof.
  cbv zeta. split; [repeat constructor; lia|]. split; [vm_compute; reflexivity|]. split; [vm_compute; discriminate|].
  vm_compute. reflexivity.
Qed.
