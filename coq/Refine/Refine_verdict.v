(* Proof obligations tying Model/Verdict.v to the definitions regenerated from /repo's source on every run:
   pgpy/constants.py SecurityIssues (member values, causes_signature_verify_to_fail) -> Gen/Gen_consts.v,
   pgpy/types.py SignatureVerification (the three comprehension conditions, the add_sigsubj default) -> Gen/Gen_types.v. *)
From Coq Require Import ZArith List Bool Lia.
Import ListNotations.
Require Import PV.Model.Verdict PV.Gen.Gen_consts PV.Gen.Gen_types.
Open Scope Z_scope.

Lemma refine_SI_members :
  [gen_SI_OK; gen_SI_WrongSig; gen_SI_Expired; gen_SI_Disabled; gen_SI_Revoked; gen_SI_Invalid;
   gen_SI_BrokenAsymmetricFunc; gen_SI_HashFunctionNotCollisionResistant; gen_SI_HashFunctionNotSecondPreimageResistant;
   gen_SI_AsymmetricKeyLengthIsTooShort; gen_SI_InsecureCurve; gen_SI_NoSelfSignature]
  = [SI_OK; SI_WrongSig; SI_Expired; SI_Disabled; SI_Revoked; SI_Invalid;
     SI_BrokenAsymmetricFunc; SI_HashFunctionNotCollisionResistant; SI_HashFunctionNotSecondPreimageResistant;
     SI_AsymmetricKeyLengthIsTooShort; SI_InsecureCurve; SI_NoSelfSignature].
Proof. reflexivity. Qed.

(* the translated test IS the model's test, for every integer *)
Lemma refine_causes_fail i : gen_causes_fail i = causes_fail i.
Proof. reflexivity. Qed.

(* and it agrees with the bit-set reading on the whole IntFlag range (finite sweep, bound in the statement) *)
Definition issue_values : list Z := map Z.of_nat (seq 0 (Z.to_nat 2048)).
Lemma refine_causes_fail_bits_sweep :
  forallb (fun i => Bool.eqb (gen_causes_fail i) (causes_fail_bits i)) issue_values = true.
Proof. vm_compute. reflexivity. Qed.
Lemma refine_causes_fail_bits i : 0 <= i < 2048 -> gen_causes_fail i = causes_fail_bits i.
Proof.
  intros H. pose proof refine_causes_fail_bits_sweep as S. rewrite forallb_forall in S.
  apply Bool.eqb_prop. apply S. unfold issue_values. apply in_map_iff. exists (Z.to_nat i). split; [lia|].
  apply in_seq. lia.
Qed.

(* it is NOT the pre-repair exact-membership test (regression: the old source text would translate to the latter) *)
Lemma refine_causes_fail_not_prefix : gen_causes_fail (Z.lor SI_Expired SI_InsecureCurve) <> causes_fail_prefix (Z.lor SI_Expired SI_InsecureCurve).
Proof. vm_compute. discriminate. Qed.

Lemma refine_is_good cf i : gen_is_good cf i = is_good_with cf i.
Proof. unfold gen_is_good, is_good_with. destruct (i =? 0); reflexivity. Qed.
Lemma refine_is_bad cf i : gen_is_bad cf i = is_bad_with cf i.
Proof. reflexivity. Qed.
Lemma refine_entry_ok cf i : gen_entry_ok cf i = entry_ok_with cf i.
Proof. reflexivity. Qed.

Lemma refine_is_good_current i : gen_is_good gen_causes_fail i = is_good i.
Proof. apply refine_is_good. Qed.
Lemma refine_is_bad_current i : gen_is_bad gen_causes_fail i = is_bad i.
Proof. reflexivity. Qed.
Lemma refine_entry_ok_current i : gen_entry_ok gen_causes_fail i = entry_ok i.
Proof. reflexivity. Qed.

Lemma refine_default_issues : gen_default_issues = default_issues.
Proof. reflexivity. Qed.
