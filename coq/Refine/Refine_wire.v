(* Proof obligations tying the hand model (Model/Wire.v) to the definitions regenerated from
   /repo's source on every run (Gen/).  If a source edit changes a translated function these
   stop compiling; the check then searches for a failing input (DESIGN.md 2.5). *)
From Coq Require Import ZArith List Bool Lia ZifyBool.
Import ListNotations.
Require Import PV.Lib.Bytes PV.Model.Wire PV.Gen.Gen_types PV.Gen.Gen_ptypes.
Open Scope Z_scope.

Lemma refine_new_length n : gen_new_length n = new_length n.
Proof. reflexivity. Qed.
Lemma refine_old_length n l : gen_old_length n l = old_length n l.
Proof. reflexivity. Qed.
Lemma refine_encode_length n f l : gen_encode_length n f l = encode_length n f l.
Proof. reflexivity. Qed.
Lemma refine_llen_get f n s : gen_llen_get f n s = llen_get f n s.
Proof. reflexivity. Qed.
Lemma refine_llen_of_code c : In c [0; 1; 2; 3] -> gen_llen_of_code c = Some (llen_of_code c).
Proof. intros [<-|[<-|[<-|[<-|[]]]]]; reflexivity. Qed.
Lemma refine_code_of_llen l : gen_code_of_llen l = code_of_llen l.
Proof. reflexivity. Qed.
Lemma refine_tag_of_octet f v : gen_tag_of_octet f v = tag_of_octet f v.
Proof. reflexivity. Qed.

(* _parse_len: the model looks the first octet up itself (IndexError = None) *)
Lemma slice_one b off fo : nth_error b off = Some fo -> slice off (off + 1) b = [fo].
Proof.
  revert off; induction b as [|x b IH]; intros [|off] H; try discriminate.
  - injection H as ->. destruct b; reflexivity.
  - cbn [nth_error] in H. specialize (IH off H). unfold slice in *. cbn [skipn].
    replace (S off + 1 - S off)%nat with (off + 1 - off)%nat by lia. exact IH.
Qed.

Lemma refine_parse_len b off fo : nth_error b off = Some fo -> 0 <= fo < 256 ->
  gen_parse_len fo b off = match parse_len b off with Some (v, sz, p) => Some (v, Z.of_nat sz, p) | None => None end.
Proof.
  intros H Hfo. unfold gen_parse_len, parse_len. rewrite H.
  destruct (192 >? fo) eqn:E1.
  { rewrite (slice_one b off fo H). unfold bytes_to_int, unbe. cbn [unbe_acc]. repeat f_equal. }
  destruct (224 >? fo) eqn:E2; [reflexivity|]. destruct (255 >? fo) eqn:E3; [reflexivity|].
  replace (255 =? fo) with true by lia. reflexivity.
Qed.

(* header emission: tag octet *)
Lemma refine_header_emit h : header_emit h =
  match gen_tag_octet (h_lenfmt h) (h_tag h) (llen_get (h_lenfmt h) (h_len h) (h_llen h)) with
  | Some o => Some (int_to_bytes o 1 ++ encode_length (h_len h) (negb (h_lenfmt h =? 0)) (llen_get (h_lenfmt h) (h_len h) (h_llen h)))
  | None => None end.
Proof.
  unfold header_emit, gen_tag_octet.
  destruct (negb (h_lenfmt h =? 0)); [reflexivity|].
  change (gen_code_of_llen (llen_get (h_lenfmt h) (h_len h) (h_llen h))) with (code_of_llen (llen_get (h_lenfmt h) (h_len h) (h_llen h))).
  destruct (code_of_llen _); reflexivity.
Qed.

Lemma refine_mpi_byte_length v : gen_mpi_byte_length v = mpi_byte_length v.
Proof. reflexivity. Qed.
Lemma refine_to_mpibytes v : gen_to_mpibytes v = to_mpibytes v.
Proof. reflexivity. Qed.
Lemma refine_mpi_new : gen_mpi_new_pinned = true.
Proof. reflexivity. Qed.

Lemma refine_sub_header_emit n t c : gen_sub_header_emit n t c = sub_header_emit n t c.
Proof. reflexivity. Qed.
Lemma refine_sub_typeid v : gen_sub_typeid v = Z.land v 127 /\ gen_sub_critical v = negb (Z.land v 128 =? 0).
Proof. split; reflexivity. Qed.
(* the subpacket length decode uses the two-octet band 192..254 (F8 repair pinned) *)
Lemma refine_sub_len_band : gen_sub_len_two_octet_band = true.
Proof. reflexivity. Qed.

Lemma refine_s2k_count c : gen_s2k_count c = s2k_count c.
Proof. reflexivity. Qed.

(* Header.parse (pgpy/packet/types.py), regenerated: the format bit, the length-type bits, the condition under which a length
   field follows, and the width stored for a packet read without one.  The first octet comes out of a bytearray, so it is an octet. *)
Definition octets256 : list Z := map Z.of_nat (seq 0 256).
Lemma lenfmt_sweep : forallb (fun o => (gen_hdr_lenfmt o =? 0) || (gen_hdr_lenfmt o =? 1)) octets256 = true.
Proof. vm_compute. reflexivity. Qed.
Lemma hdr_lenfmt_bit p0 : 0 <= p0 < 256 -> gen_hdr_lenfmt p0 = 0 \/ gen_hdr_lenfmt p0 = 1.
Proof.
  intros H. assert (In p0 octets256) as Hin.
  { unfold octets256. apply in_map_iff. exists (Z.to_nat p0). split; [lia|]. apply in_seq. lia. }
  pose proof (proj1 (forallb_forall _ octets256) lenfmt_sweep p0 Hin) as K. cbv beta in K.
  apply orb_prop in K. destruct K as [K | K]; apply Z.eqb_eq in K; auto.
Qed.

Lemma refine_header_parse p0 rest : 0 <= p0 < 256 ->
  header_parse (p0 :: rest) =
  let lenfmt := gen_hdr_lenfmt p0 in
  let tag := gen_tag_of_octet lenfmt p0 in
  let llen := if lenfmt =? 0 then match gen_llen_of_code (gen_hdr_llen_code p0) with Some l => l | None => 0 end else 1 in
  if gen_hdr_has_length lenfmt llen then
    if lenfmt =? 1 then
      match new_len rest with
      | None => None
      | Some (l, r) => Some ({| h_lenfmt := 1; h_tag := tag; h_llen := 1; h_len := l |}, r)
      end
    else let '(l, r) := old_len llen rest in Some ({| h_lenfmt := 0; h_tag := tag; h_llen := llen; h_len := l |}, r)
  else Some ({| h_lenfmt := 0; h_tag := tag; h_llen := gen_hdr_indet_llen; h_len := Z.of_nat (length rest) |}, rest).
Proof.
  intros Hp. cbv zeta. unfold header_parse, gen_hdr_has_length, gen_hdr_indet_llen.
  change (Z.shiftr (Z.land p0 64) 6) with (gen_hdr_lenfmt p0).
  change (gen_tag_of_octet (gen_hdr_lenfmt p0) p0) with (tag_of_octet (gen_hdr_lenfmt p0) p0).
  assert (match gen_llen_of_code (gen_hdr_llen_code p0) with Some l => l | None => 0 end = llen_of_code (Z.land p0 3)) as ->.
  { unfold gen_llen_of_code, llen_of_code, gen_hdr_llen_code.
    destruct (Z.land p0 3 =? 0); [reflexivity|]. destruct (Z.land p0 3 =? 1); [reflexivity|].
    destruct (Z.land p0 3 =? 2); [reflexivity|]. destruct (Z.land p0 3 =? 3); reflexivity. }
  destruct (hdr_lenfmt_bit p0 Hp) as [-> | ->]; cbn [Z.eqb andb orb].
  - rewrite orb_false_r. destruct (llen_of_code (Z.land p0 3) >? 0); reflexivity.
  - reflexivity.
Qed.
