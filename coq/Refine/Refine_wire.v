(* Proof obligations tying the hand model (Model/Wire.v) to the definitions regenerated from
   /repo's source on every run (Gen/).  If a source edit changes a translated function these
   stop compiling; the check then searches for a failing input (DESIGN.md 2.5). *)
From Coq Require Import ZArith List Bool Lia ZifyBool.
Import ListNotations.
Require Import PV.Lib.Bytes PV.Model.Wire PV.Gen.Gen_types PV.Gen.Gen_ptypes.
Open Scope Z_scope.

Lemma refine_new_length n : gen_new_length n = new_length n.
Proof. reflexivity. Qed.
Lemma refine_old_length n l : gen_old_length n l = old_length n l.
Proof. reflexivity. Qed.
Lemma refine_encode_length n f l : gen_encode_length n f l = encode_length n f l.
Proof. reflexivity. Qed.
Lemma refine_llen_get f n s : gen_llen_get f n s = llen_get f n s.
Proof. reflexivity. Qed.
Lemma refine_llen_of_code c : In c [0; 1; 2; 3] -> gen_llen_of_code c = Some (llen_of_code c).
Proof. intros [<-|[<-|[<-|[<-|[]]]]]; reflexivity. Qed.
Lemma refine_code_of_llen l : gen_code_of_llen l = code_of_llen l.
Proof. reflexivity. Qed.
Lemma refine_tag_of_octet f v : gen_tag_of_octet f v = tag_of_octet f v.
Proof. reflexivity. Qed.

(* _parse_len: the model looks the first octet up itself (IndexError = None) *)
Lemma slice_one b off fo : nth_error b off = Some fo -> slice off (off + 1) b = [fo].
Proof.
  revert off; induction b as [|x b IH]; intros [|off] H; try discriminate.
  - injection H as ->. destruct b; reflexivity.
  - cbn [nth_error] in H. specialize (IH off H). unfold slice in *. cbn [skipn].
    replace (S off + 1 - S off)%nat with (off + 1 - off)%nat by lia. exact IH.
Qed.

Lemma refine_parse_len b off fo : nth_error b off = Some fo -> 0 <= fo < 256 ->
  gen_parse_len fo b off = match parse_len b off with Some (v, sz, p) => Some (v, Z.of_nat sz, p) | None => None end.
Proof.
  intros H Hfo. unfold gen_parse_len, parse_len. rewrite H.
  destruct (192 >? fo) eqn:E1.
  { rewrite (slice_one b off fo H). unfold bytes_to_int, unbe. cbn [unbe_acc]. repeat f_equal. }
  destruct (224 >? fo) eqn:E2; [reflexivity|]. destruct (255 >? fo) eqn:E3; [reflexivity|].
  replace (255 =? fo) with true by lia. reflexivity.
Qed.

(* header emission: tag octet *)
Lemma refine_header_emit h : header_emit h =
  match gen_tag_octet (h_lenfmt h) (h_tag h) (llen_get (h_lenfmt h) (h_len h) (h_llen h)) with
  | Some o => Some (int_to_bytes o 1 ++ encode_length (h_len h) (negb (h_lenfmt h =? 0)) (llen_get (h_lenfmt h) (h_len h) (h_llen h)))
  | None => None end.
Proof.
  unfold header_emit, gen_tag_octet.
  destruct (negb (h_lenfmt h =? 0)); [reflexivity|].
  change (gen_code_of_llen (llen_get (h_lenfmt h) (h_len h) (h_llen h))) with (code_of_llen (llen_get (h_lenfmt h) (h_len h) (h_llen h))).
  destruct (code_of_llen _); reflexivity.
Qed.

Lemma refine_mpi_byte_length v : gen_mpi_byte_length v = mpi_byte_length v.
Proof. reflexivity. Qed.
Lemma refine_to_mpibytes v : gen_to_mpibytes v = to_mpibytes v.
Proof. reflexivity. Qed.
Lemma refine_mpi_new : gen_mpi_new_pinned = true.
Proof. reflexivity. Qed.

Lemma refine_sub_header_emit n t c : gen_sub_header_emit n t c = sub_header_emit n t c.
Proof. reflexivity. Qed.
Lemma refine_sub_typeid v : gen_sub_typeid v = Z.land v 127 /\ gen_sub_critical v = negb (Z.land v 128 =? 0).
Proof. split; reflexivity. Qed.
(* the subpacket length decode uses the two-octet band 192..254 (F8 repair pinned) *)
Lemma refine_sub_len_band : gen_sub_len_two_octet_band = true.
Proof. reflexivity. Qed.

Lemma refine_s2k_count c : gen_s2k_count c = s2k_count c.
Proof. reflexivity. Qed.
