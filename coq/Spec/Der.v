(* X.690 DER of SEQUENCE { INTEGER r, INTEGER s } for non-negative r, s (what the DSA / ECDSA primitives return) *)
From Coq Require Import ZArith List Bool.
Import ListNotations.
Require Import PV.Lib.Bytes.
Open Scope Z_scope.

(* definite length: short form below 128, else 0x80 + number of length octets, then the length big endian *)
Definition der_len (n : Z) : bytes :=
  if n <? 128 then [n] else let b := int_to_bytes n 1 in (128 + Z.of_nat (length b)) :: b.
(* INTEGER content: minimal two's complement; a non-negative value with the top bit set gets a leading 00 *)
Definition der_uint_body (v : Z) : bytes :=
  let b := int_to_bytes v 1 in
  match b with x :: _ => if 128 <=? x then 0 :: b else b | [] => b end.
Definition der_uint (v : Z) : bytes := let c := der_uint_body v in [2] ++ der_len (Z.of_nat (length c)) ++ c.
Definition der_seq2 (r s : Z) : bytes := let c := der_uint r ++ der_uint s in [48] ++ der_len (Z.of_nat (length c)) ++ c.
