(* C19 -- the specification side: what the property text says a keyring must answer, written without any reference to
   the layered alias index (only the data types kinfo / uid / op are shared with Model/Keyring.v), and the abstraction
   function from the layered index to a set of (identifier, key) pairs. *)
From Coq Require Import ZArith List Bool.
Import ListNotations.
Require Import PV.Lib.Bytes PV.Model.Keyring.
Open Scope Z_scope.

(* "every fingerprint, key id, short id, name, comment and e-mail of a loaded key" *)
Definition carries (i : kinfo) (a : alias) : Prop :=
  a = kfp i \/ a = lastn 16 (kfp i) \/ a = lastn 8 (kfp i) \/
  exists u, In u (kuids i) /\ (a = u_name u \/ (a = u_comment u /\ a <> []) \/ (a = u_email u /\ a <> [])).
(* "(also with spaces in fingerprints)": a fingerprint (40 hexadecimal digits), key id (16) or short id (8) may be written in
   groups; any other identifier -- a name, a comment, an e-mail address -- is taken as it is written.  So an identifier selects a
   key when the key carries it, or when its space-free form has the shape of a fingerprint / key id and the key carries that.
   (Written on its own terms: `hex_digit` / `id_shape` are Props over code points, not the model's boolean `unspaced`;
   Proofs/Keyring_lemmas.v selects_unspaced relates the two.) *)
Definition hex_digit (c : Z) : Prop := 48 <= c <= 57 \/ 65 <= c <= 70 \/ 97 <= c <= 102.        (* 0-9 A-F a-f *)
Definition id_shape (s : alias) : Prop := (length s = 8 \/ length s = 16 \/ length s = 40)%nat /\ Forall hex_digit s.
Definition selects (i : kinfo) (a : alias) : Prop := carries i a \/ (id_shape (strip a) /\ carries i (strip a)).
(* the reading implemented before commit 48f9d25 (blanks ignored in EVERY identifier): "John Smith" selected a key named "JohnSmith" *)
Definition selects_old (i : kinfo) (a : alias) : Prop := carries i a \/ carries i (strip a).

(* what is loaded after a history: plain set semantics on key objects (a list without repetition, oldest first).
   Loading a key object adds it and its subkeys, as far as they are not there yet (so loading a key whose subkey was unloaded
   on its own brings the subkey back: what load() reports is loaded).  Unloading a loaded key object removes it and, when it is
   a primary key, its subkeys. *)
Definition is_loaded (k : pkid) (S : list kinfo) : bool := existsb (fun i => kid i =? k) S.
Definition add_new (S : list kinfo) (i : kinfo) : list kinfo := if is_loaded (kid i) S then S else S ++ [i].
Definition drop (k : pkid) (S : list kinfo) : list kinfo := filter (fun j => negb (kid j =? k)) S.
Definition spec_step (S : list kinfo) (o : op) : list kinfo :=
  match o with
  | Load (i, subs) => fold_left add_new subs (add_new S i)
  | Unload (i, subs) =>
      if is_loaded (kid i) S
      then (if kprimary i then fold_left (fun S j => drop (kid j) S) subs (drop (kid i) S) else drop (kid i) S)
      else S
  end.
Definition loaded_after (ops : list op) : list kinfo := fold_left spec_step ops [].
(* the reading implemented before commit 7e98898: loading a key object that is already there did nothing at all *)
Definition spec_step_old (S : list kinfo) (o : op) : list kinfo :=
  match o with
  | Load (i, subs) => if is_loaded (kid i) S then S else fold_left add_new subs (S ++ [i])
  | Unload _ => spec_step S o
  end.
Definition loaded_after_old (ops : list op) : list kinfo := fold_left spec_step_old ops [].

(* id() names one object: the key objects occurring in a history under the same label carry the same data (premise of the
   theorems that speak about the fingerprints load() returns; the harness never mutates a key after building it) *)
Definition comps (k : key) : list kinfo := fst k :: snd k.
Definition key_of (o : op) : key := match o with Load k => k | Unload k => k end.
Definition objects (ops : list op) : list kinfo := flat_map (fun o => comps (key_of o)) ops.
Definition objects_consistent (ops : list op) : Prop :=
  forall x y, In x (objects ops) -> In y (objects ops) -> kid x = kid y -> x = y.

(* the index the keyring should represent: all (identifier, key object) pairs of loaded keys *)
Definition spec_pairs (loaded : list kinfo) (p : alias * pkid) : Prop :=
  exists i, In i loaded /\ kid i = snd p /\ carries i (fst p).

(* histories that only load / unload whole transferable keys drawn from a universe of distinct key objects:
   then "loaded" is simply the components of the keys that are currently in *)
Definition live_step (L : list key) (o : op) : list key :=
  match o with
  | Load k => if existsb (fun k' => kid (fst k') =? kid (fst k)) L then L else L ++ [k]
  | Unload k => filter (fun k' => negb (kid (fst k') =? kid (fst k))) L
  end.
Definition live_after (ops : list op) : list key := fold_left live_step ops [].
Definition universe_ok (U : list key) : Prop :=
  NoDup (map kid (flat_map comps U)) /\ forall k, In k U -> kprimary (fst k) = true.

(* ---- abstraction of the layered index ---- *)
Definition abs (ls : layers) : list (alias * pkid) := concat ls.
(* a layer is a dict: at most one entry per alias *)
Definition layer_ok (l : layer) : Prop := NoDup (map fst l).
Definition Inv (ls : layers) : Prop := Forall layer_ok ls.
