(* RFC 4880 section 6 (ASCII armor), transcribed from the RFC text independently of Model/Armor.v.
   6.1  CRC-24 (the C routine crc_octets; `crc24` is a 24-bit quantity, so the accumulator is masked
        with 0xFFFFFF after every octet),
   6.2  armor header line texts,
   6.3  radix-64 encoding told on a 24-bit group,
   6.3  "lines of no more than 76 characters". *)
From Coq Require Import ZArith Bool String Ascii List.
Import ListNotations.
Require Import PV.Lib.Bytes.
Open Scope Z_scope.

(* ---- 6.1 ----
   #define CRC24_INIT 0xB704CEL
   #define CRC24_POLY 0x1864CFBL
   crc24 crc_octets(unsigned char *octets, size_t len) {
       crc24 crc = CRC24_INIT; int i;
       while (len--) {
           crc ^= ( *octets++ ) << 16;
           for (i = 0; i < 8; i++) { crc <<= 1; if (crc & 0x1000000) crc ^= CRC24_POLY; }
       }
       return crc & 0xFFFFFFL;
   } *)
Definition CRC24_INIT : Z := 0xB704CE.
Definition CRC24_POLY : Z := 0x1864CFB.

Definition rfc_crc_step (crc : Z) : Z :=
  let crc := Z.shiftl crc 1 in
  if Z.land crc 0x1000000 =? 0 then crc else Z.lxor crc CRC24_POLY.

Definition rfc_crc_octet (crc o : Z) : Z :=
  Z.land (Nat.iter 8 rfc_crc_step (Z.lxor crc (Z.shiftl o 16))) 0xFFFFFF.

Definition crc24_rfc (octets : bytes) : Z :=
  Z.land (fold_left rfc_crc_octet octets CRC24_INIT) 0xFFFFFF.

(* ---- 6.3 radix-64: a 24-bit group gives four 6-bit values, looked up in the table ---- *)
Definition z_of_string (s : string) : list Z := map (fun a => Z.of_N (N_of_ascii a)) (list_ascii_of_string s).
Definition rfc_alphabet : list Z :=
  Eval vm_compute in z_of_string "ABCDEFGHIJKLMNOPQRSTUVWXYZabcdefghijklmnopqrstuvwxyz0123456789+/".

Definition rfc_b64_char (v : Z) : Z := nth (Z.to_nat v) rfc_alphabet 0.

Fixpoint rfc_b64_enc (p : bytes) : list Z :=
  match p with
  | [] => []
  | [a] =>                        (* 8 bits + 4 zero bits: two characters, then "==" *)
    let n := a * 16 in [rfc_b64_char (n / 64); rfc_b64_char (n mod 64); 61; 61]
  | [a; b] =>                     (* 16 bits + 2 zero bits: three characters, then "=" *)
    let n := (a * 256 + b) * 4 in
    [rfc_b64_char (n / 4096); rfc_b64_char ((n / 64) mod 64); rfc_b64_char (n mod 64); 61]
  | a :: b :: c :: r =>
    let n := a * 65536 + b * 256 + c in
    rfc_b64_char (n / 262144) :: rfc_b64_char ((n / 4096) mod 64) :: rfc_b64_char ((n / 64) mod 64)
      :: rfc_b64_char (n mod 64) :: rfc_b64_enc r
  end.

Definition rfc_max_line : nat := 76.

(* ---- 6.2 armor header line text (after "-----BEGIN PGP " and before "-----") ---- *)
Inductive rfc_block := RPublicKeyBlock | RPrivateKeyBlock | RMessage | RSignature.

Definition rfc_label_public : list Z := Eval vm_compute in z_of_string "PUBLIC KEY BLOCK".
Definition rfc_label_private : list Z := Eval vm_compute in z_of_string "PRIVATE KEY BLOCK".
Definition rfc_label_message : list Z := Eval vm_compute in z_of_string "MESSAGE".
(* detached signatures and the signature part of cleartext messages *)
Definition rfc_label_signature : list Z := Eval vm_compute in z_of_string "SIGNATURE".
Definition rfc_label (b : rfc_block) : list Z :=
  match b with
  | RPublicKeyBlock => rfc_label_public
  | RPrivateKeyBlock => rfc_label_private
  | RMessage => rfc_label_message
  | RSignature => rfc_label_signature
  end.
