(* RFC 4880 section 7 (cleartext signature framework), transcribed independently of Model/Cleartext.v.
   7.1  "Dash-escaped cleartext is the ordinary cleartext where every line starting with a dash '-'
         (0x2D) is prefixed by the sequence dash '-' (0x2D) and space ' ' (0x20)."
   7.1  "As with binary signatures on text documents, a cleartext signature is calculated on the text
         using canonical <CR><LF> line endings.  The line ending (i.e., the <CR><LF>) before the
         '-----BEGIN PGP SIGNATURE-----' line that terminates the signed text is not considered part of
         the signed text."
   7.1  "Also, any trailing whitespace -- spaces (0x20) and tabs (0x09) -- at the end of any line is
         removed when the cleartext signature is generated."
   The text handed to these functions is the message text itself (without the line ending that the
   framework adds in front of the signature block).  A line ends at LF; a CR directly in front of that
   LF belongs to the line ending. *)
From Coq Require Import ZArith Bool List.
Import ListNotations.
Open Scope Z_scope.

(* lines of a text: k line feeds give k+1 lines, the last one unterminated *)
Fixpoint rfc_lines (t : list Z) : list (list Z) :=
  match t with
  | [] => [[]]
  | c :: r =>
    if c =? 10 then [] :: rfc_lines r
    else match rfc_lines r with l :: ls => (c :: l) :: ls | [] => [[c]] end
  end.

Fixpoint rfc_join (sep : list Z) (ls : list (list Z)) : list Z :=
  match ls with
  | [] => []
  | [l] => l
  | l :: r => l ++ sep ++ rfc_join sep r
  end.

(* ---- dash escaping ---- *)
Definition rfc_escape_line (l : list Z) : list Z :=
  match l with
  | c :: _ => if c =? 45 then 45 :: 32 :: l else l
  | [] => l
  end.
Definition rfc_dash_escape (t : list Z) : list Z := rfc_join [10] (map rfc_escape_line (rfc_lines t)).

(* ---- signed octets ---- *)
(* remove trailing SP / TAB *)
Fixpoint rfc_strip_blanks (l : list Z) : list Z :=
  match l with
  | [] => []
  | c :: r =>
    match rfc_strip_blanks r with
    | [] => if (c =? 32) || (c =? 9) then [] else [c]
    | r' => c :: r'
    end
  end.

(* the CR of a CR LF line ending (only for terminated lines) *)
Fixpoint rfc_drop_cr (l : list Z) : list Z :=
  match l with
  | [] => []
  | c :: r => match r with [] => if c =? 13 then [] else [c] | _ => c :: rfc_drop_cr r end
  end.

Fixpoint rfc_line_contents (ls : list (list Z)) : list (list Z) :=
  match ls with
  | [] => []
  | [l] => [l]
  | l :: r => rfc_drop_cr l :: rfc_line_contents r
  end.

Definition canon_rfc71 (t : list Z) : list Z :=
  rfc_join [13; 10] (map rfc_strip_blanks (rfc_line_contents (rfc_lines t))).
