(* RFC 4880 sections 5.1, 5.3, 5.13, 5.14 transcribed from the RFC text, independently of Model/Encrypt.v.
   Octet strings are lists of Z; SHA-1 is a parameter. *)
From Coq Require Import ZArith List.
Import ListNotations.
Open Scope Z_scope.

Definition octets := list Z.

(* 5.1: "the session key is prefixed with a one-octet algorithm identifier ... Then a two-octet checksum is
   appended, which is equal to the sum of the preceding session key octets, not including the algorithm
   identifier, modulo 65536." *)
Definition rfc_checksum (key : octets) : Z := (fold_right Z.add 0 key) mod 65536.
Definition rfc_pkesk_m (alg : Z) (key : octets) : octets :=
  [alg] ++ key ++ [rfc_checksum key / 256; rfc_checksum key mod 256].

(* 5.3: "The decryption result consists of a one-octet algorithm identifier ... followed by the session key
   octets themselves." *)
Definition rfc_skesk_plain (alg : Z) (key : octets) : octets := alg :: key.

Section Sha1.
  Variable SHA1 : octets -> octets.

  (* 5.13: "OpenPGP prefixes an octet string to the data before it is encrypted.  The length of the octet string
     equals the block size of the cipher in octets, plus two.  The first octets in the group, of length equal to
     the block size of the cipher, are random; the last two octets are each copies of their 2nd preceding octet."
     "The input to the hash function includes the prefix data described above; it includes all of the plaintext,
     and then also includes two octets of values 0xD3, 0x14."  "The body of the MDC packet is the 20-octet output
     of the SHA-1 hash."  "The Modification Detection Code packet is appended to the plaintext and encrypted
     along with the plaintext using the same CFB context." *)
  Definition rfc_prefix (random : octets) (bs : nat) : octets :=
    random ++ [nth (bs - 2) random 0; nth (bs - 1) random 0].
  Definition rfc_seipd_plain (random : octets) (bs : nat) (plaintext : octets) : octets :=
    let hashed := rfc_prefix random bs ++ plaintext ++ [211 (* 0xD3 *); 20 (* 0x14 *)] in
    hashed ++ SHA1 hashed.

  (* 5.13/5.14, receiving side: the decrypted octets end in an MDC packet D3 14 || 20 octets, the 20 octets are the
     SHA-1 of everything before them, and octets bs-1, bs (1-based) are repeated at bs+1, bs+2 *)
  Definition rfc_mdc_valid (decrypted : octets) : Prop :=
    exists hashed digest, decrypted = hashed ++ digest /\ length digest = 20%nat /\
      (exists front, hashed = front ++ [211; 20]) /\ digest = SHA1 hashed.
  Definition rfc_quick_check (decrypted : octets) (bs : nat) : Prop :=
    nth (bs - 2) decrypted (-1) = nth bs decrypted (-2) /\ nth (bs - 1) decrypted (-1) = nth (bs + 1) decrypted (-2).
End Sha1.
