(* RFC 4880 section 5.5.3 (Secret-Key Packet Formats), 3.7.1 (S2K specifier octets), 3.2 (MPI), transcribed from the RFC text,
   independently of the PGPy model.

   5.5.3: "A Secret-Key packet contains all the information that is found in a Public-Key packet, including the public-key
   material, but also includes the secret-key material after all the public-key fields.
     - One octet indicating string-to-key usage conventions.  Zero indicates that the secret-key data is not encrypted.
       255 or 254 indicates that a string-to-key specifier is being given.  Any other value is a symmetric-key encryption
       algorithm identifier.
     - [Optional] If string-to-key usage octet was 255 or 254, a one-octet symmetric encryption algorithm.
     - [Optional] If string-to-key usage octet was 255 or 254, a string-to-key specifier.
     - [Optional] If secret data is encrypted (string-to-key usage octet not zero), an Initial Vector (IV) of the same length
       as the cipher's block size.
     - Plain or encrypted multiprecision integers comprising the secret key data.
     - If the string-to-key usage octet is zero or 255, then a two-octet checksum of the plaintext of the algorithm-specific
       portion (sum of all octets, mod 65536).  If the string-to-key usage octet was 254, then a 20-octet SHA-1 hash of the
       plaintext of the algorithm-specific portion.  This checksum or hash is encrypted together with the
       algorithm-specific fields (if string-to-key usage octet is not zero).
   ... With V4 keys, a simpler method is used.  All secret MPI values are encrypted in CFB mode, including the MPI bitcount
   prefix."
   Algorithm-specific secret fields: RSA: d, p, q, u.  DSA: x.  Elgamal: x.  (RFC 6637 / 4880bis: ECDSA, ECDH, EdDSA: one
   MPI, the secret scalar.) *)
From Coq Require Import ZArith List Bool.
Import ListNotations.
Require Import PV.Lib.Bytes.
Open Scope Z_scope.

(* 3.2: two-octet bit count, then the integer big endian in (bits+7)/8 octets *)
Definition rfc_bits (v : Z) : Z := if v <=? 0 then 0 else Z.log2 v + 1.
Definition rfc_mpi_enc (v : Z) : bytes := be 2 (rfc_bits v) ++ be (Z.to_nat ((rfc_bits v + 7) / 8)) v.

(* 3.7.1.1 - 3.7.1.3 *)
Inductive rfc_s2k_spec :=
| RSimple (hash : Z)
| RSalted (hash : Z) (salt : bytes)
| RIterSalted (hash : Z) (salt : bytes) (coded_count : Z).
Definition rfc_s2k_octets (s : rfc_s2k_spec) : bytes :=
  match s with
  | RSimple h => [0; h]
  | RSalted h salt => [1; h] ++ salt
  | RIterSalted h salt c => [3; h] ++ salt ++ [c]
  end.
Definition rfc_s2k_type (s : rfc_s2k_spec) : Z := match s with RSimple _ => 0 | RSalted _ _ => 1 | RIterSalted _ _ _ => 3 end.
Definition rfc_s2k_hash (s : rfc_s2k_spec) : Z := match s with RSimple h => h | RSalted h _ => h | RIterSalted h _ _ => h end.
Definition rfc_s2k_salt (s : rfc_s2k_spec) : bytes := match s with RSimple _ => [] | RSalted _ x => x | RIterSalted _ x _ => x end.
Definition rfc_s2k_count (s : rfc_s2k_spec) : Z := match s with RIterSalted _ _ c => c | _ => 0 end.

(* number of secret MPIs per public-key algorithm id (RFC 4880 9.1, RFC 6637, 4880bis) *)
Definition rfc_nsecret (pkalg : Z) : option nat :=
  match pkalg with
  | 1 | 2 | 3 => Some 4%nat          (* RSA: d, p, q, u *)
  | 16 | 20 => Some 1%nat            (* Elgamal: x *)
  | 17 => Some 1%nat                 (* DSA: x *)
  | 18 | 19 | 22 => Some 1%nat       (* ECDH, ECDSA, EdDSA: the scalar *)
  | _ => None
  end.

Section Prims.
  Variable cfb_enc : Z -> bytes -> bytes -> bytes -> bytes.   (* cipher id, key, IV, data *)
  Variable sha1 : bytes -> bytes.

  (* algorithm-specific portion followed by its hash / checksum *)
  Definition rfc_secret_data (usage : Z) (mpis : list Z) : bytes :=
    let a := concat (map rfc_mpi_enc mpis) in
    a ++ (if usage =? 254 then sha1 a else be 2 (sumz a mod 65536)).

  (* everything after the public-key fields of a V4 secret-key packet; [key] is the key the S2K specifier derives *)
  Definition rfc_secret_part (usage symalg : Z) (s : rfc_s2k_spec) (iv key : bytes) (mpis : list Z) : bytes :=
    if usage =? 0 then [0] ++ rfc_secret_data 0 mpis
    else [usage; symalg] ++ rfc_s2k_octets s ++ iv ++ cfb_enc symalg key iv (rfc_secret_data usage mpis).

  (* 5.5.3, usage octet "any other value": it is the symmetric-key encryption algorithm identifier; no algorithm octet and no
     string-to-key specifier follow, only the IV; (3.7.2.1) the key is the MD5 hash of the passphrase, i.e. a Simple S2K with MD5;
     the two-octet checksum (usage octet not 254) is encrypted together with the algorithm-specific fields *)
  Definition rfc_secret_part_legacy (cipher : Z) (iv key : bytes) (mpis : list Z) : bytes :=
    [cipher] ++ iv ++ cfb_enc cipher key iv (rfc_secret_data cipher mpis).
End Prims.
