(* RFC 4880 3.2 (MPI, emitting direction), 5.5.2 (public-key packet formats, version 4), 12.2 (key ids and
   fingerprints), RFC 6637 sections 6, 9, 11 (ECC point representation, key material, curve OIDs) and
   draft-koch-eddsa-for-openpgp-04 / RFC 4880bis (EdDSA key material, Ed25519 / Curve25519 / Brainpool / secp256k1
   OIDs and the 0x40 native point prefix), transcribed from the RFC text independently of the PGPy model
   (explicit big-endian fields, no int_to_bytes, no lengths computed from nominal sizes).
   Only the data types (curve, ecpoint, pubmat) are shared with the model. *)
From Coq Require Import ZArith List Bool.
Import ListNotations.
Require Import PV.Lib.Bytes PV.Model.KeyPackets.
Open Scope Z_scope.

(* 3.2: "a two-octet scalar that is the length of the MPI in bits followed by a string of octets that contain the
   actual integer ... The length field of an MPI describes the length starting from its most significant non-zero bit" *)
Definition rfc_bits (v : Z) : Z := if v <=? 0 then 0 else Z.log2 v + 1.
Definition rfc_mpi_emit (v : Z) : bytes :=
  be 2 (rfc_bits v) ++ be (Z.to_nat ((rfc_bits v + 7) / 8)) v.

(* RFC 6637 section 11 (+ 4880bis 9.2): "the curve OID ... the sequence of octets that is the ASN.1 DER-encoded OID
   value ... without the type octet and length" — the table of hexadecimal representations *)
Definition rfc_curve_oid (c : curve) : bytes :=
  match c with
  | CP256 => [42; 134; 72; 206; 61; 3; 1; 7]                 (* 2A 86 48 CE 3D 03 01 07 *)
  | CP384 => [43; 129; 4; 0; 34]                             (* 2B 81 04 00 22 *)
  | CP521 => [43; 129; 4; 0; 35]                             (* 2B 81 04 00 23 *)
  | CBP256 => [43; 36; 3; 3; 2; 8; 1; 1; 7]                  (* 2B 24 03 03 02 08 01 01 07 *)
  | CBP384 => [43; 36; 3; 3; 2; 8; 1; 1; 11]                 (* ... 0B *)
  | CBP512 => [43; 36; 3; 3; 2; 8; 1; 1; 13]                 (* ... 0D *)
  | CEd25519 => [43; 6; 1; 4; 1; 218; 71; 15; 1]             (* 2B 06 01 04 01 DA 47 0F 01 *)
  | C25519 => [43; 6; 1; 4; 1; 151; 85; 1; 5; 1]             (* 2B 06 01 04 01 97 55 01 05 01 *)
  | CK1 => [43; 129; 4; 0; 10]                               (* 2B 81 04 00 0A *)
  end.
(* section 9: "a one-octet size of the following field; the octets representing a curve OID" *)
Definition rfc_oid_field (c : curve) : bytes := Z.of_nat (length (rfc_curve_oid c)) :: rfc_curve_oid c.

(* RFC 6637 section 6: "04 || x || y, where x and y are coordinates of the point, each encoded in the big-endian
   format and zero-padded to the adjusted underlying field size", stored as an MPI;
   4880bis 13.3 / EdDSA draft: prefix 0x40 followed by the native octet string, stored as an MPI *)
Definition rfc_point (p : ecpoint) : bytes :=
  match p with
  | EPStd bl x y => rfc_mpi_emit (unbe (4 :: be (Z.to_nat bl) x ++ be (Z.to_nat bl) y))
  | EPNative x => rfc_mpi_emit (unbe (64 :: x))
  end.

(* 5.5.2 algorithm-specific fields; RFC 6637 section 9; KDF parameters: size 3, reserved 1, hash id, cipher id *)
Definition rfc_material (m : pubmat) : bytes :=
  match m with
  | PRSA n e => rfc_mpi_emit n ++ rfc_mpi_emit e
  | PDSA p q g y => rfc_mpi_emit p ++ rfc_mpi_emit q ++ rfc_mpi_emit g ++ rfc_mpi_emit y
  | PElG p g y => rfc_mpi_emit p ++ rfc_mpi_emit g ++ rfc_mpi_emit y
  | PECDSA c pt => rfc_oid_field c ++ rfc_point pt
  | PEdDSA c pt => rfc_oid_field c ++ rfc_point pt
  | PECDH c pt kh ke => rfc_oid_field c ++ rfc_point pt ++ [3; 1; kh; ke]
  | POpaque d => d
  end.

(* 5.5.2: "A one-octet version number (4). A four-octet number denoting the time that the key was created.
   A one-octet number denoting the public-key algorithm of this key. A series of multiprecision integers ..." *)
Definition rfc_pub_body (created alg : Z) (m : pubmat) : bytes :=
  [4] ++ be 4 created ++ [alg] ++ rfc_material m.

Section Rfc_12_2.
Variable sha1 : bytes -> bytes.
(* 12.2: "A V4 fingerprint is the 160-bit SHA-1 hash of the octet 0x99, followed by the two-octet packet length,
   followed by the entire Public-Key packet starting with the version field." *)
Definition rfc_fingerprint (body : bytes) : bytes :=
  sha1 ([153] ++ be 2 (Z.of_nat (length body)) ++ body).
(* "The Key ID is the low-order 64 bits of the fingerprint." — as a number *)
Definition rfc_keyid_value (body : bytes) : Z := unbe (rfc_fingerprint body) mod 2 ^ 64.
End Rfc_12_2.
