(* RFC 4880 sections 11.3 (OpenPGP messages), 5.4 (one-pass signature packets), 5.9 (literal data packets),
   transcribed from the RFC text, independently of the PGPy model (own token type, own decoders). *)
From Coq Require Import ZArith List Bool.
Import ListNotations.
Require Import PV.Lib.Bytes.
Open Scope Z_scope.

(* the packets the grammar speaks about; a compressed data packet is shown with what it decompresses to *)
Inductive tok :=
| TOps (sigtype halg pkalg : Z) (keyid : bytes) (flag : Z)   (* tag 4 *)
| TSig (sigtype halg pkalg : Z) (keyid : bytes)              (* tag 2 *)
| TLit                                                       (* tag 11 *)
| TComp (inner : list tok)                                   (* tag 8 *)
| TPkesk | TSkesk                                            (* tags 1, 3 *)
| TSed | TSeipd                                              (* tags 9, 18 *)
| TOther (tag : Z).

Definition is_esk (t : tok) : Prop := t = TPkesk \/ t = TSkesk.
Definition is_encdata (t : tok) : Prop := t = TSed \/ t = TSeipd.

(* "Corresponding Signature Packet": 5.4 says the one-pass packet holds the signature type, the hash and
   public-key algorithms and the key id of the signature it announces *)
Definition corresponds (o s : tok) : Prop :=
  match o, s with
  | TOps t h a k _, TSig t' h' a' k' => t = t' /\ h = h' /\ a = a' /\ k = k'
  | _, _ => False
  end.
Definition is_sig (t : tok) : Prop := match t with TSig _ _ _ _ => True | _ => False end.

(* 11.3:
   OpenPGP Message :- Encrypted Message | Signed Message | Compressed Message | Literal Message.
   Compressed Message :- Compressed Data Packet.       Literal Message :- Literal Data Packet.
   ESK :- Public-Key Encrypted Session Key Packet | Symmetric-Key Encrypted Session Key Packet.
   ESK Sequence :- ESK | ESK Sequence, ESK.
   Encrypted Data :- Symmetrically Encrypted Data Packet | Symmetrically Encrypted Integrity Protected Data Packet
   Encrypted Message :- Encrypted Data | ESK Sequence, Encrypted Data.
   One-Pass Signed Message :- One-Pass Signature Packet, OpenPGP Message, Corresponding Signature Packet.
   Signed Message :- Signature Packet, OpenPGP Message | One-Pass Signed Message.
   In addition, ... decompressing a Compressed Data packet must yield a valid OpenPGP Message. *)
Inductive Message : list tok -> Prop :=
| M_literal : Message [TLit]
| M_compressed : forall inner, Message inner -> Message [TComp inner]
| M_encrypted : forall esks d, Forall is_esk esks -> is_encdata d -> Message (esks ++ [d])
| M_signed : forall s m, is_sig s -> Message m -> Message (s :: m)
| M_onepass : forall o m s, corresponds o s -> Message m -> Message (o :: m ++ [s]).

(* ---- a decision procedure (one left-to-right pass; pending one-pass packets are kept on a stack) ---- *)
Definition corr (o s : tok) : bool :=
  match o, s with
  | TOps t h a k _, TSig t' h' a' k' => (t =? t') && (h =? h') && (a =? a') && eqb_bytes k k'
  | _, _ => false
  end.
(* the signatures after the data close the pending one-pass packets, innermost (latest) first *)
Fixpoint match_sigs (stack l : list tok) : bool :=
  match stack, l with
  | [], [] => true
  | o :: st, s :: r => corr o s && match_sigs st r
  | _, _ => false
  end.
(* ESK* followed by one encrypted data packet; returns what follows it *)
Fixpoint esk_tail (l : list tok) : option (list tok) :=
  match l with
  | TPkesk :: r => esk_tail r
  | TSkesk :: r => esk_tail r
  | TSed :: r => Some r
  | TSeipd :: r => Some r
  | _ => None
  end.
Fixpoint scan (inner_ok : list tok -> bool) (l : list tok) (stack : list tok) : bool :=
  match l with
  | [] => false
  | TOps t h a k f :: r => scan inner_ok r (TOps t h a k f :: stack)
  | TSig _ _ _ _ :: r => scan inner_ok r stack
  | TLit :: r => match_sigs stack r
  | TComp inner :: r => inner_ok inner && match_sigs stack r
  | TOther _ :: _ => false
  | _ => match esk_tail l with Some r => match_sigs stack r | None => false end
  end.
(* d bounds the nesting of compressed data packets *)
Fixpoint msg_d (d : nat) (l : list tok) : bool :=
  match d with
  | O => scan (fun _ => false) l []
  | S d' => scan (msg_d d') l []
  end.
Fixpoint tok_depth (t : tok) : nat :=
  match t with
  | TComp inner => S (list_max (map tok_depth inner))
  | _ => O
  end.
Definition toks_depth (l : list tok) : nat := list_max (map tok_depth l).
Definition is_message (l : list tok) : bool := msg_d (toks_depth l) l.

(* 5.4: "A zero value indicates that the next packet is another One-Pass Signature packet" *)
Fixpoint ops_flags_ok (l : list tok) : bool :=
  match l with
  | TOps _ _ _ _ f :: r =>
    (if f =? 0 then match r with TOps _ _ _ _ _ :: _ => true | _ => false end else true) && ops_flags_ok r
  | TComp inner :: r => ops_flags_ok r
  | _ :: r => ops_flags_ok r
  | [] => true
  end.

(* ---- 5.4 body: version 3, signature type, hash algorithm, public-key algorithm, 8-octet key id, flag ---- *)
Definition rfc_ops_dec (body : bytes) : option (Z * Z * Z * bytes * Z) :=
  match body with
  | [v; t; h; a; k1; k2; k3; k4; k5; k6; k7; k8; f] =>
    if v =? 3 then Some (t, h, a, [k1; k2; k3; k4; k5; k6; k7; k8], f) else None
  | _ => None
  end.

(* ---- 5.9 body: format octet, one-octet name length, name, four-octet date, the remainder is data ---- *)
Definition rfc_lit_dec (body : bytes) : option (Z * bytes * Z * bytes) :=
  match body with
  | f :: n :: r =>
    if (Z.to_nat n + 4 <=? length r)%nat then
      let name := firstn (Z.to_nat n) r in
      let r1 := skipn (Z.to_nat n) r in
      match r1 with
      | a :: b :: c :: d :: data => Some (f, name, a * 16777216 + b * 65536 + c * 256 + d, data)
      | _ => None
      end
    else None
  | _ => None
  end.
