(* RFC 4880 section 3.7.1 (string-to-key specifiers) transcribed from the RFC text, independently of the PGPy
   model: no division of the stream into "whole copies + a rest"; the stream is the salt+passphrase read cyclically.
   Sizes are in octets here (PGPy computes in bits). *)
From Coq Require Import ZArith List Bool.
Import ListNotations.
Require Import PV.Lib.Bytes PV.Spec.Rfc4880_wire.
Open Scope Z_scope.

(* n items read from `cur`, restarting at the beginning of `l` whenever the end is reached *)
Fixpoint cycle_from {A} (n : nat) (cur l : list A) : list A :=
  match n with
  | O => []
  | S n' =>
    match cur with
    | x :: r => x :: cycle_from n' r l
    | [] => match l with
            | [] => []
            | x :: r => x :: cycle_from n' r l
            end
    end
  end.
(* "the salt+passphrase is repeatedly hashed until `n` octets have been hashed" *)
Definition cycle_take {A} (n : nat) (l : list A) : list A := cycle_from n l l.

(* 3.7.1: "If the hash size is less than the key size, multiple instances of the hash context are created --
   enough to produce the required key data": the least n with n * hash_octets >= key_octets *)
Definition rfc_contexts (key_octets hash_octets : Z) : Z :=
  if key_octets mod hash_octets =? 0 then key_octets / hash_octets else key_octets / hash_octets + 1.

Section RfcS2K.
Variable H : Z -> bytes -> bytes.     (* hash algorithm id (9.4), data -> digest *)
Variable hlen : Z -> Z.               (* digest size in octets *)

(* the octets given to each hash context *)
Definition rfc_hashed_octets (spec : Z) (salt : bytes) (c : Z) (pass : bytes) : bytes :=
  if spec =? 0 then pass                                   (* 3.7.1.1 simple: the passphrase *)
  else if spec =? 1 then salt ++ pass                      (* 3.7.1.2 salted: salt then passphrase *)
  else                                                     (* 3.7.1.3 iterated and salted *)
    let sp := salt ++ pass in
    (* count octets in all; "if the octet count is less than the size of the salt plus passphrase, the full
       salt plus passphrase will be hashed" *)
    cycle_take (Nat.max (Z.to_nat (rfc_count c)) (length sp)) sp.

(* contexts preloaded with 0, 1, 2, ... zero octets; digests concatenated, first hash leftmost;
   excess octets on the right discarded *)
Definition rfc_s2k (spec halg key_octets : Z) (salt : bytes) (c : Z) (pass : bytes) : bytes :=
  let data := rfc_hashed_octets spec salt c pass in
  firstn (Z.to_nat key_octets)
    (concat (map (fun i => H halg (repeat 0 i ++ data)) (seq 0 (Z.to_nat (rfc_contexts key_octets (hlen halg)))))).
End RfcS2K.
