(* RFC 4880 section 5.2.4 "Computing Signatures" (and rfc4880bis for type 0x16), transcribed from the
   RFC text independently of Model/HashData.v: lengths are written with the fixed-width `be`. *)
From Coq Require Import ZArith List Bool.
Import ListNotations.
Require Import PV.Lib.Bytes PV.Model.HashData.
Open Scope Z_scope.

(* "the document is canonicalized by converting line endings to <CR><LF>":
   split at LF, drop one CR before it, join with CR LF *)
Fixpoint split_lf (cur : bytes) (d : bytes) : list bytes :=
  match d with
  | [] => [rev cur]
  | x :: r => if x =? 10 then rev cur :: split_lf [] r else split_lf (x :: cur) r
  end.
Fixpoint strip_cr (l : bytes) : bytes :=      (* drop one CR at the very end of the line *)
  match l with
  | [] => []
  | x :: r => match r with [] => if x =? 13 then [] else [x] | _ => x :: strip_cr r end
  end.
Fixpoint join_crlf (ls : list bytes) : bytes :=
  match ls with
  | [] => []
  | [l] => l
  | l :: r => l ++ [13; 10] ++ join_crlf r
  end.
(* every line but the last had a line ending (LF), so only those lose a CR *)
Fixpoint strip_all_but_last (ls : list bytes) : list bytes :=
  match ls with
  | [] => []
  | [l] => [l]
  | l :: r => strip_cr l :: strip_all_but_last r
  end.
Definition rfc_canon (d : bytes) : bytes := join_crlf (strip_all_but_last (split_lf [] d)).

(* "the hash data starts with the octet 0x99, followed by a two-octet length of the key, and then body of the key packet" *)
Definition rfc_key (kb : bytes) : bytes := [153] ++ be 2 (Z.of_nat (length kb)) ++ kb.
(* "the constant 0xB4 for User ID certifications or the constant 0xD1 for User Attribute certifications,
    followed by a four-octet number giving the length of the User ID or User Attribute data, and then the data" *)
Definition rfc_uid (marker : Z) (u : bytes) : bytes := [marker] ++ be 4 (Z.of_nat (length u)) ++ u.

Definition rfc_body (t : Z) (s : subject) : option bytes :=
  match s with
  | SDoc d => if t =? 0 then Some d else if t =? 1 then Some (rfc_canon d)
              else if existsb (Z.eqb t) [2; 64; 80] then Some [] else None
  | SUid kb u => if existsb (Z.eqb t) [16; 17; 18; 19; 22; 48] then Some (rfc_key kb ++ rfc_uid 180 u)
                 else if existsb (Z.eqb t) [2; 64; 80] then Some [] else None
  | SUattr kb ua => if existsb (Z.eqb t) [16; 17; 18; 19; 22; 48] then Some (rfc_key kb ++ rfc_uid 209 ua)
                    else if existsb (Z.eqb t) [2; 64; 80] then Some [] else None
  | SSubkey pb sb => if existsb (Z.eqb t) [24; 25; 40] then Some (rfc_key pb ++ rfc_key sb)
                     else if existsb (Z.eqb t) [2; 64; 80] then Some [] else None
  | SKey kb => if existsb (Z.eqb t) [31; 32] then Some (rfc_key kb)
               else if existsb (Z.eqb t) [2; 64; 80] then Some [] else None
  end.

(* "A V4 signature hashes the packet body starting from its first field, the version number, through the end of
    the hashed subpacket data ... V4 signatures also hash in a final trailer of six octets: the version of the
    Signature packet, i.e., 0x04; 0xFF; and a four-octet, big-endian number that is the length of the hashed data
    from the Signature packet" *)
Definition rfc_trailer (f : sigfields) : bytes :=
  let hashed_part := [sf_ver f; sf_type f; sf_pkalg f; sf_halg f] ++ sf_hashed f in
  hashed_part ++ [4; 255] ++ be 4 (Z.of_nat (length hashed_part)).

Definition rfc_hashdata (f : sigfields) (s : subject) : option bytes :=
  match rfc_body (sf_type f) s with Some b => Some (b ++ rfc_trailer f) | None => None end.
