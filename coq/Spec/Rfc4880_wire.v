(* RFC 4880 sections 3.2, 3.5, 3.7.1.3, 4.2, 5.2.3.1 transcribed from the RFC text,
   independently of the PGPy model (arithmetic written with * / mod, not masks). *)
From Coq Require Import ZArith List Bool.
Import ListNotations.
Require Import PV.Lib.Bytes.
Open Scope Z_scope.

(* 4.2.2: new-format body length. result: (length, partial?, rest) *)
Definition rfc_new_len (b : bytes) : option (Z * bool * bytes) :=
  match b with
  | o1 :: r =>
    if o1 <? 192 then Some (o1, false, r)                       (* 4.2.2.1 *)
    else if o1 <? 224 then
      match r with
      | o2 :: r' => Some ((o1 - 192) * 256 + o2 + 192, false, r')  (* 4.2.2.2 *)
      | [] => None end
    else if o1 <? 255 then Some (2 ^ (o1 mod 32), true, r)     (* 4.2.2.4 *)
    else match r with
      | a :: b' :: c :: d :: r' => Some (a * 16777216 + b' * 65536 + c * 256 + d, false, r')  (* 4.2.2.3 *)
      | _ => None end
  | [] => None
  end.

(* 5.2.3.1: signature subpacket length (no partial form) *)
Definition rfc_sub_len (b : bytes) : option (Z * bytes) :=
  match b with
  | o1 :: r =>
    if o1 <? 192 then Some (o1, r)
    else if o1 <? 255 then
      match r with
      | o2 :: r' => Some ((o1 - 192) * 256 + o2 + 192, r')
      | [] => None end
    else match r with
      | a :: b' :: c :: d :: r' => Some (a * 16777216 + b' * 65536 + c * 256 + d, r')
      | _ => None end
  | [] => None
  end.

(* 4.2.1: old-format lengths: length type 0,1,2 -> 1,2,4 octets big endian *)
Definition rfc_old_len (lentype : Z) (b : bytes) : option (Z * bytes) :=
  let n := if lentype =? 0 then 1%nat else if lentype =? 1 then 2%nat else 4%nat in
  if (length b <? n)%nat then None else Some (unbe (firstn n b), skipn n b).

(* 3.2: MPI = two-octet bit count, then (bits+7)/8 octets, big endian *)
Definition rfc_mpi (b : bytes) : option (Z * bytes) :=
  match b with
  | h :: l :: r =>
    let bits := h * 256 + l in
    let n := Z.to_nat ((bits + 7) / 8) in
    if (length r <? n)%nat then None else Some (unbe (firstn n r), skipn n r)
  | _ => None
  end.

(* 3.7.1.3: count = (16 + (c & 15)) << ((c >> 4) + 6) *)
Definition rfc_count (c : Z) : Z := (16 + c mod 16) * 2 ^ (c / 16 + 6).
