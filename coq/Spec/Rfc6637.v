(* RFC 6637 sections 7 and 8 transcribed from the RFC text, independently of Model/Encrypt.v. *)
From Coq Require Import ZArith List Ascii.
Import ListNotations.
Open Scope Z_scope.

Definition octets := list Z.
(* text as a list of characters (Coq's string type is avoided: its extraction would shadow OCaml's) *)
Definition ascii_octets (s : list ascii) : octets := map (fun c => Z.of_nat (nat_of_ascii c)) s.
Definition anonymous_sender : list ascii :=
  ["A"; "n"; "o"; "n"; "y"; "m"; "o"; "u"; "s"; " "; "S"; "e"; "n"; "d"; "e"; "r"; " "; " "; " "; " "]%char.

(* 8: "Param = curve_OID_len || curve_OID || public_key_alg_ID || 03 || 01 || KDF_hash_ID || KEK_alg_ID for
   AESKeyWrap || "Anonymous Sender    " || recipient_fingerprint;"  -- public_key_alg_ID is 18 (ECDH);
   the quoted string is 20 octets: "Anonymous Sender" followed by four spaces *)
Definition rfc_param (curve_oid : octets) (kdf_hash_id kek_alg_id : Z) (recipient_fingerprint : octets) : octets :=
  [Z.of_nat (List.length curve_oid)] ++ curve_oid ++ [18] ++ [3] ++ [1] ++ [kdf_hash_id] ++ [kek_alg_id]
  ++ ascii_octets anonymous_sender ++ recipient_fingerprint.

(* 7: "MB = Hash ( 00 || 00 || 00 || 01 || ZB || Param ); return oBits leftmost bits of MB."
   (one hash invocation: the KEK is never longer than the digest for the permitted parameter sets) *)
Definition rfc_kdf (Hash : octets -> octets) (ZB : octets) (okeylen : nat) (Param : octets) : octets :=
  firstn okeylen (Hash ([0; 0; 0; 1] ++ ZB ++ Param)).

(* 8: "m = symm_alg_ID || session key || checksum || pkcs5_padding;" ... "the PKCS5 padding ... the value
   of each added octet equals the number of octets added; the result is a multiple of 8 octets, at least one
   octet is always added" *)
Definition rfc_pad8 (m : octets) : octets :=
  let n := 8 - Z.of_nat (List.length m) mod 8 in m ++ repeat n (Z.to_nat n).
Definition rfc_padded_ok (padded : octets) (m : octets) : Prop :=
  exists n, 1 <= n <= 8 /\ padded = m ++ repeat n (Z.to_nat n) /\ (Z.of_nat (List.length padded)) mod 8 = 0.

(* 8, receiving side: "the PKCS5 padding" in general -- some octets were added, at least one, each with the value of
   their number.  The amount is NOT bounded by 8: "This encoding allows the sender to obfuscate the size of the symmetric
   encryption key used to encrypt the data.  For example, assuming that an AES algorithm is used for the session key, the
   sender MAY use 21, 13, and 5 bytes of padding for AES-128, AES-192, and AES-256, respectively, to provide the same
   number of octets, 40 total, as an input to the key wrapping method." *)
Definition rfc_pkcs5_padded (padded : octets) (m : octets) : Prop :=
  exists n, 1 <= n /\ padded = m ++ repeat n (Z.to_nat n).
(* the obfuscating sender of that example: pad to 40 octets in total *)
Definition rfc_pad40 (m : octets) : octets :=
  let n := 40 - Z.of_nat (List.length m) in m ++ repeat n (Z.to_nat n).

(* 8: "Output (MPI(VB) || len(C) || C)" -- the field that follows the MPI *)
Definition rfc_wrapped_field (C : octets) : octets := [Z.of_nat (List.length C)] ++ C.
