import warnings, sys
warnings.simplefilter('ignore')
import pgpy
from pgpy.constants import *
from pgpy.types import Header as H
from pgpy.packet.types import Header as PH
from pgpy.packet.subpackets.types import Header as SH
from pgpy.packet import Packet

# C17: exact-set membership
for v in [SecurityIssues.Expired, SecurityIssues.Expired|SecurityIssues.InsecureCurve, SecurityIssues.WrongSig|SecurityIssues.HashFunctionNotCollisionResistant, SecurityIssues.Expired|SecurityIssues.Revoked]:
    print('C17', repr(v), v.causes_signature_verify_to_fail)

# C09: old-format header growth
h = PH()
h.parse(bytearray(b'\x88\x05hello'))   # old fmt tag 2, 1-octet len
print('old hdr', h._lenfmt, h.llen, h.length, bytes(h.__bytearray__()).hex())
h.length = 300
print('after grow', bytes(h.__bytearray__()).hex(), 'len(h)=', len(h))

# subpacket 2-octet length >= 8384 (first octet 224..254)
# RFC: ((1st-192)<<8)+2nd+192 ; first=0xE0(224), second=0 -> 8384
sh = SH()
buf = bytearray(b'\xe0\x00\x02') + bytearray(9000)
try:
    sh.parse(buf)
    print('subpkt len parsed', sh.length, 'expected', ((0xe0-192)<<8)+0+192)
except Exception as e:
    print('subpkt parse exc', repr(e))

# Boolean subpacket parse
from pgpy.packet.subpackets import Signature as SP
sp = SP(bytearray(b'\x02\x04\x01'))
print('Exportable parsed', type(sp).__name__, sp.bflag, bytes(sp.__bytearray__()).hex())
# Features 0x07
sp = SP(bytearray(b'\x02\x1e\x07'))
print('Features parsed', sp.flags, bytes(sp.__bytearray__()).hex())
# KeyFlags two octets
sp = SP(bytearray(b'\x03\x1b\x01\x02'))
print('KeyFlags 2 octets', sp.flags, bytes(sp.__bytearray__()).hex())
# policy URI with >=0x80
sp = SP(bytearray(b'\x03\x1a\xc3\xa9'))
print('Policy utf8', repr(sp.uri), bytes(sp.__bytearray__()).hex())
# noncanonical length: 5-octet length for small body
sp = SP(bytearray(b'\xff\x00\x00\x00\x05\x02\x00\x00\x00\x01'))
print('5-octet len', type(sp).__name__, bytes(sp.__bytearray__()).hex())
# S2K simple, empty pass
from pgpy.packet.fields import String2Key
s = String2Key(); s.usage=255; s.encalg=SymmetricKeyAlgorithm.AES128; s.specifier=0; s.halg=HashAlgorithm.SHA1
try:
    print('s2k empty', s.derive_key(b'').hex())
except Exception as e:
    print('s2k empty exc', repr(e))
