import warnings, sys, copy, random, traceback, time
warnings.simplefilter('ignore')
from datetime import datetime, timedelta, timezone
import pgpy
from pgpy import PGPKey, PGPUID
from pgpy.constants import *
ED=(PubKeyAlgorithm.EdDSA, EllipticCurveOID.Ed25519)
CV=(PubKeyAlgorithm.ECDH, EllipticCurveOID.Curve25519)
T0=datetime(2021,1,1,tzinfo=timezone.utc)
FLAGSETS=[{KeyFlags.Sign,KeyFlags.Certify},{KeyFlags.Certify},{KeyFlags.Sign},{KeyFlags.EncryptCommunications,KeyFlags.Certify},{KeyFlags.Authentication,KeyFlags.Certify}]
def run(seed, same_time, nsteps=12):
    rnd=random.Random(seed)
    clock=[0]
    def now():
        if not same_time or rnd.random()<0.5: clock[0]+=1
        return T0+timedelta(seconds=clock[0])
    other = PGPKey.new(*ED, created=T0); other.add_uid(PGPUID.new('Other'), usage={KeyFlags.Sign,KeyFlags.Certify}, hashes=[HashAlgorithm.SHA256], created=T0)
    k = PGPKey.new(*ED, created=T0)
    model={'uids':{}, 'removed':set(), 'subs':[], 'revoked_uids':set(), 'revoked_subs':set(), 'key_revoked':False}
    hist=[]
    def add_uid():
        n='u%d'%len(model['uids'])+('r' if False else '')
        while n in model['uids'] or n in model['removed']: n+='x'
        fl=rnd.choice(FLAGSETS); t=now()
        k.add_uid(PGPUID.new(n), usage=set(fl), hashes=[HashAlgorithm.SHA256], created=t)
        model['uids'][n]=set(fl); hist.append(('add_uid',n,sorted(f.name for f in fl)))
    add_uid()
    ops=['add_uid','recert','third','revoke_uid','add_sub','revoke_sub','del_uid','pubkey','copy','reimport','revoke_key']
    problems=[]
    for step in range(nsteps):
        op=rnd.choice(ops)
        try:
            if op=='add_uid': add_uid()
            elif op=='recert' and model['uids']:
                n=rnd.choice(sorted(model['uids'])); fl=rnd.choice(FLAGSETS); t=now()
                u=k.get_uid(n); u |= k.certify(u, SignatureType.Positive_Cert, usage=set(fl), hashes=[HashAlgorithm.SHA256], created=t)
                model['uids'][n]=set(fl); hist.append(('recert',n,sorted(f.name for f in fl)))
            elif op=='third' and model['uids']:
                n=rnd.choice(sorted(model['uids'])); u=k.get_uid(n); u |= other.certify(u, created=now()); hist.append(('third',n))
            elif op=='revoke_uid' and model['uids']:
                n=rnd.choice(sorted(model['uids'])); u=k.get_uid(n); u |= k.revoke(u, created=now()); model['revoked_uids'].add(n); model['uids'][n]=set(); hist.append(('revoke_uid',n))
            elif op=='add_sub' and len(model['subs'])<2:
                alg=rnd.choice([ED,CV]); sk=PGPKey.new(*alg, created=T0)
                usage={KeyFlags.Sign} if alg==ED else {KeyFlags.EncryptCommunications}
                k.add_subkey(sk, usage=usage, created=now()); model['subs'].append(sk.fingerprint.keyid); hist.append(('add_sub',alg[0].name))
            elif op=='revoke_sub' and model['subs']:
                kid=rnd.choice(model['subs']); sk=k.subkeys[kid]; sk |= k.revoke(sk, created=now()); model['revoked_subs'].add(kid); hist.append(('revoke_sub',kid[-4:]))
            elif op=='del_uid' and len(model['uids'])>1:
                n=rnd.choice(sorted(model['uids'])); k.del_uid(n); del model['uids'][n]; model['removed'].add(n); model['revoked_uids'].discard(n); hist.append(('del_uid',n))
            elif op=='pubkey': _=k.pubkey; hist.append(('pubkey',))
            elif op=='copy': k=copy.copy(k); hist.append(('copy',))
            elif op=='reimport': k=PGPKey.from_blob(bytes(k))[0]; hist.append(('reimport',))
            elif op=='revoke_key' and not model['key_revoked'] and rnd.random()<0.3:
                k |= k.revoke(k, created=now()); model['key_revoked']=True; hist.append(('revoke_key',))
            else: continue
        except Exception as e:
            problems.append(('EXC', op, type(e).__name__, str(e)[:80])); break
        # --- checks
        for label, obj in (('priv',k), ('pub',k.pubkey), ('reimp', PGPKey.from_blob(bytes(k.pubkey))[0])):
            try:
                pub = obj if obj.is_public else obj.pubkey
                res = pub.verify(obj)
                bad=[(s.signature.type.name) for s in res.bad_signatures]
                mine=[s for s in res._subjects]
                if not res: problems.append(('VERIFY', label, bad))
            except Exception as e:
                problems.append(('VEXC', label, type(e).__name__, str(e)[:80]))
            names={u.name for u in obj.userids}
            if names!=set(model['uids']): problems.append(('UIDS', label, sorted(names), sorted(model['uids'])))
            for u in obj.userids:
                if u.name in model['uids'] and u.selfsig is not None:
                    if set(u.selfsig.key_flags)!=model['uids'][u.name]: problems.append(('FLAGS', label, u.name, sorted(f.name for f in u.selfsig.key_flags), sorted(f.name for f in model['uids'][u.name])))
                elif u.selfsig is None: problems.append(('NOSELFSIG', label, u.name))
                rev = any(s.type==SignatureType.CertRevocation for s in u._signatures)
                if rev != (u.name in model['revoked_uids']): problems.append(('UIDREV', label, u.name, rev))
            if set(obj.subkeys)!=set(model['subs']): problems.append(('SUBS', label, len(obj.subkeys), len(model['subs'])))
            for kid, sk in obj.subkeys.items():
                rev = bool(list(sk.revocation_signatures))
                if rev != (kid in model['revoked_subs']): problems.append(('SUBREV', label, kid[-4:], rev))
            if bool(list(obj.revocation_signatures)) != model['key_revoked']: problems.append(('KEYREV', label))
        if problems: break
    return problems, hist
found={}
t=time.time(); n=0
for same in (False, True):
    for seed in range(1200):
        pr, h = run(seed, same); n+=1
        for p in pr:
            key=(p[0],)+((p[1],) if p[0] in ('EXC','VEXC') else ())+( (p[2],) if p[0] in ('EXC','VEXC') else ())
            if key not in found: found[key]=(same, seed, p, h)
print('walks', n, 'time', round(time.time()-t,1))
for k,v in found.items(): print(k, '\n   ', v[0], v[1], v[2], '\n    hist', v[3][-8:])
