import warnings, sys, copy
warnings.simplefilter('ignore')
from datetime import datetime, timedelta, timezone
import pgpy
from pgpy import PGPKey, PGPUID, PGPSignature, PGPMessage
from pgpy.constants import *
from pgpy.packet import Packet
ED=(PubKeyAlgorithm.EdDSA, EllipticCurveOID.Ed25519)
T=datetime(2021,1,1,tzinfo=timezone.utc)
k = PGPKey.new(*ED, created=T)
k.add_uid(PGPUID.new('Alice', email='a@example.com'), usage={KeyFlags.Sign, KeyFlags.Certify}, hashes=[HashAlgorithm.SHA256], ciphers=[SymmetricKeyAlgorithm.AES256], compression=[CompressionAlgorithm.ZIP], created=T, key_expiration=timedelta(days=36500))
pub = k.pubkey
def region_map(raw):
    # returns list of (name, start, end) for v4 sig packet with new-format 1-octet length
    hl = 2 if raw[1] < 192 else 3
    p = hl
    out=[('hdr',0,hl),('ver',p,p+1),('type',p+1,p+2),('pkalg',p+2,p+3),('halg',p+3,p+4)]
    p+=4
    n=int.from_bytes(raw[p:p+2],'big'); out.append(('hlen',p,p+2)); out.append(('hashed',p+2,p+2+n)); p+=2+n
    n=int.from_bytes(raw[p:p+2],'big'); out.append(('ulen',p,p+2)); out.append(('unhashed',p+2,p+2+n)); p+=2+n
    out.append(('hash2',p,p+2)); p+=2
    out.append(('mpis',p,len(raw)))
    return out
def sweep(label, sig, subject_fn):
    raw = bytes(sig)
    regs = region_map(raw)
    acc = {}
    for i in range(len(raw)):
        for b in range(8):
            m = bytearray(raw); m[i]^=(1<<b)
            reg = next(n for n,s,e in regs if s<=i<e)
            try:
                s2 = PGPSignature.from_blob(bytes(m))
                ok = bool(pub.verify(subject_fn(), s2))
            except Exception as e:
                ok = False
            if ok: acc.setdefault(reg, []).append((i-next(s for n,s,e in regs if n==reg), b))
    print(label, 'len', len(raw), {r:len(v) for r,v in acc.items()})
    for r,v in acc.items():
        if r not in ('hash2','unhashed'): print('   accepted flips in', r, v[:12])
    return raw, regs
sig = k.sign('hello world', created=T, notation={'n@example.com':'v'}, policy_uri='http://x', expires=timedelta(days=3650))
raw, regs = sweep('binary doc sig', sig, lambda: 'hello world')
hs = next((s,e) for n,s,e in regs if n=='hashed'); print('   hashed area:', raw[hs[0]:hs[1]].hex())
u = k.userids[0]
ss = u.selfsig
raw, regs = sweep('uid selfsig', ss, lambda: pub.userids[0])
hs = next((s,e) for n,s,e in regs if n=='hashed'); print('   hashed area:', raw[hs[0]:hs[1]].hex())
