import warnings, sys
warnings.simplefilter('ignore')
import pgpy
from pgpy import PGPKey, PGPUID, PGPMessage
from pgpy.constants import *
from pgpy.packet import Packet
m = PGPMessage.new('attack at dawn', compression=CompressionAlgorithm.Uncompressed)
def walk(raw):
    out=[]; data=bytearray(raw); off=0
    while data:
        before=len(data); p=Packet(data); n=before-len(data); out.append((int(p.header.tag), off, off+n)); off+=n
    return out
def sweep(label, enc, dec):
    raw=bytes(enc); regs=walk(raw); acc={}; diff={}
    for i in range(len(raw)):
        tag=next(t for t,s,e in regs if s<=i<e)
        for b in range(8):
            mm=bytearray(raw); mm[i]^=1<<b
            try:
                em=PGPMessage.from_blob(bytes(mm)); d=dec(em)
                if d.message=='attack at dawn' or d.message==bytearray(b'attack at dawn'): acc.setdefault(tag,[]).append((i-next(s for t,s,e in regs if t==tag),b))
                else: diff.setdefault(tag,[]).append((i,b,repr(d.message)[:30]))
            except Exception as e:
                pass
    print(label, 'len', len(raw), 'packets', regs, '\n   same-plaintext flips:', {t:v[:10] for t,v in acc.items()}, '\n   DIFFERENT plaintext:', diff)
e1 = m.encrypt('pw', cipher=SymmetricKeyAlgorithm.AES128)
sweep('passphrase', e1, lambda em: em.decrypt('pw'))
k = PGPKey.new(PubKeyAlgorithm.ECDH, EllipticCurveOID.Curve25519)
pk = PGPKey.new(PubKeyAlgorithm.EdDSA, EllipticCurveOID.Ed25519)
pk.add_uid(PGPUID.new('P'), usage={KeyFlags.Sign}, ciphers=[SymmetricKeyAlgorithm.AES128], hashes=[HashAlgorithm.SHA256])
pk.add_subkey(k, usage={KeyFlags.EncryptCommunications})
e2 = pk.pubkey.encrypt(m, cipher=SymmetricKeyAlgorithm.AES128)
sweep('ecdh', e2, lambda em: pk.decrypt(em))
