import warnings, sys, hashlib, os
warnings.simplefilter('ignore')
from datetime import datetime, timedelta, timezone
import pgpy
from pgpy import PGPKey, PGPUID, PGPMessage, PGPSignature
from pgpy.constants import *
from pgpy.packet import Packet
from pgpy.types import Armorable
T=datetime(2021,1,1,tzinfo=timezone.utc)
specs=[(PubKeyAlgorithm.EdDSA, EllipticCurveOID.Ed25519),(PubKeyAlgorithm.ECDSA, EllipticCurveOID.NIST_P256),(PubKeyAlgorithm.ECDSA, EllipticCurveOID.NIST_P521),(PubKeyAlgorithm.ECDSA, EllipticCurveOID.SECP256K1),(PubKeyAlgorithm.RSAEncryptOrSign, 2048),(PubKeyAlgorithm.ECDH, EllipticCurveOID.Curve25519),(PubKeyAlgorithm.ECDH, EllipticCurveOID.NIST_P384)]
def pkts(raw):
    data=bytearray(raw); out=[]
    while data:
        n0=len(data); p=Packet(data); out.append((p, bytes(raw[len(raw)-n0:len(raw)-len(data)])))
    return out
for alg,size in specs:
    for created in (T, datetime(1970,1,1,0,0,1,tzinfo=timezone.utc), datetime(2021,6,1,12,0,0,tzinfo=timezone(timedelta(hours=5,minutes=30))), datetime.fromtimestamp(2**32-1, timezone.utc)):
        try:
            k=PGPKey.new(alg,size,created=created)
        except Exception as e:
            print('gen fail', alg.name, size, type(e).__name__); break
        pub=k.pubkey
        body=bytes(pub._key.__bytearray__())[len(pub._key.header):]
        fp=hashlib.sha1(b'\x99'+len(body).to_bytes(2,'big')+body).hexdigest().upper()
        ok = (fp==str(k.fingerprint)==str(pub.fingerprint))
        # reparse packet
        raw=bytes(k._key.__bytearray__()); q=Packet(bytearray(raw+b'\xde\xad')); rt = bytes(q.__bytearray__())==raw
        ts=int.from_bytes(body[1:5],'big')
        if not (ok and rt): print('C18/C08 FAIL', alg.name, size, created, ok, rt)
    else:
        print('ok', alg.name, size)
# C10: armor sweep with an Armorable subclass
class Blob(Armorable):
    magic='MESSAGE'
    def __init__(self,b): super().__init__(); self.b=b
    def __bytes__(self): return self.b
    def __bytearray__(self): return bytearray(self.b)
    def parse(self, p): pass
bad=0
for n in list(range(1,400))+[1000,3000]:
    for pat in (b'\x00', b'\xff', None):
        b = os.urandom(n) if pat is None else pat*n
        s=str(Blob(b))
        for variant in (s, s.replace('\n','\r\n'), 'junk before\n'+s+'junk after\n'):
            with warnings.catch_warnings(record=True) as w:
                warnings.simplefilter('always')
                d=Armorable.ascii_unarmor(bytearray(variant,'latin-1'))
            if bytes(d['body'])!=b or d['magic']!='MESSAGE' or any('crc' in str(x.message).lower() for x in w) or max(len(l) for l in s.split('\n'))>76:
                bad+=1; print('C10 FAIL n=%d'%n, variant[:30]); break
print('C10 armor sweep bad:', bad)
