import warnings, sys, copy
warnings.simplefilter('ignore')
from datetime import datetime, timedelta, timezone
import pgpy
from pgpy import PGPKey, PGPUID, PGPMessage, PGPSignature, PGPKeyring
from pgpy.constants import *
from pgpy.packet import Packet

def mk(alg, size, name, created=None, **kw):
    k = PGPKey.new(alg, size, created=created)
    u = PGPUID.new(name, email=name.lower()+'@example.com')
    d = dict(usage={KeyFlags.Sign, KeyFlags.Certify}, hashes=[HashAlgorithm.SHA256], ciphers=[SymmetricKeyAlgorithm.AES256], compression=[CompressionAlgorithm.ZIP])
    d.update(kw)
    k.add_uid(u, **d)
    return k

# C17: expired key, Ed25519 vs NIST P-256
old = datetime.now(timezone.utc) - timedelta(days=10)
for alg, size in [(PubKeyAlgorithm.EdDSA, EllipticCurveOID.Ed25519), (PubKeyAlgorithm.ECDSA, EllipticCurveOID.NIST_P256)]:
    k = mk(alg, size, 'Exp', created=old, key_expiration=timedelta(days=1))
    sig = k.sign('hello')
    print('C17', alg.name, 'expired=', k.is_expired, 'verify->', bool(k.pubkey.verify('hello', sig)))

# C20: OPS flags for 1,2,3 signers
keys = [mk(PubKeyAlgorithm.EdDSA, EllipticCurveOID.Ed25519, 'K%d'%i) for i in range(3)]
for n in (1,2,3):
    m = PGPMessage.new('hi', compression=CompressionAlgorithm.Uncompressed)
    for i,k in enumerate(keys[:n]):
        m |= k.sign(m, created=datetime(2020,1,1+i,tzinfo=timezone.utc))
    data = bytearray(bytes(m))
    flags = []
    tags = []
    while data:
        p = Packet(data)
        tags.append(int(p.header.tag))
        if p.header.tag == 4:
            flags.append((p.signer[-4:], bytes(p.__bytearray__())[-1]))
        if p.header.tag == 2:
            flags.append(('sig', p.signer[-4:]))
    print('C20 n=%d'%n, tags, flags)
