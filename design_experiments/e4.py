import warnings, sys, copy, glob, traceback
warnings.simplefilter('ignore')
from datetime import datetime, timedelta, timezone
import pgpy
from pgpy import PGPKey, PGPUID, PGPMessage, PGPSignature, PGPKeyring
from pgpy.constants import *
from pgpy.packet import Packet

def mk(alg, size, name, created=None, **kw):
    k = PGPKey.new(alg, size, created=created)
    u = PGPUID.new(name, email=name.lower()+'@example.com')
    d = dict(usage={KeyFlags.Sign, KeyFlags.Certify}, hashes=[HashAlgorithm.SHA256], ciphers=[SymmetricKeyAlgorithm.AES256], compression=[CompressionAlgorithm.ZIP])
    d.update(kw)
    k.add_uid(u, **d)
    return k
ED=(PubKeyAlgorithm.EdDSA, EllipticCurveOID.Ed25519)
k = mk(*ED, 'Alice')

# C11
for text in ['hello\n- dash\n-----BEGIN PGP SIGNATURE-----\nFrom me', 'trailing  \nx\t\n', 'café', 'snow ☃', 'a\r\nb', 'a\rb', '', 'x\n', '\U0001F600']:
    try:
        m = PGPMessage.new(text, cleartext=True)
        m |= k.sign(m)
        s = str(m)
        try:
            m2 = PGPMessage.from_blob(s)
        except Exception as e:
            try:
                m2 = PGPMessage.from_blob(s.encode('utf-8'))
                print('C11', repr(text), 'from_blob(str) failed', type(e).__name__, '; bytes ok')
            except Exception as e2:
                print('C11', repr(text), 'from_blob failed both:', type(e).__name__, type(e2).__name__, e2)
                continue
        print('C11', repr(text), 'same text:', m2.message == text, repr(m2.message)[:40], 'verify:', bool(k.pubkey.verify(m2)))
    except Exception as e:
        print('C11', repr(text), 'EXC', type(e).__name__, e)
