import warnings, sys, copy, glob, traceback
warnings.simplefilter('ignore')
from datetime import datetime, timedelta, timezone
import pgpy
from pgpy import PGPKey, PGPUID, PGPMessage, PGPSignature, PGPKeyring
from pgpy.constants import *
from pgpy.packet import Packet

def mk(alg, size, name, created=None, **kw):
    k = PGPKey.new(alg, size, created=created)
    u = PGPUID.new(name, email=name.lower()+'@example.com')
    d = dict(usage={KeyFlags.Sign, KeyFlags.Certify}, hashes=[HashAlgorithm.SHA256], ciphers=[SymmetricKeyAlgorithm.AES256], compression=[CompressionAlgorithm.ZIP])
    d.update(kw)
    k.add_uid(u, **d)
    return k
ED=(PubKeyAlgorithm.EdDSA, EllipticCurveOID.Ed25519)
T=datetime(2021,1,1,tzinfo=timezone.utc)
a = mk(*ED, 'Alice', created=T)
b = mk(*ED, 'Bob', created=T)
# C14: equal creation times on one uid: self-sig and third-party at the same second
uid = a.userids[0]
t2 = datetime(2021,2,1,tzinfo=timezone.utc)
s1 = a.certify(uid, SignatureType.Positive_Cert, created=t2, usage={KeyFlags.Sign, KeyFlags.Certify}, hashes=[HashAlgorithm.SHA256])
uid |= s1
s2 = b.certify(uid, created=t2)
uid |= s2
c = copy.copy(a)
print('C14 copy exports identically:', bytes(c)==bytes(a))
a2 = PGPKey.from_blob(bytes(a))[0]
print('C14 reimport bytes equal:', bytes(a2)==bytes(a), ' re-reimport equal to first:', bytes(PGPKey.from_blob(bytes(a2))[0])==bytes(a))
# explicit exportable=True
s3 = b.certify(uid, exportable=True, created=datetime(2021,3,1,tzinfo=timezone.utc))
uid |= s3
a3 = PGPKey.from_blob(bytes(a))[0]
n_before = len(a.userids[0]._signatures); n_after=len(a3.userids[0]._signatures)
print('C14 exportable=True: sigs before', n_before, 'after import', n_after, 'after re-export+import', len(PGPKey.from_blob(bytes(a3))[0].userids[0]._signatures))
try:
    print('   verify on imported:', [ (s.signer[-4:], bool(b.pubkey.verify(a3.userids[0], s))) for s in a3.userids[0]._signatures if s.signer==b.fingerprint.keyid])
except Exception as e: print('   exc', e)

# C15: add subkey after deriving pubkey
k = mk(*ED, 'Carol', created=T)
pub = k.pubkey
sk = PGPKey.new(PubKeyAlgorithm.ECDH, EllipticCurveOID.Curve25519)
k.add_subkey(sk, usage={KeyFlags.EncryptCommunications})
print('C15 subkeys priv', len(k.subkeys), 'pub twin', len(k.pubkey.subkeys), 'same twin obj', pub is k.pubkey)
k.add_uid(PGPUID.new('Carol2'), usage={KeyFlags.Sign})
print('C15 uids priv', len(k.userids), 'pub twin', len(k.pubkey.userids))
k.del_uid('Carol2')
print('C15 after del uids priv', len(k.userids), 'pub twin', len(k.pubkey.userids))

# C16 oldest binding sig for subkey
k = mk(*ED, 'Dave', created=T)
sk = PGPKey.new(*ED)
k.add_subkey(sk, usage={KeyFlags.Authentication}, created=datetime(2021,1,2,tzinfo=timezone.utc))
k2 = mk(PubKeyAlgorithm.EdDSA, EllipticCurveOID.Ed25519, 'Dave2', usage={KeyFlags.Certify})
k2.add_subkey(sk2:=PGPKey.new(*ED), usage={KeyFlags.Authentication}, created=datetime(2021,1,2,tzinfo=timezone.utc))
nb = k2.bind(sk2, usage={KeyFlags.Sign}, created=datetime(2021,6,1,tzinfo=timezone.utc))
sk2 |= nb
print('C16 subkey flags used:', sk2._get_key_flags(), 'most recent binding flags:', nb.key_flags)
try:
    sg = k2.sign('x'); print('C16 sign by', sg.signer[-4:], 'primary', k2.fingerprint.keyid[-4:], 'sub', sk2.fingerprint.keyid[-4:])
except Exception as e: print('C16 sign exc', type(e).__name__, e)
