import warnings, sys, copy, glob, traceback
warnings.simplefilter('ignore')
from datetime import datetime, timedelta, timezone
import pgpy
from pgpy import PGPKey, PGPUID, PGPMessage, PGPSignature, PGPKeyring
from pgpy.constants import *
from pgpy.packet import Packet
ED=(PubKeyAlgorithm.EdDSA, EllipticCurveOID.Ed25519)
def mk(names, day):
    k = PGPKey.new(*ED, created=datetime(2021,1,day,tzinfo=timezone.utc))
    for n in names:
        k.add_uid(PGPUID.new(n), usage={KeyFlags.Sign, KeyFlags.Certify}, hashes=[HashAlgorithm.SHA256])
    return k
A=mk(['n1'],1); B=mk(['n1'],2); C=mk(['n1'],3)
D=mk(['n2'],4); E=mk(['n2'],5); F=mk(['n2'],6)
kr = PGPKeyring()
for k in (A,B,C,D,E,F):
    kr.load(k)
print('layers', len(kr._aliases), 'n2 ->', [ (K.fingerprint.keyid[-4:]) for K in kr._get_keys('n2')], 'expected', [K.fingerprint.keyid[-4:] for K in (D,E,F)])
for K in (D,E,F):
    others=[x for x in (D,E,F) if x is not K]
kr.unload(E); kr.unload(F)
print('after unloading E,F: n2 in kr:', 'n2' in kr, ' D loaded:', D.fingerprint in kr.fingerprints())
kr2 = PGPKeyring()
for k in (A,B,C,D,E,F): kr2.load(k)
kr2.unload(D); kr2.unload(F)
print('after unloading D,F: n2 in kr:', 'n2' in kr2, ' E loaded:', E.fingerprint in kr2.fingerprints())
kr3 = PGPKeyring()
for k in (A,B,C,D,E,F): kr3.load(k)
kr3.unload(D); kr3.unload(E)
print('after unloading D,E: n2 in kr:', 'n2' in kr3, ' F loaded:', F.fingerprint in kr3.fingerprints())

# C09/C08: P-521 old-format header then protect
k = PGPKey.new(PubKeyAlgorithm.ECDSA, EllipticCurveOID.NIST_P521)
k.add_uid(PGPUID.new('P'), usage={KeyFlags.Sign}, hashes=[HashAlgorithm.SHA256])
body = bytes(k._key.__bytearray__())[len(k._key.header):]
print('P521 secret body len', len(body))
oldfmt = bytes([0x80 | (5<<2) | 0, len(body)]) + body   # old-format, 1-octet len
rest = bytes(k)[len(bytes(k._key.__bytearray__())):]
k2 = PGPKey.from_blob(oldfmt + rest)[0]
print('reimport ok fp equal', k2.fingerprint == k.fingerprint, 'hdr', bytes(k2._key.header.__bytearray__()).hex())
k2.protect('pw', SymmetricKeyAlgorithm.AES256, HashAlgorithm.SHA256)
out = bytes(k2)
print('protected hdr', bytes(k2._key.header.__bytearray__()).hex(), 'hdr.length', k2._key.header.length)
try:
    k3 = PGPKey.from_blob(out)[0]
    print('re-parse ok?', k3.fingerprint == k.fingerprint, k3.is_protected)
    with k3.unlock('pw'): print('unlock ok')
except Exception as e:
    print('re-parse exc', type(e).__name__, e)
