import warnings
warnings.simplefilter('ignore')
import pgpy
from pgpy import PGPKey, PGPUID, PGPMessage
from pgpy.constants import *
k = PGPKey.new(PubKeyAlgorithm.RSAEncryptOrSign, 2048)
k.add_uid(PGPUID.new('R'), usage={KeyFlags.Sign, KeyFlags.EncryptCommunications}, hashes=[HashAlgorithm.SHA256], ciphers=[SymmetricKeyAlgorithm.AES256], compression=[CompressionAlgorithm.ZIP])
m = PGPMessage.new('secret text')
sk = SymmetricKeyAlgorithm.AES256.gen_key()
e1 = m.encrypt('pw', sessionkey=sk, cipher=SymmetricKeyAlgorithm.AES256)
e2 = k.pubkey.encrypt(e1, sessionkey=sk, cipher=SymmetricKeyAlgorithm.AES256)
print([type(x).__name__ for x in e2._sessionkeys])
try: print('pass:', e2.decrypt('pw').message)
except Exception as e: print('pass exc', type(e).__name__, e)
try: print('key:', k.decrypt(e2).message)
except Exception as e: print('key exc', type(e).__name__, e)
# other order
e3 = k.pubkey.encrypt(m, sessionkey=sk, cipher=SymmetricKeyAlgorithm.AES256)
e4 = e3.encrypt('pw', sessionkey=sk, cipher=SymmetricKeyAlgorithm.AES256)
print([type(x).__name__ for x in e4._sessionkeys], [int(p.header.tag) for p in e4])
try: print('pass:', e4.decrypt('pw').message)
except Exception as e: print('pass exc', type(e).__name__, e)
try: print('key:', k.decrypt(e4).message)
except Exception as e: print('key exc', type(e).__name__, e)
r = PGPMessage.from_blob(bytes(e4))
print('reimport order', [type(x).__name__ for x in r._sessionkeys])
