import warnings, itertools, sys, time
warnings.simplefilter('ignore')
from datetime import datetime, timezone
import pgpy
from pgpy import PGPKey, PGPUID, PGPKeyring
from pgpy.constants import *
ED=(PubKeyAlgorithm.EdDSA, EllipticCurveOID.Ed25519)
def mk(names, day):
    k = PGPKey.new(*ED, created=datetime(2021,1,day,tzinfo=timezone.utc))
    for n in names:
        k.add_uid(PGPUID.new(n), usage={KeyFlags.Sign, KeyFlags.Certify}, hashes=[HashAlgorithm.SHA256])
    return k
# universe: 5 keys sharing names in overlapping ways
U = {'A':mk(['x'],1), 'B':mk(['x','y'],2), 'C':mk(['x','y'],3), 'D':mk(['y'],4), 'E':mk(['x'],5)}
def aliases_of(k):
    s = {str(k.fingerprint), k.fingerprint.keyid, k.fingerprint.shortid}
    for u in k.userids:
        s.add(u.name)
    return s
def check(kr, loaded):
    errs=[]
    want = set()
    for n in loaded: want |= aliases_of(U[n])
    for a in want:
        if a not in kr: errs.append(('missing', a))
        else:
            try:
                with kr.key(a) as k:
                    if a not in aliases_of(k) or id(k) not in kr._keys: errs.append(('wrongkey', a))
            except KeyError: errs.append(('keyerror', a))
    for n in U:
        if n not in loaded:
            for a in aliases_of(U[n]) - want:
                if a in kr: errs.append(('stale', a))
    if {str(f) for f in kr.fingerprints()} != {str(U[n].fingerprint) for n in loaded}: errs.append(('fps',))
    return errs
found = {}
t=time.time(); count=0
def rec(hist, loaded, depth):
    global count
    if depth==0: return
    for n in U:
        op = ('U' if n in loaded else 'L', n)
        h2 = hist+[op]
        kr = PGPKeyring()
        L=set()
        ok=True
        try:
            for o,nn in h2:
                if o=='L': kr.load(U[nn]); L.add(nn)
                else: kr.unload(U[nn]); L.discard(nn)
        except Exception as e:
            found.setdefault(('exc', type(e).__name__), h2); continue
        count+=1
        errs = check(kr, L)
        if errs:
            key = tuple(sorted({e[0] for e in errs}))
            if key not in found: found[key]=(h2, errs[:3])
            continue   # don't extend failing histories
        rec(h2, L, depth-1)
rec([], set(), 7)
print('histories', count, 'time', round(time.time()-t,1))
for k,v in found.items(): print(k, v)
