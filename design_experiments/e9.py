import warnings, sys, copy, os
warnings.simplefilter('ignore')
from datetime import datetime, timedelta, timezone
import pgpy
from pgpy import PGPKey, PGPUID, PGPMessage, PGPSignature, PGPKeyring
from pgpy.constants import *
from pgpy.packet import Packet
from pgpy.types import Armorable
ED=(PubKeyAlgorithm.EdDSA, EllipticCurveOID.Ed25519)
T=datetime(2021,1,1,tzinfo=timezone.utc)
def mk(name, **kw):
    k = PGPKey.new(*ED, created=T)
    d = dict(usage={KeyFlags.Sign, KeyFlags.Certify}, hashes=[HashAlgorithm.SHA256], ciphers=[SymmetricKeyAlgorithm.AES256], compression=[CompressionAlgorithm.ZIP], created=T)
    d.update(kw)
    k.add_uid(PGPUID.new(name), **d)
    return k
k = mk('Alice')
# C20 metadata
for content, fmt in [('café','t'), ('café','u'), (b'\xff\xfe\x00bin','b'), ('plain','t')]:
    try:
        m = PGPMessage.new(content, format=fmt, compression=CompressionAlgorithm.Uncompressed)
        m2 = PGPMessage.from_blob(bytes(m))
        print('C20 content', repr(content), fmt, '->', repr(m.message), 'reimport', repr(m2.message), 'same as input:', m2.message==content)
    except Exception as e: print('C20 content exc', repr(content), fmt, type(e).__name__, e)
from pgpy.packet.packets import LiteralData
for fn in ['café.txt', 'x'*255, '☃.txt', 'a'*256]:
    try:
        m = PGPMessage.new('hi', compression=CompressionAlgorithm.Uncompressed)
        m._message.filename = fn; m._message.update_hlen()
        b = bytes(m)
        m2 = PGPMessage.from_blob(b)
        print('C20 filename', repr(fn[:12]), len(fn), '->', repr(m2.filename[:12]), len(m2.filename), m2.filename==fn, 'msg', repr(m2.message))
    except Exception as e: print('C20 filename exc', repr(fn[:12]), len(fn), type(e).__name__, e)

# C10 CRLF headers
sig = k.sign('x', created=T)
sig.ascii_headers['Version']='1'
s = str(sig)
s2 = PGPSignature.from_blob(s.replace('\n','\r\n'))
print('C10 CRLF headers', dict(s2.ascii_headers), 'LF', dict(PGPSignature.from_blob(s).ascii_headers), bytes(s2)==bytes(sig))

# C08 foreign MPI with surplus leading zero bits: RSA sig packet with MPI bitcount larger than actual
rk_sigbody = bytes(sig._signature.__bytearray__())
# craft: take EdDSA sig, r mpi: increase declared bit count by 8 and add a zero byte
pkt = sig._signature
hdrlen = len(pkt.header)
body = bytearray(rk_sigbody[hdrlen-1:])  # includes version
# locate MPIs: after hash2. Rebuild: body = ver,type,pk,hash, hashed(2+n), unhashed(2+n), hash2(2), mpis
p = 4
hl = int.from_bytes(body[p:p+2],'big'); p += 2+hl
ul = int.from_bytes(body[p:p+2],'big'); p += 2+ul
p += 2
bits = int.from_bytes(body[p:p+2],'big'); nb=(bits+7)//8
newbits = nb*8+8
forged = body[:p] + newbits.to_bytes(2,'big') + b'\x00' + body[p+2:]
raw = bytes([0xC2, len(forged)]) + bytes(forged)
try:
    q = Packet(bytearray(raw))
    out = bytes(q.__bytearray__())
    print('C08 foreign MPI: in len', len(raw), 'out len', len(out), 'hdr says', out[1], 'body', len(out)-2, 'verify still:', bool(k.pubkey.verify('x', PGPSignature()|q)))
    try:
        q2 = Packet(bytearray(out + b'\xAA\xBB')); print('   reparse ok, fixed point:', bytes(q2.__bytearray__())==out)
    except Exception as e: print('   reparse exc', type(e).__name__, e)
except Exception as e: print('C08 exc', type(e).__name__, e)

# C06 unlock paths
k.protect('pw', SymmetricKeyAlgorithm.AES256, HashAlgorithm.SHA256)
try:
    with k.unlock('bad'): print('entered?!')
except Exception as e: print('C06 wrong pass ->', type(e).__name__, 'unlocked:', k.is_unlocked)
try:
    with k.unlock('pw'):
        assert k.is_unlocked
        raise RuntimeError('boom')
except RuntimeError: print('C06 exception in scope -> unlocked:', k.is_unlocked, 'secret zero:', int(k._key.keymaterial.s)==0)
try: k.sign('x')
except Exception as e: print('C06 locked sign ->', type(e).__name__)

# C13 draws
draws=[]
real=os.urandom
def fake(n):
    b=real(n); draws.append(n); return b
os.urandom=fake
import pgpy.constants, pgpy.packet.fields, pgpy.packet.packets
m = PGPMessage.new('hello')
e = m.encrypt('pw'); print('C13 draws passphrase-encrypt:', draws); draws.clear()
k2 = mk('Bob', usage={KeyFlags.EncryptCommunications, KeyFlags.Sign})
rk = PGPKey.new(PubKeyAlgorithm.ECDH, EllipticCurveOID.Curve25519)
k2.add_subkey(rk, usage={KeyFlags.EncryptCommunications}); draws.clear()
e = k2.pubkey.encrypt(m); print('C13 draws ecdh-encrypt:', draws, 'encrypter', e.encrypters, 'sub', rk.fingerprint.keyid); draws.clear()
k2.protect('pw', SymmetricKeyAlgorithm.AES128, HashAlgorithm.SHA256); print('C13 draws protect (primary+sub):', draws)
os.urandom=real
