(* C03 / C04 command table.  Primitives are answered by the harness through the oracle RPC
   (hashlib / cryptography directly, never through pgpy). *)
let opt_of s = if s = "ERR" then None else Some (bytes_of_hex s)
let o_sha1 x = oracle_bytes "sha1" [x]
let o_cfb_enc a k x = opt_of (oracle "cfb_enc" [hexnum_of_z a; hex_of_bytes k; hex_of_bytes x])
let o_cfb_dec a k x = opt_of (oracle "cfb_dec" [hexnum_of_z a; hex_of_bytes k; hex_of_bytes x])
let o_rsa_bits h = let s = oracle "rsa_bits" [hex_of_bytes h] in if s = "ERR" then Z0 else z_of_hexnum s
let o_rsa_enc h _seed m = opt_of (oracle "rsa_enc" [hex_of_bytes h; hex_of_bytes m])
let o_rsa_dec h c = opt_of (oracle "rsa_dec" [hex_of_bytes h; hex_of_bytes c])
let o_ecdh_gen h _seed =
  let s = oracle "ecdh_gen" [hex_of_bytes h] in
  if s = "ERR" then None else
  match String.split_on_char ' ' s with
  | [v; sh] -> Some (bytes_of_hex v, bytes_of_hex sh)
  | _ -> None
let o_ecdh_shared h v = opt_of (oracle "ecdh_shared" [hex_of_bytes h; hex_of_bytes v])
let o_hash a x = opt_of (oracle "hash" [hexnum_of_z a; hex_of_bytes x])
let o_wrap k x = opt_of (oracle "aes_wrap" [hex_of_bytes k; hex_of_bytes x])
let o_unwrap k x = opt_of (oracle "aes_unwrap" [hex_of_bytes k; hex_of_bytes x])
let o_s2k kind h salt count n pass =
  opt_of (oracle "s2k" [hexnum_of_z kind; hexnum_of_z h; hex_of_bytes salt; hexnum_of_z count;
                        string_of_int (int_of_nat n); hex_of_bytes pass])

let exc_s = function
  | EDecrypt -> "PGPDecryptionError" | EValue -> "ValueError" | ENotImpl -> "NotImplementedError"
  | EType -> "TypeError" | EIndex -> "IndexError" | EPGP -> "PGPError" | EStopIter -> "StopIteration"
  | EEncrypt -> "PGPEncryptionError" | EAttr -> "AttributeError" | EPrim -> "Prim" | ENotEncrypted -> "NotEncrypted" | EUnmodelled -> "Unmodelled" | EFuel -> "Fuel"
let pr_res f = function Ok x -> "ok " ^ f x | Raise e -> "raise " ^ exc_s e
let pr_opt f = function Some x -> f x | None -> "ERR"
let pr_optz = function Some z -> hexnum_of_z z | None -> "ERR"

(* id,alg,fp,oid,kdfhash,kdfenc *)
let key_of_desc s =
  match String.split_on_char ',' s with
  | [id; alg; fp; oid; kh; ke] ->
    { k_id = bytes_of_hex id; k_alg = z_of_hexnum alg; k_fp = bytes_of_hex fp; k_oid = bytes_of_hex oid;
      k_kdf_hash = z_of_hexnum kh; k_kdf_enc = z_of_hexnum ke }
  | _ -> failwith "keydesc"
(* primary;sub;sub *)
let fullkey_of_desc s =
  match String.split_on_char ';' s with
  | p :: subs -> { fk_key = key_of_desc p; fk_subs = List.map key_of_desc subs }
  | [] -> failwith "fullkeydesc"
let spec_of ty h salt cnt = { s_type = z_of_hexnum ty; s_hash = z_of_hexnum h; s_salt = bytes_of_hex salt; s_count = z_of_hexnum cnt }
let recipient_of_desc s =
  match String.split_on_char ',' s with
  | ["P"; pass; ty; h; salt; cnt] -> RPass (bytes_of_hex pass, spec_of ty h salt cnt)
  | "K" :: rest -> RKey (key_of_desc (String.concat "," rest), [])
  | _ -> failwith "recipient"

let esk_s = function
  | PK (id, a, ct) ->
    "PK:" ^ hex_of_bytes id ^ ":" ^ hexnum_of_z a ^ ":" ^
    (match ct with
     | CRsa v -> "R:" ^ hexnum_of_z v
     | CEcdh (xy, c) -> "E:" ^ hex_of_bytes xy ^ ":" ^ hex_of_bytes c
     | CElg (a, b) -> "G:" ^ hexnum_of_z a ^ ":" ^ hexnum_of_z b
     | COpaque x -> "O:" ^ hex_of_bytes x)
  | SK (a, sp, ct) ->
    String.concat ":" ["SK"; hexnum_of_z a; hexnum_of_z sp.s_type; hexnum_of_z sp.s_hash; hex_of_bytes sp.s_salt;
                       hexnum_of_z sp.s_count; hex_of_bytes ct]
let emsg_s (es, ct) =
  String.concat " " (List.map esk_s es @ [match ct with Some c -> "CT:" ^ hex_of_bytes c | None -> "CT:none"])

let dec_pass m pass = decrypt_pass o_sha1 o_cfb_dec o_s2k m pass
let dec_key m k = key_decrypt o_sha1 o_cfb_dec o_rsa_bits o_rsa_dec o_ecdh_shared o_hash o_unwrap k m
let parse_then f h =
  match msg_parse (bytes_of_hex h) with
  | Raise e -> "raise parse:" ^ exc_s e
  | Ok m -> pr_res hex_of_bytes_strict (f m)

let () = run_table [
  "tables", (function [a] -> let a = z_of_hexnum a in
      String.concat " " [bool_s (sym_valid a); pr_optz (key_bits a); pr_optz (block_bits a)] | _ -> failwith "args");
  "enums", (function [a] -> let a = z_of_hexnum a in
      String.concat " " [bool_s (pk_valid a); bool_s (hash_valid a)] | _ -> failwith "args");
  "seipd_plain", (function [iv; d] -> hex_of_bytes_strict (seipd_plain o_sha1 (bytes_of_hex iv) (bytes_of_hex d)) | _ -> failwith "args");
  "rfc_seipd_plain", (function [iv; bs; d] ->
      hex_of_bytes_strict (rfc_seipd_plain o_sha1 (bytes_of_hex iv) (nat_of_int (int_of_string bs)) (bytes_of_hex d)) | _ -> failwith "args");
  "seipd_enc", (function [a; k; iv; d] ->
      pr_res hex_of_bytes_strict (seipd_encrypt o_sha1 o_cfb_enc (z_of_hexnum a) (bytes_of_hex k) (bytes_of_hex iv) (bytes_of_hex d)) | _ -> failwith "args");
  "seipd_dec", (function [a; k; c] ->
      pr_res hex_of_bytes_strict (seipd_decrypt o_sha1 o_cfb_dec (z_of_hexnum a) (bytes_of_hex k) (bytes_of_hex c)) | _ -> failwith "args");
  (* the gate on an already decrypted octet string: cfb_dec = identity *)
  "seipd_gate", (function [a; pt] ->
      pr_res hex_of_bytes_strict (seipd_decrypt o_sha1 (fun _ _ x -> Some x) (z_of_hexnum a) [] (bytes_of_hex pt)) | _ -> failwith "args");
  "pkesk_m", (function [a; k] -> hex_of_bytes_strict (pkesk_m (z_of_hexnum a) (bytes_of_hex k)) ^ " " ^
                                 hex_of_bytes_strict (rfc_pkesk_m (z_of_hexnum a) (bytes_of_hex k)) | _ -> failwith "args");
  "pkesk_open", (function [m] -> pr_res (fun (a, k) -> hexnum_of_z a ^ " " ^ hex_of_bytes k) (pkesk_open (bytes_of_hex m)) | _ -> failwith "args");
  "pad", (function [m] -> hex_of_bytes_strict (pkcs5_pad (bytes_of_hex m)) ^ " " ^ hex_of_bytes_strict (rfc_pad8 (bytes_of_hex m)) | _ -> failwith "args");
  "unpad", (function [m] -> pr_opt hex_of_bytes (pkcs5_unpad (bytes_of_hex m)) | _ -> failwith "args");
  (* the unpadding lines of ECDHCipherText.decrypt with their exception classes *)
  "ecdh_unpad", (function [m] -> pr_res hex_of_bytes (ecdh_unpad (bytes_of_hex m)) | _ -> failwith "args");
  (* RFC 6637 section 8, padding to 40 octets: the model's sender and the transcription *)
  "pad40", (function [m] -> hex_of_bytes_strict (pkcs5_pad_to (z_of_int 40) (bytes_of_hex m)) ^ " " ^ hex_of_bytes_strict (rfc_pad40 (bytes_of_hex m)) | _ -> failwith "args");
  "ecdh_param", (function [oid; h; k; fp] ->
      hex_of_bytes_strict (ecdh_param (bytes_of_hex oid) (z_of_hexnum h) (z_of_hexnum k) (bytes_of_hex fp)) ^ " " ^
      hex_of_bytes_strict (rfc_param (bytes_of_hex oid) (z_of_hexnum h) (z_of_hexnum k) (bytes_of_hex fp)) | _ -> failwith "args");
  "ecdh_kdf", (function [h; s; n; p] ->
      let halg = z_of_hexnum h in
      pr_opt hex_of_bytes (ecdh_kdf o_hash halg (bytes_of_hex s) (nat_of_int (int_of_string n)) (bytes_of_hex p)) ^ " " ^
      hex_of_bytes (rfc_kdf (fun x -> match o_hash halg x with Some d -> d | None -> []) (bytes_of_hex s) (nat_of_int (int_of_string n)) (bytes_of_hex p))
      | _ -> failwith "args");
  "s2k", (function [a; ty; h; salt; cnt; pass] ->
      pr_res hex_of_bytes (s2k_derive o_s2k (z_of_hexnum a) (spec_of ty h salt cnt) (bytes_of_hex pass)) | _ -> failwith "args");
  "msg_parse", (function [h] -> (match msg_parse (bytes_of_hex h) with Ok m -> "ok " ^ emsg_s m | Raise e -> "raise " ^ exc_s e) | _ -> failwith "args");
  (* parse, re-emit: structural codec round trip on real octets *)
  "msg_reemit", (function [h] -> (match msg_parse (bytes_of_hex h) with
      | Ok m -> pr_res hex_of_bytes_strict (msg_emit m) | Raise e -> "raise parse:" ^ exc_s e) | _ -> failwith "args");
  "dec_pass", (function [h; p] -> parse_then (fun m -> dec_pass m (bytes_of_hex p)) h | _ -> failwith "args");
  "dec_key", (function [h; k] -> parse_then (fun m -> dec_key m (fullkey_of_desc k)) h | _ -> failwith "args");
  (* independent encryptor *)
  "enc_msg", (function a :: sk :: iv :: m :: rs ->
      (match encrypt_to o_sha1 o_cfb_enc o_rsa_enc o_ecdh_gen o_hash o_wrap o_s2k (z_of_hexnum a) (bytes_of_hex sk) (bytes_of_hex iv)
               (List.map recipient_of_desc rs) (bytes_of_hex m) with
       | Ok e -> pr_res hex_of_bytes_strict (msg_emit e)
       | Raise e -> "raise " ^ exc_s e) | _ -> failwith "args");
  "skesk_gen", (function [outer; inner; ty; h; salt; cnt; pass; sk] ->
      pr_res hex_of_bytes_strict (bind (skesk_encrypt_gen o_cfb_enc o_s2k (z_of_hexnum outer) (z_of_hexnum inner) (spec_of ty h salt cnt)
                                          (bytes_of_hex pass) (bytes_of_hex sk)) esk_packet) | _ -> failwith "args");
  "skesk_direct", (function [a; ty; h; salt; cnt] ->
      pr_res hex_of_bytes_strict (esk_packet (SK (z_of_hexnum a, spec_of ty h salt cnt, []))) | _ -> failwith "args");
  "pkesk", (function [k; a; sk] ->
      pr_res hex_of_bytes_strict (bind (pkesk_encrypt o_rsa_enc o_ecdh_gen o_hash o_wrap (key_of_desc k) [] (z_of_hexnum a) (bytes_of_hex sk)) esk_packet)
      | _ -> failwith "args");
  (* ECDH session-key packet of a sender that pads m to `total` octets before the key wrap *)
  "pkesk_to", (function [total; k; a; sk] ->
      pr_res hex_of_bytes_strict (bind (pkesk_encrypt_to o_ecdh_gen o_hash o_wrap (z_of_int (int_of_string total)) (key_of_desc k) [] (z_of_hexnum a) (bytes_of_hex sk)) esk_packet)
      | _ -> failwith "args");
  "seipd_packet", (function [a; k; iv; d] ->
      pr_res hex_of_bytes_strict (bind (seipd_encrypt o_sha1 o_cfb_enc (z_of_hexnum a) (bytes_of_hex k) (bytes_of_hex iv) (bytes_of_hex d))
                                       (fun c -> packet (z_of_int 18) (seipd_body c))) | _ -> failwith "args");
]
