(* C06 command table.  Primitives are answered by the harness (cryptography / hashlib directly, never pgpy). *)
let cfb_enc alg k iv x = oracle_bytes "cfb_enc" [[alg]; k; iv; x]
let cfb_dec alg k iv x = oracle_bytes "cfb_dec" [[alg]; k; iv; x]
let sha1 x = oracle_bytes "sha1" [x]
let s2k spec halg alg salt count pass = oracle_bytes "s2k" [[spec]; [halg]; [alg]; salt; [count]; pass]

let split c s = if s = "" then [] else String.split_on_char c s
let nums s = if s = "-" || s = "" then [] else List.map z_of_hexnum (split ',' s)
let s_nums l = if l = [] then "-" else String.concat "," (List.map hexnum_of_z l)
let hb = hex_of_bytes_strict
let fuel = nat_of_int 100000

let s_blob = function
  | BStd b -> String.concat "," ["S"; hexnum_of_z b.b_usage; hexnum_of_z b.b_alg; hexnum_of_z b.b_spec; hexnum_of_z b.b_halg;
                                  hb b.b_salt; hexnum_of_z b.b_count; hb b.b_iv; hb b.b_enc]
  | BGnu (u, a, e, s, r) -> String.concat "," ["G"; hexnum_of_z u; hexnum_of_z a; hexnum_of_z e; hb s; hb r]
let s_ures = function
  | UOk (ms, r) -> "OK:" ^ s_nums ms ^ ":" ^ hb r
  | UBadPass -> "BAD"
  | UError -> "ERR"
  | USkip -> "SKIP"
let s_rres = function
  | RUnprot (ms, chk, ok) -> "U:" ^ s_nums ms ^ ":" ^ hb chk ^ ":" ^ bool_s ok
  | RProt (bl, u) -> "P:" ^ s_blob bl ^ ":" ^ s_ures u
  | RFail c -> "F:" ^ hexnum_of_z c
let s_read l =
  if l = [] then "-" else
  String.concat ";" (List.map (fun (((tag, a), pub), r) -> String.concat "/" [hexnum_of_z tag; hexnum_of_z a; hb pub; s_rres r]) l)

let parse_rnd s =  (* iv:salt:iv:salt... *)
  let rec go = function a :: b :: r -> (bytes_of_hex a, bytes_of_hex b) :: go r | _ -> [] in
  if s = "-" then [] else go (split ':' s)
let parse_op s = match split ',' s with
  | ["P"; pass; alg; halg; count; rnd] -> OProtect (bytes_of_hex pass, z_of_hexnum alg, z_of_hexnum halg, z_of_hexnum count, parse_rnd rnd)
  | ["E"; pass] -> OEnter (bytes_of_hex pass)
  | ["X"] -> OExit
  | ["R"] -> ORaiseInScope
  | ["S"; i] -> OSign (nat_of_int (int_of_string i))
  | ["D"; i] -> ODecrypt (nat_of_int (int_of_string i))
  | ["O"] -> OExport
  | ["I"] -> OReimport
  | ["A"; ms; chk] -> OAddSub ((if ms = "-" || ms = "" then [] else List.map z_of_hexnum (split ':' ms)), bytes_of_hex chk)   (* A,mpi:mpi..,chk *)
  | _ -> failwith ("bad op " ^ s)
let s_obs = function
  | BDone -> "done" | BWarned -> "warned" | BRaised k -> "raised" ^ hexnum_of_z k | BNoScope -> "noscope"
  | BUsed s -> "used:" ^ s_nums s | BRefused -> "refused"
  | BExported l -> "exported:" ^ String.concat "," (List.map hb l)
let s_flags (l, sc) =
  String.concat "," (List.map (fun ((p, u), z) -> bool_s p ^ bool_s u ^ bool_s z) l) ^ "|" ^
  (if sc = [] then "-" else String.concat "" (List.map bool_s sc))
let parse_form s = match split ',' s with
  | ["K"] -> WKeep
  | ["S"; u; a; sp; h; salt; c; iv; pass] ->
    WStd (z_of_hexnum u, z_of_hexnum a, z_of_hexnum sp, z_of_hexnum h, bytes_of_hex salt, z_of_hexnum c, bytes_of_hex iv, bytes_of_hex pass)
  | ["G"; u; e; s] -> WGnu (z_of_hexnum u, z_of_hexnum e, bytes_of_hex s)
  | _ -> failwith ("bad form " ^ s)

let () = run_table [
  (* protect mpis pass iv salt count alg halg -> octets of the secret part PGPy must write *)
  "protect", (function [m; pass; iv; salt; c; a; h] ->
      hb (protect cfb_enc sha1 s2k (nums m) (bytes_of_hex pass) (bytes_of_hex iv) (bytes_of_hex salt) (z_of_hexnum c) (z_of_hexnum a) (z_of_hexnum h))
    | _ -> failwith "args");
  (* independent reader: bytes(key) + passphrase octets -> per secret-key packet: tag/pkalg/public part/result *)
  "readkey", (function [d; pass] -> s_read (read_key cfb_dec sha1 s2k true fuel (bytes_of_hex d) (bytes_of_hex pass)) | _ -> failwith "args");
  (* independent writer: bytes(unprotected key) + one form per secret-key packet -> octets of the rewritten key *)
  "rewrite", (function [d; forms] ->
      (match rewrite_key cfb_enc cfb_dec sha1 s2k fuel (bytes_of_hex d) (List.map parse_form (split ';' forms)) with
       | Some b -> hb b | None -> "ERR")
    | _ -> failwith "args");
  (* lock automaton: history on the key read from its export; per step  obs|flags|scopes  joined by space-free '/' *)
  "hist", (function [d; ops] ->
      (match pkts_of_read (read_key cfb_dec sha1 s2k false fuel (bytes_of_hex d) []) with
       | None -> "ERR"
       | Some k ->
         let tr = run_trace cfb_enc cfb_dec sha1 s2k (List.map parse_op (split ';' ops)) { k_pkts = k; k_scopes = [] } in
         String.concat "/" (List.map (fun (b, f) -> s_obs b ^ "|" ^ s_flags f) tr))
    | _ -> failwith "args");
  (* Spec/Rfc4880_keyprotect.v run directly: usage alg spec halg salt count iv pass mpis -> RFC 4880 5.5.3 secret part *)
  "rfcpart", (function [u; a; sp; h; salt; c; iv; pass; m] ->
      let z = z_of_hexnum in
      let spec = (match int_of_z (z sp) with
        | 0 -> RSimple (z h) | 1 -> RSalted (z h, bytes_of_hex salt) | _ -> RIterSalted (z h, bytes_of_hex salt, z c)) in
      let key = s2k (z sp) (z h) (z a) (bytes_of_hex salt) (z c) (bytes_of_hex pass) in
      hb (rfc_secret_part cfb_enc sha1 (z u) (z a) spec (bytes_of_hex iv) key (nums m))
    | _ -> failwith "args");
  "zadd", (function [a; b] -> hexnum_of_z (Z.add (z_of_hexnum a) (z_of_hexnum b)) | _ -> failwith "args");
]
