(* C07 command table.  Token grammar (key / mat / point / sec as in drv_c18.ml):
     key   := <sub 0|1> <created hexnum> <alg hexnum> <mat> <sec>
     keym  := <fmt> <llen> <key>
     sig   := <fmt> <llen> <body hex> <exportable 0|1> <embedded 0|1>
     uid   := <tag> <fmt> <llen> <body hex> <nsigs> sig*
     sub   := keym <nsigs> sig*
     tkey  := keym <nsigs> sig* <nuids> uid* <nsubs> sub*                                           *)
let sha1 = fun x -> oracle_bytes "sha1" [x]
let pr_opt f = function None -> "ERR" | Some x -> f x
let curve_of_idx i = List.nth all_curves i
let rec idx_of_curve c l i = match l with [] -> failwith "curve" | x :: r -> if x = c then i else idx_of_curve c r (i + 1)

let read_point = function
  | "std" :: bl :: x :: y :: r -> (EPStd (z_of_hexnum bl, z_of_hexnum x, z_of_hexnum y), r)
  | "nat" :: h :: r -> (EPNative (bytes_of_hex h), r)
  | _ -> failwith "point"
let read_mat = function
  | "rsa" :: n :: e :: r -> (PRSA (z_of_hexnum n, z_of_hexnum e), r)
  | "dsa" :: p :: q :: g :: y :: r -> (PDSA (z_of_hexnum p, z_of_hexnum q, z_of_hexnum g, z_of_hexnum y), r)
  | "elg" :: p :: g :: y :: r -> (PElG (z_of_hexnum p, z_of_hexnum g, z_of_hexnum y), r)
  | "ecdsa" :: c :: r -> let (pt, r') = read_point r in (PECDSA (curve_of_idx (int_of_string c), pt), r')
  | "eddsa" :: c :: r -> let (pt, r') = read_point r in (PEdDSA (curve_of_idx (int_of_string c), pt), r')
  | "ecdh" :: c :: r -> let (pt, r') = read_point r in
      (match r' with kh :: ke :: r'' -> (PECDH (curve_of_idx (int_of_string c), pt, z_of_hexnum kh, z_of_hexnum ke), r'') | _ -> failwith "kdf")
  | "opaque" :: h :: r -> (POpaque (bytes_of_hex h), r)
  | _ -> failwith "mat"
let rec take n l = if n = 0 then ([], l) else match l with x :: r -> let (a, b) = take (n - 1) r in (x :: a, b) | [] -> failwith "take"
let read_sec = function
  | "pub" :: r -> (None, r)
  | "sec" :: u :: s :: e :: c :: n :: r ->
      let (ps, r') = take (int_of_string n) r in
      (Some { s_usage = z_of_hexnum u; s_s2k = bytes_of_hex s; s_enc = bytes_of_hex e; s_priv = List.map z_of_hexnum ps; s_chk = bytes_of_hex c }, r')
  | _ -> failwith "sec"
let read_key = function
  | sub :: cr :: alg :: r ->
      let (m, r1) = read_mat r in
      let (s, r2) = read_sec r1 in
      ({ k_sub = (sub = "1"); k_created = z_of_hexnum cr; k_alg = z_of_hexnum alg; k_mat = m; k_sec = s }, r2)
  | _ -> failwith "key"
let read_keym = function
  | f :: l :: r -> let (k, r') = read_key r in ({ km_fmt = z_of_hexnum f; km_llen = z_of_hexnum l; km_key = k }, r')
  | _ -> failwith "keym"
let rec read_n f n toks = if n = 0 then ([], toks) else let (x, r) = f toks in let (xs, r') = read_n f (n - 1) r in (x :: xs, r')
let read_count f = function n :: r -> read_n f (int_of_string n) r | [] -> failwith "count"
let read_sig = function
  | f :: l :: b :: e :: m :: r ->
      ({ sg_pkt = { p_fmt = z_of_hexnum f; p_llen = z_of_hexnum l; p_tag = z_of_int 2; p_body = bytes_of_hex b }; sg_exportable = (e = "1"); sg_embedded = (m = "1") }, r)
  | _ -> failwith "sig"
let read_uid = function
  | t :: f :: l :: b :: r ->
      let (sigs, r') = read_count read_sig r in
      ({ u_pkt = { p_fmt = z_of_hexnum f; p_llen = z_of_hexnum l; p_tag = z_of_hexnum t; p_body = bytes_of_hex b }; u_sigs = sigs }, r')
  | _ -> failwith "uid"
let read_sub toks = let (k, r) = read_keym toks in let (sigs, r') = read_count read_sig r in ({ sb_key = k; sb_sigs = sigs }, r')
let read_tkey toks =
  let (k, r) = read_keym toks in
  let (sigs, r1) = read_count read_sig r in
  let (uids, r2) = read_count read_uid r1 in
  let (subs, r3) = read_count read_sub r2 in
  if r3 <> [] then failwith "trailing tokens";
  { t_key = k; t_sigs = sigs; t_uids = uids; t_subs = subs }

let show_point = function
  | EPStd (bl, x, y) -> String.concat " " ["std"; hexnum_of_z bl; hexnum_of_z x; hexnum_of_z y]
  | EPNative x -> "nat " ^ hex_of_bytes x
let ci c = string_of_int (idx_of_curve c all_curves 0)
let show_mat = function
  | PRSA (n, e) -> String.concat " " ["rsa"; hexnum_of_z n; hexnum_of_z e]
  | PDSA (p, q, g, y) -> String.concat " " ["dsa"; hexnum_of_z p; hexnum_of_z q; hexnum_of_z g; hexnum_of_z y]
  | PElG (p, g, y) -> String.concat " " ["elg"; hexnum_of_z p; hexnum_of_z g; hexnum_of_z y]
  | PECDSA (c, pt) -> String.concat " " ["ecdsa"; ci c; show_point pt]
  | PEdDSA (c, pt) -> String.concat " " ["eddsa"; ci c; show_point pt]
  | PECDH (c, pt, kh, ke) -> String.concat " " ["ecdh"; ci c; show_point pt; hexnum_of_z kh; hexnum_of_z ke]
  | POpaque d -> "opaque " ^ hex_of_bytes d

let show_pkts l = if l = [] then "-" else String.concat " " (List.map (fun (t, bd) -> hexnum_of_z t ^ ":" ^ hex_of_bytes bd) l)
let b01 s = (s = "1")
let action_of = function
  | "sign" -> ASign | "certify" -> ACertify | "revoke" -> ARevoke | "revoker" -> ARevoker | "bind" -> ABind
  | "decrypt" -> ADecrypt | "encrypt" -> AEncrypt | _ -> failwith "action"
let show_outcome = function
  | Run -> "run" | ErrNoKey -> "nokey" | ErrIncomplete -> "incomplete" | ErrUsage -> "usage"
  | ErrAttr IsPublic -> "attr:is_public" | ErrAttr IsUnlocked -> "attr:is_unlocked"

let () = run_table [
  (* octets of bytes(key.pubkey) and of bytes(key) as the model predicts them from the fields;
     REFUSED = PGPKey.pubkey raises (a private key packet with opaque material has no public half) *)
  "export", (fun args -> let t = read_tkey args in
      (match pubkey_of t with None -> "REFUSED" | Some p -> pr_opt hex_of_bytes_strict (export p)) ^ " " ^ pr_opt hex_of_bytes_strict (export t));
  (* the twin's packets as (tag, body) without going through octets *)
  "twin", (fun args -> let t = read_tkey args in
      (match pubkey_of t with None -> "REFUSED" | Some p -> show_pkts (List.map view (export_pkts p))));
  "packets", (function [h] -> let b = bytes_of_hex h in
      pr_opt show_pkts (parse_packets (nat_of_int (List.length b + 1)) b) | _ -> failwith "args");
  "parse", (function [h] -> pr_opt (fun (((c, a), m), rest) ->
      String.concat " " [hexnum_of_z c; hexnum_of_z a; show_mat m; "|"; hex_of_bytes rest]) (key_body_parse (bytes_of_hex h)) | _ -> failwith "args");
  (* RFC 4880 12.2 over a key packet body taken from an export *)
  "rfcfp", (function [h] -> hex_of_bytes_strict (rfc_fingerprint sha1 (bytes_of_hex h)) | _ -> failwith "args");
  (* fingerprints the PRIVATE key reports, as the model of the code computes them *)
  "fps", (fun args -> let t = read_tkey args in String.concat " " (List.map (fun k -> hex_of_bytes_strict (fingerprint sha1 k)) (keys_of t)));
  (* action <name> haskey nuids primary public protected cleartext flagok require *)
  "action", (function [a; hk; nu; pr; pu; pt; ct; fo; rq] ->
      show_outcome (key_action (action_of a) { ks_haskey = b01 hk; ks_nuids = nat_of_int (int_of_string nu); ks_primary = b01 pr; ks_public = b01 pu;
                                               ks_protected = b01 pt; ks_cleartext = b01 ct; ks_flag_ok = b01 fo; ks_require_flags = b01 rq })
    | _ -> failwith "args");
  "zadd", (function [a; b] -> hexnum_of_z (Z.add (z_of_hexnum a) (z_of_hexnum b)) | _ -> failwith "args");
]
