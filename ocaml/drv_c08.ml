(* C08 command table.  Values: z<hexnum> | b<hex> | ( v v ) | [ v v ... ]   (tokens separated by single spaces) *)
let string_of_chars (l : char list) = String.concat "" (List.map (String.make 1) l)
let chars_of_string s = List.init (String.length s) (String.get s)
let rec pr_v = function
  | VZ z -> "z" ^ hexnum_of_z z
  | VB b -> "b" ^ hex_of_bytes b
  | VP (a, b) -> "( " ^ pr_v a ^ " " ^ pr_v b ^ " )"
  | VL l -> "[ " ^ String.concat " " (List.map pr_v l) ^ (if l = [] then "]" else " ]")
let rec parse_v toks = match toks with
  | "(" :: r -> let (a, r) = parse_v r in let (b, r) = parse_v r in
                (match r with ")" :: r -> (VP (a, b), r) | _ -> failwith "expected )")
  | "[" :: r -> let rec go acc r = (match r with "]" :: r -> (VL (List.rev acc), r) | _ -> let (x, r) = parse_v r in go (x :: acc) r) in go [] r
  | t :: r when String.length t > 0 && t.[0] = 'z' -> (VZ (z_of_hexnum (String.sub t 1 (String.length t - 1))), r)
  | t :: r when String.length t > 0 && t.[0] = 'b' -> (VB (bytes_of_hex (String.sub t 1 (String.length t - 1))), r)
  | _ -> failwith "value"
let fmt_of name = match lookup_fmt (chars_of_string name) named_formats with Some f -> f | None -> failwith ("format " ^ name)
let () = run_table [
  "enc", (function name :: toks -> let (v, _) = parse_v toks in
            (match enc (fmt_of name) v with Some b -> hex_of_bytes_strict b | None -> "ERR") | _ -> failwith "args");
  "dec", (function [name; h] -> (match dec_full (fmt_of name) (bytes_of_hex h) with
            | Some (v, r) -> pr_v v ^ " | " ^ hex_of_bytes r | None -> "ERR") | _ -> failwith "args");
  "formats", (function _ -> String.concat " " (List.map (fun (n, _) -> string_of_chars n) named_formats));
]
