(* C09 command table *)
let pr_opt f = function None -> "ERR" | Some x -> f x
let () = run_table [
  "newlen", (function [n] -> hex_of_bytes_strict (new_length (z_of_hexnum n)) | _ -> failwith "args");
  "enclen", (function [n; nhf; l] -> hex_of_bytes_strict (encode_length (z_of_hexnum n) (nhf = "1") (z_of_hexnum l)) | _ -> failwith "args");
  "parse_newlen", (function [h] -> pr_opt (fun (l, r) -> hexnum_of_z l ^ " " ^ hex_of_bytes r) (new_len (bytes_of_hex h)) | _ -> failwith "args");
  "rfc_newlen", (function [h] -> pr_opt (fun ((l, p), r) -> hexnum_of_z l ^ " " ^ bool_s p ^ " " ^ hex_of_bytes r) (rfc_new_len (bytes_of_hex h)) | _ -> failwith "args");
  "hdr_parse", (function [h] -> pr_opt (fun (hd, r) ->
      String.concat " " [hexnum_of_z hd.h_lenfmt; hexnum_of_z hd.h_tag; hexnum_of_z hd.h_llen; hexnum_of_z hd.h_len; hex_of_bytes r])
      (header_parse (bytes_of_hex h)) | _ -> failwith "args");
  "hdr_emit", (function [f; t; l; n] -> pr_opt hex_of_bytes_strict
      (header_emit { h_lenfmt = z_of_hexnum f; h_tag = z_of_hexnum t; h_llen = z_of_hexnum l; h_len = z_of_hexnum n }) | _ -> failwith "args");
  "mpi_emit", (function [v] -> hex_of_bytes_strict (to_mpibytes (z_of_hexnum v)) | _ -> failwith "args");
  "mpi_parse", (function [h] -> let (v, r) = mpi_parse (bytes_of_hex h) in hexnum_of_z v ^ " " ^ hex_of_bytes r | _ -> failwith "args");
  "rfc_mpi", (function [h] -> pr_opt (fun (v, r) -> hexnum_of_z v ^ " " ^ hex_of_bytes r) (rfc_mpi (bytes_of_hex h)) | _ -> failwith "args");
  "sub_parse", (function [h] -> pr_opt (fun (((l, t), c), r) -> String.concat " " [hexnum_of_z l; hexnum_of_z t; bool_s c; hex_of_bytes r])
      (sub_header_parse (bytes_of_hex h)) | _ -> failwith "args");
  "rfc_sublen", (function [h] -> pr_opt (fun (l, r) -> hexnum_of_z l ^ " " ^ hex_of_bytes r) (rfc_sub_len (bytes_of_hex h)) | _ -> failwith "args");
  "sub_emit", (function [l; t; c] -> hex_of_bytes_strict (sub_header_emit (z_of_hexnum l) (z_of_hexnum t) (c = "1")) | _ -> failwith "args");
  "count", (function [c] -> hexnum_of_z (s2k_count (z_of_hexnum c)) ^ " " ^ hexnum_of_z (rfc_count (z_of_hexnum c)) | _ -> failwith "args");
  "time4", (function [t] -> hex_of_bytes_strict (time4 (z_of_hexnum t)) | _ -> failwith "args");
  "untime4", (function [h] -> hexnum_of_z (untime4 (bytes_of_hex h)) | _ -> failwith "args");
]
