(* C10 command table.  Text travels as hex of latin-1 octets (one code point per octet). *)
let split_on c s = if s = "" then [] else String.split_on_char c s
let hdrs_of_arg a =
  if a = "-" then [] else
  List.map (fun kv -> match String.split_on_char ':' kv with
    | [k; v] -> (bytes_of_hex k, bytes_of_hex v) | _ -> failwith "hdr") (String.split_on_char ',' a)
let arg_of_hdrs l =
  if l = [] then "-" else String.concat "," (List.map (fun (k, v) -> hex_of_bytes_strict k ^ ":" ^ hex_of_bytes_strict v) l)
let kind_of_arg = function
  | "pub" -> KPublicKey | "priv" -> KPrivateKey | "emptykey" -> KKeyEmpty | "msg" -> KMessage
  | "clear" -> KCleartext | "sig" -> KSignature | _ -> failwith "kind"
let cls_of_arg = function "key" -> ClsKey | "msg" -> ClsMessage | "sig" -> ClsSignature | _ -> failwith "cls"
let s_of_ures = function
  | UBinary b -> "BIN " ^ hex_of_bytes_strict b
  | UNoMatch -> "NOMATCH"
  | UBadB64 -> "B64ERR"
  | UArmor (m, h, body, crc, warn, clear) ->
    String.concat " " ["OK"; hex_of_bytes_strict m;
      (match h with None -> "N" | Some l -> arg_of_hdrs l);
      hex_of_bytes_strict body; hexnum_of_z crc; bool_s warn;
      (match clear with None -> "N" | Some (hs, t) ->
         (match hs with None -> "N" | Some l -> String.concat "," (List.map hex_of_bytes_strict l)) ^ "|" ^ hex_of_bytes_strict t)]
let () = run_table [
  "b64enc", (function [p] -> let b = bytes_of_hex p in hex_of_bytes_strict (b64_enc b) ^ " " ^ hex_of_bytes_strict (rfc_b64_enc b) | _ -> failwith "args");
  "b64dec", (function [t] -> (match b64_dec (bytes_of_hex t) with None -> "ERR" | Some b -> hex_of_bytes_strict b) | _ -> failwith "args");
  "crc", (function [p] -> let b = bytes_of_hex p in hexnum_of_z (crc24 b) ^ " " ^ hexnum_of_z (crc24_rfc b) | _ -> failwith "args");
  "wrap", (function [t] -> String.concat "," (List.map hex_of_bytes_strict (wrap (bytes_of_hex t))) | _ -> failwith "args");
  "armor", (function [m; h; p] -> hex_of_bytes_strict (armor (bytes_of_hex m) (hdrs_of_arg h) (bytes_of_hex p)) | _ -> failwith "args");
  "unarmor", (function [t] -> s_of_ures (unarmor (bytes_of_hex t)) | _ -> failwith "args");
  "decide", (function [c; m; hc] ->
      (match parse_decision (cls_of_arg c) (if m = "N" then None else Some (bytes_of_hex m)) (hc = "1") with
       | DAccept -> "A" | DAcceptCleartext -> "C" | DValueError -> "V" | DTypeError -> "T") | _ -> failwith "args");
  "magic", (function [k] -> hex_of_bytes_strict (magic_of (kind_of_arg k)) | _ -> failwith "args");
  "label", (function [k] -> hex_of_bytes_strict (rfc_label (match k with "pub" -> RPublicKeyBlock | "priv" -> RPrivateKeyBlock | "msg" -> RMessage | _ -> RSignature)) | _ -> failwith "args");
]
