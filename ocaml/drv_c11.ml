(* C11 command table.  Text travels as 6 hex digits per code point ("-" = empty); octet strings as hex. *)
let cps_of_arg s =
  if s = "-" then [] else
  List.init (String.length s / 6) (fun i -> z_of_hexnum (String.sub s (6 * i) 6))
let arg_of_cps l =
  if l = [] then "-" else
  String.concat "" (List.map (fun z -> let h = hexnum_of_z z in String.make (6 - String.length h) '0' ^ h) l)
let list_of_arg f a = if a = "N" then [] else List.map f (String.split_on_char ',' a)
let hdrs_of_arg a =
  if a = "N" then [] else
  List.map (fun kv -> match String.split_on_char ':' kv with
    | [k; v] -> (cps_of_arg k, cps_of_arg v) | _ -> failwith "hdr") (String.split_on_char ',' a)
let arg_of_hdrs l =
  if l = [] then "N" else String.concat "," (List.map (fun (k, v) -> arg_of_cps k ^ ":" ^ arg_of_cps v) l)
let () = run_table [
  "esc", (function [t] -> let t = cps_of_arg t in arg_of_cps (dash_escape t) ^ " " ^ arg_of_cps (rfc_dash_escape t) | _ -> failwith "args");
  "unesc", (function [t] -> arg_of_cps (dash_unescape (cps_of_arg t)) | _ -> failwith "args");
  "canon", (function [t] -> let t = bytes_of_hex t in hex_of_bytes_strict (canon_pgpy t) ^ " " ^ hex_of_bytes_strict (canon_rfc71 t) | _ -> failwith "args");
  "classes", (function [t] -> let t = cps_of_arg t in
      bool_s (defect_trailing_blanks t) ^ bool_s (defect_non_ascii t) ^ bool_s (defect_final_cr t) | _ -> failwith "args");
  "names", (function [n] -> String.concat "," (List.map arg_of_cps (hash_names (list_of_arg cps_of_arg n))) | _ -> failwith "args");
  "render", (function [n; t; h; p] -> arg_of_cps (render (list_of_arg cps_of_arg n) (cps_of_arg t) (hdrs_of_arg h) (bytes_of_hex p)) | _ -> failwith "args");
  "crlf", (function [t] -> arg_of_cps (to_crlf (cps_of_arg t)) | _ -> failwith "args");
  "read", (function [t] ->
      (match read (cps_of_arg t) with
       | None -> "NONE"
       | Some ((((hs, txt), h), body), warn) ->
         String.concat "|" [(match hs with None -> "N" | Some l -> String.concat "," (List.map arg_of_cps l));
                            arg_of_cps txt; (match h with None -> "N" | Some l -> arg_of_hdrs l); hex_of_bytes_strict body; bool_s warn]) | _ -> failwith "args");
]
