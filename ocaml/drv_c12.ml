(* C12 command table.  Primitive oracle:
     ?hlen <halg>                       -> digest size in octets (hex number)
     ?hash <halg> <hexdata>             -> digest of the octets
     ?hrep <halg> <i> <sp> <q> <r>      -> digest of  i zero octets ++ sp * q ++ sp[:r]   (compressed stream, justified by C12_derive_sym_eq) *)
let pr_opt f = function None -> "ERR" | Some x -> f x
let hlen_cache : (string, z) Hashtbl.t = Hashtbl.create 8
let hlen a =
  let k = hexnum_of_z a in
  match Hashtbl.find_opt hlen_cache k with
  | Some v -> v
  | None -> let v = z_of_hexnum (oracle "hlen" [k]) in Hashtbl.add hlen_cache k v; v
let h a x = bytes_of_hex (oracle "hash" [hexnum_of_z a; hex_of_bytes_strict x])
let hrep a i sp q r =
  bytes_of_hex (oracle "hrep" [hexnum_of_z a; string_of_int (int_of_nat i); hex_of_bytes_strict sp; hexnum_of_z q; hexnum_of_z r])
let () = run_table [
  (* spec halg keylen(bits) salt coded-count passphrase *)
  "derive", (function [s; a; k; salt; c; p] ->
      hex_of_bytes_strict (derive h hlen (z_of_hexnum s) (z_of_hexnum a) (z_of_hexnum k) (bytes_of_hex salt) (z_of_hexnum c) (bytes_of_hex p)) | _ -> failwith "args");
  "derive_sym", (function [s; a; k; salt; c; p] ->
      hex_of_bytes_strict (derive_sym hlen hrep (z_of_hexnum s) (z_of_hexnum a) (z_of_hexnum k) (bytes_of_hex salt) (z_of_hexnum c) (bytes_of_hex p)) | _ -> failwith "args");
  "derive_old", (function [s; a; k; salt; c; p] ->
      pr_opt hex_of_bytes_strict (derive_prefix h hlen (z_of_hexnum s) (z_of_hexnum a) (z_of_hexnum k) (bytes_of_hex salt) (z_of_hexnum c) (bytes_of_hex p)) | _ -> failwith "args");
  (* RFC transcription: key size in OCTETS *)
  "rfc", (function [s; a; kb; salt; c; p] ->
      hex_of_bytes_strict (rfc_s2k h hlen (z_of_hexnum s) (z_of_hexnum a) (z_of_hexnum kb) (bytes_of_hex salt) (z_of_hexnum c) (bytes_of_hex p)) | _ -> failwith "args");
  "plan", (function [s; a; k; salt; c; p] ->
      let pl = derive_plan hlen (z_of_hexnum s) (z_of_hexnum a) (z_of_hexnum k) (bytes_of_hex salt) (z_of_hexnum c) (bytes_of_hex p) in
      String.concat " " (List.map hexnum_of_z [pl.p_ctx; pl.p_count; pl.p_hcount; pl.p_hleft; pl.p_keyoctets]) | _ -> failwith "args");
  "count", (function [c] -> hexnum_of_z (s2k_count (z_of_hexnum c)) ^ " " ^ hexnum_of_z (rfc_count (z_of_hexnum c)) | _ -> failwith "args");
]
