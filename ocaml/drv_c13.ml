(* C13 command table: the model needs no primitive oracle (randomness is an abstract cell allocator) *)
let split c s = if s = "" then [] else String.split_on_char c s
let opt_bytes s = if s = "N" then None else Some (bytes_of_hex s)
let parse_kind s = if s = "R" then KRsa else KEcdh (z_of_hexnum (String.sub s 1 (String.length s - 1)))
let parse_op s = match split ',' s with
  | ["EP"; c; sk; enc; pass; msg] -> EncPass (z_of_hexnum c, bytes_of_hex pass, bytes_of_hex msg, opt_bytes sk, enc = "1")
  | ["EK"; c; k; rcpt; sk; enc; msg] -> EncKey (z_of_hexnum c, parse_kind k, nat_of_int (int_of_string rcpt), bytes_of_hex msg, opt_bytes sk, enc = "1")
  | ["PR"; c; n; pass] -> Protect (z_of_hexnum c, bytes_of_hex pass, nat_of_int (int_of_string n))
  | _ -> failwith ("bad op " ^ s)
let s_purpose = function PSessionKey -> "K" | PSalt -> "S" | PPrefix -> "P" | PIV -> "I" | PEphemeral -> "E"
let s_draw d = s_purpose d.d_purpose ^ ":" ^ hexnum_of_z d.d_size ^ ":" ^ string_of_int (int_of_nat d.d_cell)
let join f l = if l = [] then "-" else String.concat "," (List.map f l)

let () = run_table [
  (* trace start ops -> per op  "draws|exposed cells|exposed supplied octets|number of outputs (0 = the operation raised)"  joined by ';',
     then the next free cell *)
  "trace", (function [start; ops] ->
      let (res, n) = run (List.map parse_op (split ';' ops)) (nat_of_int (int_of_string start)) in
      String.concat ";" (List.map (fun (outs, t) ->
          join s_draw t ^ "|" ^ join (fun c -> string_of_int (int_of_nat c)) (List.concat_map exposed outs)
          ^ "|" ^ join hex_of_bytes (List.concat_map exposed_given outs)
          ^ "|" ^ string_of_int (List.length outs)) res)
      ^ ";" ^ string_of_int (int_of_nat n)
    | _ -> failwith "args");
  "sizes", (function [c] -> hexnum_of_z (key_octets (z_of_hexnum c)) ^ " " ^ hexnum_of_z (blk_octets (z_of_hexnum c)) | _ -> failwith "args");
  "zadd", (function [a; b] -> hexnum_of_z (Z.add (z_of_hexnum a) (z_of_hexnum b)) | _ -> failwith "args");
]
