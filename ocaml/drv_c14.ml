(* C14 command table.  Packets travel as tokens:
   K:<primary>:<public>:<cansign>:<label>   U:<isuid>:<content id>   T   O:<sigtag>:<id>   OK:<id> (opaque PRIMARY key packet)   X:<id> (a packet that is no part of a key: marker / literal)
   S:<serial>:<issuer>:<type>:<created>:<exp n|0|1>:<primary>[:E,<serial>,<issuer>,<type>,<created>,<exp>]*      *)
let zi s = z_of_int (int_of_string s)
let bo s = (s = "1")
let zs z = string_of_int (int_of_z z)
let dummy_digest = { d_subj = OnKey Z0; d_type = Z0; d_created = Z0; d_exp = None; d_primary = false; d_info = []; d_issuer = Z0 }
let exp_of s = match s with "n" -> None | "1" -> Some true | _ -> Some false
let core_of serial issuer ty created exp prim =
  { c_issuer = zi issuer; c_type = zi ty; c_created = zi created; c_exp = exp_of exp; c_primary = bo prim;
    c_info = [zi serial]; c_signer = zi issuer; c_digest = dummy_digest }
let packet_of tok =
  match String.split_on_char ':' tok with
  | ["K"; prim; pub; cs; l] -> PKey (bo prim, bo pub, bo cs, zi l)
  | ["U"; isu; c] -> PUid (bo isu, [zi c])
  | "S" :: serial :: issuer :: ty :: created :: exp :: prim :: embs ->
    let emb e = match String.split_on_char ',' e with
      | ["E"; se; is; ty; cr; ex] -> core_of se is ty cr ex "0"
      | _ -> failwith "emb" in
    PSig { s_core = core_of serial issuer ty created exp prim; s_emb = List.map emb embs }
  | ["T"] -> PTrust
  | ["O"; st; id] -> POpaque (bo st, zi id)
  | ["OK"; id] -> POpaqueKey (zi id)
  | ["X"; id] -> PStray (zi id)
  | _ -> failwith ("token " ^ tok)

let serial c = match c.c_info with x :: _ -> zs x | [] -> "?"
let item_s = function Top s -> "T" ^ serial s.s_core | Emb c -> "E" ^ serial c
let items_s l = String.concat "," (List.map item_s l)
let cont_s c = match c with x :: _ -> zs x | [] -> "?"
let uid_s u = bool_s u.u_isuid ^ "." ^ cont_s u.u_content ^ "[" ^ String.concat "," (List.map (fun s -> serial s.s_core) u.u_sigs) ^ "]"
let sub_s sk = zs sk.sk_label ^ "." ^ bool_s sk.sk_public ^ "[" ^ items_s sk.sk_sigs ^ "]"
let key_s k = "K" ^ zs k.p_label ^ "." ^ bool_s k.p_public ^ "(" ^ items_s k.p_sigs ^ ")(" ^ String.concat ";" (List.map uid_s k.p_uids)
              ^ ")(" ^ String.concat ";" (List.map sub_s k.p_subs) ^ ")"
let pkt_s = function
  | PKey (prim, pub, _, l) -> "K" ^ bool_s prim ^ bool_s pub ^ "." ^ zs l
  | PUid (isu, c) -> "U" ^ bool_s isu ^ "." ^ cont_s c
  | PSig s -> "S" ^ serial s.s_core
  | PTrust -> "T"
  | POpaque (_, id) -> "O" ^ zs id
  | POpaqueKey id -> "OK" ^ zs id
  | PStray id -> "X" ^ zs id
let export_s ps = let s = String.concat "," (List.map pkt_s ps) in if s = "" then "-" else s
let res_s f = function
  | Ok ks -> if ks = [] then "EMPTY" else String.concat " " (List.map f ks)
  | ErrLeadingSignature -> "ERR:AttributeError"
  | ErrNoPrimary -> "ERR:TypeError"
  | ErrTypeError -> "ERR:TypeError"
let all_sorted k =
  sortedb item_lt k.p_sigs && List.for_all (fun u -> sortedb sig_lt u.u_sigs) k.p_uids
  && List.for_all (fun sk -> sortedb item_lt sk.sk_sigs) k.p_subs && uids_sortedb k
(* structure | export | copy structure | export of the copy | public twin | export of the stripped key | all lists sorted *)
let full k =
  String.concat "|" [key_s k; export_s (export k); key_s (copy k); export_s (export (copy k)); key_s (pubkey_of k);
                     export_s (export (strip_nonexportable k)); bool_s (all_sorted k)]
let () = run_table [
  "import", (fun toks -> res_s full (import (List.map packet_of toks)));
  "import_f9", (fun toks -> res_s (fun k -> key_s k ^ "|" ^ export_s (export k) ^ "|" ^ export_s (export (copy_prefix k))) (import_prefix_f9 (List.map packet_of toks)));
  "import_dup", (fun toks -> res_s (fun k -> key_s k) (import_prefix_dup (List.map packet_of toks)));
  "import_oldself", (fun toks -> res_s (fun k -> key_s k ^ "|" ^ export_s (export k)) (import_old_selfsig (List.map packet_of toks)));
  "import_orph", (fun toks -> res_s (fun k -> key_s k) (import_pre_orphanfix (List.map packet_of toks)));
  "import_bf7", (fun toks -> res_s (fun k -> key_s k) (import_pre_bf7 (List.map packet_of toks)));
  "import_f2", (fun toks -> res_s (fun k -> key_s k ^ "|" ^ export_s (export k)) (import_prefix_f2 (List.map packet_of toks)));
  "add", (function [a; b] -> zs (Z.add (zi a) (zi b)) | _ -> failwith "args");
]
