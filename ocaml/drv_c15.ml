(* C15 command table: a stateful world; every command answers with the canonical state of the whole world.
   reset | create L | adduid K ISUID CID INFO PRIM T | recert K ISUID CID INFO PRIM T | certify BY K ISUID CID EXP T | certkey BY K EXP T
   | revuid K ISUID CID T | attest K ISUID CID T | addsub K L CANSIGN FLAGS T | adopt K OTHER T (add_subkey of an existing key object that has identities) | revsub K L T | revkey K T | revoker K BY T | deluid K CID
   | protect K | unlock K | lock K | copy K | reimport K | publish K | state | old <command ...> (step before repair d951222)
   | state_old (the current world read through the PGPUID.selfsig rule before repair 812bc0f: newest signature of any type by the key)
   INFO = comma separated integers ("-" = empty), EXP = n|0|1 *)
let zi s = z_of_int (int_of_string s)
let ni s = nat_of_int (int_of_string s)
let bo s = (s = "1")
let zs z = string_of_int (int_of_z z)
let lz s = if s = "-" then [] else List.map zi (String.split_on_char ',' s)
let exp_of s = match s with "n" -> None | "1" -> Some true | _ -> Some false
let exp_s = function None -> "n" | Some true -> "1" | Some false -> "0"
let info_s l = String.concat "_" (List.map zs l)
let core_s c = String.concat "/" [zs c.c_type; zs c.c_issuer; zs c.c_created; exp_s c.c_exp; bool_s c.c_primary; info_s c.c_info]
let item_s = function Top s -> "T" ^ core_s s.s_core | Emb c -> "E" ^ core_s c
let items_s l = String.concat "," (List.map item_s l)
let cont_s c = match c with x :: _ -> zs x | [] -> "?"
let old_rule = ref false
let uid_s k u =
  let eff = match (if !old_rule then effective_old k u else effective k u) with
    | Some ((ty, info), prim) -> zs ty ^ "/" ^ info_s info ^ "/" ^ bool_s prim
    | None -> "none" in
  bool_s u.u_isuid ^ "." ^ cont_s u.u_content ^ "[" ^ String.concat "," (List.map (fun s -> core_s s.s_core) u.u_sigs) ^ "]=" ^ eff
  ^ "r" ^ string_of_int (List.length (uid_revocations k u))
let sub_s k sk = zs sk.sk_label ^ "." ^ bool_s sk.sk_public ^ "[" ^ items_s sk.sk_sigs ^ "]r" ^ string_of_int (List.length (sub_revocations k sk))
let key_s k = "K" ^ zs k.p_label ^ "." ^ bool_s k.p_public ^ "(" ^ items_s k.p_sigs ^ ")(" ^ String.concat ";" (List.map (uid_s k) k.p_uids)
              ^ ")(" ^ String.concat ";" (List.map (sub_s k) k.p_subs) ^ ")x" ^ zs (if !old_rule then key_expiry_old k else key_expiry k) ^ "r" ^ string_of_int (List.length (key_revocations k))
let obj_s o =
  let k = o.o_key in
  key_s k ^ "L" ^ zs o.o_lock ^ "I" ^ bool_s (inv_key k) ^ bool_s (sorted_key k) ^ bool_s (good_key k) ^ "|" ^ (if k.p_public then "-" else key_s (pubkey_of k))
let world_s w = if w = [] then "EMPTY" else String.concat " " (List.map obj_s w)
let w : kobj list ref = ref []
let op_of = function
  | ["create"; l] -> OCreate (zi l)
  | ["adduid"; k; isu; c; info; prim; t] -> OAddUid (ni k, bo isu, [zi c], lz info, bo prim, zi t)
  | ["recert"; k; isu; c; info; prim; t] -> ORecertify (ni k, bo isu, [zi c], lz info, bo prim, zi t)
  | ["certify"; b; k; isu; c; e; t] -> OCertify (ni b, ni k, bo isu, [zi c], exp_of e, zi t)
  | ["certkey"; b; k; e; t] -> OCertifyKey (ni b, ni k, exp_of e, zi t)
  | ["revuid"; k; isu; c; t] -> ORevokeUid (ni k, bo isu, [zi c], zi t)
  | ["attest"; k; isu; c; t] -> OAttest (ni k, bo isu, [zi c], zi t)
  | ["addsub"; k; l; cs; fl; t] -> OAddSubkey (ni k, zi l, bo cs, zi fl, zi t)
  | ["adopt"; k; j; t] -> OAdoptKey (ni k, ni j, zi t)
  | ["revsub"; k; l; t] -> ORevokeSubkey (ni k, zi l, zi t)
  | ["revkey"; k; t] -> ORevokeKey (ni k, zi t)
  | ["revoker"; k; b; t] -> OAddRevoker (ni k, ni b, zi t)
  | ["deluid"; k; c] -> ODelUid (ni k, [zi c])
  | ["protect"; k] -> OProtect (ni k)
  | ["unlock"; k] -> OUnlock (ni k)
  | ["lock"; k] -> OLock (ni k)
  | ["copy"; k] -> OCopy (ni k)
  | ["reimport"; k] -> OReimport (ni k)
  | ["publish"; k] -> OPublish (ni k)
  | _ -> failwith "op"
let step args = w := apply !w (op_of args); world_s !w
let () = run_table [
  "reset", (fun _ -> w := []; "ok");
  "state", (fun _ -> world_s !w);
  "state_old", (fun _ -> old_rule := true; let r = (try world_s !w with e -> old_rule := false; raise e) in old_rule := false; r);
  "old", (fun args -> w := apply_prefix !w (op_of args); world_s !w);
  "create", (fun a -> step ("create" :: a)); "adduid", (fun a -> step ("adduid" :: a)); "recert", (fun a -> step ("recert" :: a));
  "certify", (fun a -> step ("certify" :: a)); "certkey", (fun a -> step ("certkey" :: a)); "revuid", (fun a -> step ("revuid" :: a)); "attest", (fun a -> step ("attest" :: a)); "addsub", (fun a -> step ("addsub" :: a)); "adopt", (fun a -> step ("adopt" :: a));
  "revsub", (fun a -> step ("revsub" :: a)); "revkey", (fun a -> step ("revkey" :: a)); "revoker", (fun a -> step ("revoker" :: a));
  "deluid", (fun a -> step ("deluid" :: a)); "protect", (fun a -> step ("protect" :: a)); "unlock", (fun a -> step ("unlock" :: a));
  "lock", (fun a -> step ("lock" :: a)); "copy", (fun a -> step ("copy" :: a)); "reimport", (fun a -> step ("reimport" :: a));
  "publish", (fun a -> step ("publish" :: a));
  "add", (function [a; b] -> zs (Z.add (zi a) (zi b)) | _ -> failwith "args");
]
