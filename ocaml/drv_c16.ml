(* C16 command table (Model/Policy.v extracted).
   perform  <bits> <uids> <bind> <subs> <op> <user>      -> nokey | incomplete | nouser | nousage | attr:is_unlocked | attr:is_public |
                                                            crash:user | crash:nobinding | crash:nouserid | run:<component>:<warned>
   performp (pre-480b116: oldest binding)  performo (pre-812bc0f: selfsig = newest signature of any type by the key)
   performl (pre-cab6d36: conditions checked on the receiver)  performc (pre-a0cb78f: unknown user= / unbound subkey raise)
   performi (pre-1d6dbd1: default identity = first user id only)                 -- same arguments
   flags    <bits> <uids> <bind> <subs> <user>           -> per component: flag set (hex) or crash, comma separated
   forms    <bits>                                       -> is_public is_protected is_unlocked (of the receiver)
   route    <own> <subs> <encrypters>                    -> own | cannot | sub:<candidates>
   bits  = present primary public protected unlocked enforce, one digit each (public / protected / unlocked: the RECEIVER's own state)
   uids  = "_" or ';'-separated  ids@sigs@text ; ids = ','-separated hex tokens ("-" none); text = 1 user id / 0 user attribute;
           sigs = "-" or ','-separated created/flags/qual/cert
   bind  = sigs ; subs = "_" or ';'-separated sigs@ppu (ppu = public protected unlocked of that subkey) ; user = "-" or a hex token ;
   lists of ids: ','-separated hex or "-" *)
let split c s = if s = "-" || s = "_" then [] else String.split_on_char c s
let parse_sig s = match String.split_on_char '/' s with
  | [c; f; q; t] -> { s_created = z_of_hexnum c; s_flags = z_of_hexnum f; s_qual = (q = "1"); s_cert = (t = "1") }
  | _ -> failwith "sig"
let parse_sigs s = List.map parse_sig (split ',' s)
let parse_uid s = match String.split_on_char '@' s with
  | [ids; sigs; t] -> { u_text = (t = "1"); u_ids = List.map z_of_hexnum (split ',' ids); u_sigs = parse_sigs sigs }
  | _ -> failwith "uid"
let parse_attr a = { a_public = a.[0] = '1'; a_protected = a.[1] = '1'; a_unl = a.[2] = '1' }
let parse_sub s = match String.split_on_char '@' s with
  | [sigs; a] -> { sb_sigs = parse_sigs sigs; sb_attr = parse_attr a }
  | _ -> failwith "sub"
let parse_key bits uids bind subs =
  let b i = bits.[i] = '1' in
  { k_present = b 0; k_primary = b 1; k_uids = List.map parse_uid (split ';' uids); k_bind = parse_sigs bind;
    k_subs = List.map parse_sub (if subs = "_" then [] else String.split_on_char ';' subs);
    k_attr = parse_attr (String.sub bits 2 3); k_enforce = b 5 }
let parse_op = function
  | "sign" -> OSign | "certify" -> OCertify | "revoke" -> ORevoke | "revoker" -> ORevoker | "bind" -> OBind
  | "encrypt" -> OEncrypt | "decrypt" -> ODecrypt | _ -> failwith "op"
let parse_user u = if u = "-" then None else Some (z_of_hexnum u)
let crash_s = function CrashUser -> "crash:user" | CrashNoBinding -> "crash:nobinding" | CrashNoUserId -> "crash:nouserid"
let show = function
  | NoKey -> "nokey" | Incomplete -> "incomplete" | NoUser -> "nouser" | NoUsage -> "nousage"
  | BadAttr IsUnlocked -> "attr:is_unlocked" | BadAttr IsPublic -> "attr:is_public"
  | Crash c -> crash_s c
  | Run (i, w) -> Printf.sprintf "run:%d:%s" (int_of_nat i) (bool_s w)

let () = run_table [
  "perform", (function [bits; uids; bind; subs; op; user] ->
      show (perform (parse_key bits uids bind subs) (parse_op op) (parse_user user)) | _ -> failwith "args");
  "performp", (function [bits; uids; bind; subs; op; user] ->
      show (perform_prefix (parse_key bits uids bind subs) (parse_op op) (parse_user user)) | _ -> failwith "args");
  "performo", (function [bits; uids; bind; subs; op; user] ->
      show (perform_old_selfsig (parse_key bits uids bind subs) (parse_op op) (parse_user user)) | _ -> failwith "args");
  "performl", (function [bits; uids; bind; subs; op; user] ->
      show (perform_old_lockcheck (parse_key bits uids bind subs) (parse_op op) (parse_user user)) | _ -> failwith "args");
  "performc", (function [bits; uids; bind; subs; op; user] ->
      show (perform_old_crash (parse_key bits uids bind subs) (parse_op op) (parse_user user)) | _ -> failwith "args");
  "performi", (function [bits; uids; bind; subs; op; user] ->
      show (perform_old_identity (parse_key bits uids bind subs) (parse_op op) (parse_user user)) | _ -> failwith "args");
  "flags", (function [bits; uids; bind; subs; user] ->
      String.concat "," (List.map (function FOk f -> hexnum_of_z f | FCrash c -> crash_s c)
                           (comp_flags (parse_key bits uids bind subs) (parse_user user))) | _ -> failwith "args");
  "forms", (function [bits] -> let a = (parse_key bits "_" "-" "_").k_attr in
      String.concat " " [bool_s (is_public a); bool_s (is_protected a); bool_s (is_unlocked a)] | _ -> failwith "args");
  "route", (function [own; subs; enc] ->
      (match decrypt_route (z_of_hexnum own) (List.map z_of_hexnum (split ',' subs)) (List.map z_of_hexnum (split ',' enc)) with
       | RouteOwn -> "own" | RouteCannot -> "cannot"
       | RouteSub c -> "sub:" ^ String.concat "," (List.map hexnum_of_z c)) | _ -> failwith "args");
  "zadd", (function [a; b] -> hexnum_of_z (Z.add (z_of_hexnum a) (z_of_hexnum b)) | _ -> failwith "args");
]
