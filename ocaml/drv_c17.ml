(* C17 command table *)
let pr_opt f = function None -> "ERR" | Some x -> f x
let zlist l = if l = [] then "-" else String.concat "," (List.map hexnum_of_z l)
let curve_of = function
  | "Invalid" -> C_Invalid | "Curve25519" -> Curve25519 | "Ed25519" -> Ed25519
  | "NIST_P256" -> NIST_P256 | "NIST_P384" -> NIST_P384 | "NIST_P521" -> NIST_P521
  | "Brainpool_P256" -> Brainpool_P256 | "Brainpool_P384" -> Brainpool_P384 | "Brainpool_P512" -> Brainpool_P512
  | "SECP256K1" -> SECP256K1 | _ -> failwith "curve"
let size_of kind s = match kind with "b" -> Bits (z_of_hexnum s) | "c" -> Curve (curve_of s) | _ -> failwith "size kind"
(* entries of a result: comma separated hex numbers, "n" = add_sigsubj without issues *)
let result_of s =
  if s = "-" then [] else
  List.fold_left (fun r e -> add_sigsubj r (if e = "n" then None else Some (z_of_hexnum e))) [] (String.split_on_char ',' s)
(* one examined pair: alg:kind:size:expired:parent_expired:revoked:selfv:self_verifying:verified *)
let pair_of s = match String.split_on_char ':' s with
  | [alg; kind; size; e; pe; r; sv; selfver; ok] ->
    (({ k_alg = z_of_hexnum alg; k_size = size_of kind size; k_expired = (e = "1"); k_parent_expired = (pe = "1");
        k_revoked = (r = "1"); k_selfv = z_of_hexnum sv },
      selfver = "1"), ok = "1")
  | _ -> failwith "pair"
let pairs_of s = if s = "-" then [] else List.map pair_of (String.split_on_char ';' s)
let show_result cf r =
  String.concat " " [zlist r; zlist (List.filter (is_good_with cf) r); zlist (List.filter (is_bad_with cf) r); bool_s (truthy_with cf r)]
let () = run_table [
  "cf", (function [v] -> let i = z_of_hexnum v in
      String.concat " " [bool_s (causes_fail i); bool_s (causes_fail_bits i)] | _ -> failwith "args");
  "cfold", (function [v] -> bool_s (causes_fail_prefix (z_of_hexnum v)) | _ -> failwith "args");
  "pred", (function [v] -> let i = z_of_hexnum v in
      String.concat " " [bool_s (is_good i); bool_s (is_bad i); bool_s (entry_ok i)] | _ -> failwith "args");
  "result", (function [s] -> let r = result_of s in
      String.concat " " [zlist r; zlist (good r); zlist (bad r); bool_s (truthy r)] | _ -> failwith "args");
  "and", (function [a; b] -> let r = sv_and (result_of a) (result_of b) in
      String.concat " " [zlist r; zlist (good r); zlist (bad r); bool_s (truthy r)] | _ -> failwith "args");
  "vparams", (function [alg; kind; size] -> pr_opt hexnum_of_z (validate_params (z_of_hexnum alg) (size_of kind size)) | _ -> failwith "args");
  "mgmt", (function [p] -> let ((k, _), _) = pair_of p in hexnum_of_z (check_management k) | _ -> failwith "args");
  "sound", (function [p] -> let ((k, _), _) = pair_of p in pr_opt hexnum_of_z (check_soundness k) | _ -> failwith "args");
  "verify", (function [s] -> pr_opt (show_result causes_fail) (verify_all (pairs_of s)) | _ -> failwith "args");
  "verify_oldmg", (function [s] -> pr_opt (show_result causes_fail) (verify_all_gen causes_fail check_management_prefix (pairs_of s)) | _ -> failwith "args");
  "verify_old", (function [s] -> pr_opt (show_result causes_fail_prefix) (verify_all_with causes_fail_prefix (pairs_of s)) | _ -> failwith "args");
]
