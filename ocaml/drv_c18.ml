(* C18 command table.  Keys travel as token lists:
     key   := <sub 0|1> <created hexnum> <alg hexnum> <mat> <sec>
     mat   := rsa n e | dsa p q g y | elg p g y | ecdsa <curve> <point> | eddsa <curve> <point>
            | ecdh <curve> <point> kh ke | opaque <hex>
     curve := index into all_curves (0..8)
     point := std <bytelen> <x> <y> | nat <hex>
     sec   := pub | sec <usage> <s2k hex> <enc hex> <chk hex> <n> <priv1> ... <privn>            *)
let sha1 = fun x -> oracle_bytes "sha1" [x]
let pr_opt f = function None -> "ERR" | Some x -> f x
let curve_of_idx i = List.nth all_curves i
let rec idx_of_curve c l i = match l with [] -> failwith "curve" | x :: r -> if x = c then i else idx_of_curve c r (i + 1)

let read_point = function
  | "std" :: bl :: x :: y :: r -> (EPStd (z_of_hexnum bl, z_of_hexnum x, z_of_hexnum y), r)
  | "nat" :: h :: r -> (EPNative (bytes_of_hex h), r)
  | _ -> failwith "point"
let read_mat = function
  | "rsa" :: n :: e :: r -> (PRSA (z_of_hexnum n, z_of_hexnum e), r)
  | "dsa" :: p :: q :: g :: y :: r -> (PDSA (z_of_hexnum p, z_of_hexnum q, z_of_hexnum g, z_of_hexnum y), r)
  | "elg" :: p :: g :: y :: r -> (PElG (z_of_hexnum p, z_of_hexnum g, z_of_hexnum y), r)
  | "ecdsa" :: c :: r -> let (pt, r') = read_point r in (PECDSA (curve_of_idx (int_of_string c), pt), r')
  | "eddsa" :: c :: r -> let (pt, r') = read_point r in (PEdDSA (curve_of_idx (int_of_string c), pt), r')
  | "ecdh" :: c :: r -> let (pt, r') = read_point r in
      (match r' with kh :: ke :: r'' -> (PECDH (curve_of_idx (int_of_string c), pt, z_of_hexnum kh, z_of_hexnum ke), r'') | _ -> failwith "kdf")
  | "opaque" :: h :: r -> (POpaque (bytes_of_hex h), r)
  | _ -> failwith "mat"
let rec take n l = if n = 0 then ([], l) else match l with x :: r -> let (a, b) = take (n - 1) r in (x :: a, b) | [] -> failwith "take"
let read_sec = function
  | "pub" :: r -> (None, r)
  | "sec" :: u :: s :: e :: c :: n :: r ->
      let (ps, r') = take (int_of_string n) r in
      (Some { s_usage = z_of_hexnum u; s_s2k = bytes_of_hex s; s_enc = bytes_of_hex e; s_priv = List.map z_of_hexnum ps; s_chk = bytes_of_hex c }, r')
  | _ -> failwith "sec"
let read_key = function
  | sub :: cr :: alg :: r ->
      let (m, r1) = read_mat r in
      let (s, r2) = read_sec r1 in
      ({ k_sub = (sub = "1"); k_created = z_of_hexnum cr; k_alg = z_of_hexnum alg; k_mat = m; k_sec = s }, r2)
  | _ -> failwith "key"
let key_only args = match read_key args with (k, []) -> k | _ -> failwith "trailing tokens"

let show_point = function
  | EPStd (bl, x, y) -> String.concat " " ["std"; hexnum_of_z bl; hexnum_of_z x; hexnum_of_z y]
  | EPNative x -> "nat " ^ hex_of_bytes x
let ci c = string_of_int (idx_of_curve c all_curves 0)
let show_mat = function
  | PRSA (n, e) -> String.concat " " ["rsa"; hexnum_of_z n; hexnum_of_z e]
  | PDSA (p, q, g, y) -> String.concat " " ["dsa"; hexnum_of_z p; hexnum_of_z q; hexnum_of_z g; hexnum_of_z y]
  | PElG (p, g, y) -> String.concat " " ["elg"; hexnum_of_z p; hexnum_of_z g; hexnum_of_z y]
  | PECDSA (c, pt) -> String.concat " " ["ecdsa"; ci c; show_point pt]
  | PEdDSA (c, pt) -> String.concat " " ["eddsa"; ci c; show_point pt]
  | PECDH (c, pt, kh, ke) -> String.concat " " ["ecdh"; ci c; show_point pt; hexnum_of_z kh; hexnum_of_z ke]
  | POpaque d -> "opaque " ^ hex_of_bytes d

(* ops: P:<s2khex>:<enchex>  U:<p1>,<p2>,..  L  K  C  R *)
let read_op s =
  match String.split_on_char ':' s with
  | ["P"; a; b] -> OpProtect (bytes_of_hex a, bytes_of_hex b)
  | ["U"; ps] -> OpUnlock (List.map z_of_hexnum (String.split_on_char ',' ps))
  | ["L"] -> OpLock | ["K"] -> OpPubkey | ["C"] -> OpCopy | ["R"] -> OpReparse
  | _ -> failwith "op"

let show_subs l = if l = [] then "-" else String.concat "," (List.map (fun (t, b) -> hexnum_of_z t ^ ":" ^ hex_of_bytes b) l)

let () = run_table [
  (* fingerprint as the code computes it, RFC 12.2 value over the RFC 5.5.2 body written from the fields,
     publen, the emitted public body, the RFC body *)
  "fp", (fun args -> let k = key_only args in
      (* the public body as exported: of the packet itself when it is public, of its pubkey() twin otherwise
         (REFUSED when pubkey() raises: private packet with opaque material) *)
      let body = (match k.k_sec with None -> hex_of_bytes_strict (key_body k)
                  | Some _ -> (match pub_packet_body k with Some b -> hex_of_bytes_strict b | None -> "REFUSED")) in
      let rfcb = rfc_pub_body k.k_created k.k_alg k.k_mat in
      String.concat " " [hex_of_bytes_strict (fingerprint sha1 k);
        hex_of_bytes_strict (rfc_fingerprint sha1 rfcb); hexnum_of_z (publen k); body; hex_of_bytes_strict rfcb]);
  (* key id as the code takes it, and as the RFC number (low-order 64 bits of the RFC fingerprint) *)
  "kid", (fun args -> let k = key_only args in
      hex_of_bytes_strict (keyid sha1 k) ^ " " ^ hexnum_of_z (rfc_keyid_value sha1 (rfc_pub_body k.k_created k.k_alg k.k_mat)));
  "fpinput", (fun args -> hex_of_bytes_strict (fp_input (key_only args)));
  "body", (fun args -> let k = key_only args in hexnum_of_z (key_tag k) ^ " " ^ hex_of_bytes_strict (key_body k));
  "parse", (function [h] -> pr_opt (fun (((c, a), m), rest) ->
      String.concat " " [hexnum_of_z c; hexnum_of_z a; show_mat m; "|"; hex_of_bytes rest]) (key_body_parse (bytes_of_hex h)) | _ -> failwith "args");
  (* twin <key> : PrivKeyV4.pubkey() - REFUSED, or tag, body and fingerprint of the twin *)
  "twin", (fun args -> match pubkey_pkt (key_only args) with
      | None -> "REFUSED"
      | Some p -> String.concat " " [hexnum_of_z (key_tag p); hex_of_bytes_strict (key_body p); hex_of_bytes_strict (fingerprint sha1 p)]);
  (* ops <op> ... -- <key> : body and fingerprint after the history (REFUSED when a step raises) *)
  "ops", (fun args ->
      let rec split acc = function "--" :: r -> (List.rev acc, r) | x :: r -> split (x :: acc) r | [] -> failwith "no --" in
      let (ops, kt) = split [] args in
      (match run_ops (List.map read_op ops) (key_only kt) with
       | None -> "REFUSED"
       | Some k -> String.concat " " [hexnum_of_z (key_tag k); hex_of_bytes_strict (key_body k); hex_of_bytes_strict (fingerprint sha1 k)]));
  "packets", (function [h] -> let b = bytes_of_hex h in
      pr_opt (fun l -> if l = [] then "-" else String.concat " " (List.map (fun (t, bd) -> hexnum_of_z t ^ ":" ^ hex_of_bytes bd) l))
        (parse_packets (nat_of_int (List.length b + 1)) b) | _ -> failwith "args");
  (* a whole packet: new-format header written by the model + body *)
  "pkt", (function [t; h] -> let b = bytes_of_hex h in
      pr_opt (fun hd -> hex_of_bytes_strict (app hd b))
        (header_emit { h_lenfmt = z_of_int 1; h_tag = z_of_hexnum t; h_llen = z_of_int 1; h_len = z_of_int (List.length b) }) | _ -> failwith "args");
  "sigsub", (function [h] -> pr_opt (fun (hs, us) -> show_subs hs ^ " " ^ show_subs us) (sig_subpackets (bytes_of_hex h)) | _ -> failwith "args");
  "pkesk", (function [h] -> pr_opt hex_of_bytes (pkesk_keyid (bytes_of_hex h)) | _ -> failwith "args");
  "ids", (fun args -> let k = key_only args in
      String.concat " " [hex_of_bytes_strict (issuer_subpacket sha1 k); hex_of_bytes_strict (issuer_fpr_subpacket sha1 k);
                         hex_of_bytes_strict (pkesk_prefix sha1 k)]);
  "oid", (function [i] -> let c = curve_of_idx (int_of_string i) in
      hex_of_bytes_strict (oid_field c) ^ " " ^ hex_of_bytes_strict (rfc_oid_field c) | _ -> failwith "args");
  "zadd", (function [a; b] -> hexnum_of_z (Z.add (z_of_hexnum a) (z_of_hexnum b)) | _ -> failwith "args");
]
