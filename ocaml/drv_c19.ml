(* C19 command table: a stateful model keyring (Model/Keyring.v extracted).
   defkey <label> <fp> <created> <public> <primary> <parentless> <uids>   uids: name,comment,email;...  (hex, "-" empty) or "_"
   probes <alias> ...                   aliases evaluated after every step
   reset | save <n> | restore <n>
   L <keyspec> [r] | U <keyspec> [r]    keyspec: pkid:label[+pkid:label ...]   (the key, then its subkeys in order);
                                        r = 0..2: answer with the probes of index r mod 3 only and without the filtered fingerprints
   Lrepo <keyspec>                      load through the pre-repair _add_alias (regression demonstration)
   Lold <keyspec> | Uold <keyspec>      step of the keyring of before commit 48f9d25 (blanks ignored in every identifier); the answer
                                        evaluates the probes with that membership test / lookup (regression demonstration)
   unspaced <alias>                     PGPKeyring._unspaced
   LoldK <keyspec>                      load through the _add_key of before commit 7e98898 (subkeys visited only when the key was new)
   loadres <keyspec>                    what load() returns for this key: its fingerprint and those of its subkeys
   msg <issuer> ...                     with keyring.key(message)
   aliases <label>                      aliases_of
   The sort used by _sort_alias is (created, is_public) ascending; when two distinct keys tie the order Python's
   sorted(list(set(...))) produces is asked from the harness ("?tie pkid ..."). *)
let keytab : (string, (z list * uid list * z * bool * bool * bool)) Hashtbl.t = Hashtbl.create 16
let meta : (int, (int * bool)) Hashtbl.t = Hashtbl.create 64
let st = ref init
let slots = Array.make 64 init
let probes : z list list ref = ref []

let parse_uids s =
  if s = "_" then [] else
  List.map (fun u -> match String.split_on_char ',' u with
    | [n; c; e] -> { u_name = bytes_of_hex n; u_comment = bytes_of_hex c; u_email = bytes_of_hex e }
    | _ -> failwith "uid") (String.split_on_char ';' s)

let mk1 s = match String.split_on_char ':' s with
  | [pk; label] ->
    let (fp, uids, cr, pub, prim, par) = Hashtbl.find keytab label in
    let pk = int_of_string pk in
    Hashtbl.replace meta pk (int_of_z cr, pub);
    { kid = z_of_int pk; kfp = fp; kuids = uids; kcreated = cr; kpublic = pub; kprimary = prim; kparentless = par }
  | _ -> failwith "keyspec"
let parse_key s = match String.split_on_char '+' s with h :: t -> (mk1 h, List.map mk1 t) | [] -> failwith "keyspec"

let sort_fn (l : z list) : z list =
  let arr = List.map (fun zz -> (Hashtbl.find meta (int_of_z zz), zz)) l in
  let sorted = List.stable_sort (fun (a, _) (b, _) -> compare a b) arr in
  let rec tie = function (a, x) :: ((b, y) :: _ as r) -> (a = b && x <> y) || tie r | _ -> false in
  if tie sorted then begin
    let ans = oracle "tie" (List.map (fun zz -> string_of_int (int_of_z zz)) l) in
    List.map (fun s -> z_of_int (int_of_string s)) (String.split_on_char ',' ans)
  end else List.map (fun (_, zz) -> zz) sorted

let ids l = if l = [] then "." else String.concat "," (List.map (fun zz -> string_of_int (int_of_z zz)) l)
let dump_layers ls =
  if ls = [] then "EMPTY" else
  String.concat "/" (List.map (fun l -> if l = [] then "." else
    String.concat "," (List.map (fun (a, k) -> hex_of_bytes a ^ "=" ^ string_of_int (int_of_z k)) l)) ls)
let combos = [None; Some true; Some false]
(* r < 0: every probe and the nine fingerprints() filters; r >= 0: only probes whose index is r modulo 3, no filters *)
let observe_with cs gk r =
  let s = !st in
  let sel = List.filteri (fun n _ -> r < 0 || n mod 3 = r) !probes in
  let pr = List.map (fun a ->
      bool_s (cs a s.lays) ^ ":" ^ (match gk s a with Some i -> string_of_int (int_of_z i.kid) | None -> "-")) sel in
  let fps = if r >= 0 then [] else List.concat_map (fun half -> List.map (fun typ ->
      let l = List.sort_uniq compare (List.map hex_of_bytes (fingerprints s half typ)) in
      if l = [] then "." else String.concat "," l) combos) combos in
  String.concat " " [dump_layers s.lays; ids (List.map (fun i -> i.kid) s.keys); ids s.pubs; ids s.privs;
                     (if pr = [] then "." else String.concat "," pr); String.concat ";" fps;
                     string_of_int (int_of_nat (klen s))]
let observe_sel r = observe_with containsS get_key r
let observe () = observe_sel (-1)
let observe_old () = observe_with containsS_old get_key_old (-1)
let sel_of = function [] -> -1 | [r] -> int_of_string r | _ -> failwith "args"

let () = run_table [
  "defkey", (function [label; fp; cr; pub; prim; par; uids] ->
      Hashtbl.replace keytab label (bytes_of_hex fp, parse_uids uids, z_of_hexnum cr, pub = "1", prim = "1", par = "1"); "ok"
    | _ -> failwith "args");
  "probes", (fun l -> probes := List.map bytes_of_hex l; "ok");
  "reset", (function [] -> st := init; observe () | _ -> failwith "args");
  "save", (function [n] -> slots.(int_of_string n) <- !st; "ok" | _ -> failwith "args");
  "restore", (function [n] -> st := slots.(int_of_string n); "ok" | _ -> failwith "args");
  "L", (function k :: r -> st := add_key sort_fn !st (parse_key k); observe_sel (sel_of r) | _ -> failwith "args");
  "U", (function k :: r -> st := unload sort_fn !st (parse_key k); observe_sel (sel_of r) | _ -> failwith "args");
  "Lrepo", (function [k] -> st := add_key_with (add_alias_repo sort_fn) !st (parse_key k); observe () | _ -> failwith "args");
  "Lold", (function [k] -> st := step_old sort_fn !st (Load (parse_key k)); observe_old () | _ -> failwith "args");
  "Uold", (function [k] -> st := step_old sort_fn !st (Unload (parse_key k)); observe_old () | _ -> failwith "args");
  "LoldK", (function [k] -> st := step_old_addkey sort_fn !st (Load (parse_key k)); observe () | _ -> failwith "args");
  "loadres", (function [k] -> String.concat "," (List.sort_uniq compare (List.map hex_of_bytes (load_result (parse_key k)))) | _ -> failwith "args");
  "unspaced", (function [a] -> hex_of_bytes (unspaced (bytes_of_hex a)) | _ -> failwith "args");
  "msg", (fun l -> match get_key_issuers !st (List.map bytes_of_hex l) with
      | Some i -> string_of_int (int_of_z i.kid) | None -> "-");
  "aliases", (function [label] ->
      let (fp, uids, cr, pub, prim, par) = Hashtbl.find keytab label in
      let i = { kid = Z0; kfp = fp; kuids = uids; kcreated = cr; kpublic = pub; kprimary = prim; kparentless = par } in
      String.concat "," (List.map hex_of_bytes (aliases_of i))
    | _ -> failwith "args");
  "zadd", (function [a; b] -> hexnum_of_z (Z.add (z_of_hexnum a) (z_of_hexnum b)) | _ -> failwith "args");
]
