(* C20 command table *)
let hz = hexnum_of_z
let zh = z_of_hexnum
let hb = hex_of_bytes_strict
let split c s = if s = "" then [] else String.split_on_char c s
(* code point lists travel as '.'-separated hex numbers, '-' when empty *)
let cps_of s = if s = "-" then [] else List.map zh (split '.' s)
let cps_s l = if l = [] then "-" else String.concat "." (List.map hz l)

let compress a d = oracle_bytes "compress" [[a]; d]
let decompress a d =
  let r = oracle "decompress" [hex_of_bytes [a]; hex_of_bytes d] in
  if r = "ERR" then None else Some (bytes_of_hex r)

let rec render p = match p with
  | POps o -> String.concat ":" ["O"; hz o.o_type; hz o.o_halg; hz o.o_pkalg; hb o.o_keyid; bool_s o.o_flag]
  | PSig s -> String.concat ":" ["S"; hz s.s_type; hz s.s_halg; hz s.s_pkalg; hb s.s_keyid; hz s.s_created; hb s.s_raw]
  | PLit l -> String.concat ":" ["L"; hz l.l_format; cps_s l.l_name; hz l.l_mtime; hb l.l_data]
  | PComp (a, inner) -> "C:" ^ hz a ^ ":[" ^ renders inner ^ "]"
  | PPkesk b -> "K1:" ^ hb b
  | PSkesk b -> "K3:" ^ hb b
  | PSed b -> "E9:" ^ hb b
  | PSeipd b -> "E18:" ^ hb b
  | PMarker b -> "M:" ^ hb b
  | PMdc b -> "D:" ^ hb b
  | POther (t, b) -> "X:" ^ hz t ^ ":" ^ hb b
and renders l = if l = [] then "-" else String.concat ";" (List.map render l)

let render_msg m =
  let body = match m.m_body with
    | BNone -> "none"
    | BClear t -> "clear:" ^ hb t
    | BLit l -> String.concat ":" ["lit"; hz l.l_format; cps_s l.l_name; hz l.l_mtime; hb l.l_data]
    | BEnc (i, ct) -> "enc:" ^ bool_s i ^ ":" ^ hb ct in
  String.concat " " [hz m.m_comp; body; (match m.m_mdc with None -> "nomdc" | Some d -> "mdc:" ^ hb d);
                     (if m.m_sigs = [] then "-" else String.concat ";" (List.map (fun s -> hb s.s_raw) m.m_sigs));
                     renders m.m_esk]

let sig_of s = match split ',' s with
  | [t; h; a; k; c; raw] -> { s_type = zh t; s_halg = zh h; s_pkalg = zh a; s_keyid = bytes_of_hex k; s_created = zh c; s_raw = bytes_of_hex raw }
  | _ -> failwith "sig"

(* op script: N,comp,fmt,name,mtime,data | T,comp,fmt,name,mtime,textcodepoints | S,type,halg,pkalg,keyid,created,raw | E,skeskbody,ct *)
let apply_op m op = match split ',' op with
  | ["N"; c; f; n; t; d] -> new_msg { l_format = zh f; l_name = cps_of n; l_mtime = zh t; l_data = bytes_of_hex d } (zh c)
  | ["T"; c; f; n; t; d] -> new_text (zh f) (cps_of n) (zh t) (cps_of d) (zh c)
  | "S" :: _ -> add_sig m (sig_of (String.sub op 2 (String.length op - 2)))
  | ["E"; k; ct] -> encrypt_msg m (PSkesk (bytes_of_hex k)) (bytes_of_hex ct)
  | _ -> failwith "op"
let build ops = List.fold_left apply_op { m_comp = Z0; m_body = BNone; m_mdc = None; m_sigs = []; m_esk = [] } ops

let pres f = function Ok x -> f x | Reject -> "REJECT" | OutOfFuel -> "FUEL"
let opt f = function Some x -> f x | None -> "ERR"
let fuel s = nat_of_int (int_of_string s)

let () = run_table [
  (* bytes(message) of the model for a message built by the op script *)
  "build", (fun ops -> opt hb (export_bytes compress (build ops)));
  (* packet-level export of the same, with the grammar verdict *)
  "build_pkts", (fun ops -> opt (fun ps -> bool_s (in_grammar ps) ^ " " ^ bool_s (flags_ok ps) ^ " " ^ renders ps) (export_pkts (build ops)));
  "build_pkts_prefix", (fun ops -> opt (fun ps -> bool_s (in_grammar ps) ^ " " ^ bool_s (flags_ok ps) ^ " " ^ renders ps) (export_pkts_prefix (build ops)));
  (* the model parser on octets + RFC 11.3 grammar + 5.4 flag rule *)
  "parse", (function [f; h] -> pres (fun ps ->
      String.concat " " [bool_s (in_grammar ps); bool_s (flags_ok ps);
                         (let fl = ops_flags (unwrap ps) in if fl = [] then "-" else String.concat "" (List.map bool_s fl)); renders ps])
      (parse_pkts decompress (fuel f) (bytes_of_hex h)) | _ -> failwith "args");
  "import", (function [f; h] -> pres render_msg (import_bytes decompress (fuel f) (bytes_of_hex h)) | _ -> failwith "args");
  (* import then export again (model) *)
  "reexport", (function [f; h] -> pres (fun m -> opt hb (export_bytes compress m)) (import_bytes decompress (fuel f) (bytes_of_hex h)) | _ -> failwith "args");
  "litbody", (function [f; n; t; d] -> opt hb (lit_body { l_format = zh f; l_name = cps_of n; l_mtime = zh t; l_data = bytes_of_hex d }) | _ -> failwith "args");
  "litparse", (function [len; h] -> opt (fun (l, r) -> String.concat " " [hz l.l_format; cps_s l.l_name; hz l.l_mtime; hb l.l_data; hb r])
      (lit_parse (zh len) (bytes_of_hex h)) | _ -> failwith "args");
  "rfc_lit", (function [h] -> opt (fun (((f, n), t), d) -> String.concat " " [hz f; cps_s n; hz t; hb d]) (rfc_lit_dec (bytes_of_hex h)) | _ -> failwith "args");
  "opsbody", (function [t; h; a; k; f] -> hb (ops_body { o_type = zh t; o_halg = zh h; o_pkalg = zh a; o_keyid = bytes_of_hex k; o_flag = (f = "1") }) | _ -> failwith "args");
  "opsparse", (function [h] -> opt (fun (o, r) -> String.concat " " [hz o.o_type; hz o.o_halg; hz o.o_pkalg; hb o.o_keyid; bool_s o.o_flag; hb r]) (ops_parse (bytes_of_hex h)) | _ -> failwith "args");
  "rfc_ops", (function [h] -> opt (fun ((((t, ha), a), k), f) -> String.concat " " [hz t; hz ha; hz a; hb k; hz f]) (rfc_ops_dec (bytes_of_hex h)) | _ -> failwith "args");
  "frame", (function [t; b] -> opt hb (frame (zh t) (bytes_of_hex b)) | _ -> failwith "args");
  "frame_old", (function [t; w; b] -> opt hb (frame_old (zh t) (zh w) (bytes_of_hex b)) | _ -> failwith "args");
  "frame_partial", (function [t; ks; b] -> hb (frame_partial (zh t) (cps_of ks) (bytes_of_hex b)) | _ -> failwith "args");
  "utf8", (function [t] -> hb (utf8 (cps_of t)) | _ -> failwith "args");
  "contents", (function [f; d] -> (match contents { l_format = zh f; l_name = []; l_mtime = Z0; l_data = bytes_of_hex d } with
      | VBytes b -> "B " ^ hb b | VText t -> "T " ^ cps_s t | VErr -> "ERR") | _ -> failwith "args");
  "utf8dec", (function [d] -> opt cps_s (utf8_decode (bytes_of_hex d)) | _ -> failwith "args");
  "sigpeek", (function [h] -> opt (fun s -> String.concat " " [hz s.s_type; hz s.s_halg; hz s.s_pkalg; hb s.s_keyid; hz s.s_created]) (sig_peek (bytes_of_hex h)) | _ -> failwith "args");
  "grammar", (function [f; h] -> pres (fun ps -> bool_s (in_grammar ps)) (parse_pkts decompress (fuel f) (bytes_of_hex h)) | _ -> failwith "args");
]
