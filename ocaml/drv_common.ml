(* Shared glue for every extracted-model driver.  This file is textually appended after the
   extracted module (so Z0/Zpos/Zneg/XH/XO/XI/O/S are the extracted constructors) and before
   the per-property command table.  Protocol: one command per line on stdin,
   "cmd arg1 arg2 ..."; one answer line "=..." (result) or "!..." (driver-level failure).
   A model that needs a primitive prints "?name hexarg ..." and reads the answer line. *)

let rec pos_of_int n = if n = 1 then XH else if n land 1 = 0 then XO (pos_of_int (n lsr 1)) else XI (pos_of_int (n lsr 1))
let z_of_int n = if n = 0 then Z0 else if n > 0 then Zpos (pos_of_int n) else Zneg (pos_of_int (-n))
let rec int_of_pos = function XH -> 1 | XO p -> 2 * int_of_pos p | XI p -> 2 * int_of_pos p + 1
let int_of_z = function Z0 -> 0 | Zpos p -> int_of_pos p | Zneg p -> - (int_of_pos p)

let rec nat_of_int n = let rec go n acc = if n <= 0 then acc else go (n - 1) (S acc) in go n O
let int_of_nat n = let rec go n acc = match n with O -> acc | S m -> go m (acc + 1) in go n 0

(* arbitrary-size numbers travel as hex digit strings (optionally "-" prefixed) *)
let hexval c = match c with
  | '0'..'9' -> Char.code c - 48 | 'a'..'f' -> Char.code c - 87 | 'A'..'F' -> Char.code c - 55
  | _ -> failwith "hex"
let z_of_hexnum s =
  let neg = String.length s > 0 && s.[0] = '-' in
  let s = if neg then String.sub s 1 (String.length s - 1) else s in
  (* build the positive from the most significant bit down *)
  let acc = ref None in
  String.iter (fun c ->
    let v = hexval c in
    for i = 3 downto 0 do
      let bit = (v lsr i) land 1 in
      acc := (match !acc with
        | None -> if bit = 1 then Some XH else None
        | Some p -> Some (if bit = 1 then XI p else XO p))
    done) s;
  match !acc with None -> Z0 | Some p -> if neg then Zneg p else Zpos p
let hexnum_of_z z =
  let rec bits p acc = match p with XH -> 1 :: acc | XO q -> bits q (0 :: acc) | XI q -> bits q (1 :: acc) in
  let of_pos p =
    let bl = bits p [] in  (* most significant first *)
    let n = List.length bl in
    let pad = (4 - n mod 4) mod 4 in
    let bl = List.init pad (fun _ -> 0) @ bl in
    let b = Buffer.create 16 in
    let rec go = function
      | a :: b' :: c :: d :: r -> Buffer.add_char b "0123456789abcdef".[a*8+b'*4+c*2+d]; go r
      | _ -> () in
    go bl; Buffer.contents b in
  match z with Z0 -> "0" | Zpos p -> of_pos p | Zneg p -> "-" ^ of_pos p

let bytes_of_hex s =
  if s = "-" then [] else
  List.init (String.length s / 2) (fun i -> z_of_int (hexval s.[2*i] * 16 + hexval s.[2*i+1]))
let hex_of_bytes l =
  if l = [] then "-" else
  let b = Buffer.create 64 in
  List.iter (fun z -> Buffer.add_string b (Printf.sprintf "%02x" ((int_of_z z) land 0xff))) l;
  Buffer.contents b
(* like hex_of_bytes but refuses octets outside 0..255 (a model bug, never silently masked) *)
let hex_of_bytes_strict l =
  List.iter (fun z -> let v = int_of_z z in if v < 0 || v > 255 then failwith "octet out of range") l;
  hex_of_bytes l

let oracle name (args : string list) : string =
  Printf.printf "?%s %s\n%!" name (String.concat " " args);
  input_line stdin
let oracle_bytes name (args : z list list) : z list =
  bytes_of_hex (oracle name (List.map hex_of_bytes args))

let bool_s b = if b then "1" else "0"

let run_table (table : (string * (string list -> string)) list) =
  try
    while true do
      let line = input_line stdin in
      match String.split_on_char ' ' line with
      | cmd :: args ->
        (match List.assoc_opt cmd table with
         | Some f -> (try Printf.printf "=%s\n%!" (f args) with e -> Printf.printf "!%s\n%!" (Printexc.to_string e))
         | None -> Printf.printf "!unknown-command %s\n%!" cmd)
      | [] -> Printf.printf "!empty\n%!"
    done
  with End_of_file -> ()
