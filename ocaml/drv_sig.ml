(* signature model command table (C01, C02, C05) *)
let pr_opt f = function None -> "ERR" | Some x -> f x
let subj_of = function
  | ["doc"; d] -> SDoc (bytes_of_hex d)
  | ["key"; kb] -> SKey (bytes_of_hex kb)
  | ["uid"; kb; u] -> SUid (bytes_of_hex kb, bytes_of_hex u)
  | ["uattr"; kb; u] -> SUattr (bytes_of_hex kb, bytes_of_hex u)
  | ["subkey"; pb; sb] -> SSubkey (bytes_of_hex pb, bytes_of_hex sb)
  | _ -> failwith "subject"
let fields v t pk h hashed = { sf_ver = z_of_hexnum v; sf_type = z_of_hexnum t; sf_pkalg = z_of_hexnum pk; sf_halg = z_of_hexnum h; sf_hashed = bytes_of_hex hashed }
let sps l = String.concat "," (List.map (fun ((t, c), b) -> hexnum_of_z t ^ (if c then "!" else "") ^ ":" ^ hex_of_bytes b) l)
let () = run_table [
  "hashdata", (function v :: t :: pk :: h :: hashed :: s -> pr_opt hex_of_bytes_strict (hashdata (fields v t pk h hashed) (subj_of s)) | _ -> failwith "args");
  "rfc_hashdata", (function v :: t :: pk :: h :: hashed :: s -> pr_opt hex_of_bytes_strict (rfc_hashdata (fields v t pk h hashed) (subj_of s)) | _ -> failwith "args");
  "dsa_from_signer", (function [d] -> pr_opt (fun (r, s) -> hexnum_of_z r ^ " " ^ hexnum_of_z s) (dsa_from_signer (bytes_of_hex d)) | _ -> failwith "args");
  "der_seq2", (function [r; s] -> hex_of_bytes_strict (der_seq2 (z_of_hexnum r) (z_of_hexnum s)) | _ -> failwith "args");
  "eddsa_from_signer", (function [d] -> pr_opt (fun (r, s) -> hexnum_of_z r ^ " " ^ hexnum_of_z s) (eddsa_from_signer (bytes_of_hex d)) | _ -> failwith "args");
  "eddsa_sig", (function [r; s] -> hex_of_bytes_strict (eddsa_sig (z_of_hexnum r) (z_of_hexnum s)) | _ -> failwith "args");
  (* the signer model: sign_body t pk h <hashed subpackets> <unhashed subpackets> <priv handle> <subject...>;
     subpackets as type:crit:bodyhex joined by ','  ("-" for none); digest and signing primitive answered by the oracle *)
  "sign_body", (function t :: pk :: h :: hs :: us :: priv :: s ->
      let sp x = if x = "-" then [] else List.map (fun it -> match String.split_on_char ':' it with
                   | [ty; c; b] -> { sp_type = z_of_hexnum ty; sp_crit = (c = "1"); sp_body = bytes_of_hex b } | _ -> failwith "subpacket") (String.split_on_char ',' x) in
      let dg hh d = oracle_bytes "digest" [[hh]; d] in
      let sg p d hh = oracle_bytes "pk_sign" [p; d; [hh]] in
      pr_opt hex_of_bytes_strict (sign_body dg sg (z_of_hexnum t) (z_of_hexnum pk) (z_of_hexnum h) (sp hs) (sp us) (bytes_of_hex priv) (subj_of s))
    | _ -> failwith "args");
  "canon", (function [d] -> hex_of_bytes (canon (bytes_of_hex d)) ^ " " ^ hex_of_bytes (rfc_canon (bytes_of_hex d)) | _ -> failwith "args");
  (* body after the version octet -> type pkalg halg raw hash2 mpis hashed-subpackets unhashed-subpackets *)
  "sig_parse", (function [b] -> pr_opt (fun s ->
      String.concat " " [hexnum_of_z s.sg_type; hexnum_of_z s.sg_pkalg; hexnum_of_z s.sg_halg; hex_of_bytes s.sg_sub.sp_hashed_raw;
                         hex_of_bytes s.sg_hash2; hex_of_bytes s.sg_mpis; "h=" ^ sps s.sg_sub.sp_hashed; "u=" ^ sps s.sg_sub.sp_unhashed])
      (sig_body_parse (bytes_of_hex b)) | _ -> failwith "args");
  (* one (signature, subject) pair of PGPKey.verify; the primitive is answered by the oracle *)
  "verify_pair", (function pub :: issues :: fails :: body :: s ->
      (match sig_body_parse (bytes_of_hex body) with
       | None -> "ERR"
       | Some sg ->
         let pkv p d m h = (oracle "pk_verify" [hex_of_bytes p; hex_of_bytes d; hex_of_bytes m; hexnum_of_z h]) = "1" in
         pr_opt hexnum_of_z (verify_pair pkv (bytes_of_hex pub) (z_of_hexnum issues) (fails = "1") sg (subj_of s)))
    | _ -> failwith "args");
  (* SubPackets as a state machine (Model/SubArea.v): sa_hist <areas + rest> <ops>   ops: H:ty:c:body | U:ty:c:body | C joined by ','
     -> received hashed area or '-', received unhashed area or '-', number of hashed / unhashed subpackets, rest *)
  "sa_hist", (function [p; ops] ->
      (match sa_parse (bytes_of_hex p) with
       | None -> "ERR"
       | Some (st, rest) ->
         let op it = match String.split_on_char ':' it with
           | ["C"] -> Copy
           | [k; ty; c; b] -> let x = ((z_of_hexnum ty, (c = "1")), bytes_of_hex b) in if k = "H" then SetH x else SetU x
           | _ -> failwith "op" in
         let ol = if ops = "-" then [] else List.map op (String.split_on_char ',' ops) in
         let st' = sa_run st ol in
         let o = function None -> "-" | Some r -> hex_of_bytes r in
         String.concat " " [o st'.sa_hraw; o st'.sa_uraw; string_of_int (List.length st'.sa_h); string_of_int (List.length st'.sa_u); hex_of_bytes rest])
    | _ -> failwith "args");
]
