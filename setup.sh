#!/bin/sh
# Build the whole framework offline from files on disk: regenerate Gen/ from /repo, full .vo build, extraction, drivers.
set -e
cd "$(dirname "$0")"
mkdir -p bin ocaml/gen evidence/replay coq/Gen
/venv/bin/python tools/py2coq.py
cd coq
/venv/bin/python - <<'PY'
import glob, os
want = '-Q . PV\n' + ''.join(sorted(p + '\n' for d in ('Lib', 'Model', 'Spec', 'Gen', 'Refine', 'Proofs', 'Props', 'Extract') for p in glob.glob(os.path.join(d, '*.v'))))
open('_CoqProject', 'w').write(want)
PY
coq_makefile -f _CoqProject -o Makefile
timeout 3000 make -k -j16 || echo "setup: some Coq targets failed (reported per property by ./check)"
cd ..
for d in ocaml/drv_*.ml; do
  [ "$d" = ocaml/drv_common.ml ] && continue
  n=$(basename "$d" .ml); n=${n#drv_}
  [ -f ocaml/gen/ex_$n.ml ] || continue
  cat ocaml/gen/ex_$n.ml ocaml/drv_common.ml "$d" > ocaml/gen/all_$n.ml
  (cd ocaml/gen && ocamlfind ocamlopt -w -a all_$n.ml -o ../../bin/drv_$n) || echo "setup: driver $n failed"
done
echo "setup done"
