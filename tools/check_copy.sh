#!/bin/sh
# usage: tools/check_copy.sh <Cxx> [tier]   -- self-validation only: run one check on /repo from a private copy of /verif (parallel-safe)
p=$1; tier=${2:-quick}
vc=/tmp/vcc_$$
rsync -a --exclude .git /verif/ $vc/
(cd $vc && timeout 3000 ./check $p --tier $tier 2>&1 | grep -v "^# [a-zP]" | cut -c1-400 | tail -6)
rm -rf $vc
