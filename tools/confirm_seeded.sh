#!/bin/sh
# usage: tools/confirm_seeded.sh <dir with patch.diff demo.py>  -> prints: suite result, demo exit codes (mutant / original)
d=$(readlink -f "$1")
wt=/tmp/verif_wt_c$$
git -C /repo worktree add -q --detach $wt HEAD || exit 2
(cd $wt && git apply "$d/patch.diff") || { echo "APPLY-FAILED"; git -C /repo worktree remove --force $wt; exit 2; }
suite=$(/venv/bin/python /verif/tools/runsuite.py $wt 2>&1 | head -1)
PYTHONHASHSEED=0 timeout 600 /venv/bin/python "$d/demo.py" $wt >/dev/null 2>&1; m=$?
PYTHONHASHSEED=0 timeout 600 /venv/bin/python "$d/demo.py" /repo >/dev/null 2>&1; o=$?
git -C /repo worktree remove --force $wt
echo "$(basename $(dirname $d))/$(basename $d): $suite | demo mutant=$m original=$o"
