#!/bin/sh
# usage: tools/coqchk_one.sh <Cxx> -- (statement files named *_refuted.v hold large vm_compute witnesses and are re-checked separately: `coqchk -silent -o -Q . PV PV.Props.C08_refuted`, hours)
# self-validation / trusted-base audit, not a MANIFEST command.  coqchk of the .vo closure of one property's Props file and its Refine files (compiled files of /verif/coq as they are)
p=$1
cd /verif/coq
mods=$(/venv/bin/python -c "
import sys; sys.path.insert(0,'/verif/tools')
from props import PROPS
print(' '.join('PV.' + t[:-3].replace('/', '.') for t in PROPS['$p']['targets'] if not t.startswith('Extract/') and not t.endswith('_refuted.vo')))")
t0=$(date +%s)
timeout 3000 coqchk -silent -o -Q . PV $mods > /verif/coqchk_logs/$p.txt 2>&1; rc=$?
echo "modules: $mods" >> /verif/coqchk_logs/$p.txt
echo "exit=$rc seconds=$(( $(date +%s) - t0 )) repo_head=$(git -C /repo log --format=%h -1) verif_head=$(git -C /verif log --format=%h -1)" >> /verif/coqchk_logs/$p.txt
echo "$p rc=$rc"
