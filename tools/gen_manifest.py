#!/venv/bin/python
"""Regenerate /verif/MANIFEST.json from tools/props.py + the table below (keeps the file valid at all times)."""
import json, os, sys
sys.path.insert(0, os.path.dirname(os.path.abspath(__file__)))
from props import PROPS, TEXT

VERIF = os.path.abspath(os.path.join(os.path.dirname(__file__), '..'))

PENDING_REASON = 'check not built yet in this session (work in progress; see DESIGN.md section 8 build order)'


def main():
    props = [json.loads(l) for l in open(os.path.join(VERIF, 'properties.jsonl'))]
    checks, na = [], []
    ready = set(open(os.path.join(VERIF, 'tools', 'ready.txt')).read().split())
    for p in props:
        pid = p['id']
        if pid in PROPS and pid in TEXT and pid in ready:
            text, ref, tech = TEXT[pid]
            cfg = PROPS[pid]
            checks.append({
                'property_id': pid,
                'quick_cmd': './check %s --tier quick' % pid,
                'thorough_cmd': './check %s --tier thorough' % pid,
                'evidence_file': '/verif/evidence/%s.json' % pid,
                'replay_cmd_template': './check %s --replay {path}' % pid,
                'engine': 'rocq-proof+correspondence',
                'level_claimed': {'category': 'proof', 'text': text, 'design_ref': ref},
                'level_note': 'Trusted: Coq 8.16.1 kernel incl. vm_compute (no native_compute); tools/py2coq.py; ExtrOcamlBasic extraction + OCaml driver; '
                              'Python harness; ' + '; '.join(cfg['trusted_base'] + cfg['assumptions']) +
                              '. Theorems print "Closed under the global context" (checked on every run).',
                'technique': tech,
            })
        else:
            na.append({'property_id': pid, 'reason': PENDING_REASON})
    man = {
        'version': 1,
        'setup_cmd': './setup.sh',
        'hooks': {'guard': 'PGPY_VERIF', 'enable': 'no source hooks are needed: all observation points are reachable from outside (public attributes, bytes(), monkey-patching os.urandom from the harness)',
                  'baseline_off_cmd': 'cd /repo && /venv/bin/python -m pytest -ra -q -p no:cacheprovider --timeout=900 --continue-on-collection-errors',
                  'source_commits': [], 'add_only': True},
        'engines': [{'name': 'rocq-proof+correspondence', 'path': '/verif/check', 'serves_properties': [c['property_id'] for c in checks],
                     'kind_free_text': 'Rocq/Coq 8.16.1 development under /verif/coq (model, RFC spec, proofs, Props/Cxx.v), tied to /repo by tools/py2coq.py '
                                       '(AST -> Gallina, Refine/ lemmas) and by running the extracted model (ocaml/) against the implementation'}],
        'checks': checks,
        'not_applicable': na,
        'notes': 'See DESIGN.md. known_findings.json lists repaired (fixed:) and recorded defects.',
    }
    json.dump(man, open(os.path.join(VERIF, 'MANIFEST.json'), 'w'), indent=1)
    print('MANIFEST: %d checks, %d not_applicable' % (len(checks), len(na)))


if __name__ == '__main__':
    main()
