"""C01: signature soundness.  Mutation search on the real code: for signatures PGPy made (every type / algorithm of the C02
generator) apply every semantic mutation the property lists and require falsy-or-raise; correspondence of the per-pair verdict
with the extracted model (primitive answered by `cryptography` on raw numbers); detached, in-message and in-key carriers."""
import copy, warnings

from .common import Driver, hx, unhx, hn, unhn, outcome, outcome_timed, load_repo
from . import sigcommon as S
from .c02 import Env, pgpy_signatures, t


def run(ctx):
    env = Env(ctx)
    try:
        with warnings.catch_warnings():
            warnings.simplefilter('ignore')
            _run(env)
    finally:
        env.d.close()


def falsy(o):
    return o[0] == 'raise' or o[1] is False


def verify_blob(env, pub, subj_obj, pkt):
    return outcome_timed(1.0, lambda: bool(pub.verify(subj_obj, env.pgpy.PGPSignature.from_blob(bytes(pkt)))))


SAME_SHAPE = {0x00: [0x01, 0x02, 0x40], 0x01: [0x00, 0x40], 0x10: [0x11, 0x12, 0x13, 0x16, 0x30], 0x11: [0x10, 0x13], 0x12: [0x10, 0x13],
              0x13: [0x10, 0x11, 0x12, 0x16, 0x30], 0x16: [0x13, 0x30], 0x30: [0x10, 0x13], 0x18: [0x19, 0x28], 0x19: [0x18, 0x28],
              0x28: [0x18, 0x19], 0x1F: [0x20], 0x20: [0x1F], 0x40: [0x02, 0x00], 0x02: [0x40, 0x00]}


def mutate_subject(env, label, sobj, msubj, rng):
    """other subjects of the same Python kind that must NOT verify under the same signature"""
    pgpy = env.pgpy
    out = []
    if msubj[0] == 'doc' and sobj is not None:
        if isinstance(sobj, str):
            out += [sobj + 'x', sobj[:-1] if sobj else 'x', sobj.replace('l', 'L', 1) if 'l' in sobj else sobj + ' ', sobj + '\n\n']
        else:
            b = bytes(sobj)
            out += [b + b'\x00', b[:-1] if b else b'\x00', (bytes([b[0] ^ 1]) + b[1:]) if b else b'\x01']
            if len(b) > 2:
                i = rng.randrange(len(b)); out.append(b[:i] + bytes([b[i] ^ (1 << rng.randrange(8))]) + b[i + 1:])
    return out


def _run(env):
    ctx, d, pgpy = env.ctx, env.d, env.pgpy
    S.check_pins(ctx, S.sig_pins(env.pgpy))
    rng = ctx.rng
    names = ['ed25519', 'p256', 'rsa2048'] if ctx.quick else ['ed25519', 'ed25519b', 'p256', 'p384', 'p521', 'secp256k1', 'rsa2048', 'rsa3072', 'dsa2048']
    for ki, name in enumerate(names):
        try:
            k = env.key(name)
        except Exception as ex:
            ctx.skipped.append('%s: %r' % (name, ex)); continue
        halgs = [8] if ctx.quick else [2, 8, 10]
        if name.startswith('dsa'): halgs = [8]
        pub = k.pubkey
        othername = 'ed25519b' if name != 'ed25519b' else 'ed25519'
        otherpub = env.key(othername).pubkey
        for label, signer, sig, sobj, msubj, vpub, et in pgpy_signatures(env, name, halgs):
            raw = bytes(sig)
            body, ver = S.parse_sig_packet(raw)
            hdr = len(raw) - len(body) - 1
            p = S.model_sig_parse(d, body)
            base = verify_blob(env, vpub, sobj, raw)
            case0 = {'op': 'mut', 'key': name, 'label': label, 'sig': raw.hex()}
            ctx.case('baseline', (name, label), sample={'key': name, 'label': label, 'type': p['type']})
            if base != ('ok', True):
                ctx.fail('baseline', 'unmutated signature does not verify', dict(case0, impl=repr(base))); continue

            # --- verdict correspondence: model verify_pair with the primitive answered independently ---
            alg, ipub, _ = env.indep(signer)
            def pkv(pubhex, dhex, mhex, h, ipub=ipub, alg=alg):
                return '1' if S.indep_verify(alg, ipub, int(h, 16), unhx(dhex), S.read_mpis(unhx(mhex))) else '0'
            d.oracles['pk_verify'] = pkv
            mv = d.call('verify_pair', '-', '0', '0', hx(body), S.subj_args(msubj))
            sv = vpub.verify(sobj, pgpy.PGPSignature.from_blob(raw))
            issues = [int(e.issues) for e in sv._subjects]
            if mv == 'ERR' or issues != [unhn(mv)]:
                ctx.fail('verdict', 'per-entry issue differs from the model', dict(case0, impl=issues, model=mv))

            # --- mutations of the subject ---
            for ms in mutate_subject(env, label, sobj, msubj, rng):
                o = outcome(lambda: bool(vpub.verify(ms, pgpy.PGPSignature.from_blob(raw))))
                ctx.case('mut-subject', (name, label, repr(ms)[:40]))
                if not falsy(o):
                    ctx.fail('mut-subject', 'verifies over a different document', dict(case0, subject=repr(ms)[:200]))
            if msubj[0] in ('uid', 'uattr'):
                # a different user id of the same key / the same user id text on another key
                cands = [otherpub.userids[0], vpub.userids[0]]
                for other in [u for u in cands if bytes(u.hashdata) != msubj[2] or bytes(u._parent.hashdata) != msubj[1]][:1]:
                    o = outcome(lambda: bool(vpub.verify(other, pgpy.PGPSignature.from_blob(raw))))
                    ctx.case('mut-subject', (name, label, 'other-uid'))
                    if not falsy(o): ctx.fail('mut-subject', 'certification verifies over a different user id / key', dict(case0, subject='other uid'))
                twin = pgpy.PGPUID.new('Mallory', comment='x', email='m@example.com'); twin._parent = vpub
                o = outcome(lambda: bool(vpub.verify(twin, pgpy.PGPSignature.from_blob(raw))))
                ctx.case('mut-subject', (name, label, 'forged-uid'))
                if not falsy(o): ctx.fail('mut-subject', 'certification verifies over a forged user id on the same key', dict(case0, subject='forged uid'))
            if msubj[0] in ('key', 'subkey'):
                o = outcome(lambda: bool(vpub.verify(otherpub, pgpy.PGPSignature.from_blob(raw))))
                ctx.case('mut-subject', (name, label, 'other-key'))
                if not falsy(o): ctx.fail('mut-subject', 'key signature verifies over a different key', dict(case0, subject='other key'))

            # --- mutations of the signature packet: type, algorithm ids, hashed area, MPIs ---
            muts = []
            for nt in SAME_SHAPE.get(p['type'], []):
                muts.append(('type->%#x' % nt, hdr + 1, nt))
            for npk in {1, 2, 3, 16, 17, 18, 19, 20, 22} - {p['pkalg']}:
                muts.append(('pkalg->%d' % npk, hdr + 2, npk))
            for nh in {2, 8, 10, 11} - {p['halg']}:
                muts.append(('halg->%d' % nh, hdr + 3, nh))
            hstart, hlen = hdr + 4, len(p['raw'])
            positions = list(range(hstart, hstart + hlen))
            if ctx.quick and len(positions) > 24:
                positions = positions[:8] + rng.sample(positions[8:], 16)
            for pos in positions:
                muts.append(('hashed@%d' % (pos - hstart), pos, raw[pos] ^ (1 << rng.randrange(8))))
            mstart = len(raw) - len(p['mpis'])
            for pos in rng.sample(range(mstart + 2, len(raw)), min(ctx.n(6, 40), len(raw) - mstart - 2)):
                muts.append(('mpi@%d' % (pos - mstart), pos, raw[pos] ^ (1 << rng.randrange(8))))
            for what, pos, val in muts:
                mut = bytearray(raw); mut[pos] = val
                if what.startswith('mpi@'):
                    # a flip in the bit-count octets that leaves every signature integer (and the packet length) unchanged is not a
                    # semantic mutation: the signature integers are what was produced
                    try:
                        b2, _ = S.parse_sig_packet(bytes(mut)); p2 = S.model_sig_parse(d, b2)
                        if p2 and S.read_mpis(p2['mpis']) == S.read_mpis(p['mpis']): continue
                    except Exception:
                        pass
                o = verify_blob(env, vpub, sobj, mut)
                ctx.case('mut-packet', (name, label, what))
                if not falsy(o):
                    ctx.fail('mut-packet', 'mutated signature packet (%s) still verifies' % what, dict(case0, pos=pos, val=val, what=what))

            # --- signature integers that differ by more than a bit flip: octets prepended to each MPI (value + k*256^len),
            #     an extra trailing MPI, a dropped trailing octet ---
            ints = S.read_mpis(p['mpis'])
            pre = raw[:len(raw) - len(p['mpis'])]
            variants = []
            for idx in range(len(ints)):
                for mult in (1, 0xa5, 0x0102030405):
                    n = (ints[idx].bit_length() + 7) // 8
                    v2 = list(ints); v2[idx] = ints[idx] + (mult << (8 * n))
                    variants.append(('mpi%d+%x*256^%d' % (idx, mult, n), b''.join(S.mpi(x) for x in v2)))
            variants.append(('short-mpi', p['mpis'][:-1]))
            for what, mp in variants:
                # rebuild the packet with a correct header length
                nb = bytes([4]) + body[:len(body) - len(p['mpis'])] + mp
                mut = S.sig_packet(nb)
                o = verify_blob(env, vpub, sobj, mut)
                ctx.case('mut-packet', (name, label, what))
                if not falsy(o):
                    ctx.fail('mut-packet', 'signature with altered integers (%s) still verifies' % what, dict(case0, what=what, mutated=mut.hex()))

            # --- histories on ONE signature object: a good verification must not make a later wrong one pass ---
            sobj_sig = pgpy.PGPSignature.from_blob(raw)
            first = outcome(lambda: bool(vpub.verify(sobj, sobj_sig)))
            later = []
            for ms in mutate_subject(env, label, sobj, msubj, rng)[:2]:
                later.append(('subject', outcome(lambda: bool(vpub.verify(ms, sobj_sig)))))
            if msubj[0] in ('uid', 'uattr'):
                twin2 = pgpy.PGPUID.new('Mallory', comment='x', email='m@example.com'); twin2._parent = vpub
                later.append(('forged-uid', outcome(lambda: bool(vpub.verify(twin2, sobj_sig)))))
            if msubj[0] in ('key', 'subkey'):
                later.append(('other-key', outcome(lambda: bool(vpub.verify(otherpub, sobj_sig)))))
            again = outcome(lambda: bool(vpub.verify(sobj, sobj_sig)))
            ctx.case('same-object-history', (name, label))
            if first != ('ok', True) or again != ('ok', True):
                ctx.fail('same-object-history', 'repeated verification of one signature object is not stable', dict(case0, first=repr(first), again=repr(again)))
            for what, o in later:
                if not falsy(o):
                    ctx.fail('same-object-history', 'after one good verification the same signature object verifies over a different %s' % what, dict(case0, what=what))

            # --- wrong key: another key of the pool, and the right key id on the wrong key material ---
            o = verify_blob(env, otherpub, sobj if msubj[0] == 'doc' else sobj, raw)
            ctx.case('wrong-key', (name, label, 'other'))
            if not falsy(o): ctx.fail('wrong-key', 'signature verifies under a key that did not make it', dict(case0, wrong=othername))

        # --- key material mutation: flip one bit of the public point / modulus and verify a document signature ---
        sg = k.sign(b'key material', hash=pgpy.constants.HashAlgorithm.SHA256, created=t(9000))
        kraw = bytearray(bytes(pub))
        pk0 = S.split_packets(bytes(kraw))[0]
        off = len(pk0[2]) - 5
        for j in range(ctx.n(6, 40)):
            mutk = bytearray(kraw); pos = off - rng.randrange(0, min(20, off - 12)); mutk[pos] ^= 1 << rng.randrange(8)
            # a flip in an MPI bit-count octet that leaves every public integer unchanged is not a change of key material
            try:
                mk = pgpy.PGPKey.from_blob(bytes(mutk))[0]
                same = [int(x) if not hasattr(x, 'x') else (x.x, getattr(x, 'y', None)) for x in mk._key.keymaterial] == \
                       [int(x) if not hasattr(x, 'x') else (x.x, getattr(x, 'y', None)) for x in pub._key.keymaterial]
            except Exception:
                same = False
            if same:
                continue
            o = outcome(lambda: bool(pgpy.PGPKey.from_blob(bytes(mutk))[0].verify(b'key material', sg)))
            ctx.case('mut-key', (name, pos))
            if not falsy(o): ctx.fail('mut-key', 'signature verifies under altered key material', {'op': 'mutkey', 'key': name, 'pos': pos})

    # --- a signature by SOMEBODY ELSE whose issuer key id is rewritten to a component of the verifying key that cannot verify anything
    #     (an ECDH encryption subkey): nothing was checked, so the answer must be falsy or an error - never a truthy result with no
    #     signature examined (SignatureVerification over zero entries is truthy) ---
    for vname, aname in ((('ed25519', 'ed25519b'), ('p256', 'ed25519b'), ('rsa2048', 'p256')) if ctx.quick else
                         (('ed25519', 'ed25519b'), ('p256', 'ed25519b'), ('rsa2048', 'p256'), ('p384', 'ed25519'), ('secp256k1', 'rsa2048'), ('ed25519b', 'p521'))):
        try:
            victim, attacker = env.key(vname), env.key(aname)
        except Exception as ex:
            ctx.skipped.append('%s / %s: %r' % (vname, aname, ex)); continue
        vpub2 = pgpy.PGPKey.from_blob(bytes(victim.pubkey))[0]
        targets = [(kid, sk) for kid, sk in vpub2.subkeys.items() if not sk.key_algorithm.can_sign]
        doc = b'pay 9999 to mallory'
        fsig = attacker.sign(doc, hash=pgpy.constants.HashAlgorithm.SHA256, created=t(9600))
        fraw = bytes(fsig)
        akid = bytes.fromhex(attacker.fingerprint.keyid)
        for kid, sk in targets:
            tk = bytes.fromhex(kid)
            variants = [('issuer id rewritten', fraw.replace(b'\x09\x10' + akid, b'\x09\x10' + tk)), ('every occurrence of the key id rewritten', fraw.replace(akid, tk))]
            for what, forged in variants:
                if forged == fraw:
                    continue
                case = {'op': 'forged-issuer', 'victim': vname, 'attacker': aname, 'component': kid, 'what': what, 'sig': forged.hex()}
                tests = [('detached, same document', lambda: bool(vpub2.verify(doc, pgpy.PGPSignature.from_blob(forged)))),
                         ('detached, another document', lambda: bool(vpub2.verify(b'something else', pgpy.PGPSignature.from_blob(forged))))]
                def in_message():
                    m = pgpy.PGPMessage.new(doc, compression=pgpy.constants.CompressionAlgorithm.Uncompressed)
                    m |= pgpy.PGPSignature.from_blob(forged)
                    return bool(vpub2.verify(pgpy.PGPMessage.from_blob(bytes(m))))
                tests.append(('inside a signed message', in_message))
                for tn, fn in tests:
                    o = outcome_timed(2.0, fn)
                    ctx.case('wrong-key', (vname, aname, kid, what, tn), sample={'victim': vname, 'issuer_names': 'ECDH subkey', 'how': tn})
                    if not falsy(o):
                        ctx.fail('wrong-key', "somebody else's signature verifies once its issuer id names a component of the key that cannot verify (%s)" % tn, dict(case, how=tn))

    # --- a verifying key (or signing subkey) that carries a revocation: whatever PGPy then says about GOOD signatures, a wrong
    #     document, a damaged signature or another key's signature must still not verify ---
    from .keys import get as _get
    for name in (['ed25519', 'rsa2048'] if ctx.quick else names):
        try:
            kr = _get(name)
        except Exception:
            continue
        doc = b'signed before the revocation'
        sg = kr.sign(doc, created=t(9300))
        foreign = env.key('ed25519b' if name != 'ed25519b' else 'p256').sign(doc, created=t(9301))
        subs = [sk for sk in kr.subkeys.values() if sk.key_algorithm.can_sign and int(sk.key_algorithm) != 18]
        so_ = outcome(lambda: subs[0].sign(doc, created=t(9302))) if subs else ('raise', None)
        ssg = so_[1] if so_[0] == 'ok' else None
        kr |= kr.revoke(kr, created=t(9310))
        if subs:
            subs[0] |= kr.revoke(subs[0], created=t(9311))
        rpub = pgpy.PGPKey.from_blob(bytes(kr.pubkey))[0]
        raw = bytes(sg)
        tests = [('tampered document', lambda: bool(rpub.verify(doc + b'!', pgpy.PGPSignature.from_blob(raw)))),
                 ('signature integer changed', lambda: bool(rpub.verify(doc, pgpy.PGPSignature.from_blob(raw[:-3] + bytes([raw[-3] ^ 0x10]) + raw[-2:])))),
                 ("another key's signature", lambda: bool(rpub.verify(doc, foreign)))]
        if ssg is not None:
            sraw = bytes(ssg)
            tests += [('tampered document under the revoked subkey', lambda: bool(rpub.verify(doc + b'!', pgpy.PGPSignature.from_blob(sraw)))),
                      ('subkey signature integer changed', lambda: bool(rpub.verify(doc, pgpy.PGPSignature.from_blob(sraw[:-3] + bytes([sraw[-3] ^ 0x10]) + sraw[-2:]))))]
        for what, fn in tests:
            o = outcome_timed(2.0, fn)
            ctx.case('revoked-key', (name, what))
            if not falsy(o):
                ctx.fail('revoked-key', 'under a key that carries a revocation: %s verifies' % what, {'op': 'revoked', 'key': name, 'what': what})

    # --- carriers: signatures inside messages and certifications inside keys ---
    k = env.key('ed25519'); pub = k.pubkey
    m = pgpy.PGPMessage.new(b'carried in a message', file=False, compression=pgpy.constants.CompressionAlgorithm.Uncompressed)
    m |= k.sign(m, created=t(9100))
    blob = bytes(m)
    o = outcome(lambda: bool(pub.verify(pgpy.PGPMessage.from_blob(blob))))
    ctx.case('carrier', 'msg-ok')
    if o != ('ok', True): ctx.fail('carrier', 'signed message does not verify', {'op': 'carrier', 'impl': repr(o)})
    pk = S.split_packets(blob)
    lit = [i for i, x in enumerate(pk) if x[0] == 11][0]
    for j in range(ctx.n(8, 60)):
        mb = bytearray(pk[lit][2]); pos = len(mb) - 1 - rng.randrange(0, 18); mb[pos] ^= 1 << rng.randrange(8)
        mblob = b''.join(x[2] for x in pk[:lit]) + bytes(mb) + b''.join(x[2] for x in pk[lit + 1:])
        o = outcome(lambda: bool(pub.verify(pgpy.PGPMessage.from_blob(mblob))))
        ctx.case('carrier', ('msg-mut', pos, j))
        if not falsy(o): ctx.fail('carrier', 'message with altered literal data verifies', {'op': 'carrier', 'msg': mblob.hex()})
    # text literals: the signature covers the literal's OCTETS; another encoding of "the same text", another undecodable octet,
    # a byte-order mark added or removed, are all different documents
    alg, ipub, ipriv = env.indep(k)
    keyid = bytes.fromhex(str(k.fingerprint.keyid)); fpr = bytes.fromhex(str(k.fingerprint))
    import re as _re
    nmsg = 0
    for fmt in 'tub':
        for body, others in [
            (b'caf\xe9 \xa3\n', [b'caf\xc3\xa9 \xc2\xa3\n', b'caf\xe8 \xa3\n', b'caf\xe9 \xa5\n', b'\xef\xbb\xbfcaf\xe9 \xa3\n', b'caf\xef\xbf\xbd \xef\xbf\xbd\n', b'caf? ?\n']),
            (b'caf\xc3\xa9\n', [b'caf\xe9\n', b'cafe\xcc\x81\n', b'\xef\xbb\xbfcaf\xc3\xa9\n', b'caf\xc3\xa9\n\n', b'caf\xc3\xa9']),
            (b'\xef\xbb\xbfbom first\n', [b'bom first\n', b'\xff\xfebom first\n']),
            (b'a\rb\n', [b'a\nb\n', b'a\r\nb\n', b'a\rb\r']),
        ]:
            if fmt == 'u' and outcome(lambda: body.decode('utf-8'))[0] != 'ok':
                continue
            for st in (0x00, 0x01):
                nmsg += 1
                asm = S.signed_message_maker(d, alg, ipriv, keyid, fpr, fmt, body, st, 8, 7000 + nmsg)
                o = outcome(lambda: bool(pub.verify(pgpy.PGPMessage.from_blob(asm()))))
                ctx.case('carrier', ('lit-ok', fmt, body, st))
                if o != ('ok', True):
                    ctx.fail('carrier', 'independently signed message does not verify (baseline of the literal-octets mutations)', {'op': 'carrier', 'msg': asm().hex(), 'impl': repr(o)[:200]}); continue
                cn = (lambda x: _re.sub(br'\r?\n', b'\r\n', x)) if st == 0x01 else (lambda x: x)
                for ob in others:
                    if cn(ob) == cn(body):
                        continue       # same canonical text: a type 0x01 signature rightly covers both
                    for f2 in ([fmt] if ctx.quick else 'tub'):
                        mblob = asm(ob, f2)
                        o = outcome(lambda: bool(pub.verify(pgpy.PGPMessage.from_blob(mblob))))
                        ctx.case('carrier', ('lit-mut', fmt, f2, body, ob, st))
                        if not falsy(o): ctx.fail('carrier', 'signed message verifies although its literal holds other octets (%r for %r)' % (ob[:16], body[:16]), {'op': 'carrier', 'msg': mblob.hex()})
    # a user id in another Unicode composition (same glyphs, other octets) is another user id: the certification does not cover it
    from .keys import get as _get2
    kk = _get2('ed25519')
    import unicodedata
    for name in ['Jos\u00e9 N\u00fa\u00f1ez', 'Jose\u0301 Nu\u0301n\u0303ez', '\u212bngstr\u00f6m \u2126', 'Zo\u00eb \ufb01sher']:
        uu = pgpy.PGPUID.new(name, email='u@example.com')
        kk.add_uid(uu, usage={pgpy.constants.KeyFlags.Sign}, created=t(9400))
    kblob = bytes(kk.pubkey)
    kp2 = S.split_packets(kblob)
    for idx, x in enumerate(kp2):
        if x[0] != 13:
            continue
        txt = x[1].decode('utf-8')
        for form in ('NFC', 'NFD', 'NFKC', 'NFKD'):
            alt = unicodedata.normalize(form, txt).encode('utf-8')
            if alt == x[1]:
                continue
            newpkt = S.new_header(13, len(alt)) + alt
            # a key holding ONLY this identity: primary key packet, the re-spelled user id, the signatures that followed the original one
            j = idx + 1
            while j < len(kp2) and kp2[j][0] == 2:
                j += 1
            kb2 = kp2[0][2] + newpkt + b''.join(y[2] for y in kp2[idx + 1:j])
            def chk2():
                k2 = pgpy.PGPKey.from_blob(kb2)[0]
                (u2,) = list(k2.userids)
                sigs2 = [sg_ for sg_ in u2.__sig__ if sg_.signer == k2.fingerprint.keyid]
                return len(sigs2) > 0 and any(bool(k2.verify(u2, sg_)) for sg_ in sigs2)
            o = outcome(chk2)
            ctx.case('carrier', ('uid-composition', txt, form))
            if not falsy(o): ctx.fail('carrier', 'self-certification verifies over the user id re-spelled in %s (other octets)' % form, {'op': 'carrier', 'key': kb2.hex()})
    # one message, two signatures: an OLDER one by the primary key over ANOTHER document, a newer genuine one by the signing subkey
    ksub = _get2('ed25519')
    subs = [sk for sk in ksub.subkeys.values() if int(sk.key_algorithm) == 22]
    if subs:
        good_doc, other_doc = b'the document in the message', b'another document'
        so1 = outcome(lambda: subs[0].sign(good_doc, created=t(9501)))
        if so1[0] == 'ok':
            bad1 = ksub.sign(other_doc, created=t(9500))
            mm = pgpy.PGPMessage.new(good_doc, compression=pgpy.constants.CompressionAlgorithm.Uncompressed)
            mm |= bad1
            mm |= so1[1]
            for order, blob2 in (('as built', bytes(mm)),):
                o = outcome(lambda: bool(ksub.pubkey.verify(pgpy.PGPMessage.from_blob(blob2))))
                ctx.case('carrier', ('bad-primary-then-good-subkey', order))
                if not falsy(o): ctx.fail('carrier', 'a message with a non-matching signature by the primary key verifies because a later subkey signature is good', {'op': 'carrier', 'msg': blob2.hex()})
    # certification inside a key: alter the user id octets in the exported key
    kb = bytes(pub)
    kp = S.split_packets(kb)
    ui = [i for i, x in enumerate(kp) if x[0] == 13][0]
    for j in range(ctx.n(6, 40)):
        ub = bytearray(kp[ui][2]); pos = len(ub) - 1 - rng.randrange(0, len(kp[ui][1])); ub[pos] ^= 1 << rng.randrange(7)
        kblob = b''.join(x[2] for x in kp[:ui]) + bytes(ub) + b''.join(x[2] for x in kp[ui + 1:])
        def chk():
            k2 = pgpy.PGPKey.from_blob(kblob)[0]
            u2 = k2.userids[0]
            return all(bool(pub.verify(u2, s)) for s in u2.__sig__ if s.signer == pub.fingerprint.keyid) and len(list(u2.__sig__)) > 0
        o = outcome(chk)
        ctx.case('carrier', ('key-mut', pos, j))
        if not falsy(o): ctx.fail('carrier', 'self-certification verifies over an altered user id carried in a key', {'op': 'carrier', 'key': kblob.hex()})


def replay(ctx, case):
    env = Env(ctx)
    try:
        with warnings.catch_warnings():
            warnings.simplefilter('ignore')
            if case.get('op') == 'mut' and 'pos' in case:
                # re-find the subject through the generator label
                name = case['key']
                env.key(name)
                for label, signer, sig, sobj, msubj, vpub, et in pgpy_signatures(env, name, [8, 2, 10]):
                    if label == case['label']:
                        mut = bytearray(bytes.fromhex(case['sig'])); mut[case['pos']] = case['val']
                        return not falsy(verify_blob(env, vpub, sobj, mut))
            if case.get('op') == 'carrier' and 'msg' in case and 'impl' not in case:
                pub = env.key('ed25519').pubkey
                return not falsy(outcome(lambda: bool(pub.verify(env.pgpy.PGPMessage.from_blob(bytes.fromhex(case['msg']))))))
            if case.get('op') == 'forged-issuer':
                pgpy = env.pgpy
                vpub = pgpy.PGPKey.from_blob(bytes(env.key(case['victim']).pubkey))[0]
                forged = bytes.fromhex(case['sig'])
                return not falsy(outcome(lambda: bool(vpub.verify(b'pay 9999 to mallory', pgpy.PGPSignature.from_blob(forged)))))
            return True
    finally:
        env.d.close()
