"""C02: every signature PGPy makes is accepted by an independent RFC 4880 5.2.4 verifier (extracted Spec function +
`cryptography` on raw key numbers), and every signature the independent signer makes verifies under PGPy.
Also the correspondence PGPSignature.hashdata == model hashdata == Spec rfc_hashdata on the same inputs."""
import os, warnings
from datetime import datetime, timedelta, timezone

from .common import Driver, hx, unhx, hn, unhn, outcome, load_repo, REPO
from . import sigcommon as S
from .keys import get, T0


def t(n):
    return T0 + timedelta(seconds=1000 + n)


class Env:
    def __init__(self, ctx):
        self.ctx = ctx
        self.pgpy = load_repo()
        self.d = Driver('sig')
        self.keys = {}
        self.comp = {}
        self.ik = {}

    def key(self, name):
        if name not in self.keys:
            k = get(name)
            self.keys[name] = k
            self.comp[name] = S.exported_components(k)
        return self.keys[name]

    def indep(self, pgpkey):
        fp = str(pgpkey.fingerprint)
        if fp not in self.ik:
            self.ik[fp] = S.indep_key(pgpkey)
        return self.ik[fp]


def subject_octets(env, kind, keyname, idx=0, doc=None, other=None):
    """model subject from EXPORTED octets only"""
    c = env.comp[other or keyname]
    if kind == 'doc': return ('doc', doc)
    if kind == 'key': return ('key', c['primary'])
    if kind == 'subkeyonly': return ('key', c['subkeys'][idx])
    if kind == 'uid': return ('uid', c['primary'], c['uids'][idx])
    if kind == 'uattr': return ('uattr', c['primary'], c['uattrs'][idx])
    if kind == 'subkey': return ('subkey', c['primary'], c['subkeys'][idx])
    raise ValueError(kind)


def check_pgpy_signature(env, suite, label, signer_key, sig, subj_obj, msubj, verifier_pub=None, expect_type=None):
    """the full C02(a) oracle for one signature made by PGPy"""
    ctx, d = env.ctx, env.d
    raw = bytes(sig)
    case = {'op': 'pgpy_sig', 'label': label, 'sig': raw.hex(), 'subject': [msubj[0]] + [x.hex() for x in msubj[1:]]}
    body, ver = S.parse_sig_packet(raw)
    p = S.model_sig_parse(d, body)
    ctx.case(suite, (label, raw[:40]), sample={'label': label, 'type': p and p['type'], 'halg': p and p['halg'], 'len': len(raw)})
    if p is None or ver != 4:
        ctx.fail(suite, 'model parser rejects a signature PGPy emitted', case); return
    if expect_type is not None and p['type'] != expect_type:
        ctx.fail(suite, 'unexpected signature type %#x' % p['type'], case)
    # 1. correspondence: PGPy's hash input == model == RFC transcription (from exported octets)
    impl = outcome(lambda: bytes(sig.hashdata(subj_obj)))
    mh = S.model_hashdata(d, 4, p['type'], p['pkalg'], p['halg'], p['raw'], msubj)
    rh = S.model_hashdata(d, 4, p['type'], p['pkalg'], p['halg'], p['raw'], msubj, rfc=True)
    if impl[0] != 'ok' or mh is None or impl[1] != mh:
        ctx.fail(suite, 'PGPSignature.hashdata differs from the model', dict(case, impl=repr(impl)[:200], model=mh and mh.hex()[:200])); return
    if rh != mh:
        ctx.fail(suite, 'hash input differs from the RFC 4880 5.2.4 transcription', dict(case, rfc=rh and rh.hex()[:200], impl=mh.hex()[:200])); return
    # 2. left 16 bits
    if S.digest(p['halg'], rh)[:2] != p['hash2']:
        ctx.fail(suite, 'left 16 bits of the hash are wrong', case)
    # 3. independent verification with the raw public numbers
    alg, pub, _ = env.indep(signer_key)
    if alg != p['pkalg']:
        ctx.fail(suite, 'public-key algorithm octet does not name the signing key algorithm', case)
    if not S.indep_verify(alg, pub, p['halg'], rh, S.read_mpis(p['mpis'])):
        ctx.fail(suite, 'independent RFC 4880 verifier rejects a signature PGPy made', case)
    # 4. issuer
    if S.issuer_of(p) != str(signer_key.fingerprint.keyid):
        ctx.fail(suite, 'issuer subpacket does not name the signing key', case)
    # 5. PGPy after export + re-import
    o = outcome(lambda: env.pgpy.PGPSignature.from_blob(raw))
    if o[0] != 'ok':
        ctx.fail(suite, 'PGPy cannot re-import a signature it emitted', dict(case, impl=repr(o))); return
    sig2 = o[1]
    vk = verifier_pub
    o = outcome(lambda: bool(vk.verify(subj_obj, sig2)))
    if o != ('ok', True):
        ctx.fail(suite, 'PGPy does not verify its own signature after export/import', dict(case, impl=repr(o)))
    if bytes(sig2) != raw:
        ctx.fail(suite, 'signature does not re-export identically', case)
    # 6. a copy of the re-imported signature (what PGPKey.pubkey / copy.copy of keys, uids, messages make) behaves the same
    import copy as _copy
    sig3 = _copy.copy(sig2)
    o3 = outcome(lambda: bool(vk.verify(subj_obj, sig3)))
    if o3 != ('ok', True) or bytes(sig3) != raw:
        ctx.fail(suite, 'a copy of the re-imported signature does not verify / export identically', dict(case, impl=repr(o3)))


def pgpy_signatures(env, keyname, halgs):
    """generator over (label, signer_key, sig, subject object, model subject, verifier public key, expected type)"""
    pgpy, ctx = env.pgpy, env.ctx
    from pgpy.constants import SignatureType as ST, KeyFlags as F, HashAlgorithm as H, SymmetricKeyAlgorithm as SK, \
        CompressionAlgorithm as Z, RevocationReason as RR, KeyServerPreferences as KSP
    k = env.key(keyname)
    other = env.key('ed25519b' if keyname != 'ed25519b' else 'ed25519')
    pub = k.pubkey
    HN = {1: H.MD5, 2: H.SHA1, 3: H.RIPEMD160, 8: H.SHA256, 9: H.SHA384, 10: H.SHA512, 11: H.SHA224}
    docs = [b'', b'x', b'hello\nworld\r\nend\rq\n', bytes(range(256)), 'café ☃ \U0001F600\n'.encode(), b'a' * 5000]
    n = 0
    for hv in halgs:
        h = HN[hv]
        for doc in (docs if hv == 8 else docs[:3]):
            n += 1
            yield ('bin', k, k.sign(doc, hash=h, created=t(n)), doc, ('doc', doc), pub, 0x00)
        # cleartext / canonical text
        for text in ['', 'one line', 'l1\nl2\n', 'crlf\r\nline\r\n', '- dash\nFrom x\n', 'café\n']:
            n += 1
            m = pgpy.PGPMessage.new(text, cleartext=True)
            sg = k.sign(m, hash=h, created=t(n))
            yield ('text', k, sg, m.message, ('doc', m.message.encode('utf-8')), pub, 0x01)
        n += 1
        yield ('timestamp', k, k.sign(None, hash=h, created=t(n)), None, ('doc', b''), pub, 0x40)
    h = HN[halgs[0]]
    uid = k.userids[0]
    ouid = other.userids[0]
    opt_sets = [
        {}, {'expires': timedelta(days=3)}, {'notation': {'a@b.c': 'vé', 'bin@b.c': bytearray(b'\x00\xff')}},
        {'policy_uri': 'https://example.com/pölicy'}, {'revocable': False}, {'include_issuer_fingerprint': False},
        {'intended_recipients': [other.pubkey]}, {'user': uid.name},
    ]
    for i, o in enumerate(opt_sets):
        n += 1
        yield ('bin-opt%d' % i, k, k.sign(b'options', hash=h, created=t(n), **o), b'options', ('doc', b'options'), pub, 0x00)
    n += 1
    yield ('standalone', k, k.sign(None, hash=h, created=t(n), notation={'n@x': 'v'}), None, ('doc', b''), pub, 0x02)
    # certifications: four levels, self and third party, option grid
    cert_opts = [
        {}, {'usage': {F.Sign, F.Certify, F.EncryptCommunications}, 'hashes': [H.SHA512, H.SHA256], 'ciphers': [SK.AES256, SK.CAST5],
             'compression': [Z.ZLIB, Z.BZ2, Z.ZIP, Z.Uncompressed], 'key_expiration': timedelta(days=3650), 'keyserver': 'hkp://keys.example',
             'keyserver_flags': {KSP.NoModify}, 'primary': True},
        {'exportable': False}, {'exportable': True}, {'primary': False}, {'notation': {'k@d': 'v'}, 'policy_uri': 'http://p', 'revocable': False},
    ]
    for lvl in (ST.Generic_Cert, ST.Persona_Cert, ST.Casual_Cert, ST.Positive_Cert):
        for i, o in enumerate(cert_opts if lvl == ST.Positive_Cert else cert_opts[:1]):
            n += 1
            yield ('selfcert-%x-%d' % (lvl, i), k, k.certify(uid, level=lvl, hash=h, created=t(n), **o), uid,
                   subject_octets(env, 'uid', keyname), pub, int(lvl))
        for i, o in enumerate([{}, {'trust': (1, 60)}, {'trust': (2, 120), 'regex': '<[^>]+[@.]example\\.com>$'}, {'exportable': False}]):
            if lvl != ST.Generic_Cert and i: continue
            n += 1
            yield ('3pcert-%x-%d' % (lvl, i), k, k.certify(ouid, level=lvl, hash=h, created=t(n), **o), ouid,
                   subject_octets(env, 'uid', keyname, other=('ed25519b' if keyname != 'ed25519b' else 'ed25519')), pub, int(lvl))
    # user ids whose packet needs a two-octet / five-octet length (192.. and 8384.. octets)
    for ln in (191, 192, 300, 9000):
        n += 1
        kl = get(keyname)
        lu = pgpy.PGPUID.new('L' * (ln - 10), comment='', email='l@x.example')
        kl.add_uid(lu, usage={F.Sign}, created=t(n))
        luid = [u for u in kl.userids if u.name.startswith('LLLL')][0]
        sg = kl.certify(luid, level=ST.Positive_Cert, hash=h, created=t(n))
        comp = S.exported_components(kl)
        ub = [u for u in comp['uids'] if u.startswith(b'LLLL')][0]
        yield ('longuid%d' % ln, kl, sg, luid, ('uid', comp['primary'], ub), kl.pubkey, 0x13)
    n += 1
    yield ('attest', k, k.certify(uid, level=ST.Attestation, hash=h, created=t(n), attested_certifications=[]), uid,
           subject_octets(env, 'uid', keyname), pub, 0x16)
    # direct key, designated revoker
    n += 1
    yield ('direct', k, k.certify(k, hash=h, created=t(n), usage={F.Certify}), k, subject_octets(env, 'key', keyname), pub, 0x1F)
    n += 1
    yield ('revoker', k, k.revoker(other, hash=h, created=t(n)), k, subject_octets(env, 'key', keyname), pub, 0x1F)
    # revocations
    for i, (rr, cm) in enumerate([(RR.NotSpecified, ''), (RR.Compromised, 'lost it é'), (RR.Retired, 'x' * 300)]):
        n += 1
        yield ('keyrev%d' % i, k, k.revoke(k, hash=h, created=t(n), reason=rr, comment=cm), k, subject_octets(env, 'key', keyname), pub, 0x20)
    n += 1
    yield ('certrev', k, k.revoke(uid, hash=h, created=t(n), reason=RR.UserID, comment='old'), uid, subject_octets(env, 'uid', keyname), pub, 0x30)
    # subkeys: binding (with embedded primary-key binding for signing subkeys) and subkey revocation
    for idx, (skid, sk) in enumerate(k.subkeys.items()):
        n += 1
        fl = {F.Sign} if sk.key_algorithm.can_sign and int(sk.key_algorithm) != 18 else {F.EncryptCommunications}
        bsig = k.bind(sk, hash=h, created=t(n), usage=fl)
        yield ('bind%d' % idx, k, bsig, sk, subject_octets(env, 'subkey', keyname, idx), pub, 0x18)
        emb = [e for e in bsig._signature.subpackets['EmbeddedSignature']]
        if F.Sign in fl:
            if not emb:
                ctx.fail('pgpy-made', 'binding of a signing-capable subkey lacks the embedded primary-key binding', {'op': 'bind', 'key': keyname})
            else:
                esig = pgpy.PGPSignature.from_blob(S.sig_packet(bytes([4]) + bytes(emb[0].__bytearray__())[len(emb[0].header):][1:]))
                # primary-key binding is made by the subkey over (primary, subkey)
                yield ('xsig%d' % idx, sk, esig, k, subject_octets(env, 'subkey', keyname, idx), pub, 0x19)
        n += 1
        yield ('subrev%d' % idx, k, k.revoke(sk, hash=h, created=t(n), reason=RR.Superseded, comment=''), sk,
               subject_octets(env, 'subkey', keyname, idx), pub, 0x28)


def run(ctx):
    env = Env(ctx)
    try:
        _run(env)
    finally:
        env.d.close()


def _run(env):
    ctx = env.ctx
    S.check_pins(ctx, S.sig_pins(env.pgpy))
    names = ['ed25519', 'p256', 'rsa2048', 'rsa2050', 'dsa2048'] if ctx.quick else ['ed25519', 'ed25519b', 'p256', 'p384', 'p521', 'secp256k1', 'rsa2048', 'rsa2050', 'rsa3072', 'dsa2048']
    allh = sorted(S.HASHES)
    with warnings.catch_warnings():
        warnings.simplefilter('ignore')
        sig_value_encodings(env)
        for ki, name in enumerate(names):
            try:
                env.key(name)
            except Exception as ex:
                ctx.skipped.append('%s: %r' % (name, ex)); continue
            halgs = allh if (not ctx.quick or ki == 0) else [8, 10]
            if name.startswith('dsa'):
                halgs = [h for h in halgs if h in (8, 9, 10)]   # q is 256 bits: FIPS 186 pairs it with >= 256-bit hashes
            gen = pgpy_signatures(env, name, halgs)
            while True:
                try:
                    item = next(gen)
                except StopIteration:
                    break
                label, signer, sig, sobj, msubj, pub, et = item
                check_pgpy_signature(env, 'pgpy-made', '%s/%s' % (name, label), signer, sig, sobj, msubj, verifier_pub=pub, expect_type=et)
            independent_signer(env, name)
            independent_messages(env, name)


def sig_value_encodings(env):
    """DSASignature / ECDSASignature / EdDSASignature .from_signer and __sig__ against the model and against cryptography's DER encoder"""
    ctx, d = env.ctx, env.d
    rng = ctx.rng
    from cryptography.hazmat.primitives.asymmetric import utils
    from pgpy.packet.fields import DSASignature, ECDSASignature, EdDSASignature
    sizes = [1, 7, 8, 159, 160, 255, 256, 257, 383, 384, 511, 512, 520, 521, 1016, 1023, 1024, 2048]
    for i in range(ctx.n(300, 4000)):
        r = rng.getrandbits(rng.choice(sizes)); s = rng.getrandbits(rng.choice(sizes))
        if i < 8: r, s = [(0, 0), (0, 1), (127, 128), (255, 256), (1 << 1015, 1), (1 << 1016, (1 << 1024) - 1), ((1 << 2048) - 1, 0), (128, 32768)][i]
        der = utils.encode_dss_signature(r, s)
        ctx.case('sig-encoding', ('dsa', r, s), sample={'r_bits': r.bit_length(), 's_bits': s.bit_length(), 'der_len': len(der)})
        case = {'op': 'der', 'r': hn(r), 's': hn(s)}
        md = d.call('der_seq2', hn(r), hn(s))
        if md == 'ERR' or unhx(md) != der:
            ctx.fail('sig-encoding', 'Spec DER encoder differs from cryptography (harness self-check)', dict(case, model=md[:200], lib=der.hex()[:200])); continue
        for cls in (DSASignature, ECDSASignature):
            o = outcome(lambda: (lambda x: (x.from_signer(der), (int(x.r), int(x.s)))[1])(cls()))
            mo = d.call('dsa_from_signer', hx(der))
            want = ('ok', (r, s))
            if o != want:
                ctx.fail('sig-encoding', '%s.from_signer does not recover (r, s) from DER' % cls.__name__, dict(case, impl=repr(o)[:200]))
            if cls is DSASignature and mo != '%s %s' % (hn(r), hn(s)):
                ctx.fail('sig-encoding', 'model DER reader disagrees', dict(case, model=mo))
            x = cls(); x.from_signer(der)
            if bytes(x.__sig__()) != der:
                ctx.fail('sig-encoding', '%s.__sig__ is not the DER encoding of (r, s)' % cls.__name__, dict(case, impl=bytes(x.__sig__()).hex()[:200]))
    for i in range(ctx.n(200, 3000)):
        sig = bytes(rng.randrange(256) for _ in range(64))
        if i == 0: sig = bytes(64)
        if i == 1: sig = b'\x00' * 31 + b'\x01' + b'\x00' * 32
        x = EdDSASignature(); x.from_signer(sig)
        ctx.case('sig-encoding', ('eddsa', sig))
        mo = d.call('eddsa_from_signer', hx(sig))
        if mo != '%s %s' % (hn(int(x.r)), hn(int(x.s))):
            ctx.fail('sig-encoding', 'EdDSASignature.from_signer differs from the model', {'op': 'eddsa', 'sig': sig.hex(), 'model': mo})
        if bytes(x.__sig__()) != sig or unhx(d.call('eddsa_sig', hn(int(x.r)), hn(int(x.s)))) != sig:
            ctx.fail('sig-encoding', 'EdDSA split / join is not the identity', {'op': 'eddsa', 'sig': sig.hex(), 'impl': bytes(x.__sig__()).hex()})


def independent_signer(env, name):
    """C02(b): signatures assembled from the Spec + raw private numbers must verify under PGPy"""
    ctx, d, pgpy = env.ctx, env.d, env.pgpy
    k = env.key(name)
    pub = k.pubkey
    alg, ipub, ipriv = env.indep(k)
    comp = env.comp[name]
    keyid = bytes.fromhex(str(k.fingerprint.keyid))
    fpr = bytes.fromhex(str(k.fingerprint))
    uid = pub.userids[0]
    subjects = [
        (0x00, ('doc', b'independent'), b'independent'), (0x00, ('doc', b''), b''), (0x01, ('doc', b'a\nb\r\nc'), 'a\nb\r\nc'),
        (0x13, ('uid', comp['primary'], comp['uids'][0]), uid), (0x10, ('uid', comp['primary'], comp['uids'][0]), uid),
        (0x1F, ('key', comp['primary']), pub), (0x20, ('key', comp['primary']), pub), (0x30, ('uid', comp['primary'], comp['uids'][0]), uid),
        (0x16, ('uid', comp['primary'], comp['uids'][0]), uid),
    ]
    if comp['subkeys']:
        sk = list(pub.subkeys.values())[0]
        subjects += [(0x18, ('subkey', comp['primary'], comp['subkeys'][0]), sk), (0x28, ('subkey', comp['primary'], comp['subkeys'][0]), sk)]
    halgs = [8, 10] if ctx.quick else sorted(S.HASHES)
    if name.startswith('dsa'): halgs = [h for h in halgs if h in (8, 9, 10)]
    n = 0
    for st, msubj, sobj in subjects:
        for hv in halgs:
            for variant in range(ctx.n(2, 6)):
                n += 1
                ctime = (1600000000 + n).to_bytes(4, 'big')
                sps = [S.subpacket(2, ctime)]
                if variant % 2 == 0: sps.append(S.subpacket(33, b'\x04' + fpr))
                if variant >= 2: sps.append(S.subpacket(27, bytes([0x03])))           # key flags
                if variant >= 3: sps.append(S.subpacket(11, bytes([9, 7])))            # preferred symmetric
                if variant >= 4: sps.append(S.subpacket(20, b'\x80\x00\x00\x00' + (3).to_bytes(2, 'big') + (1).to_bytes(2, 'big') + b'k@xv'))
                if variant >= 5: sps.append(S.subpacket(3, (86400).to_bytes(4, 'big')))
                hashed = S.area(sps)
                unhashed = S.area([S.subpacket(16, keyid)])
                data = S.model_hashdata(d, 4, st, alg, hv, hashed, msubj, rfc=True)
                mp = S.indep_sign(alg, ipriv, hv, data)
                body = S.sig_body(st, alg, hv, hashed, unhashed, S.digest(hv, data)[:2], mp)
                pkt = S.sig_packet(body)
                case = {'op': 'indep_sig', 'key': name, 'type': st, 'halg': hv, 'sig': pkt.hex(), 'subject': [msubj[0]] + [x.hex() for x in msubj[1:]]}
                ctx.case('independent-signer', (name, st, hv, variant), sample={'key': name, 'type': st, 'halg': hv, 'hashed': hashed.hex()})
                o = outcome(lambda: bool(pub.verify(sobj, pgpy.PGPSignature.from_blob(pkt))))
                if o != ('ok', True):
                    ctx.fail('independent-signer', 'PGPy rejects a valid RFC 4880 signature made by the independent signer', dict(case, impl=repr(o)))
                # the signer MODEL (Model/SigCompose.v sign_body, theorem C02_sign_export_parse_verify) assembles the same packet:
                # digest and signing primitive are answered here with the same raw private numbers (deterministic re-use of mp)
                if variant < 3:
                    d.oracles['digest'] = lambda hh, dd: hx(S.digest(int(hh, 16), unhx(dd)))
                    d.oracles['pk_sign'] = lambda pp, dd, hh, mp=mp: hx(b''.join(S.mpi(m) for m in mp))
                    def enc_sps(area):
                        out, b2 = [], area[2:]
                        while b2:
                            ln = b2[0]; assert ln < 192
                            out.append('%s:%d:%s' % (hn(b2[1] & 0x7f), 1 if b2[1] & 0x80 else 0, hx(b2[2:1 + ln]))); b2 = b2[1 + ln:]
                        return ','.join(out) or '-'
                    mb = d.call('sign_body', hn(st), hn(alg), hn(hv), enc_sps(hashed), enc_sps(unhashed), '00', S.subj_args(msubj))
                    if mb == 'ERR' or bytes([4]) + unhx(mb) != body:
                        ctx.fail('independent-signer', 'signer model (sign_body) assembles a different packet than the RFC assembly', dict(case, model=mb[:200]))
                # and the independent verifier accepts it too (self-check of the harness)
                if not S.indep_verify(alg, ipub, hv, data, mp):
                    ctx.fail('independent-signer', 'harness self-check: independent signer/verifier disagree', case)


def independent_messages(env, name):
    """C02(b) for signed MESSAGES: one-pass + literal + signature written by the independent signer; the signature covers the
    literal's octets as they are (RFC 4880 5.2.4 / 5.9), whatever charset a text literal is in"""
    ctx, d, pgpy = env.ctx, env.d, env.pgpy
    k = env.key(name)
    pub = k.pubkey
    alg, ipub, ipriv = env.indep(k)
    keyid = bytes.fromhex(str(k.fingerprint.keyid))
    fpr = bytes.fromhex(str(k.fingerprint))
    bodies = [b'plain ascii\n', b'caf\xc3\xa9 utf-8\r\n', b'caf\xe9 latin-1\n', b'\xa3\xa5 \xff\xfe', b'', b'l1\nl2\r\nl3\rl4']
    if not ctx.quick:
        bodies += [bytes(range(256)), bytes(ctx.rng.randrange(128, 256) for _ in range(40)), 'snow \u2603 \U0001F600'.encode('utf-16-le')]
    n = 0
    for fmt in 'btu':
        for body in bodies:
            if fmt == 'u' and not outcome(lambda: body.decode('utf-8'))[0] == 'ok':
                continue            # format 'u' promises UTF-8; other octets there are not a well-formed message
            for st in (0x00, 0x01):
                n += 1
                hv = 8 if n % 2 else 10
                if name.startswith('dsa'): hv = 8
                asm = S.signed_message_maker(d, alg, ipriv, keyid, fpr, fmt, body, st, hv, n)
                msg = asm()
                case = {'op': 'indep_msg', 'key': name, 'type': st, 'format': fmt, 'msg': msg.hex()}
                ctx.case('independent-message', (name, fmt, body, st), sample={'key': name, 'format': fmt, 'type': st, 'body': body[:24].hex()})
                o = outcome(lambda: bool(pub.verify(pgpy.PGPMessage.from_blob(msg))))
                if o != ('ok', True):
                    ctx.fail('independent-message', 'PGPy rejects a valid signed message written by the independent signer', dict(case, impl=repr(o)[:200]))
                # one octet of the literal body changed: never accepted
                if body:
                    i = (n * 7) % len(body)
                    b2 = bytearray(body); b2[i] ^= (0x01 if body[i] not in (0x0a, 0x0d) else 0x40)
                    import re as _re
                    cn = (lambda x: _re.sub(br'\r?\n', b'\r\n', x)) if st == 0x01 else (lambda x: x)
                    if cn(bytes(b2)) == cn(body):
                        continue        # the change is invisible in the canonical text form: nothing to demand
                    msg2 = asm(bytes(b2))
                    o2 = outcome(lambda: bool(pub.verify(pgpy.PGPMessage.from_blob(msg2))))
                    if o2 == ('ok', True):
                        ctx.fail('independent-message', 'signed message still verifies after an octet of its literal body changed',
                                 dict(case, msg=msg2.hex(), changed=i))
    # and PGPy-signed literal messages under the independent verifier
    for text in ['plain\n', 'caf\xe9 \u2603\n', bytes(range(200, 256)), 'l1\r\nl2\n']:
        m = pgpy.PGPMessage.new(text)
        sg = k.sign(m, created=t(500))
        raw = bytes(m._message._contents)
        sb, ver = S.parse_sig_packet(bytes(sg))
        p = S.model_sig_parse(d, sb)
        ctx.case('pgpy-made-message', (name, raw))
        if p is None:
            ctx.fail('pgpy-made-message', 'signature on a literal message does not parse', {'op': 'pgpy_msg', 'key': name, 'text': raw.hex()}); continue
        data = S.model_hashdata(d, 4, p['type'], p['pkalg'], p['halg'], p['raw'], ('doc', raw), rfc=True)
        if not S.indep_verify(alg, ipub, p['halg'], data, S.read_mpis(p['mpis'])):
            ctx.fail('pgpy-made-message', 'signature PGPy made on a literal message does not verify over the literal\'s octets', {'op': 'pgpy_msg', 'key': name, 'text': raw.hex(), 'sig': bytes(sg).hex()})


def replay(ctx, case):
    env = Env(ctx)
    try:
        pgpy = env.pgpy
        if case.get('op') == 'indep_sig':
            k = env.key(case['key']); pub = k.pubkey
            st = case['type']
            sobj = {'doc': None, 'uid': pub.userids[0], 'key': pub}.get(case['subject'][0])
            if case['subject'][0] == 'doc':
                sobj = bytes.fromhex(case['subject'][1]) if st == 0 else bytes.fromhex(case['subject'][1]).decode()
            if case['subject'][0] == 'subkey':
                sobj = list(pub.subkeys.values())[0]
            o = outcome(lambda: bool(pub.verify(sobj, pgpy.PGPSignature.from_blob(bytes.fromhex(case['sig'])))))
            return o != ('ok', True)
        if case.get('op') == 'indep_msg':
            pub = env.key(case['key']).pubkey
            o = outcome(lambda: bool(pub.verify(pgpy.PGPMessage.from_blob(bytes.fromhex(case['msg'])))))
            return (o == ('ok', True)) if 'changed' in case else (o != ('ok', True))
        return True
    finally:
        env.d.close()
