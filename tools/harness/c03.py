"""C03 correspondence + direct oracles: PGPy's encryption layer against the extracted model (Model/Encrypt.v) whose
primitives are answered here with hashlib / cryptography DIRECTLY (never through pgpy).  The extracted model is thereby
(a) an independent RFC 4880 / 6637 decryptor of PGPy's output and (b) an independent encryptor whose output PGPy must decrypt.
Shared with C04 (tools/harness/c04.py imports the plumbing of this file)."""
import base64, hashlib, inspect, os, resource, warnings

from .common import Driver, hx, unhx, hn, unhn, outcome, load_repo
from . import keys as keypool

# ------------------------------------------------------------------ pinned source text (nothing here goes through py2coq)
PINS = {
    'IntegrityProtectedSKEDataV1.encrypt': '4df5ab8ae79378603272ea3f',
    'IntegrityProtectedSKEDataV1.decrypt': 'c1eef8049b8ffe1ad67ce1bf',
    'IntegrityProtectedSKEDataV1.parse': '7313873e82d7a82875d76086',
    'PKESessionKeyV3.decrypt_sk': 'e45ee4711f182205928682ef',
    'PKESessionKeyV3.encrypt_sk': '170b82b3f5926811069a2a6f',
    'PKESessionKeyV3.parse': '934538c88d9ba6c0df7b723b',
    'PKESessionKeyV3.__bytearray__': 'f7e601ce00c4826100bc8b34',
    'PKESessionKeyV3.pkalg_int': '2e46d0bada7377f499bde83b',
    'SKESessionKeyV4.decrypt_sk': '1bdcb446948494be46277a26',
    'SKESessionKeyV4.encrypt_sk': 'b931304baacff28793bd0cfc',
    'SKESessionKeyV4.parse': 'b693f5bedd43ab24ef629ffb',
    'SKESessionKeyV4.__bytearray__': '5f82409f33885931c5caa023',
    'ECDHCipherText.encrypt': '74f84571eafeb26b7c44eac2',
    'ECDHCipherText.decrypt': 'ed89c5195aba6a28431762cb',
    'ECDHCipherText.parse': '64e4e6f68be5da26857ebd24',
    'ECDHCipherText.__bytearray__': '20a86d80d83d860a4ad6ce8b',
    'ECKDF.derive_key': '0c2ea4e81db014fbad941244',
    'ECPoint.__init__': '6cb6c946c7fb7d74d154b69f',
    'ECPoint.to_mpibytes': '2e1306746da0de297966a81d',
    'PGPMessage.decrypt': 'd6e757fd7a8153ea518d3485',
    'PGPMessage.encrypt': '9fd8589aa9549f4186bfec06',
    'PGPKey.decrypt': '632acde6a7851a51f39912d5',
    'PGPKey.encrypt': 'cc46eba4b9a9b6bfef991bd2',
    'symenc._encrypt': '2a8698e9a5b631f1b45c3714',
    'symenc._decrypt': 'f211257329e77dcce50ee7cd',
}


def check_pins(ctx, only=None):
    """the model was written against this source text; a changed text means the tie no longer checks"""
    load_repo()
    import pgpy
    from pgpy import symenc
    from pgpy.packet import packets as P, fields as F
    objs = {'IntegrityProtectedSKEDataV1': P.IntegrityProtectedSKEDataV1, 'PKESessionKeyV3': P.PKESessionKeyV3,
            'SKESessionKeyV4': P.SKESessionKeyV4, 'ECDHCipherText': F.ECDHCipherText, 'ECKDF': F.ECKDF, 'ECPoint': F.ECPoint,
            'PGPMessage': pgpy.PGPMessage, 'PGPKey': pgpy.PGPKey, 'symenc': symenc}
    for name, want in PINS.items():
        if only is not None and name not in only:
            continue
        cls, attr = name.split('.')
        try:
            f = getattr(objs[cls], attr)
            f = getattr(f, '__wrapped__', f)
            got = hashlib.sha256(inspect.getsource(f).encode()).hexdigest()[:24]
        except Exception as ex:
            got = 'unavailable: %r' % ex
        if got != want:
            ctx.broken.append('pinned source text of %s changed (model Model/Encrypt.v was written against %s, now %s)' % (name, want, got))


# ------------------------------------------------------------------ primitive oracle (independent of pgpy)
HASHES = {1: 'md5', 2: 'sha1', 3: 'ripemd160', 8: 'sha256', 9: 'sha384', 10: 'sha512', 11: 'sha224'}
CURVES = {}   # dotted OID -> (kind, cryptography curve or None)


def _curves():
    if not CURVES:
        from cryptography.hazmat.primitives.asymmetric import ec
        CURVES.update({
            '1.3.6.1.4.1.3029.1.5.1': ('x25519', None),
            '1.2.840.10045.3.1.7': ('nist', ec.SECP256R1()),
            '1.3.132.0.34': ('nist', ec.SECP384R1()),
            '1.3.132.0.35': ('nist', ec.SECP521R1()),
            '1.3.132.0.10': ('nist', ec.SECP256K1()),
        })
    return CURVES


def oid_octets(dotted):
    """X.690 contents octets of an object identifier, computed here (not by pyasn1)"""
    arcs = [int(a) for a in dotted.split('.')]
    out = bytearray()
    for v in [arcs[0] * 40 + arcs[1]] + arcs[2:]:
        chunk = [v & 0x7f]
        v >>= 7
        while v:
            chunk.append(0x80 | (v & 0x7f))
            v >>= 7
        out += bytes(reversed(chunk))
    return bytes(out)


def sym_cipher(alg, key):
    """RFC 4880 9.2 algorithm id -> block cipher object of `cryptography` (as algorithms.X(key) does: AES / Camellia / Blowfish /
    CAST5 take any key length the cipher family allows)"""
    with warnings.catch_warnings():
        warnings.simplefilter('ignore')
        from cryptography.hazmat.primitives.ciphers import algorithms as A
        try:
            from cryptography.hazmat.decrepit.ciphers import algorithms as D
        except Exception:  # older cryptography
            D = A
        table = {1: getattr(D, 'IDEA', None), 2: getattr(D, 'TripleDES', None) or getattr(A, 'TripleDES'),
                 3: getattr(D, 'CAST5', None), 4: getattr(D, 'Blowfish', None),
                 7: A.AES, 8: A.AES, 9: A.AES, 11: A.Camellia, 12: A.Camellia, 13: A.Camellia}
        c = table.get(alg)
        if c is None:
            raise ValueError('no cipher for algorithm %d' % alg)
        return c(key)


def cfb(alg, key, data, enc):
    from cryptography.hazmat.primitives.ciphers import Cipher, modes
    with warnings.catch_warnings():
        warnings.simplefilter('ignore')
        c = sym_cipher(alg, key)
        ci = Cipher(c, modes.CFB(b'\x00' * (c.block_size // 8)))
        o = ci.encryptor() if enc else ci.decryptor()
        return o.update(data) + o.finalize()


def s2k_rfc(kind, halg, salt, count, n, pw):
    """RFC 4880 3.7.1.1-3: simple / salted / iterated-salted; several contexts preloaded with 0,1,2.. zero octets"""
    name = HASHES[halg]
    if kind not in (0, 1, 3):
        raise ValueError('s2k kind')
    data = (salt + pw) if kind in (1, 3) else pw
    total = len(data)
    if kind == 3 and count > total:
        total = count
    out, i = b'', 0
    while len(out) < n:
        h = hashlib.new(name)
        h.update(b'\x00' * i)
        if data:
            reps, rem = divmod(total, len(data))
            big = data * max(1, 65536 // len(data))
            k = len(big) // len(data)
            while reps >= k:
                h.update(big)
                reps -= k
            h.update(data * reps + data[:rem])
        out += h.digest()
        i += 1
    return out[:n]


class Oracles:
    """answers of the primitive-oracle RPC; public-key material is registered from raw numbers"""

    def __init__(self):
        self.keys = {}     # fingerprint hex (lower) -> dict
        self.calls = {}

    # -- registration from a PGPKey (only the integers are read from pgpy's object; every operation is cryptography's)
    def register(self, pgpkey):
        from cryptography.hazmat.primitives.asymmetric import rsa, ec, x25519
        for k in [pgpkey] + list(pgpkey.subkeys.values()):
            fp = str(k.fingerprint).replace(' ', '').lower()
            if fp in self.keys:
                continue
            km = k._key.keymaterial
            alg = int(k.key_algorithm)
            ent = {'alg': alg}
            try:
                if alg == 1:
                    pub = rsa.RSAPublicNumbers(int(km.e), int(km.n))
                    ent['pub'] = pub.public_key()
                    ent['bits'] = int(km.n).bit_length()
                    if hasattr(km, 'd') and int(km.d):
                        p, q, dd = int(km.p), int(km.q), int(km.d)
                        if p > q:
                            pass
                        priv = rsa.RSAPrivateNumbers(p, q, dd, rsa.rsa_crt_dmp1(dd, p), rsa.rsa_crt_dmq1(dd, q), rsa.rsa_crt_iqmp(p, q), pub)
                        try:
                            ent['priv'] = priv.private_key(unsafe_skip_rsa_key_validation=True)
                        except TypeError:
                            ent['priv'] = priv.private_key()
                elif alg == 18:
                    kind, curve = _curves()[str(km.oid.value)]
                    ent['kind'] = kind
                    ent['curve'] = curve
                    if kind == 'x25519':
                        ent['pub'] = x25519.X25519PublicKey.from_public_bytes(bytes(km.p.x))
                        if hasattr(km, 's') and int(km.s):
                            ent['priv'] = x25519.X25519PrivateKey.from_private_bytes(int(km.s).to_bytes(32, 'little'))
                    else:
                        ent['pub'] = ec.EllipticCurvePublicNumbers(int(km.p.x), int(km.p.y), curve).public_key()
                        if hasattr(km, 's') and int(km.s):
                            ent['priv'] = ec.derive_private_key(int(km.s), curve)
            except Exception as ex:
                ent['error'] = repr(ex)
            self.keys[fp] = ent

    def table(self):
        def count(name, f):
            def g(*a):
                self.calls[name] = self.calls.get(name, 0) + 1
                return f(*a)
            return g
        t = {
            'sha1': lambda h: hx(hashlib.sha1(unhx(h)).digest()),
            'cfb_enc': lambda a, k, x: hx(cfb(unhn(a), unhx(k), unhx(x), True)),
            'cfb_dec': lambda a, k, x: hx(cfb(unhn(a), unhx(k), unhx(x), False)),
            'rsa_bits': lambda h: hn(self.keys[h]['bits']),
            'rsa_enc': self._rsa_enc, 'rsa_dec': self._rsa_dec,
            'ecdh_gen': self._ecdh_gen, 'ecdh_shared': self._ecdh_shared,
            'hash': lambda a, x: hx(hashlib.new(HASHES[unhn(a)], unhx(x)).digest()),
            'aes_wrap': self._wrap, 'aes_unwrap': self._unwrap,
            's2k': lambda kind, h, salt, cnt, n, pw: hx(s2k_rfc(unhn(kind), unhn(h), unhx(salt), unhn(cnt), int(n), unhx(pw))),
        }
        return {k: count(k, v) for k, v in t.items()}

    def _rsa_enc(self, h, m):
        from cryptography.hazmat.primitives.asymmetric import padding
        return hx(self.keys[h]['pub'].encrypt(unhx(m), padding.PKCS1v15()))

    def _rsa_dec(self, h, c):
        from cryptography.hazmat.primitives.asymmetric import padding
        return hx(self.keys[h]['priv'].decrypt(unhx(c), padding.PKCS1v15()))

    def _ecdh_gen(self, h):
        from cryptography.hazmat.primitives.asymmetric import ec, x25519
        from cryptography.hazmat.primitives import serialization as S
        e = self.keys[h]
        if e['kind'] == 'x25519':
            v = x25519.X25519PrivateKey.generate()
            pub = b'\x40' + v.public_key().public_bytes(S.Encoding.Raw, S.PublicFormat.Raw)
            s = v.exchange(e['pub'])
        else:
            v = ec.generate_private_key(e['curve'])
            pub = v.public_key().public_bytes(S.Encoding.X962, S.PublicFormat.UncompressedPoint)   # 04 || X || Y
            s = v.exchange(ec.ECDH(), e['pub'])
        return hx(pub) + ' ' + hx(s)

    def _ecdh_shared(self, h, v):
        from cryptography.hazmat.primitives.asymmetric import ec, x25519
        e = self.keys[h]
        v = unhx(v)
        if e['kind'] == 'x25519':
            if v[:1] != b'\x40':
                raise ValueError('native point expected')
            return hx(e['priv'].exchange(x25519.X25519PublicKey.from_public_bytes(v[1:])))
        if v[:1] != b'\x04' or (len(v) - 1) % 2:
            raise ValueError('uncompressed point expected')
        half = (len(v) - 1) // 2
        pub = ec.EllipticCurvePublicNumbers(int.from_bytes(v[1:1 + half], 'big'), int.from_bytes(v[1 + half:], 'big'), e['curve']).public_key()
        return hx(e['priv'].exchange(ec.ECDH(), pub))

    def _wrap(self, k, x):
        from cryptography.hazmat.primitives.keywrap import aes_key_wrap
        return hx(aes_key_wrap(unhx(k), unhx(x)))

    def _unwrap(self, k, x):
        from cryptography.hazmat.primitives.keywrap import aes_key_unwrap
        return hx(aes_key_unwrap(unhx(k), unhx(x)))


# ------------------------------------------------------------------ views of PGPy objects
def keydesc1(k):
    """id,alg,fp,oid,kdfhash,kdfenc of one key packet (model's pkey)"""
    fp = str(k.fingerprint).replace(' ', '').lower()
    km = k._key.keymaterial
    if int(k.key_algorithm) == 18:
        oid, kh, ke = oid_octets(str(km.oid.value)), int(km.kdf.halg), int(km.kdf.encalg)
    else:
        oid, kh, ke = b'', 0, 0
    return ','.join([fp[-16:], hn(int(k.key_algorithm)), fp, hx(oid), hn(kh), hn(ke)])


def keydesc(k):
    """primary;sub;sub in the dictionary order of PGPKey.subkeys"""
    return ';'.join([keydesc1(k)] + [keydesc1(s) for s in k.subkeys.values()])


def impl_struct(e):
    """the session-key list and encrypted data of a parsed PGPMessage in the model's dump format"""
    from pgpy.packet.packets import PKESessionKeyV3, SKESessionKeyV4
    out = []
    for sk in e._sessionkeys:
        if isinstance(sk, PKESessionKeyV3):
            ct = sk.ct
            n = type(ct).__name__
            if n == 'RSACipherText':
                c = 'R:' + hn(int(ct.me_mod_n))
            elif n == 'ECDHCipherText':
                c = 'E:' + hx(bytes(ct.p.to_mpibytes()[2:])) + ':' + hx(bytes(ct.c))
            elif n == 'ElGCipherText':
                c = 'G:' + hn(int(ct.gk_mod_p)) + ':' + hn(int(ct.myk_mod_p))
            else:
                c = 'O:' + hx(bytes(sk._opaque_ct))     # no ciphertext class: the rest of the packet as received
            out.append('PK:' + sk.encrypter.lower() + ':' + hn(int(sk.pkalg)) + ':' + c)
        elif isinstance(sk, SKESessionKeyV4):
            out.append(':'.join(['SK', hn(int(sk.symalg)), hn(int(sk.s2k.specifier)), hn(int(sk.s2k.halg)), hx(bytes(sk.s2k.salt)),
                                 hn(sk.s2k._count), hx(bytes(sk.ct))]))
        else:
            out.append('?' + type(sk).__name__)
    m = e._message
    out.append('CT:' + (hx(bytes(m.ct)) if type(m).__name__ == 'IntegrityProtectedSKEDataV1' else 'none'))
    return ' '.join(out)


def canon_plain(m):
    """what C03 says must survive: content + literal metadata (the literal packet octets), compression setting, signatures"""
    lit = m._message
    body = bytes(lit.__bytearray__()) if hasattr(lit, '__bytearray__') else repr(lit)
    return {'literal': hx(body), 'compression': int(m._compression), 'sigs': [hx(bytes(s.__bytearray__())) for s in m._signatures]}


def dearmor(text):
    """RFC 4880 6.2 read here with base64 only (C10 owns armor)"""
    lines = text.replace('\r\n', '\n').split('\n')
    i = lines.index('', 1) if '' in lines[1:] else 1
    body = []
    for ln in lines[i + 1:]:
        if ln.startswith('=') or ln.startswith('-----'):
            break
        body.append(ln)
    return base64.b64decode(''.join(body))


def crc24(data):
    crc = 0xB704CE
    for b in data:
        crc ^= b << 16
        for _ in range(8):
            crc <<= 1
            if crc & 0x1000000:
                crc ^= 0x1864CFB
    return crc & 0xFFFFFF


def armor(raw):
    b = base64.b64encode(raw).decode()
    lines = [b[i:i + 64] for i in range(0, len(b), 64)]
    return ('-----BEGIN PGP MESSAGE-----\n\n' + '\n'.join(lines) + '\n=' + base64.b64encode(crc24(raw).to_bytes(3, 'big')).decode()
            + '\n-----END PGP MESSAGE-----\n')


def raise_stack_limit():
    """the extracted list functions are not tail recursive; large bodies need a deep C stack in the driver"""
    try:
        soft, hard = resource.getrlimit(resource.RLIMIT_STACK)
        resource.setrlimit(resource.RLIMIT_STACK, (hard, hard))
    except Exception:
        pass


CIPHERS = [2, 3, 4, 7, 8, 9, 11, 12, 13]
CIPHER_NAMES = {2: 'TripleDES', 3: 'CAST5', 4: 'Blowfish', 7: 'AES128', 8: 'AES192', 9: 'AES256', 11: 'Camellia128', 12: 'Camellia192', 13: 'Camellia256'}
KEYLEN = {2: 24, 3: 16, 4: 16, 7: 16, 8: 24, 9: 32, 11: 16, 12: 24, 13: 32}
BLOCK = {2: 8, 3: 8, 4: 8, 7: 16, 8: 16, 9: 16, 11: 16, 12: 16, 13: 16}


class World:
    """keys, oracles, driver, cipher availability -- shared by the C03 and C04 harnesses"""

    def __init__(self, ctx):
        self.ctx = ctx
        self.pgpy = load_repo()
        raise_stack_limit()
        self.orc = Oracles()
        self.d = Driver('c03', oracles=self.orc.table())
        from pgpy.constants import SymmetricKeyAlgorithm as S, HashAlgorithm as H, KeyFlags as F, CompressionAlgorithm as Z
        self.S, self.H, self.F, self.Z = S, H, F, Z
        # ciphers the local OpenSSL offers, probed on the primitive layer (not through pgpy)
        self.ciphers = []
        for a in CIPHERS:
            try:
                cfb(a, bytes(KEYLEN[a]), b'probe', True)
                self.ciphers.append(a)
            except Exception as ex:
                ctx.skipped.append('cipher %s unavailable in the local OpenSSL: %s' % (CIPHER_NAMES[a], type(ex).__name__))
        self.s2k_hashes = []
        for hid, name in sorted(HASHES.items()):
            try:
                hashlib.new(name)
                self.s2k_hashes.append(hid)
            except Exception as ex:
                ctx.skipped.append('S2K hash %s unavailable in hashlib: %s' % (name, type(ex).__name__))
        # recipients
        self.keys = {}
        want = ['rsa2048', 'rsa3072', 'ed25519', 'ed25519b', 'p256', 'p384', 'p521', 'secp256k1']
        for n in want:
            try:
                k = keypool.get(n)
            except Exception as ex:
                ctx.skipped.append('key %s unavailable: %s' % (n, type(ex).__name__))
                continue
            if n == 'rsa3072':
                # the pool key has no encryption usage; add a user id that grants it so the PRIMARY key is the recipient
                with warnings.catch_warnings():
                    warnings.simplefilter('ignore')
                    u = self.pgpy.PGPUID.new('Enc User', email='enc@example.com')
                    k.add_uid(u, usage={F.Sign, F.Certify, F.EncryptCommunications, F.EncryptStorage}, hashes=[H.SHA256],
                              ciphers=[S.AES256, S.AES128], compression=[Z.ZLIB, Z.Uncompressed], created=keypool.T0)
            self.keys[n] = k
            self.orc.register(k)
        # recipients whose ECDH key carries KDF parameters that are NOT the library's per-curve defaults (as other implementations
        # write them, e.g. SHA-256 / AES-128 for every curve): both directions must use the parameters stored in the KEY (RFC 6637 7, 8)
        from .c18 import nondefault_kdf_blob
        for n in ('p256', 'p384', 'ed25519'):
            if n not in self.keys:
                continue
            try:
                with warnings.catch_warnings():
                    warnings.simplefilter('ignore')
                    blob, changed = nondefault_kdf_blob(keypool.get(n))
                    kv = self.pgpy.PGPKey.from_blob(blob)[0]
                if changed:
                    self.keys[n + '/kdf'] = kv
                    self.orc.register(kv)
            except Exception as ex:
                ctx.skipped.append('non-default KDF variant of %s: %r' % (n, ex))
        self.nonrecipient = {}

    def close(self):
        self.d.close()

    # ---- implementation side
    def enc_kwargs(self, name):
        return {'user': 'Enc User'} if name in ('rsa3072', ODD_RSA) else {}

    def impl_encrypt(self, m, recips, alg, sk):
        """recips: list of ('P', passphrase:str, hash id, coded count) | ('K', key name); one API call per recipient"""
        S, H = self.S, self.H
        e = m
        with warnings.catch_warnings():
            warnings.simplefilter('ignore')
            for r in recips:
                if r[0] == 'P':
                    hobj = H(r[2])
                    old = hobj._tuned_count
                    hobj._tuned_count = r[3]
                    try:
                        e = e.encrypt(r[1], sessionkey=sk, cipher=S(alg), hash=hobj)
                    finally:
                        hobj._tuned_count = old
                else:
                    e = self.keys[r[1]].pubkey.encrypt(e, sessionkey=sk, cipher=S(alg), **self.enc_kwargs(r[1]))
        return e

    def impl_decrypt_obj(self, em, r, enc_in_blob=False):
        """one decrypt call on an already parsed PGPMessage OBJECT (the object may have been used before)"""
        with warnings.catch_warnings():
            warnings.simplefilter('ignore')
            try:
                if r[0] == 'P':
                    d = em.decrypt(r[1])
                else:
                    d = self.keys[r[1]].decrypt(em)
                    if d is em and not enc_in_blob and not em._sessionkeys:
                        raise NotEncryptedReturned()
                    # (otherwise the input DID carry an encrypted data packet or session key packets -- a message cut short --
                    #  yet PGPKey.decrypt handed the object back with only a "not encrypted" warning: whatever content it now
                    #  shows is what the caller takes for the plaintext.  Session key packets without data are PGPError.)
                return ('ok', canon_plain(d))
            except Exception as ex:
                return ('raise', type(ex).__name__, 'decrypt')

    def impl_decrypt(self, blob, r):
        """outcome of decrypting `blob` (bytes or armored str) as recipient r with the implementation, on a FRESH object:
        ('ok', canonical plaintext) | ('raise', exception name, 'parse' | 'decrypt')"""
        with warnings.catch_warnings():
            warnings.simplefilter('ignore')
            try:
                em = self.pgpy.PGPMessage.from_blob(blob)
            except Exception as ex:
                return ('raise', type(ex).__name__, 'parse')
        enc_in_blob = False
        if isinstance(blob, (bytes, bytearray)):
            try:
                from . import sigcommon as _S
                enc_in_blob = any(p[0] in (9, 18) for p in _S.split_packets(bytes(blob)))
            except Exception:
                enc_in_blob = False
        return self.impl_decrypt_obj(em, r, enc_in_blob)

    def model_decrypt(self, raw, r):
        if r[0] == 'P':
            return self.d.call('dec_pass', hx(raw), hx(r[1] if isinstance(r[1], bytes) else r[1].encode('utf-8')))
        return self.d.call('dec_key', hx(raw), keydesc(self.keys[r[1]]))


class NotEncryptedReturned(Exception):
    """PGPKey.decrypt handed the input object back (message with neither session keys nor encrypted data): nothing was decrypted"""


# ------------------------------------------------------------------ the run
def run(ctx):
    check_pins(ctx)
    w = World(ctx)
    try:
        regressions(ctx, w)
        unit_suites(ctx, w)
        decryptor_suite(ctx, w)
        sessionkey_length_suite(ctx, w)
        ecdh_point_suite(ctx, w)
        encryptor_suite(ctx, w)
        rsa_odd_modulus_suite(ctx, w)
        ctx.notes.append('oracle calls: %s' % dict(sorted(w.orc.calls.items())))
    finally:
        w.close()


# ---------------------------------------------------------------- unit level: model function vs implementation function
class _StubRSA:
    """stands in for pk.keymaterial.__privkey__()/__pubkey__() so that decrypt_sk / encrypt_sk run on chosen octets"""

    def __init__(self, m=None, bits=2048):
        self.m, self.key_size, self.seen = m, bits, None
        self.keymaterial = self

    def __privkey__(self):
        return self

    def __pubkey__(self):
        return self

    def decrypt(self, ct, pad):
        self.seen = bytes(ct)
        return self.m

    def encrypt(self, m, pad):
        self.seen = bytes(m)
        return b'\x01' + bytes(self.key_size // 8 - 1)


def ref_unpad(m):
    """PKCS#5 read side, written independently: the unpadded string or None"""
    if not m or not 1 <= m[-1] <= len(m) or m[-m[-1]:] != bytes([m[-1]]) * m[-1]:
        return None
    return bytes(m[:-m[-1]])


def make_unpad_impl(w):
    """ECDHCipherText.decrypt run on a chosen unwrapped string: a real ECDH recipient key and a real ephemeral point (so that the
    exchange and the KDF in front run as they are), pgpy.packet.fields.aes_key_unwrap replaced by a stub for the duration of the
    call.  Returns f(octets) -> wire hex of what decrypt returns (or raises what decrypt raises); None when no ECDH key is there"""
    from pgpy.packet import fields as F
    kn = next((k for k in ('ed25519', 'p256', 'ed25519b', 'p384', 'secp256k1', 'p521') if k in w.keys), None)
    if kn is None:
        return None
    with warnings.catch_warnings():
        warnings.simplefilter('ignore')
        m = w.pgpy.PGPMessage.new(b'unpad', compression=w.Z.Uncompressed)
    e = w.impl_encrypt(m, [('K', kn)], 9, None)
    ct = e._sessionkeys[0].ct
    pk = enc_target(w, kn)._key

    def unpad(octets):
        real = F.aes_key_unwrap
        F.aes_key_unwrap = lambda z, c, backend=None, octets=bytes(octets): octets
        try:
            return hx(bytes(ct.decrypt(pk)))
        finally:
            F.aes_key_unwrap = real
    return unpad


def unit_suites(ctx, w):
    d, rng = w.d, ctx.rng
    from pgpy.constants import SymmetricKeyAlgorithm as S, PubKeyAlgorithm as PK, HashAlgorithm as H
    from pgpy.packet.packets import PKESessionKeyV3, IntegrityProtectedSKEDataV1
    from pgpy.packet.types import MPI
    # ---- tables: every octet value
    for a in range(256):
        try:
            s = S(a)
            valid = True
            try: kb = hn(s.key_size)
            except NotImplementedError: kb = 'ERR'
            try: bb = hn(s.block_size)
            except NotImplementedError: bb = 'ERR'
        except ValueError:
            valid, kb, bb = False, None, None
        mv, mk, mb = d.call('tables', hn(a)).split(' ')
        ctx.case('tables', a, nontrivial=valid, sample={'alg': a, 'impl': [valid, kb, bb]})
        ctx.expect_eq('tables', 'SymmetricKeyAlgorithm membership differs from model', {'op': 'tables', 'alg': a}, valid, mv == '1')
        if valid:
            ctx.expect_eq('tables', 'key_size / block_size table differs from model', {'op': 'tables', 'alg': a}, (kb, bb), (mk, mb))
        def member(E):
            try:
                E(a); return '1'
            except ValueError:
                return '0'
        ctx.expect_eq('tables', 'PubKeyAlgorithm / HashAlgorithm membership differs from model', {'op': 'enums', 'v': a},
                      member(PK) + ' ' + member(H), d.call('enums', hn(a)))
    ctx.exhaustive.append('algorithm tables: all 256 octet values (membership, key size, block size)')

    somekey = keydesc1(enc_target(w, 'rsa2048')) if 'rsa2048' in w.keys else keydesc1(enc_target(w, next(iter(w.keys))))
    # ---- PKESK m: encrypt_sk with a stub public key sees m; model and RFC 5.1 transcription must give the same octets
    for i in range(ctx.n(60, 600)):
        a = rng.choice(CIPHERS)
        n = KEYLEN[a] if i % 3 else rng.randrange(0, 40)
        key = bytes(rng.choice([0, 255, rng.randrange(256)]) for _ in range(n)) if i % 5 == 0 else bytes(rng.randrange(256) for _ in range(n))
        if i < 8 and n == KEYLEN[a]:
            # session keys whose octets sum to less than 256 / exactly 255, 256, 65535+: the checksum is ALWAYS two octets
            key = [bytes(n), bytes(n - 1) + b'\xff', bytes(n - 1) + b'\x01', b'\x01' + bytes(n - 2) + b'\xff', b'\xff' * n, bytes(n - 2) + b'\xff\x01',
                   b'\x80' + bytes(n - 1), bytes([1] * n)][i]
        stub = _StubRSA()
        p = PKESessionKeyV3(); p.pkalg = 1
        o = outcome(p.encrypt_sk, stub, S(a), key)
        mm, rm = d.call('pkesk_m', hn(a), hx(key)).split(' ')
        case = {'op': 'pkesk_m', 'alg': a, 'key': key.hex()}
        ctx.case('pkesk-m', (a, key), nontrivial=o[0] == 'ok', sample=dict(case, impl=repr(o[:2]) if stub.seen is None else stub.seen.hex()))
        if n != KEYLEN[a]:
            # a session key of another length than the cipher's key size is refused (the recipient could never slice it back)
            me = d.call('pkesk', somekey, hn(a), hx(key))
            ctx.expect_eq('pkesk-m', 'encrypt_sk on a session key of the wrong length differs from model', case,
                          'raise ' + o[1] if o[0] == 'raise' else 'ok', me)
            if o != ('raise', 'PGPEncryptionError'):
                ctx.fail('pkesk-m', 'encrypt_sk accepted a session key whose length is not the key size of the cipher', case)
            continue
        if o[0] != 'ok':
            ctx.fail('pkesk-m', 'encrypt_sk refused a session key of the right length', dict(case, impl=repr(o)))
            continue
        ctx.expect_eq('pkesk-m', 'encrypt_sk forms m differently from the model', case, hx(stub.seen), mm)
        ctx.expect_eq('pkesk-m', 'm is not RFC 4880 5.1 (alg || key || sum mod 65536)', case, hx(stub.seen), rm)

    # ---- pkesk_open: decrypt_sk on chosen m (good, bad checksum, short, long, invalid algorithm)
    def open_impl(m, v=12345):
        stub = _StubRSA(m)
        p = PKESessionKeyV3(); p.pkalg = 1
        p.ct.me_mod_n = MPI(v)
        alg, key = p.decrypt_sk(stub)
        return '%s %s' % (hn(int(alg)), hx(bytes(key)))
    for i in range(ctx.n(300, 4000)):
        a = rng.choice(CIPHERS + [0, 1, 10, 5, 6, 14, 200])
        n = KEYLEN.get(a, 16)
        key = bytes(rng.randrange(256) for _ in range(n))
        m = bytearray(bytes([a]) + key + (sum(key) % 65536).to_bytes(2, 'big'))
        mode = i % 8
        if mode == 1:
            m[rng.randrange(1, len(m))] ^= 1 << rng.randrange(8)
        elif mode == 2:
            m = m[:rng.randrange(0, len(m))]
        elif mode == 3:
            m += bytes(rng.randrange(256) for _ in range(rng.randrange(1, 9)))
        elif mode == 4:
            m[-2:] = ((sum(key) + rng.choice([1, 256, 65535])) % 65536).to_bytes(2, 'big')
        elif mode == 5:
            m = bytearray(rng.randrange(256) for _ in range(rng.randrange(0, 40)))
        o = outcome(open_impl, bytes(m))
        mo = d.call('pkesk_open', hx(m))
        case = {'op': 'pkesk_open', 'm': bytes(m).hex()}
        ctx.case('pkesk-open', bytes(m), nontrivial=o[0] == 'ok', sample=dict(case, impl=repr(o)))
        got = ('ok ' + o[1]) if o[0] == 'ok' else ('raise ' + o[1])
        ctx.expect_eq('pkesk-open', 'decrypt_sk (checksum gate) differs from model', case, got, mo)
        if o[0] == 'ok':   # direct oracle: accepted => well formed per RFC 5.1
            alg_s, key_s = o[1].split(' ')
            k2 = unhx(key_s)
            if not (len(m) >= 1 + len(k2) and m[0] == unhn(alg_s) and bytes(m[1:1 + len(k2)]) == k2 and
                    int.from_bytes(bytes(m[1 + len(k2):3 + len(k2)]), 'big') == sum(k2) % 65536):
                ctx.fail('pkesk-open', 'decrypt_sk accepted an m whose checksum does not match', case)

    # ---- RSA ciphertext left padding: decrypt_sk must hand the primitive exactly modulus-size octets with the value unchanged
    for i in range(ctx.n(60, 400)):
        bits = rng.choice([1024, 2048, 3072, 2047, 2050, 1023, 3073])
        k = (bits + 7) // 8        # the length of the modulus in octets, also when it is no multiple of 8 bits long
        lead = rng.choice([0, 0, 1, 2, 3, k - 1, k])
        v = int.from_bytes(bytes(lead) + bytes(rng.randrange(1, 256) for _ in range(k - lead)), 'big') if lead < k else 0
        stub = _StubRSA(bytes([9]) + bytes(32) + b'\x00\x00', bits)
        p = PKESessionKeyV3(); p.pkalg = 1
        p.ct.me_mod_n = MPI(v)
        o = outcome(p.decrypt_sk, stub)
        case = {'op': 'rsa_pad', 'bits': bits, 'v': hn(v)}
        ctx.case('rsa-leftpad', (bits, v), sample=case)
        if stub.seen is None or len(stub.seen) != k or int.from_bytes(stub.seen, 'big') != v:
            ctx.fail('rsa-leftpad', 'RSA ciphertext not restored to modulus size', dict(case, seen=None if stub.seen is None else stub.seen.hex()))

    # ---- the SEIPD gate on chosen plaintexts: valid, MDC damaged, repeat damaged, short, header octets damaged
    def gate_impl(a, key, ct):
        s = IntegrityProtectedSKEDataV1()
        s.ct = bytearray(ct)
        return hx(bytes(s.decrypt(key, S(a))))
    for i in range(ctx.n(240, 4000)):
        a = rng.choice(w.ciphers)
        bs = BLOCK[a]
        key = bytes(rng.randrange(256) for _ in range(KEYLEN[a]))
        iv = bytes(rng.randrange(256) for _ in range(bs))
        data = bytes(rng.randrange(256) for _ in range(rng.choice([0, 1, 2, 5, 19, 20, 21, 22, 23, 40, rng.randrange(300)])))
        body = iv + iv[-2:] + data
        pt = bytearray(body + b'\xd3\x14' + hashlib.sha1(body + b'\xd3\x14').digest())
        mode = i % 10
        if mode == 1:
            pt[rng.randrange(len(pt))] ^= 1 << rng.randrange(8)
        elif mode == 2:
            pt = pt[:rng.randrange(0, len(pt))]
        elif mode == 3:
            pt[-22] ^= rng.choice([1, 2, 0x80]);
        elif mode == 4:
            pt[-21] ^= rng.choice([1, 4, 0x10])
        elif mode == 5:   # repeat octets wrong but MDC recomputed over the damaged prefix: only the quick check can refuse
            b2 = bytearray(body); b2[bs + rng.randrange(2)] ^= 1 << rng.randrange(8)
            pt = bytearray(bytes(b2) + b'\xd3\x14' + hashlib.sha1(bytes(b2) + b'\xd3\x14').digest())
        elif mode == 6:   # shorter than prefix + MDC but with a correct MDC over what is there
            b2 = body[:0 if (i // 10) % 3 == 0 else rng.randrange(0, bs + 2)]
            pt = bytearray(b2 + b'\xd3\x14' + hashlib.sha1(b2 + b'\xd3\x14').digest())
        elif mode == 7:
            pt = bytearray(rng.randrange(256) for _ in range(rng.randrange(0, 60)))
        elif mode == 8:   # MDC over the data without the D3 14 octets
            pt = bytearray(body + b'\xd3\x14' + hashlib.sha1(body).digest())
        ct = cfb(a, key, bytes(pt), True)
        o = outcome(gate_impl, a, key, ct)
        mo = d.call('seipd_dec', hn(a), hx(key), hx(ct))
        case = {'op': 'seipd_gate', 'alg': a, 'key': key.hex(), 'ct': ct.hex(), 'mode': mode}
        ctx.case('seipd-gate', (a, bytes(pt)), nontrivial=o[0] == 'ok', sample=dict(case, impl=repr(o)[:120]))
        got = ('ok ' + o[1]) if o[0] == 'ok' else ('raise ' + o[1])
        ctx.expect_eq('seipd-gate', 'IntegrityProtectedSKEDataV1.decrypt differs from model', case, got, mo)
        # direct oracle (RFC 5.13/5.14): accepted => last 22 octets are D3 14 || SHA-1(everything before the digest), repeat holds
        ok_rfc = (len(pt) >= 22 and bytes(pt[-22:-20]) == b'\xd3\x14' and hashlib.sha1(bytes(pt[:-20])).digest() == bytes(pt[-20:])
                  and bytes(pt[bs - 2:bs]) == bytes(pt[bs:bs + 2]) and len(pt[bs:bs + 2]) == 2)
        # documented leniency of the code (C04_seipd_accept_lengths): a text that is an MDC packet alone -- no prefix at all -- is
        # accepted as empty data, because the repeated-octets check is made after the MDC packet has been cut off
        lenient = len(pt) == 22 and bytes(pt[:2]) == b'\xd3\x14' and hashlib.sha1(bytes(pt[:2])).digest() == bytes(pt[2:])
        if lenient:
            ctx.dist['seipd-gate:mdc-only-accepted-as-empty'] = ctx.dist.get('seipd-gate:mdc-only-accepted-as-empty', 0) + 1
        if (o[0] == 'ok') != (ok_rfc or lenient):
            ctx.fail('seipd-gate', 'decrypt accepts/refuses against RFC 4880 5.13 (MDC over prefix||data||D3 14, repeated octets)',
                     dict(case, impl=repr(o)[:80], rfc=ok_rfc))

    # ---- SEIPD encrypt: PGPy's encrypt with a pinned prefix (os.urandom patched) vs model layout vs RFC layout
    import pgpy.constants as C
    for i in range(ctx.n(40, 400)):
        a = rng.choice(w.ciphers)
        bs = BLOCK[a]
        key = bytes(rng.randrange(256) for _ in range(KEYLEN[a]))
        iv = bytes(rng.randrange(256) for _ in range(bs))
        data = bytes(rng.randrange(256) for _ in range(rng.choice([0, 1, 7, 8, 9, 15, 16, 17, rng.randrange(400)])))
        real = C.os.urandom
        C.os.urandom = lambda n, iv=iv: iv[:n] if n == len(iv) else real(n)
        try:
            s = IntegrityProtectedSKEDataV1()
            s.encrypt(key, S(a), data)
        finally:
            C.os.urandom = real
        me = d.call('seipd_enc', hn(a), hx(key), hx(iv), hx(data))
        case = {'op': 'seipd_enc', 'alg': a, 'key': key.hex(), 'iv': iv.hex(), 'data': data.hex()}
        ctx.case('seipd-encrypt', (a, key, iv, data), sample=case)
        ctx.expect_eq('seipd-encrypt', 'IntegrityProtectedSKEDataV1.encrypt differs from model', case, 'ok ' + hx(bytes(s.ct)), me)
        # RFC layout, independent of the model: decrypt with the primitive and compare with the transcription
        pt = cfb(a, key, bytes(s.ct), False)
        ctx.expect_eq('seipd-encrypt', 'plaintext layout is not RFC 4880 5.13', case, hx(pt), d.call('rfc_seipd_plain', hx(iv), bs, hx(data)))
        ctx.expect_eq('seipd-encrypt', 'model layout is not RFC 4880 5.13', case, d.call('seipd_plain', hx(iv), hx(data)), d.call('rfc_seipd_plain', hx(iv), bs, hx(data)))

    # ---- PKCS#5: padding against the library PGPy's sender calls, every length 0..48; unpadding = the last lines of
    #      ECDHCipherText.decrypt run on chosen octets (fields.aes_key_unwrap replaced by a stub), damaged paddings, and the
    #      RFC 6637 section 8 padding to 40 octets for every length 0..39
    from cryptography.hazmat.primitives.padding import PKCS7
    for n in range(0, 49):
        m = bytes(rng.randrange(256) for _ in range(n))
        p = PKCS7(64).padder(); lib = p.update(m) + p.finalize()
        mp, rp = d.call('pad', hx(m)).split(' ')
        ctx.case('pkcs5', ('pad', n), sample={'m': m.hex(), 'lib': lib.hex()})
        ctx.expect_eq('pkcs5', 'PKCS7(64) padder differs from model', {'op': 'pad', 'm': m.hex()}, hx(lib), mp)
        ctx.expect_eq('pkcs5', 'padding is not RFC 6637 section 8', {'op': 'pad', 'm': m.hex()}, hx(lib), rp)
    unpad_impl = make_unpad_impl(w)
    if unpad_impl is None:
        ctx.skipped.append('pkcs5 unpadding: no ECDH key available to run ECDHCipherText.decrypt')
    else:
        def unpad_case(m, what):
            m = bytes(m)
            o = outcome(unpad_impl, m)
            case = {'op': 'unpad', 'm': m.hex()}
            ctx.case('pkcs5', ('unpad', m), nontrivial=o[0] == 'ok', sample=dict(case, impl=repr(o)[:80], kind=what))
            ctx.expect_eq('pkcs5', 'unpadding in ECDHCipherText.decrypt differs from model', case,
                          ('ok ' + o[1]) if o[0] == 'ok' else ('raise ' + o[1]), d.call('ecdh_unpad', hx(m)))
            ref = ref_unpad(m)
            if (o[0] == 'ok') != (ref is not None) or (ref is not None and o[1] != hx(ref)):
                ctx.fail('pkcs5', 'ECDHCipherText.decrypt unpads against PKCS#5 (n >= 1 octets of value n, RFC 6637 section 8)', dict(case, impl=repr(o)[:80]))
            elif ref is None and m and o[1] != 'PGPDecryptionError':
                ctx.fail('pkcs5', 'a malformed padding leaves ECDHCipherText.decrypt as %s, not PGPDecryptionError' % o[1], case)
            return o
        for i in range(ctx.n(300, 3000)):
            n = rng.choice([0, 1, 7, 8, 9, 16, 24, 40, 48, rng.randrange(50)])
            m = bytearray(rng.randrange(256) for _ in range(n))
            if n and i % 2:
                k = rng.choice([rng.randrange(0, 12), rng.randrange(0, 12), rng.randrange(0, n + 3), n, n + 1])
                m[-min(k, n):] = bytes([k % 256]) * min(k, n) if k else m[-0:]
                if i % 7 == 0 and n > 1:
                    m[-rng.randrange(1, min(n, 9) + 1)] ^= 1 << rng.randrange(8)
            unpad_case(m, 'random / damaged')
        for n in range(0, 40):
            m = bytes(rng.randrange(256) for _ in range(n))
            want40 = m + bytes([40 - n]) * (40 - n)
            mp, rp = d.call('pad40', hx(m)).split(' ')
            ctx.expect_eq('pkcs5', 'model padding to 40 octets is not m || (40 - len) x (40 - len)', {'op': 'pad40', 'm': m.hex()}, hx(want40), mp)
            ctx.expect_eq('pkcs5', 'transcription of the RFC 6637 section 8 padding to 40 octets is not m || (40 - len) x (40 - len)', {'op': 'pad40', 'm': m.hex()}, hx(want40), rp)
            o = unpad_case(want40, 'padded to 40')
            if o != ('ok', hx(m)):
                ctx.fail('pkcs5', 'a block padded to 40 octets (RFC 6637 section 8) is not given back', {'op': 'unpad', 'm': want40.hex(), 'impl': repr(o)[:80]})
        ctx.exhaustive.append('RFC 6637 section 8 padding to 40 octets: every block length 0..39 through the unpadding of ECDHCipherText.decrypt')

    # ---- RFC 6637 parameter block + KDF: ECKDF.derive_key vs model (hashlib through the oracle) vs transcription
    for name, k in w.keys.items():
        for sk in [k] + list(k.subkeys.values()):
            if int(sk.key_algorithm) != 18:
                continue
            km = sk._key.keymaterial
            fp = str(sk.fingerprint).replace(' ', '')
            for _ in range(ctx.n(3, 30)):
                s = bytes(rng.randrange(256) for _ in range(rng.choice([32, 48, 66, rng.randrange(1, 80)])))
                impl = bytes(km.kdf.derive_key(s, km.oid, PK.ECDH, sk.fingerprint))
                oid = oid_octets(str(km.oid.value))
                pm, pr = d.call('ecdh_param', hx(oid), hn(int(km.kdf.halg)), hn(int(km.kdf.encalg)), fp.lower()).split(' ')
                klen = S(int(km.kdf.encalg)).key_size // 8
                km_, kr = d.call('ecdh_kdf', hn(int(km.kdf.halg)), hx(s), klen, pm).split(' ')
                case = {'op': 'kdf', 'key': name, 'fp': fp, 's': s.hex()}
                ctx.case('rfc6637-kdf', (fp, s), sample=dict(case, kek=impl.hex()))
                ctx.expect_eq('rfc6637-kdf', 'model parameter block is not the RFC 6637 section 8 block', case, pm, pr)
                ctx.expect_eq('rfc6637-kdf', 'ECKDF.derive_key differs from model', case, hx(impl), km_)
                ctx.expect_eq('rfc6637-kdf', 'ECKDF.derive_key is not the RFC 6637 section 7 KDF', case, hx(impl), kr)

    # ---- S2K oracle sanity (C12 owns S2K; here: the oracle used by the SKESK model agrees with String2Key.derive_key)
    from pgpy.packet.fields import String2Key
    for i in range(ctx.n(40, 400)):
        a = rng.choice(w.ciphers); hid = rng.choice(w.s2k_hashes); ty = rng.choice([0, 1, 2, 3, 3])
        salt = bytes(rng.randrange(256) for _ in range(8)); cnt = rng.choice([0, 1, 16, 96, rng.randrange(0, 120)])
        pw = bytes(rng.randrange(1, 256) for _ in range(rng.choice([1, 3, 8, 20, 64])))
        s = String2Key(); s.usage = 255; s.encalg = a; s.specifier = ty; s.halg = hid; s.salt = bytearray(salt); s.count = cnt
        o = outcome(lambda: hx(s.derive_key(pw)))
        mo = d.call('s2k', hn(a), hn(ty), hn(hid), hx(salt), hn(cnt), hx(pw))
        ctx.case('s2k-oracle', (a, ty, hid, salt, cnt, pw))
        ctx.expect_eq('s2k-oracle', 'String2Key.derive_key differs from the independent RFC 4880 3.7.1 oracle',
                      {'op': 's2k', 'alg': a, 'type': ty, 'hash': hid, 'salt': salt.hex(), 'count': cnt, 'pass': pw.hex()},
                      ('ok ' + o[1]) if o[0] == 'ok' else 'raise', mo if o[0] == 'ok' else mo[:5])


# ---------------------------------------------------------------- message level
def gen_body(ctx, kind):
    rng = ctx.rng
    if kind == 'empty':
        return b''
    if kind == 'text':
        return ('The quick brown fox %d\nline two\n' % rng.randrange(10 ** 6)).encode() * rng.randrange(1, 4)
    if kind == 'unicode':
        return 'café 你好 %d' % rng.randrange(1000)
    if kind == 'binary':
        return bytes(rng.randrange(256) for _ in range(rng.randrange(1, 400)))
    if kind == 'large':
        n = ctx.n(20000, 300000)
        return bytes(rng.getrandbits(8) for _ in range(1000)) * (n // 1000)   # compressible bulk
    if kind == 'incompressible':
        n = ctx.n(20000, (1 << 20) if rng.random() < 0.2 else 150000)
        return rng.getrandbits(8 * n).to_bytes(n, 'big')
    raise ValueError(kind)


def gen_recipients(ctx, w, i):
    """1..3 recipients mixing passphrases (each S2K hash) and keys (RSA primary / RSA subkey / ECDH subkeys)"""
    rng = ctx.rng
    knames = list(w.keys)
    n = 1 if i % 3 == 0 else rng.choice([1, 2, 2, 3])
    out = []
    for j in range(n):
        if rng.random() < 0.4:
            cnt = rng.choice([0, 16, 96, 96, 120]) if (ctx.quick and rng.random() < 0.93) or rng.random() < 0.94 else 255
            out.append(('P', rng.choice(['pw', 'correct horse', 'päss wörd', 'x' * 70, ' ']) + str(j), rng.choice(w.s2k_hashes), cnt))
        else:
            kn = rng.choice(knames)
            if not any(r[0] == 'K' and r[1] == kn for r in out):
                out.append(('K', kn))
    if not out:
        out.append(('P', 'fallback', 8, 96))
    return out


def decryptor_suite(ctx, w):
    """(a) PGPy encrypts; the extracted model parses the packets and decrypts through the oracle; PGPy decrypts its own output"""
    pgpy, d, rng = w.pgpy, w.d, ctx.rng
    Z = w.Z
    total = ctx.n(110, 1800)
    kinds = ['empty', 'text', 'unicode', 'binary', 'binary', 'text', 'large', 'incompressible']
    signer = w.keys.get('ed25519')
    for i in range(total):
        kind = kinds[i % len(kinds)] if i % 9 else rng.choice(kinds[:6])
        if kind in ('large', 'incompressible') and ctx.quick and i > 24:
            kind = 'binary'
        if kind in ('large', 'incompressible') and not ctx.quick and i % 120 not in (6, 7):
            kind = 'text'
        body = gen_body(ctx, kind)
        comp = rng.choice(list(Z)) if i % 4 else list(Z)[(i // 4) % len(list(Z))]
        alg = w.ciphers[i % len(w.ciphers)]
        recips = gen_recipients(ctx, w, i)
        kw = {'compression': comp}
        if i % 5 == 1: kw['sensitive'] = True
        if isinstance(body, bytes) and i % 7 == 2: kw['format'] = 'b'
        with warnings.catch_warnings():
            warnings.simplefilter('ignore')
            m = pgpy.PGPMessage.new(body, **kw)
            signed = (i % 6 == 3) and signer is not None
            if signed:
                m |= signer.sign(m, created=keypool.T0)
        supplied = i % 2 == 0
        sk = bytes(rng.randrange(256) for _ in range(KEYLEN[alg])) if (supplied or len(recips) > 1) else None
        inner = bytes(m.__bytes__())
        want = canon_plain(m)
        try:
            e = w.impl_encrypt(m, recips, alg, sk)
        except Exception as ex:
            ctx.fail('roundtrip', 'encrypt raised %s' % type(ex).__name__, {'op': 'encrypt', 'alg': alg, 'recips': recips, 'body_kind': kind})
            continue
        armored = i % 4 == 1
        raw = bytes(e.__bytes__())
        blob = str(e) if armored else raw
        if armored:
            ctx.expect_eq('roundtrip', 'armored transport carries different octets', {'op': 'armor'}, hx(dearmor(blob)), hx(raw))
        desc = {'body_kind': kind, 'len': len(inner), 'compression': int(comp), 'cipher': CIPHER_NAMES[alg], 'recipients': [r[:2] if r[0] == 'K' else ('P', HASHES[r[2]], r[3]) for r in recips],
                'supplied_sessionkey': sk is not None, 'signed': signed, 'armored': armored}
        ctx.case('roundtrip', (i, kind, int(comp), alg, tuple(recips), signed, armored), sample=desc)
        small = len(raw) <= 6000
        case0 = dict(desc, op='roundtrip', recips=[list(r) for r in recips], blob=raw.hex() if small else None, want=want if small else None)
        if small:   # enough to run the whole round trip again (replay encrypts afresh: an encoder defect is not in a recorded blob)
            case0['plain'] = {'body': body if isinstance(body, str) else body.hex(), 'is_text': isinstance(body, str), 'alg': alg, 'signed': signed,
                              'kw': {k: (int(v) if k == 'compression' else v) for k, v in kw.items()}}
        # structure: model parse of PGPy's octets vs PGPy's own parse
        with warnings.catch_warnings():
            warnings.simplefilter('ignore')
            po = outcome(pgpy.PGPMessage.from_blob, blob)
        if po[0] != 'ok':
            ctx.fail('roundtrip', 'PGPy cannot re-parse the message it has just written (%s)' % po[1], dict(case0, recipient=list(recips[0])))
            mo = d.call('msg_parse', hx(raw))
            if mo.startswith('ok '):
                ctx.fail('roundtrip', 'the model parser reads what PGPy wrote but cannot re-parse', dict(case0, model=mo[:200]))
            continue
        em = po[1]
        ctx.expect_eq('roundtrip', 'packet structure read by PGPy differs from the model parser', case0, 'ok ' + impl_struct(em), d.call('msg_parse', hx(raw)))
        ctx.expect_eq('roundtrip', 'model re-emission of the parsed packets differs from the octets PGPy wrote', case0, 'ok ' + hx(raw), d.call('msg_reemit', hx(raw)))
        for r in recips:
            case = dict(case0, recipient=list(r))
            # PGPy decrypts its own output (direct round-trip law)
            o = w.impl_decrypt(blob, r)
            if o != ('ok', want):
                ctx.fail('roundtrip', 'decrypt(encrypt(m)) differs from m', dict(case, impl=repr(o)[:300]))
            # independent decryptor
            mo = w.model_decrypt(raw, r)
            if not mo.startswith('ok '):
                ctx.fail('independent-decryptor', 'the RFC 4880/6637 model cannot decrypt what PGPy encrypted: ' + mo[:60], case)
            else:
                pt = unhx(mo[3:])
                ctx.case('independent-decryptor', (i, r), sample=dict(desc, recipient=list(r[:2])))
                if pt != inner:
                    ctx.fail('independent-decryptor', 'independent decryptor recovers different plaintext packets', dict(case, model=pt[:200].hex()))
        # caller-supplied session key is the one in use
        if sk is not None:
            mo = d.call('seipd_dec', hn(alg), hx(sk), hx(bytes(em._message.ct)))
            if not (mo.startswith('ok ') and unhx(mo[3:]) == inner):
                ctx.fail('roundtrip', 'caller-supplied session key does not decrypt the data packet', case0)


POINT_OCTETS = {'ed25519': 33, 'ed25519b': 33, 'p256': 65, 'p384': 97, 'p521': 133, 'secp256k1': 65}


def ecdh_point_suite(ctx, w):
    """the ephemeral public key of every ECDH PKESK: RFC 6637 section 6 fixed-width encoding (04 || X || Y with both coordinates at
    the full field width -- 66 octets for P-521, whose 521 bits are not a multiple of 8 -- or 40 || X), MPI bit count accordingly;
    each message through the independent decryptor and through PGPy's own re-parse + decrypt.  Coordinates with leading zero octets
    are drawn with probability 1/256 per coordinate (about 3 in 4 for the top octet of P-521 under a floor division), hence several draws"""
    pgpy, d = w.pgpy, w.d
    from .c04 import walk
    with warnings.catch_warnings():
        warnings.simplefilter('ignore')
        m = pgpy.PGPMessage.new(b'ephemeral point', compression=w.Z.Uncompressed)
    inner = bytes(m.__bytes__())
    want = canon_plain(m)
    for kn, width in POINT_OCTETS.items():
        if kn not in w.keys:
            continue
        for i in range(ctx.n(8, 60) if kn == 'p521' else ctx.n(2, 12)):
            e = w.impl_encrypt(m, [('K', kn)], 7, None)
            raw = bytes(e.__bytes__())
            pk = [p for p in walk(raw) if p[0] == 1][0]
            body = raw[pk[2]:pk[3]]
            bits = int.from_bytes(body[10:12], 'big')
            nbytes = (bits + 7) // 8
            point = body[12:12 + nbytes]
            case = {'op': 'roundtrip', 'recips': [['K', kn]], 'recipient': ['K', kn], 'blob': raw.hex(), 'want': want, 'point': point.hex(), 'mpi_bits': bits}
            ctx.case('ecdh-point', (kn, i, point), sample={'key': kn, 'point_octets': len(point), 'mpi_bits': bits})
            lead = 0x40 if width == 33 else 0x04
            if len(point) != width or point[:1] != bytes([lead]) or bits != 8 * (width - 1) + lead.bit_length():
                ctx.fail('ecdh-point', 'ephemeral point is not in the fixed-width RFC 6637 encoding (%d octets expected)' % width, case)
            if 12 + nbytes + 1 + body[12 + nbytes] != len(body):
                ctx.fail('ecdh-point', 'PKESK body is not MPI(point) || len(C) || C', case)
            mo = w.model_decrypt(raw, ('K', kn))
            if not (mo.startswith('ok ') and unhx(mo[3:]) == inner):
                ctx.fail('ecdh-point', 'independent decryptor cannot read the ECDH message: ' + mo[:60], case)
            o = w.impl_decrypt(raw, ('K', kn))
            if o != ('ok', want):
                ctx.fail('ecdh-point', 'PGPy does not decrypt its own ECDH message', dict(case, impl=repr(o)[:200]))


def sessionkey_length_suite(ctx, w):
    """caller-supplied session keys whose length is not the key size of the cipher are refused at encryption time on BOTH paths
    (PGPEncryptionError; the model's pkesk_encrypt / skesk_encrypt refuse too): a key recipient could never slice the key back, and
    a passphrase message would be keyed with a key that does not fit the cipher it names.  The right length is accepted and round-trips"""
    pgpy, d, rng = w.pgpy, w.d, ctx.rng
    with warnings.catch_warnings():
        warnings.simplefilter('ignore')
        m = pgpy.PGPMessage.new(b'session key length', compression=w.Z.Uncompressed)
    inner = bytes(m.__bytes__())
    want = canon_plain(m)
    r = ('P', 'pw', 8, 16)
    pdesc = model_recipient(w, r, bytes(8))
    for alg, n in ((9, 16), (9, 24), (9, 0), (9, 31), (9, 33), (7, 15), (7, 32), (8, 16), (2, 16), (13, 16), (3, 8), (9, 32), (7, 16), (2, 24)):
        if alg not in w.ciphers:
            continue
        right = n == KEYLEN[alg]
        sk = bytes(rng.randrange(256) for _ in range(n))
        for kn in [k for k in ('rsa2048', 'ed25519', 'p256') if k in w.keys]:
            o = outcome(w.impl_encrypt, m, [('K', kn)], alg, sk)
            case = {'op': 'sklen', 'alg': alg, 'n': n, 'key': kn}
            ctx.case('sessionkey-length', (alg, n, kn), nontrivial=right, sample=dict(case, impl=repr(o)[:60]))
            mo = d.call('enc_msg', hn(alg), hx(sk), hx(bytes(BLOCK[alg])), hx(inner), 'K,' + keydesc1(enc_target(w, kn)))
            if right:
                if o[0] != 'ok' or not mo.startswith('ok '):
                    ctx.fail('sessionkey-length', 'a session key of the right length is refused for a key recipient', dict(case, impl=repr(o)[:60], model=mo[:60]))
                continue
            if o[:2] != ('raise', 'PGPEncryptionError'):
                ctx.fail('sessionkey-length', 'PGPKey.encrypt accepted a session key nobody can decrypt with', dict(case, impl=repr(o)[:60]))
            ctx.expect_eq('sessionkey-length', 'model encrypt_to and PGPKey.encrypt disagree on a session key of the wrong length', case,
                          'raise ' + o[1] if o[0] == 'raise' else 'ok', mo if mo.startswith('raise') else 'ok')
        o = outcome(w.impl_encrypt, m, [r], alg, sk)
        case = {'op': 'sklen', 'alg': alg, 'n': n, 'key': 'passphrase'}
        ctx.case('sessionkey-length', (alg, n, 'P'), nontrivial=o[0] == 'ok', sample=dict(case, impl=repr(o)[:60]))
        mo = d.call('enc_msg', hn(alg), hx(sk), hx(bytes(BLOCK[alg])), hx(inner), pdesc)
        ctx.expect_eq('sessionkey-length', 'model encrypt_to and PGPMessage.encrypt disagree on a caller-supplied session key', case,
                      'raise ' + o[1] if o[0] == 'raise' else 'ok', mo if mo.startswith('raise') else 'ok')
        if not right:
            if o[:2] != ('raise', 'PGPEncryptionError'):
                ctx.fail('sessionkey-length', 'PGPMessage.encrypt accepted a session key whose length is not the key size of the cipher it names',
                         dict(case, impl=repr(o)[:100]))
            continue
        if o[0] != 'ok':
            ctx.fail('sessionkey-length', 'PGPMessage.encrypt refused a session key of the right length', dict(case, impl=repr(o)[:100]))
            continue
        raw = bytes(o[1].__bytes__())
        if w.impl_decrypt(raw, r) != ('ok', want):
            ctx.fail('sessionkey-length', 'passphrase message with a caller-supplied session key does not round-trip', dict(case, blob=raw.hex()))
        md = w.model_decrypt(raw, r)
        if not (md.startswith('ok ') and unhx(md[3:]) == inner):
            ctx.fail('sessionkey-length', 'independent decryptor disagrees on a passphrase message with a caller-supplied session key', dict(case, blob=raw.hex(), model=md[:80]))


ODD_RSA = 'rsa2050'     # pool key whose modulus is NOT a multiple of 8 bits long (2050 bits = 257 octets, the top octet holds two bits)


def add_odd_rsa(ctx, w):
    """make the odd-modulus RSA pool key a recipient (a user id grants its PRIMARY key encryption usage) and register it with the
    primitive oracle; only the suite below uses it, so it is added after the other suites have drawn their recipients"""
    if ODD_RSA in w.keys:
        return ODD_RSA
    try:
        k = keypool.get(ODD_RSA)
        with warnings.catch_warnings():
            warnings.simplefilter('ignore')
            u = w.pgpy.PGPUID.new('Enc User', email='enc@example.com')
            k.add_uid(u, usage={w.F.Sign, w.F.Certify, w.F.EncryptCommunications, w.F.EncryptStorage}, hashes=[w.H.SHA256],
                      ciphers=[w.S.AES256, w.S.AES128], compression=[w.Z.ZLIB, w.Z.Uncompressed], created=keypool.T0)
    except Exception as ex:
        ctx.skipped.append('key %s unavailable: %s' % (ODD_RSA, type(ex).__name__))
        return None
    w.keys[ODD_RSA] = k
    w.orc.register(k)
    return ODD_RSA


def rsa_odd_modulus_suite(ctx, w):
    """an RSA recipient whose modulus is no multiple of 8 bits long: the ciphertext is (bits + 7) // 8 octets, and when its first
    octet is zero the MPI in the packet is an octet shorter -- decrypt_sk has to pad it back to the modulus length (it padded to
    bits // 8, one octet short, and such messages could not be decrypted).  Messages are encrypted until that short form has
    been met a few times (about one in three for this key; capped); every short one and a few others go through PGPy's decrypt and
    through the independent decryptor.  The other direction: the model encrypts (RSA through the oracle), PGPy decrypts"""
    pgpy, d, rng = w.pgpy, w.d, ctx.rng
    kn = add_odd_rsa(ctx, w)
    if kn is None:
        return
    k = w.keys[kn]
    bits = int(k._key.keymaterial.n).bit_length()
    width = (bits + 7) // 8
    if bits % 8 == 0:
        ctx.skipped.append('pool key %s has a modulus of a multiple of 8 bits' % kn)
        return
    with warnings.catch_warnings():
        warnings.simplefilter('ignore')
        m = pgpy.PGPMessage.new(b'odd modulus', compression=w.Z.Uncompressed)
    inner = bytes(m.__bytes__())
    want = canon_plain(m)
    r = ('K', kn)
    need, cap = ctx.n(2, 10), ctx.n(80, 400)
    short = others = 0
    for i in range(cap):
        if short >= need:
            break
        e = w.impl_encrypt(m, [r], 7 if i % 2 else 9, None)
        raw = bytes(e.__bytes__())
        clen = (int(e._sessionkeys[0].ct.me_mod_n).bit_length() + 7) // 8
        is_short = clen < width
        if not is_short and others >= 3:
            continue
        short += is_short; others += not is_short
        case = {'op': 'rsa_odd', 'bits': bits, 'ciphertext_octets': clen, 'blob': raw.hex(), 'want': want}
        ctx.case('rsa-odd-modulus', (i, raw), sample={'bits': bits, 'modulus_octets': width, 'ciphertext_octets': clen})
        o = w.impl_decrypt(raw, r)
        if o != ('ok', want):
            ctx.fail('rsa-odd-modulus', 'a message to an RSA key whose modulus is no multiple of 8 bits long does not decrypt (ciphertext of %d octets, modulus of %d)' % (clen, width),
                     dict(case, impl=repr(o)[:200]))
        mo = w.model_decrypt(raw, r)
        if not (mo.startswith('ok ') and unhx(mo[3:]) == inner):
            ctx.fail('rsa-odd-modulus', 'independent decryptor and a message to an RSA key with an odd modulus length: ' + mo[:60], case)
    ctx.dist['rsa-odd-modulus:short-ciphertext'] = short
    if short < need:
        ctx.notes.append('rsa-odd-modulus: only %d ciphertext(s) with a leading zero octet met in %d encryptions' % (short, cap))
    # the other direction
    mshort = mothers = 0
    for i in range(ctx.n(60, 300)):
        if mshort >= ctx.n(2, 8):
            break
        sk = bytes(rng.randrange(256) for _ in range(KEYLEN[7]))
        mo = d.call('enc_msg', hn(7), hx(sk), hx(bytes(rng.randrange(256) for _ in range(BLOCK[7]))), hx(inner), 'K,' + keydesc1(k))
        case = {'op': 'rsa_odd', 'bits': bits, 'want': want, 'direction': 'model encrypts'}
        if not mo.startswith('ok '):
            ctx.fail('rsa-odd-modulus', 'model encryptor failed: ' + mo[:80], case)
            continue
        raw = unhx(mo[3:])
        case['blob'] = raw.hex()
        with warnings.catch_warnings():
            warnings.simplefilter('ignore')
            po = outcome(lambda: (int(pgpy.PGPMessage.from_blob(raw)._sessionkeys[0].ct.me_mod_n).bit_length() + 7) // 8)
        is_short = po[0] == 'ok' and po[1] < width
        if not is_short and mothers >= 3:
            continue
        mshort += is_short; mothers += not is_short
        ctx.case('rsa-odd-modulus', ('enc', i, raw), sample={'bits': bits, 'direction': 'model encrypts', 'ciphertext_octets': po[1] if po[0] == 'ok' else None})
        o = w.impl_decrypt(raw, r)
        if o != ('ok', want):
            ctx.fail('rsa-odd-modulus', 'PGPy does not decrypt a well-formed message to an RSA key whose modulus is no multiple of 8 bits long', dict(case, impl=repr(o)[:200]))
    ctx.dist['rsa-odd-modulus:short-ciphertext-from-model'] = mshort


def regressions(ctx, w):
    """witnesses of the two repaired C03 defects (known_findings.json kind=fixed), re-run on every check"""
    pgpy = w.pgpy
    with warnings.catch_warnings():
        warnings.simplefilter('ignore')
        m = pgpy.PGPMessage.new(b'regression', compression=w.Z.Uncompressed)
    want = canon_plain(m)
    # C03/mixed-recipients-attributeerror: passphrase recipient in front of a key recipient, both orders of the API calls
    for recips in ([('P', 'pw', 8, 16), ('K', 'ed25519')], [('K', 'rsa2048'), ('P', 'pw', 8, 16)]):
        if not all(r[0] == 'P' or r[1] in w.keys for r in recips):
            continue
        e = w.impl_encrypt(m, recips, 9, bytes(range(32)))
        raw = bytes(e.__bytes__())
        for r in recips:
            ctx.case('regression', ('mixed', tuple(recips), r))
            o = w.impl_decrypt(raw, r)
            if o != ('ok', want):
                ctx.fail('regression', 'C03/mixed-recipients-attributeerror is back: a recipient of a mixed passphrase+key message cannot decrypt',
                         {'op': 'roundtrip', 'blob': raw.hex(), 'recipient': list(r), 'want': want, 'impl': repr(o)[:200]})
    # C03/sessionkey-length-unchecked: 16-octet key under AES-256 to a key recipient, and (repair 29ef9ad) to a passphrase recipient
    for kn in [k for k in ('rsa2048', 'ed25519') if k in w.keys]:
        ctx.case('regression', ('sklen', kn))
        o = outcome(w.impl_encrypt, m, [('K', kn)], 9, bytes(16))
        if o[0] != 'raise':
            ctx.fail('regression', 'C03/sessionkey-length-unchecked is back: a 16-octet session key is accepted for AES-256', {'op': 'sklen', 'alg': 9, 'n': 16, 'key': kn})
    ctx.case('regression', ('sklen', 'passphrase'))
    o = outcome(w.impl_encrypt, m, [('P', 'pw', 8, 16)], 9, bytes(16))
    if o[:2] != ('raise', 'PGPEncryptionError'):
        ctx.fail('regression', 'a 16-octet session key is passphrase-encrypted under the AES-256 identifier', {'op': 'sklen', 'alg': 9, 'n': 16, 'key': 'passphrase'})
    # copies of an encrypted message (repairs 66ae54a, fae38ee): same octets, still decrypts
    import copy as _copy
    for recips in ([('K', 'ed25519')], [('K', 'p256'), ('P', 'pw', 8, 16)], [('K', 'rsa2048')]):
        if not all(r[0] == 'P' or r[1] in w.keys for r in recips):
            continue
        e = w.impl_encrypt(m, recips, 7, None)
        raw = bytes(e.__bytes__())
        ctx.case('regression', ('copy', tuple(recips)))
        o = outcome(lambda: bytes(_copy.copy(e).__bytes__()))
        if o != ('ok', raw):
            ctx.fail('regression', 'a copy of an encrypted message is written with different octets',
                     {'op': 'copy', 'recips': [list(r) for r in recips], 'impl': (o[1].hex() if o[0] == 'ok' else repr(o))[:300], 'orig': raw.hex()[:300]})


def model_recipient(w, r, salt=None):
    if r[0] == 'P':
        return ','.join(['P', hx(r[1].encode('utf-8')), hn(r[4] if len(r) > 4 else 3), hn(r[2]), hx(salt), hn(r[3])])
    k = w.keys[r[1]]
    # PGPKey.encrypt picks the first of (key, subkeys...) with encryption usage: that is the recipient key packet
    enc = enc_target(w, r[1])
    return 'K,' + keydesc1(enc)


def enc_target(w, name):
    k = w.keys[name]
    F = w.F
    want = {F.EncryptCommunications, F.EncryptStorage}
    if name in ('rsa3072', ODD_RSA):
        return k
    for c in [k] + list(k.subkeys.values()):
        try:
            if want & set(c._get_key_flags(None)):
                return c
        except Exception:
            pass
    return k


def encryptor_suite(ctx, w):
    """(b) the extracted model builds PKESK / SKESK / SEIPD packets (session key, prefix, salt chosen here; RSA encryption and the
    ECDH ephemeral through the oracle); PGPy must decrypt them to the original"""
    pgpy, d, rng = w.pgpy, w.d, ctx.rng
    Z = w.Z
    total = ctx.n(45, 800)
    for i in range(total):
        alg = w.ciphers[i % len(w.ciphers)]
        body = gen_body(ctx, ['text', 'binary', 'empty', 'unicode'][i % 4])
        if i % 5 == 1:
            body = bytes(rng.randrange(256) for _ in range(rng.choice([600, 1500, 3000, 9000, 20000])))     # long enough to be streamed (below)
        with warnings.catch_warnings():
            warnings.simplefilter('ignore')
            m = pgpy.PGPMessage.new(body, compression=rng.choice(list(Z)))
        inner = bytes(m.__bytes__())
        want = canon_plain(m)
        sk = bytes(rng.randrange(256) for _ in range(KEYLEN[alg]))
        iv = bytes(rng.randrange(256) for _ in range(BLOCK[alg]))
        mode = i % 5
        recips = gen_recipients(ctx, w, i + 1)
        case = {'op': 'encryptor', 'mode': mode, 'alg': alg, 'recips': [list(r) for r in recips], 'want': want}
        if mode in (0, 1, 2):
            # encrypt_to: the same composition PGPy's API produces
            descs = []
            for r in recips:
                salt = bytes(rng.randrange(256) for _ in range(8))
                descs.append(model_recipient(w, r, salt))
            mo = d.call('enc_msg', hn(alg), hx(sk), hx(iv), hx(inner), *descs)
        else:
            # packet by packet: SKESK variants PGPy itself never writes
            parts = []
            r = ('P', 'pw%d' % i, rng.choice(w.s2k_hashes), rng.choice([0, 16, 96]))
            salt = bytes(rng.randrange(256) for _ in range(8))
            ty = rng.choice([0, 1, 3]) if mode == 4 else 3
            if mode == 3:
                # direct mode: no encrypted session key, the S2K output is the session key
                dk = d.call('s2k', hn(alg), hn(ty), hn(r[2]), hx(salt), hn(r[3]), hx(r[1].encode()))
                sk = unhx(dk[3:])
                parts.append(d.call('skesk_direct', hn(alg), hn(ty), hn(r[2]), hx(salt), hn(r[3])))
            else:
                # outer cipher of the SKESK differs from the cipher of the data
                outer = rng.choice(w.ciphers)
                parts.append(d.call('skesk_gen', hn(outer), hn(alg), hn(ty), hn(r[2]), hx(salt), hn(r[3]), hx(r[1].encode()), hx(sk)))
            recips = [r]
            kn = rng.choice(list(w.keys))
            tgt = enc_target(w, kn)
            if int(tgt.key_algorithm) == 18 and (i // 5) % 3 != 2:
                # an RFC 6637 sender that hides the key size: m padded to 40 octets (sometimes 48) before the key wrap
                total = 40 if (i // 5) % 3 == 0 else 48
                parts.append(d.call('pkesk_to', total, keydesc1(tgt), hn(alg), hx(sk)))
                case['ecdh_padded_to'] = total
                ctx.dist['independent-encryptor:ecdh-m-padded-to-%d' % total] = ctx.dist.get('independent-encryptor:ecdh-m-padded-to-%d' % total, 0) + 1
            else:
                parts.append(d.call('pkesk', keydesc1(tgt), hn(alg), hx(sk)))
            recips.append(('K', kn))
            parts.append(d.call('seipd_packet', hn(alg), hx(sk), hx(iv), hx(inner)))
            case['recips'] = [list(x) for x in recips]
            if all(p.startswith('ok ') for p in parts):
                order = parts[:-1]
                rng.shuffle(order)
                mo = 'ok ' + hx(b''.join(unhx(p[3:]) for p in order + parts[-1:]))
            else:
                mo = 'raise ' + ';'.join(parts)[:100]
        ctx.case('independent-encryptor', (i, mode, alg, tuple(recips)), sample={'mode': mode, 'cipher': CIPHER_NAMES[alg], 'recipients': [list(r[:2]) for r in recips]})
        if not mo.startswith('ok '):
            ctx.fail('independent-encryptor', 'model encryptor failed: ' + mo[:80], case)
            continue
        raw = unhx(mo[3:])
        if i % 7 == 3:
            # one more recipient, of a public-key algorithm PGPy has no ciphertext class for (RFC 4880 5.1: any number of session key
            # packets, a reader skips those it cannot use): the message still decrypts for the others, and is exported as it was read
            alg_x = rng.choice([21, 22, 100, 110, 0])
            xb = b'\x03' + bytes(rng.randrange(256) for _ in range(8)) + bytes([alg_x]) + bytes(rng.randrange(256) for _ in range(rng.choice([1, 12, 40, 200])))
            raw = bytes([0xC1]) + (bytes([len(xb)]) if len(xb) < 192 else bytes([((len(xb) - 192) >> 8) + 192, (len(xb) - 192) & 0xFF])) + xb + raw
            case['extra_pkesk_of_algorithm'] = alg_x
            ctx.dist['independent-encryptor:extra-pkesk-unknown-algorithm'] = ctx.dist.get('independent-encryptor:extra-pkesk-unknown-algorithm', 0) + 1
            rex = outcome(lambda: bytes(pgpy.PGPMessage.from_blob(raw)))
            if rex != ('ok', raw):
                ctx.fail('independent-encryptor', 'a message with a session key packet of an unknown algorithm is not exported as it was read',
                         dict(case, blob=raw.hex() if len(raw) < 6000 else None, impl=repr(rex)[:200]))
            # the same through the model: its parser keeps the packet (opaque octets) where PGPy does, writes it back, and the
            # other recipients decrypt through it
            case_x = dict(case, blob=raw.hex() if len(raw) < 6000 else None)
            with warnings.catch_warnings():
                warnings.simplefilter('ignore')
                po = outcome(lambda: impl_struct(pgpy.PGPMessage.from_blob(raw)))
            ctx.expect_eq('independent-encryptor', 'packet structure of a message with an unknown-algorithm session key packet differs from the model parser',
                          case_x, ('ok ' + po[1]) if po[0] == 'ok' else ('raise ' + po[1]), d.call('msg_parse', hx(raw)))
            ctx.expect_eq('independent-encryptor', 'model re-emission of a message with an unknown-algorithm session key packet differs from the octets read',
                          case_x, 'ok ' + hx(raw), d.call('msg_reemit', hx(raw)))
            for r in recips:
                md = w.model_decrypt(raw, r)
                if not (md.startswith('ok ') and unhx(md[3:]) == inner):
                    ctx.fail('independent-encryptor', 'the model does not decrypt past a session key packet of an unknown algorithm: ' + md[:60],
                             dict(case_x, recipient=list(r)))
        if i % 5 == 1:
            # the sender STREAMS the encrypted data packet (RFC 4880 4.2.2.4): partial body lengths, the last part closed by a one-,
            # two- or five-octet length according to what is left
            streamed = stream_last_packet(raw, rng)
            if streamed is not None:
                raw = streamed; case['streamed'] = True
        case['blob'] = raw.hex() if len(raw) < 6000 else None
        for r in recips:
            blob = raw if i % 3 else armor(raw)
            o = w.impl_decrypt(blob, r)
            if o != ('ok', want):
                ctx.fail('independent-encryptor', 'PGPy does not decrypt a well-formed RFC 4880/6637 message to the original',
                         dict(case, recipient=list(r), impl=repr(o)[:300]))


def stream_last_packet(raw, rng):
    """re-frame the LAST packet of `raw` (the encrypted data packet) with partial body lengths; None if it is too short (first part >= 512)"""
    from . import sigcommon as _S
    pk = _S.split_packets(raw)
    tag, body, whole = pk[-1]
    if tag not in (18, 9) or len(body) < 512 + 1:
        return None
    out, pos = bytearray([0xc0 | tag]), 0
    first = True
    while True:
        left = len(body) - pos
        ks = [k for k in range(9 if first else 0, 14) if (1 << k) <= left - 1]
        want_tail = rng.choice(['two', 'two', 'one', 'any'])
        if not ks or (not first and ((want_tail == 'two' and 192 <= left < 8384) or (want_tail == 'one' and left < 192) or rng.random() < 0.2)):
            n = left
            out += (bytes([n]) if n < 192 else bytes([((n - 192) >> 8) + 192, (n - 192) & 0xff]) if n < 8384 else b'\xff' + n.to_bytes(4, 'big')) + body[pos:]
            break
        k = rng.choice(ks[:3] if rng.random() < 0.7 else ks)
        out += bytes([224 + k]) + body[pos:pos + (1 << k)]; pos += 1 << k; first = False
    return b''.join(x[2] for x in pk[:-1]) + bytes(out)


def _ref_pkesk_open(m):
    """RFC 4880 5.1 read side, written independently: ('ok', alg, key) | 'raise'"""
    ks = {1: 16, 2: 24, 3: 16, 4: 16, 7: 16, 8: 24, 9: 32, 10: 32, 11: 16, 12: 24, 13: 32}
    if not m or m[0] not in ks:
        return 'raise'
    n = ks[m[0]]
    key = m[1:1 + n]
    if sum(key) % 65536 != int.from_bytes(m[1 + n:3 + n], 'big'):
        return 'raise'
    return ('ok', m[0], bytes(key))


def replay(ctx, case):
    """re-run one recorded case on the implementation against the direct oracle (no model involved); True = it still fails"""
    w = World(ctx)
    try:
        from pgpy.constants import SymmetricKeyAlgorithm as S, PubKeyAlgorithm as PK
        from pgpy.packet.packets import PKESessionKeyV3, IntegrityProtectedSKEDataV1
        from pgpy.packet.types import MPI
        op = case.get('op')
        if op in ('roundtrip', 'encryptor'):
            if not case.get('blob') or case.get('want') is None:
                return True
            rs = [case['recipient']] if case.get('recipient') else case.get('recips', [])
            if case.get('plain') is not None:
                pl = case['plain']
                kw = dict(pl['kw'])
                if 'compression' in kw:
                    kw['compression'] = w.Z(kw['compression'])
                for _ in range(12):
                    with warnings.catch_warnings():
                        warnings.simplefilter('ignore')
                        m = w.pgpy.PGPMessage.new(pl['body'] if pl['is_text'] else bytes.fromhex(pl['body']), **kw)
                        if pl['signed'] and 'ed25519' in w.keys:
                            m |= w.keys['ed25519'].sign(m, created=keypool.T0)
                    want = canon_plain(m)
                    recips = [tuple(r) for r in case['recips']]
                    o = outcome(w.impl_encrypt, m, recips, pl['alg'], bytes(range(KEYLEN[pl['alg']])))
                    if o[0] != 'ok':
                        return True
                    raw = bytes(o[1].__bytes__())
                    if any(w.impl_decrypt(raw, r) != ('ok', want) for r in recips):
                        return True
                return False
            if case.get('point') is not None and rs and rs[0][0] == 'K' and len(case['point']) // 2 != POINT_OCTETS.get(rs[0][1]):
                # the recorded octets came from the implementation under test at that time: produce fresh ones
                with warnings.catch_warnings():
                    warnings.simplefilter('ignore')
                    m = w.pgpy.PGPMessage.new(b'ephemeral point', compression=w.Z.Uncompressed)
                from .c04 import walk
                for _ in range(40):
                    raw = bytes(w.impl_encrypt(m, [tuple(rs[0])], 7, None).__bytes__())
                    pk = [p for p in walk(raw) if p[0] == 1][0]
                    bits = int.from_bytes(raw[pk[2] + 10:pk[2] + 12], 'big')
                    if (bits + 7) // 8 != POINT_OCTETS[rs[0][1]]:
                        return True
                return False
            return any(w.impl_decrypt(bytes.fromhex(case['blob']), tuple(r)) != ('ok', case['want']) for r in rs)
        if op == 'seipd_gate':
            a, key, ct = case['alg'], bytes.fromhex(case['key']), bytes.fromhex(case['ct'])
            sp = IntegrityProtectedSKEDataV1(); sp.ct = bytearray(ct)
            o = outcome(lambda: bytes(sp.decrypt(key, S(a))))
            pt = cfb(a, key, ct, False); bs = BLOCK[a]
            mdc = len(pt) >= 22 and pt[-22:-20] == b'\xd3\x14' and hashlib.sha1(pt[:-20]).digest() == pt[-20:]
            ok = mdc and (len(pt) == 22 or (len(pt) >= bs + 24 and pt[bs - 2:bs] == pt[bs:bs + 2]))
            return (o[0] == 'ok') != ok or (ok and o[1] != pt[bs + 2:-22])
        if op == 'seipd_enc':
            import pgpy.constants as C
            a, key, iv, data = case['alg'], bytes.fromhex(case['key']), bytes.fromhex(case['iv']), bytes.fromhex(case['data'])
            real = C.os.urandom
            C.os.urandom = lambda n: iv[:n] if n == len(iv) else real(n)
            try:
                sp = IntegrityProtectedSKEDataV1(); sp.encrypt(key, S(a), data)
            finally:
                C.os.urandom = real
            body = iv + iv[-2:] + data + b'\xd3\x14'
            return cfb(a, key, bytes(sp.ct), False) != body + hashlib.sha1(body).digest()
        if op == 'pkesk_m':
            a, key = case['alg'], bytes.fromhex(case['key'])
            stub = _StubRSA(); p = PKESessionKeyV3(); p.pkalg = 1
            o = outcome(p.encrypt_sk, stub, S(a), key)
            if len(key) != KEYLEN[a]:
                return o != ('raise', 'PGPEncryptionError')
            return stub.seen != bytes([a]) + key + (sum(key) % 65536).to_bytes(2, 'big')
        if op == 'sklen':
            with warnings.catch_warnings():
                warnings.simplefilter('ignore')
                m = w.pgpy.PGPMessage.new(b'session key length', compression=w.Z.Uncompressed)
            sk = bytes(case['n'])
            right = case['n'] == KEYLEN[case['alg']]
            r = ('P', 'pw', 8, 16) if case['key'] == 'passphrase' else ('K', case['key'])
            o = outcome(w.impl_encrypt, m, [r], case['alg'], sk)
            if not right:
                return o[:2] != ('raise', 'PGPEncryptionError')
            return o[0] != 'ok' or w.impl_decrypt(bytes(o[1].__bytes__()), r) != ('ok', canon_plain(m))
        if op == 'copy':
            import copy as _copy
            with warnings.catch_warnings():
                warnings.simplefilter('ignore')
                m = w.pgpy.PGPMessage.new(b'regression', compression=w.Z.Uncompressed)
            e = w.impl_encrypt(m, [tuple(r) for r in case['recips']], 7, None)
            return outcome(lambda: bytes(_copy.copy(e).__bytes__())) != ('ok', bytes(e.__bytes__()))
        if op == 'pkesk_open':
            m = bytes.fromhex(case['m'])
            stub = _StubRSA(m); p = PKESessionKeyV3(); p.pkalg = 1; p.ct.me_mod_n = MPI(12345)
            o = outcome(p.decrypt_sk, stub)
            ref = _ref_pkesk_open(m)
            got = ('ok', int(o[1][0]), bytes(o[1][1])) if o[0] == 'ok' else 'raise'
            return got != ref
        if op == 'rsa_pad':
            bits, v = case['bits'], int(case['v'], 16)
            stub = _StubRSA(bytes([9]) + bytes(34), bits); p = PKESessionKeyV3(); p.pkalg = 1; p.ct.me_mod_n = MPI(v)
            outcome(p.decrypt_sk, stub)
            return stub.seen is None or len(stub.seen) != (bits + 7) // 8 or int.from_bytes(stub.seen, 'big') != v
        if op == 'rsa_odd':
            if add_odd_rsa(ctx, w) is None or not case.get('blob'):
                return True
            return w.impl_decrypt(bytes.fromhex(case['blob']), ('K', ODD_RSA)) != ('ok', case['want'])
        if op == 'kdf':
            k = w.keys[case['key']]
            for sk in [k] + list(k.subkeys.values()):
                if str(sk.fingerprint).replace(' ', '') == case['fp']:
                    km = sk._key.keymaterial
                    s_ = bytes.fromhex(case['s'])
                    oid = oid_octets(str(km.oid.value))
                    param = bytes([len(oid)]) + oid + bytes([18, 3, 1, int(km.kdf.halg), int(km.kdf.encalg)]) + b'Anonymous Sender    ' + bytes.fromhex(case['fp'])
                    want = hashlib.new(HASHES[int(km.kdf.halg)], b'\x00\x00\x00\x01' + s_ + param).digest()[:S(int(km.kdf.encalg)).key_size // 8]
                    return bytes(km.kdf.derive_key(s_, km.oid, PK.ECDH, sk.fingerprint)) != want
            return True
        if op == 's2k':
            from pgpy.packet.fields import String2Key
            s_ = String2Key(); s_.usage = 255; s_.encalg = case['alg']; s_.specifier = case['type']; s_.halg = case['hash']
            s_.salt = bytearray(bytes.fromhex(case['salt'])); s_.count = case['count']
            o = outcome(lambda: bytes(s_.derive_key(bytes.fromhex(case['pass']))))
            kind = {0: 0, 3: 3}.get(case['type'], 1)
            cnt = (16 + (case['count'] & 15)) << ((case['count'] >> 4) + 6)
            r = outcome(s2k_rfc, kind, case['hash'], bytes.fromhex(case['salt']) if kind else b'', cnt, KEYLEN[case['alg']], bytes.fromhex(case['pass']))
            return o[0] != r[0] or (o[0] == 'ok' and o[1] != r[1])
        if op in ('pad', 'unpad', 'pad40'):
            from cryptography.hazmat.primitives.padding import PKCS7
            m = bytes.fromhex(case['m'])
            if op == 'pad':
                p = PKCS7(64).padder(); n = 8 - len(m) % 8
                return p.update(m) + p.finalize() != m + bytes([n]) * n
            f = make_unpad_impl(w)
            if f is None:
                return True
            if op == 'pad40':
                m = m + bytes([40 - len(m)]) * (40 - len(m))
            o = outcome(f, m)
            ref = ref_unpad(m)
            if ref is None:
                return o[0] != 'raise' or (len(m) > 0 and o[1] != 'PGPDecryptionError')
            return o != ('ok', hx(ref))
        if op == 'tables':
            a = case['alg']
            ks = {1: 128, 2: 192, 3: 128, 4: 128, 7: 128, 8: 192, 9: 256, 10: 256, 11: 128, 12: 192, 13: 256}
            try:
                al = S(a)
            except ValueError:
                return a in ks or a == 0
            if a == 0:
                return False
            return al.key_size != ks.get(a) or al.block_size != (64 if a <= 4 else 128)
        return True
    finally:
        w.close()
