"""C04 fault enumeration on real ciphertexts.  For every mutated message and every would-be recipient:
  (direct oracle)   the implementation either raises or returns exactly the plaintext that was encrypted;
  (correspondence)  the extracted model (Model/Encrypt.v, primitives answered by hashlib/cryptography) accepts iff the
                    implementation accepts, and then recovers the same plaintext packets.
Mutations: every single-bit flip, truncation at every offset, extension, block swaps inside the encrypted data, splices between
two messages (same recipient, same or different session key), MDC replacement / removal, re-framing as a legacy tag-9 packet,
duplicated / reordered / foreign session-key packets, wrong passphrases, non-recipient keys."""
import hashlib, os, warnings

from .common import hx, unhx, hn, outcome, load_repo
from . import keys as keypool
from .c03 import World, check_pins, canon_plain, keydesc, cfb, CIPHER_NAMES, KEYLEN, BLOCK, HASHES

# finding: PGPy decrypts the legacy Symmetrically Encrypted Data packet (tag 9, no MDC) with the session key of the message; the body
# of an integrity-protected packet re-framed as tag 9 ALWAYS passes the 16-bit quick check (same CFB start) and the MDC is never looked at
DOWNGRADE = 'C04/legacy-sed-downgrade'


def is_legacy_reframe(mut):
    return mut.startswith('tag 18 -> 9') or mut.startswith('downgrade')


PIN_ONLY = ['IntegrityProtectedSKEDataV1.decrypt', 'IntegrityProtectedSKEDataV1.parse', 'PKESessionKeyV3.decrypt_sk', 'PKESessionKeyV3.parse', 'PKESessionKeyV3.pkalg_int', 'PKESessionKeyV3.__bytearray__',
            'SKESessionKeyV4.decrypt_sk', 'SKESessionKeyV4.parse', 'ECDHCipherText.decrypt', 'ECDHCipherText.parse', 'ECPoint.__init__',
            'PGPMessage.decrypt', 'PGPKey.decrypt', 'symenc._decrypt']


def walk(raw):
    """[(tag, start, body_start, end)] of a packet sequence with definite new/old-format lengths (what PGPy writes)"""
    out, i = [], 0
    while i < len(raw):
        t = raw[i]
        if t & 0x40:
            tag = t & 0x3f
            f = raw[i + 1]
            if f < 192:
                ln, hl = f, 2
            elif f < 224:
                ln, hl = ((f - 192) << 8) + raw[i + 2] + 192, 3
            elif f == 255:
                ln, hl = int.from_bytes(raw[i + 2:i + 6], 'big'), 6
            else:
                raise ValueError('partial length')
        else:
            tag = (t >> 2) & 15
            w = {0: 1, 1: 2, 2: 4}[t & 3]
            ln, hl = int.from_bytes(raw[i + 1:i + 1 + w], 'big'), 1 + w
        out.append((tag, i, i + hl, i + hl + ln))
        i += hl + ln
    return out


def newhdr(tag, n):
    if n < 192:
        return bytes([0xc0 | tag, n])
    if n < 8384:
        return bytes([0xc0 | tag, ((n - 192) >> 8) + 192, (n - 192) & 0xff])
    return bytes([0xc0 | tag, 255]) + n.to_bytes(4, 'big')


class Sweep:
    def __init__(self, ctx, w):
        self.ctx, self.w = ctx, w
        self.pairs = {}
        self.outside = 0
        self.same_accepts = {}
        self.examples = {}

    def one(self, suite, label, mut, raw, r, inner, want, alts=()):
        """one mutated message `raw`, one would-be recipient r"""
        ctx, w = self.ctx, self.w
        o = w.impl_decrypt(raw, r)
        case = {'op': 'fault', 'suite': suite, 'msg': label, 'mutation': mut, 'recipient': list(r), 'blob': raw.hex() if len(raw) <= 4000 else None,
                'want': want if len(raw) <= 4000 else None}
        ctx.case(suite, (label, mut, r[:2]), nontrivial=True, sample={'msg': label, 'mutation': mut, 'recipient': list(r[:2]), 'impl': repr(o)[:80]})
        # direct oracle: raise, or the ORIGINAL plaintext
        # (alts: a whole genuine data packet made with the SAME caller-supplied session key was substituted -- a replay, its own
        #  plaintext is the only other acceptable outcome)
        if o[0] == 'ok' and o[1] != want and not any(o[1] == a[1] for a in alts):
            ctx.fail(suite, 'a modified / mis-keyed message decrypted to a DIFFERENT plaintext', dict(case, impl=repr(o)[:400]),
                     defect_key=DOWNGRADE if is_legacy_reframe(mut) else None)
        if o[0] == 'ok':
            self.same_accepts[suite] = self.same_accepts.get(suite, 0) + 1
        # correspondence with the model gate
        mo = w.model_decrypt(raw, r)
        if 'Unmodelled' in mo:
            self.outside += 1
            ctx.dist['outside-model'] = ctx.dist.get('outside-model', 0) + 1
            return o
        m_ok = mo.startswith('ok ')
        if m_ok != (o[0] == 'ok'):
            ctx.fail(suite, 'model gate and implementation disagree on accept/reject', dict(case, impl=repr(o)[:200], model=mo[:200]))
        elif m_ok and unhx(mo[3:]) != inner and not any(unhx(mo[3:]) == a[0] for a in alts):
            ctx.fail(suite, 'model accepted with a different plaintext', dict(case, model=mo[:200]))
        if not m_ok:
            k = (mo[6:], o[1] if o[0] == 'raise' else 'ok')
            self.pairs[k] = self.pairs.get(k, 0) + 1
            if k[0].replace('parse:', '') != k[1] and len(self.examples.setdefault(k, [])) < 3:
                self.examples[k].append('%s | %s | %s (%s)' % (label, mut, r[0], o[2] if o[0] == 'raise' else ''))
            # exception CLASS at the decrypt stage (the message was parsed by both): the model's decrypt paths name the class the code
            # raises -- PGPDecryptionError for every failure of a primitive, of the unpadding, of the session-key tail and of the
            # integrity gate, PGPError for a key that is no recipient / a message cut after its session keys.  'Prim' (a cipher that
            # cannot be set up for the data) has no class in the model
            if o[0] == 'raise' and o[2] == 'decrypt' and not mo[6:].startswith('parse:'):
                mc = {'NotEncrypted': 'NotEncryptedReturned'}.get(mo[6:], mo[6:])
                if mc != 'Prim' and mc != o[1]:
                    ctx.fail(suite, 'a rejected message leaves decrypt as %s where the model says %s' % (o[1], mc), dict(case, impl=repr(o)[:200], model=mo[:200], expect_exc=mc))
            # the passphrase loop converts every failure into PGPDecryptionError (or the message is refused before)
            if r[0] == 'P' and o[0] == 'raise' and o[2] == 'decrypt' and o[1] not in ('PGPDecryptionError', 'PGPError'):
                ctx.fail(suite, 'PGPMessage.decrypt let a %s escape' % o[1], dict(case, model=mo))
        return o


def make_message(ctx, w, recips, alg, body=b'attack at dawn', comp=None, sk=None):
    pgpy = w.pgpy
    with warnings.catch_warnings():
        warnings.simplefilter('ignore')
        m = pgpy.PGPMessage.new(body, compression=comp if comp is not None else w.Z.Uncompressed)
    inner = bytes(m.__bytes__())
    want = canon_plain(m)
    e = w.impl_encrypt(m, recips, alg, sk)
    return bytes(e.__bytes__()), inner, want


def bit_flips(ctx, sw, label, raw, recips, inner, want, positions=None):
    n = 0
    pos = range(len(raw)) if positions is None else positions
    for i in pos:
        for b in range(8):
            mm = bytearray(raw)
            mm[i] ^= 1 << b
            for r in recips:
                sw.one('bit-flip', label, 'flip %d.%d' % (i, b), bytes(mm), r, inner, want)
                n += 1
    return n


def truncations(ctx, sw, label, raw, recips, inner, want, offsets=None):
    for n in (range(len(raw)) if offsets is None else offsets):
        for r in recips:
            sw.one('truncation', label, 'truncate to %d' % n, raw[:n], r, inner, want)


def structural(ctx, sw, w, label, raw, recips, inner, want, alg, other=None):
    """extension, block swaps, MDC replacement / removal, tag-9 re-framing, session-key packet games"""
    rng = ctx.rng
    pk = walk(raw)
    seipd = [p for p in pk if p[0] == 18][0]
    esks = [p for p in pk if p[0] in (1, 3)]
    s0, sb, se = seipd[1], seipd[2], seipd[3]
    ct = raw[sb + 1:se]
    bs = BLOCK[alg]
    def reframe(newct, tag=18, ver=b'\x01'):
        body = ver + newct
        return raw[:s0] + newhdr(tag, len(body)) + body + raw[se:]
    muts = []
    # extension
    for k in (1, 2, bs, 22):
        muts.append(('extend data by %d random' % k, reframe(ct + bytes(rng.randrange(256) for _ in range(k)))))
        muts.append(('append %d octets after the last packet' % k, raw + bytes(rng.randrange(256) for _ in range(k))))
    muts.append(('extend data by a copy of its last block', reframe(ct + ct[-bs:])))
    muts.append(('header length +1 (over-long)', raw[:s0] + newhdr(18, len(ct) + 2) + raw[sb:]))
    muts.append(('header length -1', raw[:s0] + newhdr(18, len(ct)) + raw[sb:]))
    # block swaps / duplications / deletions
    nb = len(ct) // bs
    pairs = [(i, j) for i in range(nb) for j in range(i + 1, nb)]
    rng.shuffle(pairs)
    for i, j in pairs[:ctx.n(10, 60)]:
        c2 = bytearray(ct)
        c2[i * bs:(i + 1) * bs], c2[j * bs:(j + 1) * bs] = ct[j * bs:(j + 1) * bs], ct[i * bs:(i + 1) * bs]
        muts.append(('swap blocks %d,%d' % (i, j), reframe(bytes(c2))))
    for i in range(min(nb, ctx.n(4, 30))):
        muts.append(('delete block %d' % i, reframe(ct[:i * bs] + ct[(i + 1) * bs:])))
        muts.append(('duplicate block %d' % i, reframe(ct[:(i + 1) * bs] + ct[i * bs:])))
    # MDC replacement / removal
    muts.append(('MDC octets random', reframe(ct[:-22] + bytes(rng.randrange(256) for _ in range(22)))))
    muts.append(('MDC octets zero', reframe(ct[:-22] + bytes(22))))
    muts.append(('MDC digest random', reframe(ct[:-20] + bytes(rng.randrange(256) for _ in range(20)))))
    muts.append(('MDC removed', reframe(ct[:-22])))
    muts.append(('MDC removed, 22 octets of data removed too', reframe(ct[:-44])))
    muts.append(('data emptied', reframe(b'')))
    muts.append(('only the MDC-sized tail kept', reframe(ct[-22:])))
    muts.append(('version octet 2', reframe(ct, ver=b'\x02')))
    # legacy re-framing (no integrity protection): plain tag change, and the realigned forms of the downgrade attack
    muts.append(('tag 18 -> 9 keeping the version octet', reframe(ct, tag=9)))
    muts.append(('tag 18 -> 9 without version octet', reframe(ct, tag=9, ver=b'')))
    muts.append(('tag 18 -> 9 without version octet and MDC', reframe(ct[:-22], tag=9, ver=b'')))
    for j in range(0, min(3, nb - 2)):
        muts.append(('downgrade: two octets + blocks from %d, MDC stripped' % j, reframe(bytes(2) + ct[j * bs:-22], tag=9, ver=b'')))
    # session-key packet games
    allesk = b''.join(raw[p[1]:p[3]] for p in esks)
    sp = raw[s0:se]
    muts.append(('encrypted data before the session keys', sp + allesk))
    muts.append(('session keys duplicated', allesk + allesk + sp))
    muts.append(('encrypted data duplicated', allesk + sp + sp))
    muts.append(('no session-key packet', sp))
    muts.append(('no encrypted data packet', allesk))
    # unencrypted content packets next to the encrypted data (no key needed to make them): never the result of decrypt
    import zlib as _zlib, bz2 as _bz2
    evil = b'b\x00' + bytes(4) + b'EVIL TEXT'
    evil_lit = newhdr(11, len(evil)) + evil
    def _comp(a, data):
        body = bytes([a]) + ({0: lambda x: x, 1: lambda x: _zlib.compress(x)[2:-4], 2: _zlib.compress, 3: _bz2.compress}[a])(data)
        return newhdr(8, len(body)) + body
    extras = [('literal', evil_lit)] + [('compressed(%d) literal' % a, _comp(a, evil_lit)) for a in (0, 1, 2, 3)]
    for nm, pkt in extras:
        muts.append(('append an unencrypted %s' % nm, raw + pkt))
        muts.append(('prepend an unencrypted %s' % nm, pkt + raw))
        muts.append(('unencrypted %s between session keys and data' % nm, allesk + pkt + sp))
        # the session keys kept, the data packet gone: what follows them is the attacker's own packet (never what decrypt yields)
        muts.append(('encrypted data packet replaced by an unencrypted %s' % nm, allesk + pkt))
    # a packet re-tagged as a kind that PGPMessage takes without a key (modification detection code, marker, literal, compressed,
    # signature, one-pass signature), as it stands and with a header that swallows the rest of the message written where a reader that
    # ignores the declared length would stop (tag 19: 20 octets into the body) or at the first body octet.  (MDC.parse took 20 octets
    # whatever the header declared: the single-bit flip C3 -> D3 of a passphrase session-key packet left ten random octets to be read
    # as packets, and about one run in sixteen they opened a literal / marker packet: the message came back "not encrypted".)
    swallow = [(b'\xac', 'old-format literal'), (b'\xaf', 'old-format literal, no length'), (b'\xcb\xff', 'new-format literal, five-octet length'),
               (b'\xaa', 'old-format marker'), (b'\x2e', 'literal with bit 7 clear')]
    for p in esks + [seipd]:
        for newtag in (19, 11, 10, 8, 2, 4):
            for off in (None, 0, 20):
                for hb, hname in (swallow if off is not None else [(b'', '')]):
                    if off is not None and p[2] + off + len(hb) > p[3]:
                        continue
                    mm = bytearray(raw)
                    mm[p[1]] = 0xc0 | newtag
                    if off is not None:
                        mm[p[2] + off:p[2] + off + len(hb)] = hb
                    muts.append(('tag %d packet at %d re-tagged %d%s' % (p[0], p[1], newtag, '' if off is None else ', %s header at body offset %d' % (hname, off)),
                                 bytes(mm)))
    if len(esks) > 1:
        muts.append(('session keys reversed', b''.join(raw[p[1]:p[3]] for p in reversed(esks)) + sp))
        for p in esks:
            muts.append(('session key packet at %d removed' % p[1], b''.join(raw[q[1]:q[3]] for q in esks if q != p) + sp))
    if other is not None:
        oraw, same_sk, oinner, owant = other
        opk = walk(oraw)
        oseipd = [p for p in opk if p[0] == 18][0]
        oct_ = oraw[oseipd[2] + 1:oseipd[3]]
        oesk = b''.join(oraw[p[1]:p[3]] for p in opk if p[0] in (1, 3))
        tagn = 'same session key' if same_sk else 'other session key'
        muts.append(('splice: session keys of the other message (%s) + this data' % tagn, oesk + sp))
        muts.append(('splice: these session keys + data of the other message (%s)' % tagn, allesk + oraw[oseipd[1]:oseipd[3]],
                     [(oinner, owant)] if same_sk else []))
        muts.append(('splice: both session key sets + this data', oesk + allesk + sp))
        for k in range(1, min(nb, len(oct_) // bs, ctx.n(5, 40))):
            muts.append(('splice: blocks < %d of this + rest of the other (%s)' % (k, tagn), reframe(ct[:k * bs] + oct_[k * bs:])))
            muts.append(('splice: blocks < %d of the other + rest of this (%s)' % (k, tagn), reframe(oct_[:k * bs] + ct[k * bs:])))
        muts.append(('splice: MDC of the other message (%s)' % tagn, reframe(ct[:-22] + oct_[-22:])))
    for mu in muts:
        for r in recips:
            o = sw.one('structural', label, mu[0], mu[1], r, inner, want, alts=mu[2] if len(mu) > 2 else ())
            if mu[0] == 'no encrypted data packet' and o != ('raise', 'PGPError', 'decrypt'):
                # a message cut right after its session key packets: PGPMessage.decrypt and PGPKey.decrypt both refuse it with PGPError
                # (PGPKey.decrypt used to hand the input object back with a "not encrypted" warning)
                ctx.fail('structural', 'session key packets without an encrypted data packet are not refused with PGPError',
                         {'op': 'fault', 'suite': 'structural', 'msg': label, 'mutation': mu[0], 'recipient': list(r), 'blob': mu[1].hex(), 'want': None,
                          'expect_exc': 'PGPError', 'impl': repr(o)[:120]})


# public-key algorithm ids written over the algorithm octet of every PKESK: not in PubKeyAlgorithm (private / experimental / reserved),
# listed without a ciphertext class, listed with one (the fields are then read under another algorithm's layout)
ALG_UNLISTED = [100, 110, 26, 50, 82, 4, 23, 255]
ALG_NO_CLASS = [17, 19, 22, 21, 3, 0]
ALG_CLASS = [1, 2, 16, 20, 18]


def pkesk_algorithm(ctx, sw, w, label, raw, recips, inner, want):
    """the algorithm octet of each public-key session key packet set to every kind of other id.  An id PGPy has no ciphertext class
    for (unlisted or listed) makes the packet someone else's: it is kept as received (the message is exported octet for octet), the
    passphrase recipients still get exactly the original plaintext, the key it was addressed to is refused; every outcome is compared
    with the model gate and with the direct oracle (raise, or the original plaintext) by Sweep.one"""
    for p in walk(raw):
        if p[0] != 1:
            continue
        off = p[2] + 9            # version octet, eight octets of key id
        for a in ALG_UNLISTED + ALG_NO_CLASS + ALG_CLASS:
            if a == raw[off]:
                continue
            blob = raw[:off] + bytes([a]) + raw[off + 1:]
            mut = 'PKESK at %d: algorithm octet %d -> %d' % (p[1], raw[off], a)
            opaque = a not in ALG_CLASS
            case = {'op': 'fault', 'suite': 'pkesk-algorithm', 'msg': label, 'mutation': mut, 'blob': blob.hex(), 'want': want}
            if opaque:
                with warnings.catch_warnings():
                    warnings.simplefilter('ignore')
                    rex = outcome(lambda: bytes(w.pgpy.PGPMessage.from_blob(blob)))
                if rex != ('ok', blob):
                    ctx.fail('pkesk-algorithm', 'a session key packet of an algorithm without ciphertext class is not kept as it was received',
                             dict(case, recipient=list(recips[0]), reexport=True, impl=(rex[1].hex() if rex[0] == 'ok' else repr(rex))[:300]))
            for r in recips:
                o = sw.one('pkesk-algorithm', label, mut, blob, r, inner, want)
                if opaque and r[0] == 'P' and o != ('ok', want):
                    ctx.fail('pkesk-algorithm', 'a session key packet of an unusable algorithm keeps a passphrase recipient from the message',
                             dict(case, recipient=list(r), must_decrypt=True, impl=repr(o)[:200]))
                if opaque and r[0] == 'K' and len([q for q in walk(raw) if q[0] == 1]) == 1 and o[0] != 'raise':
                    ctx.fail('pkesk-algorithm', 'a key decrypted through a session key packet that no longer names its algorithm',
                             dict(case, recipient=list(r), want=None, impl=repr(o)[:200]))


def keyed_gate(ctx, sw, w, label, raw, recips, inner, want, alg, sk):
    """faults made WITH the session key (decrypt, damage the integrity structure, recompute, re-encrypt): only the named gate
    condition can refuse them, so each of the comparisons in IntegrityProtectedSKEDataV1.decrypt is exercised on its own"""
    pk = walk(raw)
    sp = [p for p in pk if p[0] == 18][0]
    ct = raw[sp[2] + 1:sp[3]]
    bs = BLOCK[alg]
    pt = cfb(alg, sk, ct, False)
    body = pt[:-22]
    sha = lambda x: hashlib.sha1(x).digest()
    def remake(newpt):
        c = cfb(alg, sk, bytes(newpt), True)
        return raw[:sp[1]] + newhdr(18, 1 + len(c)) + b'\x01' + c + raw[sp[3]:]
    muts = []
    for k in (bs - 2, bs - 1, bs, bs + 1):
        for bit in (0, 3, 7):
            b2 = bytearray(body)
            b2[k] ^= 1 << bit
            b2 = bytes(b2)
            muts.append(('keyed: prefix/repeat octet %d bit %d damaged, MDC recomputed' % (k, bit), b2 + b'\xd3\x14' + sha(b2 + b'\xd3\x14')))
    muts.append(('keyed: MDC header D2 14, digest over it', body + b'\xd2\x14' + sha(body + b'\xd2\x14')))
    muts.append(('keyed: MDC header D3 15, digest over it', body + b'\xd3\x15' + sha(body + b'\xd3\x15')))
    muts.append(('keyed: digest over the data without D3 14', body + b'\xd3\x14' + sha(body)))
    muts.append(('keyed: digest over the data without the prefix', body + b'\xd3\x14' + sha(body[bs + 2:] + b'\xd3\x14')))
    muts.append(('keyed: digest over the data without the repeated octets', body + b'\xd3\x14' + sha(body[:bs] + body[bs + 2:] + b'\xd3\x14')))
    muts.append(('keyed: 19-octet digest', body + b'\xd3\x13' + sha(body + b'\xd3\x13')[:19]))
    muts.append(('keyed: MDC in front of the data', body[:bs + 2] + b'\xd3\x14' + sha(body[:bs + 2] + b'\xd3\x14') + body[bs + 2:]))
    muts.append(('keyed: no MDC at all', body))
    for name, newpt in muts:
        blob = remake(newpt)
        for r in recips:
            o = sw.one('keyed-gate', label, name, blob, r, inner, want)
            if o[0] != 'raise':
                ctx.fail('keyed-gate', 'a malformed integrity structure was accepted', {'op': 'fault', 'blob': blob.hex(), 'recipient': list(r), 'want': None, 'mutation': name})


def long_passphrases(ctx, sw, w):
    """RFC 4880 3.7.1.3: salt and passphrase are hashed COMPLETELY even when they are longer than the coded octet count: two passphrases
    that differ only beyond octet 1016 (coded count 0 = 1024 octets, what `gpg --s2k-count 1024` writes) are different passphrases"""
    base = ''.join(chr(0x61 + (i * 7) % 26) for i in range(1500))
    for alg, halg in ([(7, 8)] if ctx.quick else [(7, 8), (9, 10), (3, 2)]):
        if alg not in w.ciphers:
            continue
        recips = [('P', base, halg, 0)]
        sk = bytes(ctx.rng.randrange(256) for _ in range(KEYLEN[alg]))
        raw, inner, want = make_message(ctx, w, recips, alg, sk=sk)
        label = 'long passphrase (1500 octets, coded count 0)/%d' % alg
        o = sw.one('long-passphrase', label, 'none', raw, recips[0], inner, want)
        if o != ('ok', want):
            ctx.fail('long-passphrase', 'message for a 1500-octet passphrase does not decrypt with it', {'op': 'fault', 'blob': raw.hex(), 'recipient': ['P', '<1500 octets>'], 'want': want}); continue
        for what, wrong in [('last character changed', base[:-1] + '#'), ('character 1490 changed', base[:1490] + '#' + base[1491:]), ('cut to 1400', base[:1400]),
                            ('character 1020 changed', base[:1020] + '#' + base[1021:]), ('cut to 1017', base[:1017]), ('cut to 1016', base[:1016]),
                            ('one character appended', base + 'x'), ('character 1010 changed', base[:1010] + '#' + base[1011:])]:
            o2 = w.impl_decrypt(raw, ('P', wrong))
            ctx.case('long-passphrase', (alg, what), sample={'cipher': alg, 'wrong': what})
            if o2[0] == 'ok':
                ctx.fail('long-passphrase', 'a wrong passphrase (%s of a 1500-octet passphrase) decrypts the message' % what,
                         {'op': 'longpw', 'alg': alg, 'what': what, 'blob': raw.hex()})


def mdc_boundaries(ctx, sw, w):
    """protected streams (prefix + repeat + packets) whose length is exactly a multiple of 64 KiB, one octet less and one more: whatever way
    an implementation slices the data for hashing, a flipped bit anywhere in it - the last slices in particular - must be refused"""
    rng = ctx.rng
    for alg, k64 in ([(7, 1), (3, 1)] if ctx.quick else [(7, 1), (7, 2), (9, 1), (3, 1), (2, 1), (11, 3)]):
        if alg not in w.ciphers:
            continue
        bs = BLOCK[alg]
        sk = bytes(rng.randrange(256) for _ in range(KEYLEN[alg]))
        recips = [('P', 'pw-boundary', 8, 16)]
        for delta in (0, -1, 1):
            target = k64 * 65536 + delta
            # literal packet octets needed: target - (bs + 2); find the body length that gives it
            raw = None
            for n in range(target - bs - 2 - 20, target - bs - 2 + 1):
                body = bytes((i * 131 + 7) & 0xff for i in range(max(n, 0)))
                r0, inner, want = make_message(ctx, w, recips, alg, body=body, sk=sk)
                if bs + 2 + len(inner) == target:
                    raw = r0; break
            if raw is None:
                ctx.skipped.append('mdc-boundary: no body length gives a stream of %d octets' % target); continue
            label = 'boundary %s stream=%d' % (CIPHER_NAMES.get(alg, alg) if 'CIPHER_NAMES' in globals() else alg, target)
            o = sw.one('mdc-boundary', label, 'none', raw, recips[0], inner, want)
            if o != ('ok', want):
                ctx.fail('mdc-boundary', 'unmodified message with a stream of %d octets does not decrypt' % target, {'op': 'fault', 'blob': None, 'stream': target, 'alg': alg}); continue
            pk = walk(raw)
            sp = [p for p in pk if p[0] == 18][0]
            c0, c1 = sp[2] + 1, sp[3]                      # ciphertext octets
            positions = [c1 - 23, c1 - 23 - bs, c1 - 22 - 65536 + 5, c1 - 22 - 32768, c0 + bs + 2, c0 + (c1 - c0) // 2] + \
                        [rng.randrange(max(c0, c1 - 22 - 65536), c1 - 22) for _ in range(ctx.n(4, 30))]
            for pos in positions:
                if not (c0 <= pos < c1 - 22):
                    continue
                mm = bytearray(raw); mm[pos] ^= 1 << rng.randrange(8)
                o2 = w.impl_decrypt(bytes(mm), recips[0])
                ctx.case('mdc-boundary', (alg, target, pos), sample={'cipher': alg, 'stream': target, 'flip_at_from_end': c1 - pos})
                if o2[0] == 'ok':
                    ctx.fail('mdc-boundary', 'a flipped bit %d octets before the end of a %d-octet protected stream is not refused' % (c1 - pos, target),
                             {'op': 'boundary', 'alg': alg, 'stream': target, 'pos_from_end': c1 - pos, 'same_plaintext': o2[1] == want})


def run_history(w, raw, steps):
    """several decrypt calls on ONE parsed message object; steps: list of recipient tuples; returns the outcomes"""
    with warnings.catch_warnings():
        warnings.simplefilter('ignore')
        try:
            em = w.pgpy.PGPMessage.from_blob(raw)
        except Exception as ex:
            return [('raise', type(ex).__name__, 'parse') for _ in steps]
    return [w.impl_decrypt_obj(em, r) for r in steps]


def history_bad(outs, steps, rights, want):
    """index of the first step whose outcome is not what a fresh object gives: a recipient gets the plaintext, anyone else raises"""
    for i, (o, r) in enumerate(zip(outs, steps)):
        if tuple(r[:2]) in rights:
            if o != ('ok', want):
                return i
        elif o[0] != 'raise':
            return i
    return None


def histories(ctx, sw, w, label, raw, recips, inner, want):
    """decrypt is a function of (message, secret) in the model.  The implementation is called repeatedly on the SAME message object:
    a successful decrypt must not leave anything behind that lets a later call with a wrong passphrase / a non-recipient key succeed
    (and a failed one must not spoil a later right one).  Each step is also compared with the model's verdict for a fresh object."""
    rights = {tuple(r[:2]) for r in recips}
    wrong_p = [('P', 'wrong'), ('P', ''), ('P', b'\x00'), ('P', 'pw0 '), ('P', b'')]
    wrong_k = [('K', kn) for kn in w.keys if ('K', kn) not in rights]
    seqs = []
    for r in recips:
        others = (wrong_p if r[0] == 'P' else wrong_k[:3]) + (wrong_k[:1] if r[0] == 'P' else wrong_p[:2])
        seqs.append([r] + others)                          # right, then every wrong one
        seqs.append(others[:2] + [r] + others + [r])       # wrong, right, wrong..., right again
        for x in others[:3]:
            seqs.append([r, x])
    if len(recips) > 1:
        seqs.append(list(recips) + wrong_p[:2] + wrong_k[:1] + list(reversed(recips)))
    for steps in seqs:
        outs = run_history(w, raw, steps)
        case = {'op': 'history', 'msg': label, 'blob': raw.hex(), 'steps': [[r[0], r[1].hex() if isinstance(r[1], bytes) else r[1], isinstance(r[1], bytes)] for r in steps],
                'rights': [list(x) for x in sorted(rights)], 'want': want}
        ctx.case('same-object-history', (label, tuple((r[0], r[1]) for r in steps)), sample={'msg': label, 'steps': [str(r[1])[:12] for r in steps], 'outcomes': [o[0] for o in outs]})
        bad = history_bad(outs, steps, rights, want)
        if bad is not None:
            ctx.fail('same-object-history', 'decrypt call %d on a message object that was decrypted before %s' %
                     (bad + 1, 'returned a plaintext for a wrong passphrase / non-recipient key' if tuple(steps[bad][:2]) not in rights else 'no longer works for a recipient'),
                     dict(case, outcomes=[repr(o)[:60] for o in outs]))
        for o, r in zip(outs, steps):
            mo = w.model_decrypt(raw, r)
            if 'Unmodelled' not in mo and mo.startswith('ok ') != (o[0] == 'ok'):
                ctx.fail('same-object-history', 'outcome on a used message object differs from the model (a function of message and secret)',
                         dict(case, step=[r[0], str(r[1])], impl=repr(o)[:80], model=mo[:80]))


def downgrade_witness(ctx, sw, w):
    """deterministic reproduction of the finding: fresh messages until the re-framed one 'decrypts' (the garbage first block
    parses as a packet in roughly one message out of ten)"""
    recips = [('P', 'pw0', 8, 16)]
    tries = ctx.n(600, 3000)
    for i in range(tries):
        raw, inner, want = make_message(ctx, w, recips, 7)
        pk = walk(raw)
        sp = [p for p in pk if p[0] == 18][0]
        ct = raw[sp[2] + 1:sp[3]]
        # (a) body as it is; (b) the realigned form: one garbage block, then the ORIGINAL plaintext from its second block on
        for name, body in (('tag 18 -> 9 without version octet', ct), ('tag 18 -> 9, realigned: prefix || whole data again', ct[:18] + ct)):
            blob = raw[:sp[1]] + newhdr(9, len(body)) + body + raw[sp[3]:]
            o = w.impl_decrypt(blob, recips[0])
            ctx.case('downgrade-search', (i, name), nontrivial=o[0] == 'ok')
            if o[0] == 'ok' and o[1] != want:
                ctx.fail('downgrade-search', 'integrity-protected data re-framed as a legacy tag-9 packet decrypts, without error, to a DIFFERENT plaintext',
                         {'op': 'fault', 'suite': 'downgrade-search', 'msg': 'passphrase/AES128', 'mutation': name, 'recipient': list(recips[0]),
                          'blob': blob.hex(), 'want': want, 'impl': repr(o)[:300], 'original': raw.hex()}, defect_key=DOWNGRADE)
                ctx.notes.append('finding %s reproduced after %d message(s)' % (DOWNGRADE, i + 1))
                return True
    ctx.notes.append('finding %s NOT reproduced in %d messages' % (DOWNGRADE, tries))
    return False


def wrong_secrets(ctx, sw, w, label, raw, recips, inner, want):
    rng = ctx.rng
    tried = 0
    # strings that some normalisation (case, width, compatibility forms, blanks, byte-order mark) would fold onto a right passphrase
    folds = []
    for r in recips:
        if r[0] == 'P' and isinstance(r[1], str):
            pw0 = r[1]
            folds += [pw0.upper(), pw0.capitalize(), pw0 + '\n', pw0 + '\r\n', '\ufeff' + pw0, pw0 + '\u200b', pw0 + '\x00',
                      ''.join(chr(ord(c) + 0xfee0) if 0x21 <= ord(c) <= 0x7e else c for c in pw0),      # full-width forms (NFKC folds them back)
                      pw0.replace('0', '\u2070').replace('2', '\u00b2'), pw0.replace('w', 'w\u0301'), pw0.replace('s', '\u017f'),
                      pw0.encode('utf-8') + b' ', pw0.encode('utf-16-le')]
    for pw in folds + ['', 'x', 'PW', 'pw ', ' pw', 'pw0 ', 'pw\x00', 'wrong horse', 'pässword'] + ['r%d' % rng.randrange(10 ** 9) for _ in range(ctx.n(6, 60))]:
        if any(r[0] == 'P' and r[1] == pw for r in recips):
            continue
        o = sw.one('wrong-passphrase', label, 'passphrase %r' % pw, raw, ('P', pw), inner, want)
        tried += 1
        if o[0] != 'raise':
            ctx.fail('wrong-passphrase', 'a wrong passphrase did not raise', {'op': 'fault', 'blob': raw.hex()[:8000], 'recipient': ['P', pw], 'want': None})
    recipient_keys = {r[1] for r in recips if r[0] == 'K'}
    for kn in w.keys:
        if kn in recipient_keys:
            continue
        o = sw.one('non-recipient-key', label, 'key ' + kn, raw, ('K', kn), inner, want)
        if o[0] != 'raise':
            ctx.fail('non-recipient-key', 'a key that is not a recipient did not raise', {'op': 'fault', 'blob': raw.hex()[:8000], 'recipient': ['K', kn], 'want': None})


def run(ctx):
    check_pins(ctx, only=PIN_ONLY)
    w = World(ctx)
    sw = Sweep(ctx, w)
    rng = ctx.rng
    try:
        msgs = []
        # ---- three short messages, one per recipient kind
        specs = [('passphrase/AES128', [('P', 'pw0', 8, 16)], 7), ('ecdh25519/AES256', [('K', 'ed25519')], 9), ('rsa2048/AES128', [('K', 'rsa2048')], 7)]
        if not ctx.quick:
            specs += [('passphrase/3DES', [('P', 'pw0', 2, 0)], 2), ('p256/CAST5', [('K', 'p256')], 3), ('p521/Camellia256', [('K', 'p521')], 13),
                      ('p384/Blowfish', [('K', 'p384')], 4), ('mixed pass+x25519+pass/AES192', [('P', 'pw0', 10, 16), ('K', 'ed25519b'), ('P', 'second', 11, 96)], 8),
                      ('secp256k1/Camellia128', [('K', 'secp256k1')], 11), ('passphrase/Camellia192', [('P', 'pw0', 9, 16)], 12)]
        if ctx.quick:
            specs.append(('mixed pass+x25519/Camellia128 (sampled)', [('P', 'pw0', 10, 16), ('K', 'ed25519b')], 11))
        specs = [s for s in specs if s[2] in w.ciphers and all(r[0] == 'P' or r[1] in w.keys for r in s[1])]
        for label, recips, alg in specs:
            sk = bytes(rng.randrange(256) for _ in range(KEYLEN[alg]))
            raw, inner, want = make_message(ctx, w, recips, alg, sk=sk)
            raw2, inner2, want2 = make_message(ctx, w, recips, alg, body=b'retreat at once!', sk=sk)            # same recipient, same session key
            raw3, inner3, want3 = make_message(ctx, w, recips, alg, body=b'retreat at once!', sk=None if len(recips) == 1 else bytes(KEYLEN[alg]))
            for r in recips:      # sanity: the unmodified message decrypts
                o = sw.one('unmodified', label, 'none', raw, r, inner, want)
                if o != ('ok', want):
                    ctx.fail('unmodified', 'unmodified message does not decrypt', {'op': 'fault', 'blob': raw.hex(), 'recipient': list(r), 'want': want})
            slow = any(r[0] == 'K' and r[1].startswith('rsa') for r in recips)
            pk = walk(raw)
            pkesk_algorithm(ctx, sw, w, label, raw, recips, inner, want)
            if ctx.quick and 'sampled' in label:
                esks = [p for p in pk if p[0] in (1, 3)]
                pos = sorted(set([i for p in pk for i in range(p[1], p[2] + 2)] + list(range(0, len(raw), 5))))
                n = bit_flips(ctx, sw, label, raw, recips, inner, want, positions=pos)
                truncations(ctx, sw, label, raw, recips, inner, want, offsets=range(0, len(raw), 3))
                ctx.notes.append('%s: %d single-bit flips x recipients (packet headers + every 5th octet), truncation at every 3rd offset' % (label, n))
            elif slow and ctx.quick:
                # RSA private-key operations cost ~75 ms each in the implementation: all octets of headers / key id / algorithm /
                # bit count + a sample of the rest in the quick tier; the thorough tier sweeps every bit
                esk = [p for p in pk if p[0] == 1][0]
                sp = [p for p in pk if p[0] == 18][0]
                cheap = list(range(esk[1], esk[2] + 10)) + list(range(sp[1], sp[2]))
                rest = [i for i in range(len(raw)) if i not in cheap]
                n = bit_flips(ctx, sw, label, raw, recips, inner, want, positions=cheap)
                sample = rng.sample(rest, 9)
                n += bit_flips(ctx, sw, label, raw, recips, inner, want, positions=sample)
                truncations(ctx, sw, label, raw, recips, inner, want, offsets=sorted(set(list(range(0, esk[2] + 12)) + rng.sample(range(len(raw)), 12) + [sp[1], sp[2], sp[2] + 1, len(raw) - 1])))
                ctx.notes.append('%s: %d single-bit flips (every bit of packet headers, key id, algorithm, MPI bit count; sample of MPI/data octets)' % (label, n))
            else:
                n = bit_flips(ctx, sw, label, raw, recips, inner, want)
                truncations(ctx, sw, label, raw, recips, inner, want)
                ctx.exhaustive.append('%s (%d octets: %s): every single-bit flip (%d) and truncation at every offset' %
                                      (label, len(raw), ' '.join('tag%d[%d..%d)' % (p[0], p[1], p[3]) for p in pk), n))
            if ctx.quick and 'sampled' in label:
                structural(ctx, sw, w, label, raw, recips, inner, want, alg, other=(raw2, True, inner2, want2))
            elif not (slow and ctx.quick):
                structural(ctx, sw, w, label, raw, recips, inner, want, alg, other=(raw2, True, inner2, want2))
                structural(ctx, sw, w, label + ' (2)', raw, recips, inner, want, alg, other=(raw3, False, inner3, want3))
            else:
                # a reduced structural set for the slow key: MDC games and splices only
                for name, blob in rsa_quick_mutations(ctx, raw, raw2, alg):
                    sw.one('structural', label, name, blob, recips[0], inner, want)
            keyed_gate(ctx, sw, w, label, raw, recips, inner, want, alg, sk)
            histories(ctx, sw, w, label, raw, recips, inner, want)
            wrong_secrets(ctx, sw, w, label, raw, recips, inner, want)
        long_passphrases(ctx, sw, w)
        mdc_boundaries(ctx, sw, w)
        downgrade_witness(ctx, sw, w)
        ctx.notes.append('model exception vs implementation exception on rejected inputs: %s' %
                         sorted(('%s / %s' % k, v) for k, v in sw.pairs.items()))
        ctx.notes.append('examples where the classes differ (message | mutation | recipient kind (stage)): %s' %
                         sorted(('%s / %s' % k, v) for k, v in sw.examples.items()))
        ctx.notes.append('mutations that still decrypt (to the ORIGINAL plaintext): %s' % sw.same_accepts)
        ctx.notes.append('mutated inputs outside the packet kinds of the model (direct oracle only): %d' % sw.outside)
        ctx.notes.append('oracle calls: %s' % dict(sorted(w.orc.calls.items())))
    finally:
        w.close()


def rsa_quick_mutations(ctx, raw, raw2, alg):
    pk = walk(raw)
    sp = [p for p in pk if p[0] == 18][0]
    ct = raw[sp[2] + 1:sp[3]]
    pk2 = walk(raw2)
    sp2 = [p for p in pk2 if p[0] == 18][0]
    ct2 = raw2[sp2[2] + 1:sp2[3]]
    bs = BLOCK[alg]
    def reframe(newct, tag=18, ver=b'\x01'):
        body = ver + newct
        return raw[:sp[1]] + newhdr(tag, len(body)) + body + raw[sp[3]:]
    return [('MDC octets zero', reframe(ct[:-22] + bytes(22))), ('MDC removed', reframe(ct[:-22])),
            ('swap blocks 0,1', reframe(ct[bs:2 * bs] + ct[:bs] + ct[2 * bs:])),
            ('splice: MDC of the other message (same session key)', reframe(ct[:-22] + ct2[-22:])),
            ('splice: blocks < 2 of this + rest of the other (same session key)', reframe(ct[:2 * bs] + ct2[2 * bs:])),
            ('tag 18 -> 9 without version octet and MDC', reframe(ct[:-22], tag=9, ver=b'')),
            ('extend data by 1', reframe(ct + b'\x00'))]


def replay(ctx, case):
    """re-run one recorded fault on the implementation; True = it still yields something other than raise / the original"""
    w = World(ctx)
    try:
        if case.get('blob') is None:
            return True
        if case.get('op') == 'history':
            steps = [(k, bytes.fromhex(v) if isb else v) for k, v, isb in case['steps']]
            outs = run_history(w, bytes.fromhex(case['blob']), steps)
            return history_bad(outs, steps, {tuple(x) for x in case['rights']}, case['want']) is not None
        if case.get('reexport'):
            with warnings.catch_warnings():
                warnings.simplefilter('ignore')
                return outcome(lambda: bytes(w.pgpy.PGPMessage.from_blob(bytes.fromhex(case['blob'])))) != ('ok', bytes.fromhex(case['blob']))
        o = w.impl_decrypt(bytes.fromhex(case['blob']), tuple(case['recipient']))
        if case.get('must_decrypt'):
            return o != ('ok', case['want'])
        if case.get('expect_exc'):
            return o[:2] != ('raise', case['expect_exc'])
        if o[0] == 'raise':
            return False
        return case.get('want') is None or o[1] != case['want']
    finally:
        w.close()
