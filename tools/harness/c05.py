"""C05: the hashed subpacket area is hashed verbatim.  (1) generated hashed areas: implementation accept/reject vs model,
hash context of every accepted packet == the received octets; (2) end to end: the independent signer signs over the RAW area,
PGPy must verify; every single-bit flip of the signed region of an accepted signature must not verify."""
import warnings

from .common import Driver, hx, unhx, hn, unhn, outcome, outcome_timed, load_repo
from . import sigcommon as S
from .c02 import Env

TEXT_TYPES = [6, 20, 24, 26, 28, 29]
BOOL_TYPES = [4, 7, 25]
FLAG_TYPES = [27, 30, 23]
LIST_TYPES = [11, 21, 22, 34]


def gen_area(rng, fpr, n_extra, wild=True, enums=None):
    """a hashed area: creation time first, then n_extra generated subpackets; returns (octets, description, classes)"""
    sps = [S.subpacket(2, (1600000000 + rng.randrange(10**6)).to_bytes(4, 'big'))]
    desc, classes = [], set()
    for _ in range(n_extra):
        kind = rng.choice(['unknown', 'flags', 'mflags', 'bool', 'text', 'len', 'list', 'time', 'issuer', 'notation', 'revkey', 'trust', 'critical-unknown'])
        lenform = rng.choice([0, 0, 1, 2])
        crit = False
        if kind == 'unknown':
            t = rng.choice([0, 1, 8, 13, 14, 15, 17, 18, 19, 36, 38, 39, 40, 60, 99, 100, 101, 110, 127]); body = bytes(rng.randrange(256) for _ in range(rng.choice([0, 1, 2, 5, 30, 190, 191, 192, 300])))
        elif kind == 'critical-unknown':
            t = rng.choice([100, 101, 110]); body = bytes(rng.randrange(256) for _ in range(rng.randrange(4))); crit = True
        elif kind == 'flags':
            t = rng.choice(FLAG_TYPES); body = bytes([rng.randrange(256)])
        elif kind == 'mflags':
            t = rng.choice(FLAG_TYPES); body = bytes(rng.randrange(256) for _ in range(rng.randrange(2, 5)))
        elif kind == 'bool':
            t = rng.choice(BOOL_TYPES); body = bytes([rng.choice([0, 1, 1, 2, 255])])
        elif kind == 'text':
            t = rng.choice(TEXT_TYPES)
            body = rng.choice(['plain', 'café ☃', 'http://ex.com/ü', '\U0001F600', '']).encode() if rng.random() < 0.7 else bytes(rng.randrange(128, 256) for _ in range(rng.randrange(1, 9)))
            if t == 20: body = bytes([rng.choice([0x80, 0x00, 0xC0, 0x81]), rng.randrange(2) * 7, 0, 0]) + (3).to_bytes(2, 'big') + len(body).to_bytes(2, 'big') + b'n@x' + body
            if t == 29: body = bytes([rng.choice([0, 1, 2, 3, 32, 100])]) + body
        elif kind == 'len':
            t = rng.choice([100, 20 if False else 101]); body = bytes(rng.randrange(256) for _ in range(rng.choice([190, 191, 192, 193, 255, 256])))
        elif kind == 'list':
            t = rng.choice(LIST_TYPES); body = bytes(rng.choice([1, 2, 3, 7, 8, 9, 10, 11] + ([99, 0, 200] if wild else [])) for _ in range(rng.randrange(0, 6)))
            if t == 34: body = bytes(rng.randrange(0, 4) for _ in range(rng.randrange(0, 3)))
        elif kind == 'time':
            t = rng.choice([3, 9]); body = rng.randrange(2**32).to_bytes(4, 'big')
        elif kind == 'issuer':
            t, body = rng.choice([(16, bytes(rng.randrange(256) for _ in range(8))), (33, b'\x04' + fpr), (35, b'\x04' + fpr)])
        elif kind == 'notation':
            t = 20; nm = b'name@example'; v = bytes(rng.randrange(256) for _ in range(rng.randrange(0, 12)))
            body = bytes(rng.randrange(256) for _ in range(4)) + len(nm).to_bytes(2, 'big') + len(v).to_bytes(2, 'big') + nm + v
        elif kind == 'revkey':
            t = 12; body = bytes([rng.choice([0x80, 0xC0, 0x81, 0xFF]), rng.choice([1, 17, 19, 22])]) + fpr
        elif kind == 'trust':
            t = 5; body = bytes([rng.randrange(256), rng.randrange(256)])
        sps.append(S.subpacket(t, body, critical=crit, lenform=lenform))
        desc.append('%s:t%d:l%d:f%d' % (kind, t, len(body), lenform)); classes.add(kind)
        if enums is not None:
            if t in (11, 21, 22) and any(v not in enums[t] for v in body): classes.add('unknown-enum')
            if t == 29 and body and body[0] not in enums[29]: classes.add('unknown-enum')
    return S.area(sps), desc, classes


def run(ctx):
    env = Env(ctx)
    try:
        with warnings.catch_warnings():
            warnings.simplefilter('ignore')
            _run(env)
    finally:
        env.d.close()


def expected_context(body_after_version):
    """direct oracle, no model: the octets that must be hashed for the signature itself"""
    hl = int.from_bytes(body_after_version[3:5], 'big')
    region = body_after_version[:5 + hl]
    hc = b'\x04' + region
    return hc + b'\x04\xff' + len(hc).to_bytes(4, 'big')


def _run(env):
    ctx, d, pgpy = env.ctx, env.d, env.pgpy
    S.check_pins(ctx, S.sig_pins(env.pgpy))
    rng = ctx.rng
    k = env.key('ed25519')
    pub = k.pubkey
    alg, ipub, ipriv = env.indep(k)
    fpr = bytes.fromhex(str(k.fingerprint)); keyid = bytes.fromhex(str(k.fingerprint.keyid))
    unhashed = S.area([S.subpacket(16, keyid)])
    comp = env.comp['ed25519']
    doc = b'C05 subject'

    # ---- 1+2: generated areas, signed by the independent signer over the raw octets ----
    from pgpy.constants import SymmetricKeyAlgorithm, HashAlgorithm, CompressionAlgorithm, RevocationReason
    enums = {11: {int(x) for x in SymmetricKeyAlgorithm}, 21: {int(x) for x in HashAlgorithm}, 22: {int(x) for x in CompressionAlgorithm},
             29: {int(x) for x in RevocationReason}}
    n_areas = ctx.n(700, 12000)
    accepted = []
    rejected_by = {}
    for i in range(n_areas):
        hashed, desc, classes = gen_area(rng, fpr, rng.choice([0, 1, 1, 2, 3, 5]), enums=enums)
        st = 0x00
        data = S.model_hashdata(d, 4, st, alg, 8, hashed, ('doc', doc), rfc=True)
        mp = S.indep_sign(alg, ipriv, 8, data)
        body = S.sig_body(st, alg, 8, hashed, unhashed, S.digest(8, data)[:2], mp)
        pkt = S.sig_packet(body)
        case = {'op': 'area', 'sig': pkt.hex(), 'desc': desc}
        o = outcome(lambda: pgpy.PGPSignature.from_blob(pkt))
        mparse = S.model_sig_parse(d, body[1:])
        ctx.case('generated-area', hashed, nontrivial=(o[0] == 'ok'), sample={'hashed': hashed.hex()[:120], 'desc': desc, 'accepted': o[0] == 'ok'})
        if o[0] != 'ok':
            # which well-formed hashed subpackets does PGPy refuse?  (the property says: none)
            for c in classes: rejected_by[c] = rejected_by.get(c, 0) + 1
            ctx.fail('generated-area', 'PGPy rejects a signature with well-formed hashed subpackets', dict(case, impl=repr(o)),
                     defect_key='C05/unknown-enum-value-in-hashed-subpacket-rejected' if 'unknown-enum' in classes else None)
            continue
        if mparse is None:
            ctx.fail('generated-area', 'implementation accepts a packet the model rejects', case); continue
        sig = o[1]
        got = bytes(sig.hashdata(doc))
        want = doc + expected_context(body[1:])
        if got != want:
            ctx.fail('generated-area', 'hashed octets differ from the received region', dict(case, impl=got.hex()[:300], want=want.hex()[:300])); continue
        if mparse['raw'] != hashed or got != S.model_hashdata(d, 4, st, alg, 8, mparse['raw'], ('doc', doc)):
            ctx.fail('generated-area', 'model disagrees on the hashed region', case); continue
        v = outcome(lambda: bool(pub.verify(doc, sig)))
        if v != ('ok', True):
            ctx.fail('generated-area', 'a valid foreign signature over this hashed area does not verify', dict(case, impl=repr(v))); continue
        if bytes(sig) != pkt:
            # re-export: hashed region must be byte-identical (unhashed area may be normalised)
            b2, _ = S.parse_sig_packet(bytes(sig))
            if b2[:5 + len(hashed) - 2] != body[1:][:5 + len(hashed) - 2]:
                ctx.fail('generated-area', 'hashed region changes on re-export', dict(case, reexport=bytes(sig).hex()[:300]))
        # copies (copy.copy of the signature, as PGPKey.pubkey / key copies make) must hash and export the same received octets
        import copy as _copy
        cp = outcome(lambda: _copy.copy(sig))
        if cp[0] != 'ok' or bytes(cp[1].hashdata(doc)) != want or outcome(lambda: bool(pub.verify(doc, cp[1]))) != ('ok', True):
            ctx.fail('generated-area', 'a copy of an accepted signature no longer hashes / verifies the received octets', case); continue
        b3, _ = S.parse_sig_packet(bytes(cp[1]))
        if b3[:5 + len(hashed) - 2] != body[1:][:5 + len(hashed) - 2]:
            ctx.fail('generated-area', 'hashed region changes when a copy is exported', case); continue
        accepted.append((pkt, body, hashed))
    ctx.notes.append('rejected-by-class: %r' % rejected_by)

    # ---- 3: every single-bit flip of the signed region must not verify ----
    nflip = ctx.n(6, 60)
    for pkt, body, hashed in accepted[:nflip]:
        hdr = len(pkt) - len(body)
        region = range(hdr + 1, hdr + 4 + len(hashed))       # type, pkalg, halg, count, area
        for pos in region:
            for bit in range(8):
                mut = bytearray(pkt); mut[pos] ^= 1 << bit
                o = outcome_timed(1.0, lambda: bool(pub.verify(doc, pgpy.PGPSignature.from_blob(bytes(mut)))))
                if o == ('raise', 'CallTimeout'): ctx.dist['bitflip-parse-timeouts'] = ctx.dist.get('bitflip-parse-timeouts', 0) + 1
                ctx.case('bitflip', (pkt[:20], pos, bit), sample={'pos': pos - hdr, 'bit': bit, 'outcome': repr(o)})
                if o != ('ok', True) and o != ('raise', 'CallTimeout') and (pos + bit) % 5 == 0:
                    import copy as _copy
                    o = outcome_timed(1.0, lambda: bool(pub.verify(doc, _copy.copy(pgpy.PGPSignature.from_blob(bytes(mut))))))
                if o == ('ok', True):
                    ctx.fail('bitflip', 'a signature with a flipped bit in the signed region still verifies',
                             {'op': 'flip', 'sig': pkt.hex(), 'pos': pos, 'bit': bit})

    # ---- 4: declared hashed length moved into / past the last subpacket ----
    for pkt, body, hashed in accepted[:ctx.n(20, 200)]:
        hdr = len(pkt) - len(body)
        hl = len(hashed) - 2
        for newhl in {max(hl - 1, 0), hl + 1, max(hl - 3, 0), hl + 2}:
            if newhl == hl: continue
            mut = bytearray(pkt); mut[hdr + 4:hdr + 6] = newhl.to_bytes(2, 'big')
            o = outcome_timed(1.0, lambda: bool(pub.verify(doc, pgpy.PGPSignature.from_blob(bytes(mut)))))
            ctx.case('hashed-length', (pkt[:20], newhl))
            if o == ('ok', True):
                ctx.fail('hashed-length', 'signature verifies with an altered hashed-area length', {'op': 'hl', 'sig': pkt.hex(), 'newhl': newhl})

    # ---- 5: exhaustive single-subpacket grid (flag octets 0..255, booleans, type x critical) ----
    grid = []
    for t in FLAG_TYPES:
        for v in range(0, 256, ctx.n(5, 1)): grid.append((t, bytes([v]), False))
    for t in BOOL_TYPES:
        for v in (0, 1, 2, 128, 255): grid.append((t, bytes([v]), False))
    for t in range(0, 128, ctx.n(3, 1)):
        # types PGPy knows have type-specific body layouts (a wrong body length is not a well-formed subpacket): the grid is about
        # UNKNOWN types and the critical bit; known types are covered with well-formed bodies by the generated areas above
        if t in (2, 3, 4, 5, 6, 7, 9, 11, 12, 16, 20, 21, 22, 23, 24, 25, 26, 27, 28, 29, 30, 32, 33, 34, 35, 37): continue
        for crit in (False, True):
            grid.append((t, bytes([1, 2, 3])[:(t % 4)], crit))
    for t, bodyb, crit in grid:
        hashed = S.area([S.subpacket(2, b'\x5f\x00\x00\x01'), S.subpacket(t, bodyb, critical=crit)])
        data = S.model_hashdata(d, 4, 0, alg, 8, hashed, ('doc', doc), rfc=True)
        mp = S.indep_sign(alg, ipriv, 8, data)
        pkt = S.sig_packet(S.sig_body(0, alg, 8, hashed, unhashed, S.digest(8, data)[:2], mp))
        o = outcome(lambda: bool(pub.verify(doc, pgpy.PGPSignature.from_blob(pkt))))
        ctx.case('single-subpacket-grid', (t, bodyb, crit))
        if o != ('ok', True):
            ctx.fail('single-subpacket-grid', 'valid foreign signature with this hashed subpacket does not verify',
                     {'op': 'area', 'sig': pkt.hex(), 'desc': ['t%d:%s:crit%d' % (t, bodyb.hex(), crit)], 'impl': repr(o)},
                     defect_key=None)
    if not ctx.quick: ctx.exhaustive.append('every value 0..255 of KeyFlags/Features/KeyServerPreferences octets; every unknown subpacket type x critical bit')

    # ---- 5b: the SubPackets object as a state machine (Model/SubArea.v sa_parse / sa_run): parse, copies, added subpackets ----
    import copy as _copy2
    from pgpy.packet.fields import SubPackets, SignatureSP
    for i in range(ctx.n(900, 9000)):
        ha, hdesc, hcl = gen_area(rng, fpr, rng.choice([0, 1, 2, 3]), wild=False, enums=enums)
        ua, udesc, ucl = gen_area(rng, fpr, rng.choice([0, 1, 2]), wild=False, enums=enums)
        if 'unknown-enum' in hcl or 'unknown-enum' in ucl:
            continue                       # refused at parse time (the recorded finding); nothing to run a history on
        rest = bytes(rng.randrange(256) for _ in range(rng.choice([0, 2, 9])))
        pin = ha + ua + rest
        ops, mops = [], []
        for _ in range(rng.choice([0, 1, 2, 3, 5])):
            kd = rng.choice(['C', 'C', 'U', 'U', 'H'])
            if kd == 'C':
                ops.append(('C',)); mops.append('C')
            else:
                ty = rng.choice([100, 101, 110]); cr = rng.random() < 0.2; bd = bytes(rng.randrange(256) for _ in range(rng.randrange(0, 5)))
                ops.append((kd, ty, cr, bd)); mops.append('%s:%s:%d:%s' % (kd, hn(ty), 1 if cr else 0, hx(bd)))
        case = {'op': 'sahist', 'input': pin.hex(), 'ops': mops}
        ctx.case('subpackets-history', (pin, tuple(mops)), sample={'hashed': hdesc, 'unhashed': udesc, 'ops': mops})
        def real():
            sp = SubPackets(); buf = bytearray(pin); sp.parse(buf)
            for o_ in ops:
                if o_[0] == 'C':
                    sp = _copy2.copy(sp)
                else:
                    obj = SignatureSP(bytearray(S.subpacket(o_[1], o_[3], critical=o_[2])))
                    sp[('h_' if o_[0] == 'H' else '') + obj.__class__.__name__] = obj
            return sp, bytes(buf)
        o = outcome_timed(2.0, real)
        mo = d.call('sa_hist', hx(pin), ','.join(mops) or '-')
        if o[0] != 'ok' or mo == 'ERR':
            if (o[0] == 'ok') != (mo != 'ERR'):
                ctx.fail('subpackets-history', 'SubPackets.parse and the model disagree on accepting the areas', dict(case, impl=repr(o)[:200], model=mo[:100]))
            continue
        sp, r2 = o[1]
        hraw_, uraw_ = getattr(sp, '_hashed_raw', None), getattr(sp, '_unhashed_raw', None)
        got = ' '.join([hx(hraw_) if hraw_ is not None else '-', hx(uraw_) if uraw_ is not None else '-',
                        str(len(sp._hashed_sp)), str(len(sp._unhashed_sp)), hx(r2)])
        if not ctx.expect_eq('subpackets-history', 'SubPackets state after the history (received areas kept / dropped, subpacket counts, rest) differs from the model', case, got, mo):
            continue
        he, ue = bytes(sp.__hashbytearray__()), bytes(sp.__unhashbytearray__())
        if hraw_ is not None and he != ha:
            ctx.fail('subpackets-history', 'hashed area emitted after a history without hashed additions is not the received one', dict(case, impl=he.hex()[:200]))
        if uraw_ is not None and ue != ua:
            ctx.fail('subpackets-history', 'unhashed area emitted after a history without unhashed additions is not the received one', dict(case, impl=ue.hex()[:200]))
        if bytes(sp.__bytearray__()) != he + ue:
            ctx.fail('subpackets-history', 'SubPackets.__bytearray__ is not hashed area followed by unhashed area', case)

    # ---- 6: the three RSA algorithm ids (1, and the deprecated 2 / 3) in the signature header: the octet received is the octet hashed ----
    import hashlib
    kr = env.key('rsa2048')
    ralg, rpub, rpriv = env.indep(kr)
    RP = env.comp['rsa2048']['primary']
    for ka in (1, 3):
        kb = bytearray(RP); kb[5] = ka; kb = bytes(kb)
        rfpr = hashlib.sha1(b'\x99' + len(kb).to_bytes(2, 'big') + kb).digest()
        ko = outcome(lambda: pgpy.PGPKey.from_blob(S.new_header(6, len(kb)) + kb)[0])
        if ko[0] != 'ok':
            ctx.fail('rsa-alg-ids', 'RSA public key with algorithm id %d cannot be loaded' % ka, {'op': 'rsaid', 'keyalg': ka, 'impl': repr(ko)}); continue
        kk = ko[1]
        for sa in (1, 2, 3):
            hashed = S.area([S.subpacket(2, (1600000000 + sa).to_bytes(4, 'big')), S.subpacket(33, b'\x04' + rfpr)])
            data = S.model_hashdata(d, 4, 0, sa, 8, hashed, ('doc', doc), rfc=True)
            mp = S.indep_sign(1, rpriv, 8, data)
            pkt = S.sig_packet(S.sig_body(0, sa, 8, hashed, S.area([S.subpacket(16, rfpr[-8:])]), S.digest(8, data)[:2], mp))
            case = {'op': 'rsaid', 'keyalg': ka, 'sigalg': sa, 'sig': pkt.hex(), 'key': (S.new_header(6, len(kb)) + kb).hex()}
            ctx.case('rsa-alg-ids', (ka, sa, 'valid'))
            so = outcome(lambda: pgpy.PGPSignature.from_blob(pkt))
            if so[0] != 'ok':
                ctx.fail('rsa-alg-ids', 'PGPy rejects a signature whose algorithm octet is %d' % sa, dict(case, impl=repr(so))); continue
            got = outcome(lambda: bytes(so[1].hashdata(doc)))
            if got != ('ok', data):
                ctx.fail('rsa-alg-ids', 'hashed header octets differ from the received ones (algorithm octet %d)' % sa, dict(case, impl=repr(got)[:200], want=data.hex()))
            v = outcome(lambda: bool(kk.verify(doc, so[1])))
            if v != ('ok', True):
                ctx.fail('rsa-alg-ids', 'valid RSA signature with algorithm octet %d does not verify under the key (key algorithm %d)' % (sa, ka), dict(case, impl=repr(v)))
            (tg, bd, _), = S.split_packets(pkt); hdr = len(pkt) - len(bd)
            for sb in (1, 2, 3):
                if sb == sa: continue
                mut = bytearray(pkt); mut[hdr + 2] = sb
                o = outcome(lambda: bool(kk.verify(doc, pgpy.PGPSignature.from_blob(bytes(mut)))))
                ctx.case('rsa-alg-ids', (ka, sa, sb))
                if o == ('ok', True):
                    ctx.fail('rsa-alg-ids', 'signature still verifies after its algorithm octet changed %d -> %d' % (sa, sb), dict(case, newalg=sb))

    # ---- 7: embedded signatures (primary-key binding inside a subkey binding) read from a certificate: same rule ----
    P, SBs = comp['primary'], comp['subkeys']
    subs = list(k.subkeys.values())
    si = [i for i, sx in enumerate(subs) if int(sx.key_algorithm) == 22][0]
    skey = subs[si]; SB = SBs[si]
    salg, spub, spriv = env.indep(skey)
    sfpr = bytes.fromhex(str(skey.fingerprint)); skeyid = sfpr[-8:]
    pk = S.split_packets(bytes(pub))
    assert [x[0] for x in pk[:3]] == [6, 13, 2]
    prefix = b''.join(x[2] for x in pk[:3])
    subpkt = [x[2] for x in pk if x[0] == 14][si]

    def load_cert(cert):
        c, _ = pgpy.PGPKey.from_blob(cert)
        s2 = list(c.subkeys.values())[0]
        es = [x for x in s2.__sig__ if int(x.type) == 0x19]
        return c, s2, es

    for i in range(ctx.n(60, 1500)):
        eh, desc, classes = gen_area(rng, sfpr, rng.choice([0, 1, 2, 3]), wild=False, enums=enums)
        edata = S.model_hashdata(d, 4, 0x19, salg, 8, eh, ('subkey', P, SB), rfc=True)
        emp = S.indep_sign(salg, spriv, 8, edata)
        ebody = S.sig_body(0x19, salg, 8, eh, S.area([S.subpacket(16, skeyid)]), S.digest(8, edata)[:2], emp)
        bh = S.area([S.subpacket(2, (1600000000 + i).to_bytes(4, 'big')), S.subpacket(27, b'\x02'), S.subpacket(33, b'\x04' + fpr)])
        bdata = S.model_hashdata(d, 4, 0x18, alg, 8, bh, ('subkey', P, SB), rfc=True)
        bmp = S.indep_sign(alg, ipriv, 8, bdata)
        elf = rng.choice([0, 2])
        def binding(eb):
            return S.sig_packet(S.sig_body(0x18, alg, 8, bh, S.area([S.subpacket(16, keyid), S.subpacket(32, eb, lenform=elf)]), S.digest(8, bdata)[:2], bmp))
        cert = prefix + subpkt + binding(ebody)
        case = {'op': 'embedded', 'cert': cert.hex(), 'desc': desc}
        ctx.case('embedded', eh, sample={'hashed': eh.hex()[:100], 'desc': desc})
        o = outcome(lambda: load_cert(cert))
        if o[0] != 'ok' or len(o[1][2]) != 1:
            ctx.fail('embedded', 'certificate with a well-formed embedded primary-key binding is not loaded with that signature', dict(case, impl=repr(o)[:200]),
                     defect_key='C05/unknown-enum-value-in-hashed-subpacket-rejected' if 'unknown-enum' in classes else None); continue
        c, s2, (es,) = o[1]
        got = outcome(lambda: bytes(es.hashdata(s2)))
        if got != ('ok', edata):
            ctx.fail('embedded', 'hashed octets of an embedded signature differ from the received region', dict(case, impl=repr(got)[:300], want=edata.hex()[:300])); continue
        v = outcome(lambda: (bool(c.verify(s2, es)), bool(c.verify(c))))
        if v != ('ok', (True, True)):
            ctx.fail('embedded', 'valid embedded signature (made by an independent signer over the received octets) does not verify', dict(case, impl=repr(v))); continue
        if ebody[1:] not in bytes(c) or ebody[1:] not in bytes(c.pubkey if not c.is_public else c):
            ctx.fail('embedded', 'embedded signature octets change on re-export', case)
        import copy as _copy
        cc = outcome(lambda: load_cert(bytes(_copy.copy(c))))
        if cc[0] != 'ok' or len(cc[1][2]) != 1 or outcome(lambda: bool(cc[1][0].verify(cc[1][1], cc[1][2][0]))) != ('ok', True):
            ctx.fail('embedded', 'embedded signature no longer verifies after the certificate was copied and re-exported', case)
        # flips inside the embedded signature's signed region
        if i < ctx.n(4, 40):
            for pos in range(0, 4 + len(eh)):          # 0 = the embedded signature's own version octet
                for bit in ([rng.randrange(8)] if ctx.quick else range(8)):
                    eb2 = bytearray(ebody); eb2[pos] ^= 1 << bit
                    cert2 = prefix + subpkt + binding(bytes(eb2))
                    def chk():
                        c2, s3, es3 = load_cert(cert2)
                        return any(bool(c2.verify(s3, e)) for e in es3)
                    o2 = outcome_timed(1.0, chk)
                    ctx.case('embedded-bitflip', (i, pos, bit))
                    if o2 == ('ok', True):
                        ctx.fail('embedded-bitflip', 'embedded signature with a flipped bit in its signed region still verifies', {'op': 'embedded-flip', 'cert': cert2.hex()})


def replay(ctx, case):
    env = Env(ctx)
    try:
        with warnings.catch_warnings():
            warnings.simplefilter('ignore')
            pgpy = env.pgpy
            pub = env.key('ed25519').pubkey
            doc = b'C05 subject'
            if case['op'] in ('embedded', 'embedded-flip'):
                def chk():
                    c, _ = pgpy.PGPKey.from_blob(bytes.fromhex(case['cert']))
                    s2 = list(c.subkeys.values())[0]
                    es = [x for x in s2.__sig__ if int(x.type) == 0x19]
                    return len(es) == 1 and bool(c.verify(s2, es[0]))
                o = outcome(chk)
                return (o == ('ok', True)) if case['op'] == 'embedded-flip' else (o != ('ok', True))
            if case['op'] == 'sahist':
                import copy as _c
                from pgpy.packet.fields import SubPackets, SignatureSP
                pin = bytes.fromhex(case['input'])
                def real():
                    sp = SubPackets(); buf = bytearray(pin); sp.parse(buf)
                    hl = int.from_bytes(pin[:2], 'big'); ul = int.from_bytes(pin[2 + hl:4 + hl], 'big')
                    hset = uset = False
                    for m in case['ops']:
                        f = m.split(':')
                        if f[0] == 'C': sp = _c.copy(sp); continue
                        obj = SignatureSP(bytearray(S.subpacket(int(f[1], 16), unhx(f[3]), critical=f[2] == '1')))
                        sp[('h_' if f[0] == 'H' else '') + obj.__class__.__name__] = obj
                        hset |= f[0] == 'H'; uset |= f[0] == 'U'
                    return (hset or bytes(sp.__hashbytearray__()) == pin[:2 + hl]) and (uset or bytes(sp.__unhashbytearray__()) == pin[2 + hl:4 + hl + ul])
                return outcome(real) != ('ok', True)
            if case['op'] == 'rsaid':
                kk = pgpy.PGPKey.from_blob(bytes.fromhex(case['key']))[0]
                pkt = bytearray(bytes.fromhex(case['sig']))
                if 'newalg' in case:
                    (tg, bd, _), = S.split_packets(bytes(pkt)); pkt[len(pkt) - len(bd) + 2] = case['newalg']
                    return outcome(lambda: bool(kk.verify(doc, pgpy.PGPSignature.from_blob(bytes(pkt))))) == ('ok', True)
                return outcome(lambda: bool(kk.verify(doc, pgpy.PGPSignature.from_blob(bytes(pkt))))) != ('ok', True)
            pkt = bytearray(bytes.fromhex(case['sig']))
            if case['op'] == 'flip':
                pkt[case['pos']] ^= 1 << case['bit']
                return outcome(lambda: bool(pub.verify(doc, pgpy.PGPSignature.from_blob(bytes(pkt))))) == ('ok', True)
            if case['op'] == 'hl':
                (tag, body, _), = S.split_packets(bytes(pkt)); hdr = len(pkt) - len(body)
                pkt[hdr + 4:hdr + 6] = case['newhl'].to_bytes(2, 'big')
                return outcome(lambda: bool(pub.verify(doc, pgpy.PGPSignature.from_blob(bytes(pkt))))) == ('ok', True)
            return outcome(lambda: bool(pub.verify(doc, pgpy.PGPSignature.from_blob(bytes(pkt))))) != ('ok', True)
    finally:
        env.d.close()
