"""C06 correspondence + direct oracles: secret keys at rest.

Model side: Model/KeyProtect.v extracted; its primitives (CFB, SHA-1, S2K) are answered HERE with cryptography / hashlib
called directly (never through pgpy), so `readkey` is an independent RFC 4880 5.5.3 reader and `rewrite` an independent writer.
Implementation side: PGPKey.protect / unlock (entered and left through __enter__/__exit__ so that histories are flat op lists),
sign / decrypt / bytes(key) / from_blob, the flags PrivKeyV4.protected / unlocked, and an object-graph walk for secret integers.
PARTIAL by nature: CPython heap residue of freed integers / bytearrays is not observable and not modelled."""
import gc, hashlib, inspect, os, types, warnings

from .common import Driver, DriverError, hx, unhx, hn, unhn, outcome, load_repo
from . import keys as keypool

# ---------------------------------------------------------------- primitive oracle (no pgpy in here)
HASHES = {1: 'md5', 2: 'sha1', 3: 'ripemd160', 8: 'sha256', 9: 'sha384', 10: 'sha512', 11: 'sha224'}
KEYLEN = {1: 16, 2: 24, 3: 16, 4: 16, 7: 16, 8: 24, 9: 32, 10: 32, 11: 16, 12: 24, 13: 32}
BLOCK = {1: 8, 2: 8, 3: 8, 4: 8, 7: 16, 8: 16, 9: 16, 10: 16, 11: 16, 12: 16, 13: 16}


def rfc_s2k(spec, halg, keylen, salt, c, pw):
    """RFC 4880 3.7.1.1-3: simple / salted / iterated+salted string-to-key"""
    data = (salt if spec >= 1 else b'') + pw
    n = len(data)
    if spec == 3:
        n = max((16 + (c & 15)) << ((c >> 4) + 6), len(data))
    out, i = b'', 0
    while len(out) < keylen:
        h = hashlib.new(HASHES[halg])
        h.update(b'\x00' * i)
        if data:
            chunk = data * max(1, 65536 // len(data))
            full, rem = divmod(n, len(chunk))
            for _ in range(full):
                h.update(chunk)
            h.update(chunk[:rem])
        out += h.digest()
        i += 1
    return out[:keylen]


def _cipher(alg, key, iv):
    from cryptography.hazmat.primitives.ciphers import Cipher, algorithms, modes
    try:
        from cryptography.hazmat.decrepit.ciphers import algorithms as old
    except Exception:  # older cryptography keeps them in one module
        old = algorithms
    table = {1: getattr(old, 'IDEA', None), 2: getattr(old, 'TripleDES', None) or getattr(algorithms, 'TripleDES', None),
             3: getattr(old, 'CAST5', None), 4: getattr(old, 'Blowfish', None),
             7: algorithms.AES, 8: algorithms.AES, 9: algorithms.AES,
             11: algorithms.Camellia, 12: algorithms.Camellia, 13: algorithms.Camellia}
    return Cipher(table[alg](key), modes.CFB(iv))


def make_oracles():
    cache = {}

    def s2k(spec, halg, alg, salt, count, pw):
        k = (spec, halg, alg, salt, count, pw)
        if k not in cache:
            cache[k] = hx(rfc_s2k(int(spec, 16), int(halg, 16), KEYLEN[int(alg, 16)], unhx(salt), int(count, 16), unhx(pw)))
        return cache[k]

    def cfb_enc(alg, key, iv, data):
        e = _cipher(int(alg, 16), unhx(key), unhx(iv)).encryptor()
        return hx(e.update(unhx(data)) + e.finalize())

    def cfb_dec(alg, key, iv, data):
        e = _cipher(int(alg, 16), unhx(key), unhx(iv)).decryptor()
        return hx(e.update(unhx(data)) + e.finalize())

    return {'s2k': s2k, 'cfb_enc': cfb_enc, 'cfb_dec': cfb_dec, 'sha1': lambda x: hx(hashlib.sha1(unhx(x)).digest())}


# ---------------------------------------------------------------- pinned source text (nothing here goes through py2coq)
PINNED = {
    'PrivKey.encrypt_keyblob': 'b02856ec5aa4',   # a3ce830: S2K specifier built on the side, installed with the ciphertext after _encrypt
    'PrivKey.decrypt_keyblob': '751673206e3a',   # 8563c06: 16-bit checksum whenever usage != 254 (gate)
    'PrivKey.clear': '6511ffe3a463',
    'PGPKey.unlock': '1072b08798a7',             # e967622 + a8a4c11: warn-and-yield only when NO component is protected; loops pass over unprotected material
    'PGPKey.protect': '69f7ec0ca3ee',            # 080d1e8: warns and returns while ANY component is protected and locked (any_locked)
    'PrivKeyV4.unlocked': '01afa6232098',
    'String2Key.parse': 'b308ab674d8c',          # 8563c06: legacy usage octet = cipher id, Simple / MD5 implied, IV follows (s2k_parse)
    'PrivKeyV4.protected': 'a0de53a8c307',
    'PGPKey.is_unlocked': 'ab5c0e24e60a',
    'PGPKey.is_protected': '487fd21efa34',
    'KeyAction.check_attributes': '5bc1ee5f304f',
    'String2Key.__bytearray__': '3df96d4298bf',  # 8563c06: legacy form writes usage + IV only (s2k_emit_std)
    'PrivKey.__bytearray__': '32da223c6d96',
    'String2Key._experimental_bytearray': '8cdd6a4d556b',   # 05bf06b: serial length octet whenever the extension is 2 (s2k_emit_gnu)
    'String2Key._experimental_parse': '5b6bfe665624',
    'PrivKeyV4.unprotect': '9616b1bd6fdb',      # 9a72221: a GNU-extension stub returns at once (USkip)
    'String2Key.legacy': 'eaaeeb015b96',
    'String2Key.__bool__': 'b58f52248292',
    'KeyAction.__call__': 'c8bb870361fc',        # cab6d36: conditions checked on the selected component (private_op)
    'PGPKey.add_subkey': '8a95c73c2518',         # 163b208 refused bind undone; a832629: a candidate with user ids is refused before anything (not generated here)
}


def source_digests():
    from pgpy.packet.fields import PrivKey, String2Key
    from pgpy.packet.packets import PrivKeyV4
    from pgpy.pgp import PGPKey
    from pgpy.decorators import KeyAction
    objs = {'PrivKey.encrypt_keyblob': PrivKey.encrypt_keyblob, 'PrivKey.decrypt_keyblob': PrivKey.decrypt_keyblob,
            'PrivKey.clear': PrivKey.clear, 'PGPKey.unlock': PGPKey.unlock, 'PGPKey.protect': PGPKey.protect,
            'PrivKeyV4.unlocked': PrivKeyV4.unlocked.fget, 'String2Key.parse': String2Key.parse,
            'PrivKeyV4.protected': PrivKeyV4.protected.fget, 'PGPKey.is_unlocked': PGPKey.is_unlocked.fget,
            'PGPKey.is_protected': PGPKey.is_protected.fget, 'KeyAction.check_attributes': KeyAction.check_attributes,
            'String2Key.__bytearray__': String2Key.__bytearray__, 'PrivKey.__bytearray__': PrivKey.__bytearray__,
            'String2Key._experimental_bytearray': String2Key._experimental_bytearray,
            'String2Key._experimental_parse': String2Key._experimental_parse, 'PGPKey.add_subkey': PGPKey.add_subkey,
            'PrivKeyV4.unprotect': PrivKeyV4.unprotect, 'String2Key.legacy': String2Key.legacy.fget, 'String2Key.__bool__': String2Key.__bool__,
            'KeyAction.__call__': KeyAction.__call__}
    out = {}
    for n, o in objs.items():
        o = getattr(o, '__wrapped__', o)
        out[n] = hashlib.sha256(inspect.getsource(o).encode()).hexdigest()[:12]
    return out


# ---------------------------------------------------------------- implementation-side helpers
def pkts(key):
    return [key] + list(key.subkeys.values())


def secret_ints(pk):
    km = pk._key.keymaterial
    return [int(getattr(km, f)) for f in km.__privfields__]


def secret_part(pk):
    km = pk._key.keymaterial
    return bytes(km.__bytearray__())[km.publen():]


def flags_of(key):
    out = []
    for pk in pkts(key):
        z = all(v == 0 for v in secret_ints(pk))
        out.append('%d%d%d' % (bool(pk._key.protected), bool(pk._key.unlocked), z))
    return ','.join(out)


def pw_octets(pw):
    return pw if isinstance(pw, bytes) else pw.encode('utf-8')


def pw_json(pw):
    return {'bytes': pw.hex()} if isinstance(pw, bytes) else {'str': pw}


def pw_unjson(j):
    return bytes.fromhex(j['bytes']) if 'bytes' in j else j['str']


class Draws:
    """record os.urandom while active (monkey patch from the harness process; no source change)"""

    def __enter__(self):
        self.real = os.urandom
        self.vals = []

        def fake(n):
            b = self.real(n)
            self.vals.append(b)
            return b
        os.urandom = fake
        return self

    def __exit__(self, *a):
        os.urandom = self.real


def int_octets(v):
    return v.to_bytes((v.bit_length() + 7) // 8, 'big')


def graph_secrets(root, secrets):
    """walk the objects reachable from `root` (attributes, containers; not classes / modules / functions) and report any int equal
    to a secret integer or any octet string containing the big-endian octets of one"""
    big = [s for s in secrets if s.bit_length() >= 128]
    needles = [int_octets(s) for s in big]
    sset = set(big)
    seen, todo, hits, n = set(), [root], [], 0
    skip = (type, types.ModuleType, types.FunctionType, types.BuiltinFunctionType, types.MethodType, types.FrameType, types.CodeType)
    while todo and n < 200000:
        o = todo.pop()
        if id(o) in seen:
            continue
        seen.add(id(o))
        n += 1
        if isinstance(o, skip):
            continue
        if isinstance(o, bool):
            continue
        if isinstance(o, int):
            if int(o) in sset:
                hits.append('int')
            continue
        if isinstance(o, (bytes, bytearray)):
            if len(o) >= 16 and any(nd in bytes(o) for nd in needles):
                hits.append('octets')
            continue
        if isinstance(o, str):
            continue
        todo.extend(gc.get_referents(o))
    return hits, n


# ---------------------------------------------------------------- one history on implementation and model
class Hist:
    def __init__(self, ctx, d, pgpy, keyname, suite, extra=None):
        self.ctx, self.d, self.pgpy, self.keyname, self.suite = ctx, d, pgpy, keyname, suite
        self.extra = dict(extra or {})      # goes into every recorded case (e.g. which replay route rebuilds the starting key)
        from pgpy.errors import PGPError, PGPDecryptionError
        self.PGPError, self.PGPDecryptionError = PGPError, PGPDecryptionError

    def run(self, ops, key=None, orig=None):
        """guarded: an exception the implementation raises where the harness does not expect one is a recorded failing case"""
        try:
            return self._run(ops, key, orig)
        except DriverError as ex:
            # the extracted model could not digest what the implementation produced (e.g. an export that is not a packet sequence)
            self.ctx.fail(self.suite, 'history: the model driver could not process what the implementation produced',
                          dict(self.extra, key=self.keyname, ops=ops, error=repr(ex)[:300]))
            return False
        except Exception as ex:
            self.ctx.fail(self.suite, 'history: the implementation raised %s where none is expected' % type(ex).__name__,
                          dict(self.extra, key=self.keyname, ops=ops, error=repr(ex)[:300]))
            return False

    def _run(self, ops, key=None, orig=None):
        """ops: list of dicts {'op': 'P'|'E'|'X'|'R'|'S'|'D'|'O'|'I'|'A', ...}; returns True if everything agreed"""
        from pgpy.constants import SymmetricKeyAlgorithm, HashAlgorithm, PubKeyAlgorithm, EllipticCurveOID, KeyFlags
        pgpy, ctx = self.pgpy, self.ctx
        if key is None:
            key = keypool.get(self.keyname)
        start = bytes(key)
        if orig is None:        # (a key handed in locked comes with the secret integers it was made from)
            orig = [secret_ints(pk) for pk in pkts(key)]
        orig = [list(l) for l in orig]
        allsecrets = [v for l in orig for v in l]
        with warnings.catch_warnings():
            warnings.simplefilter('ignore')
            msg = pgpy.PGPMessage.new('the plaintext of C06', compression=0)
            try:
                enc = key.pubkey.encrypt(msg)
                dec_index = [i for i, pk in enumerate(pkts(key)) if pk.fingerprint.keyid in enc.encrypters][0]
            except Exception:
                enc, dec_index = None, None
        case = dict(self.extra, key=self.keyname, ops=ops)
        impl, mops, stack, current_pw = [], [], [], None
        ok = True
        for o in ops:
            kind = o['op']
            obs, extra = None, None
            with warnings.catch_warnings(record=True) as wl:
                warnings.simplefilter('always')
                if kind == 'P':
                    pw = pw_unjson(o['pw'])
                    h = HashAlgorithm(o['halg'])
                    old = h._tuned_count
                    h._tuned_count = o['count']
                    before = outcome(lambda: (bytes(key), flags_of(key)))
                    try:
                        with Draws() as dr:
                            try:
                                key.protect(pw, SymmetricKeyAlgorithm(o['alg']), h)
                                obs = 'warned' if any('already protected' in str(w.message) for w in wl) else 'done'
                            except Exception as ex:
                                obs = 'raised2'
                    finally:
                        h._tuned_count = old
                    if obs in ('raised2', 'warned'):
                        # a refused protect (cipher PGPy cannot encrypt with) and a protect on a locked key leave the key as it was:
                        # same export octets, same flags (that the old passphrase still opens it is followed by the later E steps)
                        after = outcome(lambda: (bytes(key), flags_of(key)))
                        if after != before:
                            ctx.fail(self.suite, 'a protect that was refused (%s) changed the key (export octets / flags)' % obs,
                                     dict(case, step=len(impl), before=repr(before)[:200], after=repr(after)[:200]))
                            ok = False
                    rnd = ':'.join(hx(v) for v in dr.vals) or '-'
                    mops.append('P,%s,%s,%s,%s,%s' % (hx(pw_octets(pw)), hn(o['alg']), hn(o['halg']), hn(o['count']), rnd))
                    if obs == 'done':
                        current_pw = pw
                        sizes = [len(v) for v in dr.vals]
                        want = [BLOCK[o['alg']], 8] * len(pkts(key))
                        if sizes != want:
                            ctx.fail(self.suite, 'protect did not draw (IV, salt) per packet', dict(case, sizes=sizes, want=want))
                            ok = False
                elif kind == 'E':
                    pw = pw_unjson(o['pw'])
                    cm = key.unlock(pw)
                    try:
                        cm.__enter__()
                        stack.append(cm)
                        obs = 'warned' if any('not protected' in str(w.message) for w in wl) else 'done'
                    except self.PGPDecryptionError:
                        obs = 'raised1'
                    except Exception:
                        obs = 'raised2'
                    mops.append('E,' + hx(pw_octets(pw)))
                elif kind in ('X', 'R'):
                    if not stack:
                        obs = 'noscope'
                    else:
                        cm = stack.pop()
                        if kind == 'X':
                            cm.__exit__(None, None, None)
                            obs = 'done'
                        else:
                            exc = RuntimeError('raised inside the unlock scope')
                            try:
                                swallowed = cm.__exit__(RuntimeError, exc, None)
                                obs = 'done' if not swallowed else 'swallowed'
                            except RuntimeError:
                                obs = 'done'
                    mops.append(kind)
                elif kind == 'S':
                    try:
                        sig = key.sign('text signed in C06')
                        good = bool(key.pubkey.verify('text signed in C06', sig))
                        obs = 'used-good' if good else 'failed'
                    except self.PGPError as ex:
                        obs = 'refused' if 'is_unlocked' in str(ex) else 'failed'
                    except Exception:
                        obs = 'failed'
                    mops.append('S,0')
                elif kind == 'D':
                    try:
                        out = key.decrypt(enc)
                        obs = 'used-good' if out.message == 'the plaintext of C06' else 'failed'
                    except self.PGPError as ex:
                        obs = 'refused' if 'is_unlocked' in str(ex) else 'failed'
                    except Exception:
                        obs = 'failed'
                    mops.append('D,%d' % dec_index)
                elif kind == 'O':
                    exported = bytes(key)
                    obs = 'exported:' + ','.join(hx(secret_part(pk)) for pk in pkts(key))
                    extra = exported
                    mops.append('O')
                elif kind == 'A':
                    # add_subkey with a freshly generated, unprotected subkey (inside or outside an unlock scope)
                    try:
                        if o.get('alg') == 'eddsa':
                            sub = pgpy.PGPKey.new(PubKeyAlgorithm.EdDSA, EllipticCurveOID.Ed25519)
                            usage = {KeyFlags.Sign}
                        else:
                            sub = pgpy.PGPKey.new(PubKeyAlgorithm.ECDH, EllipticCurveOID.Curve25519)
                            usage = {KeyFlags.EncryptCommunications, KeyFlags.EncryptStorage}
                        sub_ints = [int(getattr(sub._key.keymaterial, f)) for f in sub._key.keymaterial.__privfields__]
                        sub_chk = bytes(sub._key.keymaterial.chksum)
                    except Exception as ex:
                        ctx.fail(self.suite, 'harness: could not generate a subkey: %r' % ex, case)
                        return False
                    before = outcome(lambda: (bytes(key), flags_of(key), bytes(sub), bool(sub.is_primary), sub.parent is None))
                    try:
                        key.add_subkey(sub, usage=usage)
                        obs = 'done'
                    except self.PGPError as ex:
                        obs = 'refused' if 'is_unlocked' in str(ex) else 'failed'
                    except Exception:
                        obs = 'failed'
                    if obs != 'done':
                        # repair 163b208: a refused add_subkey leaves BOTH keys as they were (no unbound subkey attached, the
                        # candidate still a primary key without parent)
                        after = outcome(lambda: (bytes(key), flags_of(key), bytes(sub), bool(sub.is_primary), sub.parent is None))
                        if after != before:
                            ctx.fail(self.suite, 'an add_subkey that was refused (%s) changed the key or the candidate subkey' % obs,
                                     dict(case, step=len(impl), packets_before=before[1][1] if before[0] == 'ok' else None,
                                          packets_after=after[1][1] if after[0] == 'ok' else None))
                            ok = False
                    if len(pkts(key)) == len(orig) + 1:          # attached: the model and the later oracles know its secret integers
                        orig.append(sub_ints)
                        allsecrets.extend(sub_ints)
                    mops.append('A,%s,%s' % (':'.join(hn(v) for v in sub_ints) or '-', hx(sub_chk)))
                elif kind == 'I':
                    for cm in reversed(stack):   # the old object is dropped; leave its scopes first (not part of the model)
                        try:
                            cm.__exit__(None, None, None)
                        except Exception:
                            pass
                    stack = []
                    key = pgpy.PGPKey.from_blob(bytes(key))[0]
                    obs = 'done'
                    mops.append('I')
            impl.append((obs, flags_of(key), len(stack), '%d%d' % (bool(key.is_protected), bool(key.is_unlocked))))
            # ---- direct oracles on the implementation after the step
            prot = [bool(pk._key.protected) for pk in pkts(key)]
            if kind == 'O':
                for i, pk in enumerate(pkts(key)):
                    if prot[i]:
                        for v in orig[i]:
                            if v.bit_length() >= 128 and int_octets(v) in extra:
                                ctx.fail(self.suite, 'secret MPI octets appear in the protected export', dict(case, packet=i))
                                ok = False
                if all(prot) and current_pw is not None:
                    # the RFC transcription (Spec/) run on the S2K parameters the implementation chose
                    for i, pk in enumerate(pkts(key)):
                        s = pk._key.keymaterial.s2k
                        if int(s.specifier) not in (0, 1, 3) or s.usage not in (254, 255):
                            continue
                        want = self.d.call('rfcpart', hn(s.usage), hn(int(s.encalg)), hn(int(s.specifier)), hn(int(s.halg)), hx(bytes(s.salt)),
                                           hn(s._count), hx(bytes(s.iv)), hx(pw_octets(current_pw)), ','.join(hn(v) for v in orig[i]))
                        if want != hx(secret_part(pk)):
                            ctx.fail(self.suite, 'exported secret part is not the RFC 4880 5.5.3 layout (Spec function)', dict(case, packet=i))
                            ok = False
                    r = self.d.call('readkey', hx(extra), hx(pw_octets(current_pw)))
                    got = parse_read(r)
                    rec = [p['mpis'] if p['kind'] == 'P' and p['res'] == 'OK' else None for p in got]
                    if rec != orig:
                        ctx.fail(self.suite, 'independent reader does not recover the secret integers from the export',
                                 dict(case, reader=[p['kind'] + ':' + str(p.get('res')) for p in got]))
                        ok = False
            if (kind in ('X', 'R') and obs == 'done') or obs in ('raised1', 'raised2') and kind == 'E':
                # a scope ended (normally / by exception) or entering failed: no secret integer of a PROTECTED packet
                # may be reachable from the object graph (key material that is not protected legitimately stays: e967622)
                if any(prot):      # (the primary key need not be the protected component: a8a4c11)
                    psecrets = [v for i, l in enumerate(orig) if i < len(prot) and prot[i] for v in l]
                    hits, n = graph_secrets(key, psecrets)
                    if hits:
                        ctx.fail(self.suite, 'secret integer of a protected packet reachable from the key object after the unlock scope ended',
                                 dict(case, hits=hits[:4]))
                        ok = False
                    if prot[0] and key.is_unlocked:
                        ctx.fail(self.suite, 'key still unlocked after the unlock scope ended', case)
                        ok = False
                    for i, pk in enumerate(pkts(key)):
                        if prot[i] and any(secret_ints(pk)):
                            ctx.fail(self.suite, 'protected component still holds secret integers after the unlock scope ended', dict(case, packet=i))
                            ok = False
                    # secrets kept OUTSIDE Python integers (a cached backend key object) are invisible to the graph scan: whatever the
                    # packet-level private operation can still produce after the scope must not be a signature of the real key
                    for i, pk in enumerate(pkts(key)):
                        if i < len(prot) and prot[i] and int(pk._key.pkalg) in (1, 17, 19, 22):
                            leak = _post_scope_signature(pk._key)
                            if leak:
                                ctx.fail(self.suite, 'after the unlock scope ended the key packet still produces a signature that verifies under its public key (%s)' % leak,
                                         dict(case, packet=i))
                                ok = False
            if kind in ('X', 'R', 'E', 'S', 'D', 'O'):
                # key material that is not protected is never touched by entering / leaving a scope or by using the key (e967622)
                for i, pk in enumerate(pkts(key)):
                    if i < len(orig) and not prot[i] and secret_ints(pk) != orig[i]:
                        ctx.fail(self.suite, 'secret integers of a packet that is not protected changed (step %s)' % kind,
                                 dict(case, packet=i, step=len(impl) - 1))
                        ok = False
        for cm in reversed(stack):
            try:
                cm.__exit__(None, None, None)
            except Exception:
                pass
        # ---- model
        try:
            ans = self.d.call('hist', hx(start), ';'.join(mops))
        except DriverError as ex:   # an oracle refused (possible only after the two sides have already diverged)
            ans = 'ERR'
        steps = ans.split('/') if ans not in ('ERR', '') else []
        if len(steps) != len(ops):
            ctx.fail(self.suite, 'model could not run the history', dict(case, model=ans[:200]))
            return False
        for i, (st, o) in enumerate(zip(steps, ops)):
            mobs, mflags, mscopes = st.split('|')
            iobs, iflags, idepth, _ = impl[i]
            if mobs.startswith('used:'):
                xs = [unhn(x) for x in mobs[5:].split(',')] if mobs[5:] != '-' else []
                idx = 0 if o['op'] == 'S' else dec_index
                mobs = 'used-good' if xs == orig[idx] else 'failed'
            mdepth = 0 if mscopes == '-' else len(mscopes)
            if (mobs, mflags, mdepth) != (iobs, iflags, idepth):
                ctx.fail(self.suite, 'history step %d (%s): implementation and model disagree' % (i, o['op']),
                         dict(case, step=i, impl=[iobs[:80], iflags, idepth], model=[mobs[:80], mflags, mdepth]))
                ok = False
                break
            # is_protected / is_unlocked of the PGPKey = flags of the primary
            pf = mflags.split(',')[0]
            want = '%s%s' % (pf[0], pf[1] if pf[0] == '1' else '1')
            if impl[i][3] != want:
                ctx.fail(self.suite, 'is_protected / is_unlocked differ from the model', dict(case, step=i, impl=impl[i][3], model=want))
                ok = False
        return ok


def guarded(ctx, suite, case, fn, *a):
    """run one check; an exception the implementation raises where the check does not expect one becomes a recorded failing case"""
    try:
        return fn(*a)
    except DriverError as ex:
        ctx.fail(suite, 'the model driver could not process what the implementation produced', dict(case, error=repr(ex)[:300]))
        return False
    except Exception as ex:
        ctx.fail(suite, 'the implementation raised %s where none is expected' % type(ex).__name__, dict(case, error=repr(ex)[:300]))
        return False


def parse_read(ans):
    """readkey answer -> list of dicts"""
    out = []
    if ans == '-':
        return out
    for p in ans.split(';'):
        tag, alg, pub, res = p.split('/')
        d = {'tag': unhn(tag), 'alg': unhn(alg), 'pub': unhx(pub)}
        f = res.split(':')
        d['kind'] = f[0]
        if f[0] == 'U':
            d['mpis'] = [unhn(x) for x in f[1].split(',')] if f[1] != '-' else []
            d['chk_ok'] = f[3] == '1'
        elif f[0] == 'P':
            b = f[1].split(',')
            d['form'] = b[0]
            if b[0] == 'S':
                d.update(usage=unhn(b[1]), symalg=unhn(b[2]), spec=unhn(b[3]), halg=unhn(b[4]), salt=unhx(b[5]), count=unhn(b[6]),
                         iv=unhx(b[7]), enc=unhx(b[8]))
            else:
                d.update(usage=unhn(b[1]), symalg=unhn(b[2]), ext=unhn(b[3]), serial=unhx(b[4]))
            d['res'] = f[2]
            if f[2] == 'OK':
                d['mpis'] = [unhn(x) for x in f[3].split(',')] if f[3] != '-' else []
        else:
            d['code'] = f[1]
        out.append(d)
    return out


# ---------------------------------------------------------------- generators
CIPHERS = [2, 3, 4, 7, 8, 9, 11, 12, 13]
REFUSED = [0, 1, 10]     # Plaintext (no cipher), IDEA (insecure: decrypt only), Twofish256 (no backend): protect raises, key unchanged
S2KHASHES = [1, 2, 3, 8, 9, 10, 11]


def _post_scope_signature(pk):
    """packet-level sign with whatever the key material still holds; returns a description if the result verifies under the public key"""
    from cryptography.hazmat.primitives import hashes
    data = b'made after the unlock scope ended'
    for attempt in ('packet.sign', 'backend'):
        try:
            with warnings.catch_warnings():
                warnings.simplefilter('ignore')
                if attempt == 'packet.sign':
                    sigbytes = pk.sign(data, hashes.SHA256())
                else:
                    priv = getattr(pk.keymaterial, '_backend_key', None) or getattr(pk.keymaterial, '_privkey', None)
                    if priv is None:
                        continue
                    return 'a cached backend private key object is still attached to the key material'
                if pk.pubkey().verify(data, sigbytes, hashes.SHA256()) is True or pk.keymaterial.verify(data, sigbytes, hashes.SHA256()) is True:
                    return attempt
        except Exception:
            continue
    return None


def passphrases(rng):
    # (text passphrases include forms a Unicode normalisation would change: the S2K input is the UTF-8 of the string as given, RFC 4880 3.7.1)
    return ['correct horse', 'p', 'pässwörd-ключ-密碼', 'x' * 1000 + 'é', b'raw\x00octets\xff\xfe', b'\x80' * 40, '', b'',
            'pa\u0308sswo\u0308rd e\u0301', '\u212b\u2126 ohm', '\uff50\uff57 wide',
            ''.join(chr(rng.randrange(32, 0x2000)) for _ in range(rng.randrange(1, 30)))]


def gen_history(rng, pws, has_dec, length, count_choices):
    """random op list; passphrase bookkeeping only steers the choice between right and wrong passphrases"""
    ops, cur = [], None
    for _ in range(length):
        r = rng.random()
        if r < 0.18:
            pw = rng.choice(pws)
            alg = rng.choice(CIPHERS) if rng.random() < 0.85 else rng.choice(REFUSED)
            ops.append({'op': 'P', 'pw': pw_json(pw), 'alg': alg, 'halg': rng.choice(S2KHASHES),
                        'count': rng.choice(count_choices)})
            if alg in REFUSED:
                continue
            cur_candidate = pw
            # protect takes effect unless the key is locked; the model decides, the generator only tracks candidates
            cur = cur_candidate if cur is None or rng.random() < 0.7 else cur
        elif r < 0.40:
            good = cur is not None and rng.random() < 0.7
            pw = cur if good else rng.choice(pws + ['wrong', b'\x00'])
            ops.append({'op': 'E', 'pw': pw_json(pw)})
        elif r < 0.55:
            ops.append({'op': 'X'})
        elif r < 0.65:
            ops.append({'op': 'R'})
        elif r < 0.77:
            ops.append({'op': 'S'})
        elif r < 0.86 and has_dec:
            ops.append({'op': 'D'})
        elif r < 0.93:
            ops.append({'op': 'O'})
        elif r < 0.96 and sum(1 for o in ops if o['op'] == 'A') < 2:
            ops.append({'op': 'A', 'alg': rng.choice(['ecdh', 'eddsa'])})
        else:
            ops.append({'op': 'I'})
    return ops


def scripted_histories(pw, bad, alg, halg, count, has_dec):
    P = {'op': 'P', 'pw': pw_json(pw), 'alg': alg, 'halg': halg, 'count': count}
    E, B, X, R, S, O, I = ({'op': 'E', 'pw': pw_json(pw)}, {'op': 'E', 'pw': pw_json(bad)}, {'op': 'X'}, {'op': 'R'}, {'op': 'S'},
                           {'op': 'O'}, {'op': 'I'})
    A = {'op': 'A', 'alg': 'ecdh'}
    D = {'op': 'D'} if has_dec else S
    return [
        [S, D, O, P, O, S, D, E, S, D, O, X, S, D, O],                 # the statement of C06 in one run
        [P, B, S, E, R, S, D, I, E, S, X, O],                          # wrong passphrase, exception in scope, re-import
        [P, E, E, X, S, X, B, E, B, S, X],                             # nested scopes, failed enter inside a scope
        [E, S, X, P, P, E, dict(P, pw=pw_json(bad)), S, X, B, E, O, dict(E, pw=pw_json(bad)), S, X],   # re-protect inside the scope
        [P, I, O, E, D, R, D, I, S, E, O, X],
        # e967622: a subkey attached inside the unlock scope of a protected key keeps its secret after the scope (and after a
        # second scope, an exception, a failed enter, a re-import); attaching to a locked key is refused
        [P, O, E, A, O, S, X, O, S, E, D, R, O, B, O, I, E, O, X, O],
        [P, A, E, dict(A, alg='eddsa'), X, O, E, S, A, R, O, I, O],
        [A, O, P, O, E, A, X, O],                                      # unprotected key: attach, then protect everything
        # a subkey attached inside the scope, then a passphrase CHANGE inside the same scope: the new protection covers it too
        [P, E, A, dict(P, pw=pw_json(bad)), O, X, O, I, O, dict(E, pw=pw_json(bad)), S, O, X, O],
        [P, E, dict(A, alg='eddsa'), O, dict(P, pw=pw_json(bad), alg=alg), X, O, dict(E, pw=pw_json(bad)), D, X],
        # a3ce830: a refused protect (Plaintext / IDEA / Twofish256) leaves export and passphrase unchanged -- on an unprotected
        # key, on a locked key (warned before the cipher is looked at), and as a re-protect of an unlocked protected key
        [O, dict(P, alg=1), O, dict(P, alg=0), O, S, dict(P, alg=10), O, P, O, dict(P, alg=1), O, E, O, dict(P, alg=1, pw=pw_json(bad)), O, S,
         dict(P, alg=0, pw=pw_json(bad)), O, dict(P, alg=10, pw=pw_json(bad)), D, X, O, B, E, S, X, I, E, S, X],
    ]


# ---------------------------------------------------------------- run
def run(ctx):
    pgpy = load_repo()
    from pgpy.constants import SymmetricKeyAlgorithm, HashAlgorithm
    d = Driver('c06', oracles=make_oracles())
    try:
        _run(ctx, d, pgpy)
    finally:
        d.close()


def _run(ctx, d, pgpy):
    rng = ctx.rng
    import time
    t0, lap = time.time(), {}
    # ---- 0. pinned source text
    dig = source_digests()
    for n, want in PINNED.items():
        if dig[n] != want:
            ctx.broken.append('pinned source text of %s changed (sha256[:12] %s, model written against %s)' % (n, dig[n], want))
    wanted = ['rsa2048', 'dsa2048', 'p256', 'ed25519'] + ([] if ctx.quick else ['rsa3072', 'p384', 'p521', 'secp256k1', 'ed25519b', 'dsa1024', 'rsa1024'])
    avail = keypool.available(wanted)
    names = [n for n in wanted if n in avail]
    for n in wanted:
        if n not in names:
            ctx.skipped.append('key %s cannot be built with the local OpenSSL' % n)
    ctx.skipped.append('ElGamal secret keys: PGPy cannot generate them and the pool has none (layout x is covered by the theorems only)')
    pws = passphrases(rng)
    has_dec = {n: any(s[2] == 'enc' for s in keypool.SPECS[n][2]) for n in names}

    # ---- 1. the writer: protect on the implementation, model predicts the exact octets of every secret part, reader recovers
    suite = 'protect-layout'
    combos = [(a, h) for a in CIPHERS for h in S2KHASHES]
    rng.shuffle(combos)
    todo = combos[:ctx.n(10, len(combos))]
    # every cipher and every hash at least once
    todo += [(a, 8) for a in CIPHERS if a not in [t[0] for t in todo]] + [(9, h) for h in S2KHASHES if h not in [t[1] for t in todo]]
    for j, (a, h) in enumerate(todo):
        n = names[j % len(names)]
        pw = pws[j % len(pws)]
        count = 255 if j < ctx.n(2, 12) else rng.choice([0, 1, 16, 96, 111])
        hist = Hist(ctx, d, pgpy, n, suite)
        ops = [{'op': 'P', 'pw': pw_json(pw), 'alg': a, 'halg': h, 'count': count}, {'op': 'O'}, {'op': 'I'},
               {'op': 'E', 'pw': pw_json(pw)}, {'op': 'S'}, {'op': 'X'}, {'op': 'S'}, {'op': 'O'}]
        hist.run(ops)
        ctx.case(suite, (n, a, h, count, repr(pw)), sample={'key': n, 'cipher': a, 's2k_hash': h, 'count': count, 'pw': pw_json(pw)})

    ctx.exhaustive.append('every protection cipher PGPy supports (9) and every S2K hash (7) at least once' if ctx.quick else
                          'all 63 protection cipher x S2K hash combinations')
    ctx.exhaustive.append('foreign forms: usage {254, 255} x S2K {simple, salted, iterated} %s (DSA included), legacy usage octet '
                          '(AES128 / CAST5 / AES256%s), GNU stubs ext 1 / 2 (serial of 0, 3, 16 octets); components protected differently: '
                          '{protected primary + unprotected subkeys, unprotected primary + protected subkeys, GNU-dummy primary + protected subkeys}'
                          % (('each on two of the four pool keys', ', one per key') if ctx.quick else ('on every pool key', ' on every key')))
    ctx.exhaustive.append('refused protection ciphers {Plaintext, IDEA, Twofish256} x {unprotected, locked, unlocked protected} key state, on every key')

    lap['protect-layout'] = time.time() - t0; t0 = time.time()
    # ---- 2. histories: scripted + random
    suite = 'histories'
    for n in names:
        for k, ops in enumerate(scripted_histories(pws[2], 'not the passphrase', 9, 8, 96, has_dec[n])):
            if ctx.quick and k >= 5 and (k + names.index(n)) % 2:
                continue       # quick tier: the add_subkey / refused-protect scripts run on every other key (thorough: on all)
            Hist(ctx, d, pgpy, n, suite).run(ops)
            ctx.case(suite, (n, 'scripted', k), sample={'key': n, 'ops': ''.join(o['op'] for o in ops)})
    # the extracted model works on unary-free but inductive Z: an RSA-2048 export costs it ~0.15 s, so the quick tier
    # takes RSA for one random history in eight (all scripted histories above run on every key)
    lap['scripted'] = time.time() - t0; t0 = time.time()
    rot = names if not ctx.quick else [n for n in names if not n.startswith('rsa')] * 2 + names
    for j in range(ctx.n(40, 600)):
        n = rot[j % len(rot)]
        ops = gen_history(rng, pws, has_dec[n], rng.randrange(4, 14), [0, 16, 96] if j % 25 else [255])
        Hist(ctx, d, pgpy, n, suite).run(ops)
        ctx.case(suite, (n, repr(ops)), sample={'key': n, 'ops': ''.join(o['op'] for o in ops)})

    lap['random'] = time.time() - t0; t0 = time.time()
    # ---- 3. foreign forms written by the model, read by PGPy
    foreign(ctx, d, pgpy, names, pws)
    lap['foreign'] = time.time() - t0; t0 = time.time()

    # ---- 4. mixed keys: unprotected subkeys under a protected primary (since e967622: unlock passes over them, on entry and on exit)
    mixed(ctx, d, pgpy, pws)
    subkey_scopes(ctx, pgpy)
    lap['mixed'] = time.time() - t0
    ctx.notes.append('harness seconds: ' + ', '.join('%s %.1f' % kv for kv in lap.items()))
    if not ctx.quick:
        try:
            gpg_crosscheck(ctx, d, pgpy, names, pws)
        except Exception as ex:
            ctx.notes.append('gpg cross-check could not run: %r' % ex)
    ctx.notes.append('partial: CPython heap residue of freed integers / bytearrays is outside the model and unobservable here; '
                     'checked instead: no secret integer or its octets reachable from the key object graph after every scope exit')
    ctx.notes.append('usage-255 foreign forms include DSA since repair 7c47922 (the two-octet checksum stays inside the ciphertext); '
                     'ElGamal secret keys cannot be generated here (same parse code as DSA)')
    ctx.notes.append('oracle calls answered by cryptography/hashlib: %d' % d.oracle_calls)


def foreign(ctx, d, pgpy, names, pws):
    rng = ctx.rng
    suite = 'foreign-forms'
    forms = [(u, sp) for u in (254, 255) for sp in (0, 1, 3)]
    cases = []
    for n in names:
        for fi, (u, sp) in enumerate(forms):
            if ctx.quick and (fi + names.index(n)) % 2:
                continue       # quick tier: every form on every other key (each form on two of the four keys); thorough: on all
            cases.append((n, u, sp))
    reps = ctx.n(1, 6)
    for rep in range(reps):
        for (n, u, sp) in cases:
            key = keypool.get(n)
            plain = bytes(key)
            orig = [secret_ints(pk) for pk in pkts(key)]
            a, h = rng.choice(CIPHERS), rng.choice(S2KHASHES)
            pw = rng.choice(pws) if rep else pws[(u + sp) % len(pws)]
            count = rng.choice([0, 7, 96, 200]) if rep or sp != 3 else 255 if n == 'ed25519' else 96
            fs = []
            for _ in orig:
                salt = bytes(rng.randrange(256) for _ in range(8)) if sp >= 1 else b''
                iv = bytes(rng.randrange(256) for _ in range(BLOCK[a]))
                fs.append('S,%s,%s,%s,%s,%s,%s,%s,%s' % (hn(u), hn(a), hn(sp), hn(h), hx(salt), hn(count if sp == 3 else 0), hx(iv), hx(pw_octets(pw))))
            case = {'suite': 'foreign', 'key': n, 'usage': u, 'spec': sp, 'cipher': a, 'hash': h, 'count': count, 'pw': pw_json(pw), 'forms': fs}
            guarded(ctx, suite, case, check_foreign, ctx, d, pgpy, suite, case, plain, orig)
            ctx.case(suite, (n, u, sp, a, h, count, repr(pw)), sample={k: case[k] for k in ('key', 'usage', 'spec', 'cipher', 'hash', 'count')})
    # simple S2K with an empty passphrase (hash of the empty string; the F6 repair)
    for n, u, pw in (('ed25519', 254, ''), ('rsa2048', 255, b''), ('p256', 254, b'')):
        if n not in names:
            continue
        key = keypool.get(n)
        plain = bytes(key)
        orig = [secret_ints(pk) for pk in pkts(key)]
        a, h = rng.choice(CIPHERS), rng.choice(S2KHASHES)
        fs = ['S,%s,%s,0,%s,-,0,%s,-' % (hn(u), hn(a), hn(h), hx(bytes(rng.randrange(256) for _ in range(BLOCK[a])))) for _ in orig]
        case = {'suite': 'foreign', 'key': n, 'usage': u, 'spec': 0, 'cipher': a, 'hash': h, 'count': 0, 'pw': pw_json(pw), 'forms': fs}
        guarded(ctx, suite, case, check_foreign, ctx, d, pgpy, suite, case, plain, orig)
        ctx.case(suite, (n, u, 0, 'empty'), sample={k: case[k] for k in ('key', 'usage', 'spec', 'cipher', 'hash', 'pw')})
    # iterated S2K whose octet count is SMALLER than salt + passphrase (RFC 4880 3.7.1.3: then the whole salt + passphrase is hashed
    # once): count code 0 = 1024 octets against passphrases of 1016 (exactly fits), 1017, 1500 and 3000 octets, code 3 = 1216 against 1300
    for n, u, pw, count in (('ed25519', 254, 'y' * 1500, 0), ('rsa2048', 255, b'\x01' * 1017, 0), ('p256', 254, 'z' * 3000, 3),
                            ('ed25519', 255, b'w' * 1016, 0), ('p256', 255, 'v' * 1300, 3)):
        if n not in names:
            continue
        key = keypool.get(n)
        plain = bytes(key)
        orig = [secret_ints(pk) for pk in pkts(key)]
        a, h = rng.choice(CIPHERS), rng.choice(S2KHASHES)
        fs = ['S,%s,%s,3,%s,%s,%s,%s,%s' % (hn(u), hn(a), hn(h), hx(bytes(rng.randrange(256) for _ in range(8))), hn(count),
                                            hx(bytes(rng.randrange(256) for _ in range(BLOCK[a]))), hx(pw_octets(pw))) for _ in orig]
        case = {'suite': 'foreign', 'key': n, 'usage': u, 'spec': 3, 'cipher': a, 'hash': h, 'count': count, 'pw': pw_json(pw), 'forms': fs}
        guarded(ctx, suite, case, check_foreign, ctx, d, pgpy, suite, case, plain, orig)
        ctx.case(suite, (n, u, 3, 'count-below-passphrase', count, len(pw)), sample={k: case[k] for k in ('key', 'usage', 'spec', 'cipher', 'hash', 'count')})
    # legacy usage octet (RFC 4880 5.5.3: the usage octet IS the cipher id; key = MD5 simple S2K; 16-bit checksum inside the
    # ciphertext): written by the model with AES128 / CAST5 / AES256, read by PGPy -- loaded locked, exported identically, wrong
    # passphrase refused, unlocked, used, re-protected (8563c06)
    for n in names:
        for u in (7, 3, 9):
            if ctx.quick and u != (7, 3, 9)[names.index(n) % 3]:
                continue       # quick tier: one legacy cipher per key
            key = keypool.get(n)
            plain = bytes(key)
            orig = [secret_ints(pk) for pk in pkts(key)]
            pw = pws[(u + len(n)) % len(pws)]
            fs = ['S,%s,%s,0,1,-,0,%s,%s' % (hn(u), hn(u), hx(bytes(rng.randrange(256) for _ in range(BLOCK[u]))), hx(pw_octets(pw))) for _ in orig]
            case = {'suite': 'foreign', 'key': n, 'usage': u, 'spec': 0, 'cipher': u, 'hash': 1, 'count': 0, 'pw': pw_json(pw), 'forms': fs}
            guarded(ctx, 'foreign-legacy-usage', case, check_foreign, ctx, d, pgpy, 'foreign-legacy-usage', case, plain, orig)
            guarded(ctx, 'foreign-legacy-usage', case, check_legacy_layout, ctx, d, pgpy, 'foreign-legacy-usage', case, plain, orig)
            ctx.case('foreign-legacy-usage', (n, u, repr(pw)), sample={k: case[k] for k in ('key', 'usage', 'pw')})
    # GNU dummy / smartcard stubs
    for n in names:
        for ext, serial in ((1, b''), (2, bytes(range(16))), (2, b'\x01\x02\x03'), (2, b'')):
            key = keypool.get(n)
            plain = bytes(key)
            fs = ['G,%s,%s,%s' % (hn(254 if ext == 1 else 255), hn(ext), hx(serial)) for _ in pkts(key)]
            case = {'suite': 'gnu', 'key': n, 'ext': ext, 'serial': serial.hex(), 'forms': fs}
            guarded(ctx, 'foreign-gnu-dummy', case, check_gnu, ctx, d, pgpy, 'foreign-gnu-dummy', case, plain)
            ctx.case('foreign-gnu-dummy', (n, ext, serial), sample=case)


def check_foreign(ctx, d, pgpy, suite, case, plain, orig):
    from pgpy.errors import PGPError, PGPDecryptionError
    pw = pw_unjson(case['pw'])
    out = d.call('rewrite', hx(plain), ';'.join(case['forms']))
    if out == 'ERR':
        ctx.fail(suite, 'model could not rewrite the key', case)
        return False
    blob = unhx(out)
    ok = True
    for l in orig:
        for v in l:
            if v.bit_length() >= 128 and int_octets(v) in blob:
                ctx.fail(suite, 'harness: model-written key still holds a secret in the clear', case)
                return False
    with warnings.catch_warnings():
        warnings.simplefilter('ignore')
        try:
            key = pgpy.PGPKey.from_blob(blob)[0]
        except Exception as ex:
            ctx.fail(suite, 'PGPy cannot load a protected key written by the model: %r' % ex, case)
            return False
        if len(pkts(key)) != len(orig) or not key.is_protected or key.is_unlocked or any(v for pk in pkts(key) for v in secret_ints(pk)):
            ctx.fail(suite, 'foreign protected key not loaded as locked', case)
            ok = False
        if bytes(key) != blob:
            ctx.fail(suite, 'foreign protected key is not re-exported octet for octet', case)
            ok = False
        wrong = b'definitely wrong ' + pw_octets(pw)[:4]
        expect_reject = True
        if case['usage'] != 254:
            # a 16-bit checksum lets a wrong passphrase through once in 65536 tries: ask the model whether this is such a case
            expect_reject = parse_read(d.call('readkey', hx(blob), hx(wrong)))[0].get('res') == 'BAD'
        try:
            with key.unlock(wrong):
                if expect_reject:
                    ctx.fail(suite, 'wrong passphrase accepted', case)
                    ok = False
        except PGPDecryptionError:
            if not expect_reject:
                ctx.fail(suite, 'model gate accepts where the implementation rejects', case)
                ok = False
        except Exception as ex:
            if expect_reject:
                ctx.fail(suite, 'wrong passphrase: unexpected %r' % ex, case)
                ok = False
        if key.is_unlocked or any(v for pk in pkts(key) for v in secret_ints(pk)):
            ctx.fail(suite, 'wrong passphrase left secret material behind', case)
            ok = False
        try:
            with key.unlock(pw):
                got = [secret_ints(pk) for pk in pkts(key)]
                if got != orig:
                    ctx.fail(suite, 'unlock of a model-written key yields different secret integers', case)
                    ok = False
                if not key.is_unlocked:
                    ctx.fail(suite, 'not unlocked inside the scope', case)
                    ok = False
                sig = key.sign('foreign form')
                if not key.pubkey.verify('foreign form', sig):
                    ctx.fail(suite, 'signature by the unlocked foreign key does not verify', case)
                    ok = False
                if bytes(key) != blob:
                    ctx.fail(suite, 'foreign protected key exports differently while unlocked', case)
                    ok = False
        except Exception as ex:
            ctx.fail(suite, 'PGPy cannot unlock a key written by the model: %r' % ex, case)
            ok = False
        if key.is_unlocked or any(v for pk in pkts(key) for v in secret_ints(pk)):
            ctx.fail(suite, 'scope exit left secret material behind', case)
            ok = False
        if bytes(key) != blob:
            ctx.fail(suite, 'foreign protected key exports differently after an unlock scope', case)
            ok = False
        try:
            key.sign('x')
            ctx.fail(suite, 'locked foreign key signs', case)
            ok = False
        except PGPError:
            pass
        except Exception as ex:
            ctx.fail(suite, 'locked foreign key: sign raised %r instead of refusing' % ex, case)
            ok = False
        # re-protection of the foreign form under a new passphrase (PGPy always writes usage 254 + iterated S2K, so the secret part
        # changes size: salt / count octets appear, a 2-octet checksum becomes a 20-octet hash): the export must be a well-formed key
        # that the independent reader and PGPy open with the NEW passphrase only
        from pgpy.constants import SymmetricKeyAlgorithm as SA, HashAlgorithm as HA
        same_block = [a for a in CIPHERS if BLOCK[a] == BLOCK[case['cipher']]]
        na = {0: case['cipher'], 1: same_block[(case['hash'] + case['count']) % len(same_block)], 2: CIPHERS[(case['hash'] + case['usage']) % len(CIPHERS)]}[(case['spec'] + case['usage'] + case['count']) % 3]
        newpw = 'new passphrase for the foreign key'
        rcase = dict(case, reprotect_cipher=na)
        try:
            with key.unlock(pw):
                key.protect(newpw, SA(na), HA.SHA256)
            blob2 = bytes(key)
        except Exception as ex:
            ctx.fail(suite, 're-protecting an unlocked foreign key raised %r' % ex, rcase)
            return False
        got = parse_read(d.call('readkey', hx(blob2), hx(pw_octets(newpw))))
        rec = [p_['mpis'] if p_['kind'] == 'P' and p_.get('res') == 'OK' else None for p_ in got]
        if rec != orig:
            ctx.fail(suite, 'independent reader does not recover the secret integers from a re-protected foreign key',
                     dict(rcase, reader=[p_['kind'] + ':' + str(p_.get('res', p_.get('code'))) for p_ in got], blob=blob2.hex()[:6000]))
            ok = False
        if any(p_['kind'] == 'P' and p_.get('res') == 'OK' for p_ in parse_read(d.call('readkey', hx(blob2), hx(pw_octets(pw))))) and pw_octets(pw) != pw_octets(newpw):
            ctx.fail(suite, 're-protected foreign key still opens with the OLD passphrase', rcase)
            ok = False
        try:
            k2 = pgpy.PGPKey.from_blob(blob2)[0]
            with k2.unlock(newpw):
                if [secret_ints(pk) for pk in pkts(k2)] != orig:
                    ctx.fail(suite, 're-imported re-protected foreign key unlocks to different secret integers', rcase)
                    ok = False
            if bytes(k2) != blob2:
                ctx.fail(suite, 're-protected foreign key is not re-exported octet for octet', rcase)
                ok = False
        except Exception as ex:
            ctx.fail(suite, 'PGPy cannot re-import / unlock its own re-protected export of a foreign key: %r' % ex, dict(rcase, blob=blob2.hex()[:6000]))
            ok = False
    return ok


def check_legacy_layout(ctx, d, pgpy, suite, case, plain, orig):
    """the model-written legacy key against an encoder written HERE from RFC 4880 5.5.3 / 3.7.1.1 (hashlib MD5 + cryptography CFB, no
    pgpy, no model): usage octet = cipher id, IV, CFB(MPIs + 16-bit sum) under MD5(passphrase) stretched by the zero-prefix rule"""
    u, pw = case['usage'], pw_octets(pw_unjson(case['pw']))
    blob = unhx(d.call('rewrite', hx(plain), ';'.join(case['forms'])))
    got = parse_read(d.call('readkey', hx(blob), hx(pw)))
    ok = True
    for i, (p_, f) in enumerate(zip(got, case['forms'])):
        iv = unhx(f.split(',')[7])
        pt = b''.join(((v.bit_length()).to_bytes(2, 'big') + int_octets(v)) for v in orig[i])
        pt += (sum(pt) % 65536).to_bytes(2, 'big')
        e = _cipher(u, rfc_s2k(0, 1, KEYLEN[u], b'', 0, pw), iv).encryptor()
        want = bytes([u]) + iv + e.update(pt) + e.finalize()
        if p_.get('kind') != 'P' or p_.get('usage') != u or p_.get('symalg') != u or p_.get('spec') != 0 or p_.get('halg') != 1 or p_.get('iv') != iv:
            ctx.fail(suite, 'model reader does not see the legacy specifier it wrote', dict(case, packet=i)); ok = False
        if want not in blob:
            ctx.fail(suite, 'model-written legacy secret part differs from the independent RFC 4880 5.5.3 encoder', dict(case, packet=i)); ok = False
    with warnings.catch_warnings():
        warnings.simplefilter('ignore')
        key = pgpy.PGPKey.from_blob(blob)[0]
        for i, pk in enumerate(pkts(key)):
            s = pk._key.keymaterial.s2k
            if (s.usage, int(s.encalg), int(s.specifier), int(s.halg)) != (u, u, 0, 1) or not s.legacy:
                ctx.fail(suite, 'PGPy does not read the legacy usage octet as cipher / simple S2K / MD5', dict(case, packet=i)); ok = False
    return ok


def check_gnu(ctx, d, pgpy, suite, case, plain):
    from pgpy.errors import PGPError
    out = d.call('rewrite', hx(plain), ';'.join(case['forms']))
    if out == 'ERR':
        ctx.fail(suite, 'model could not write the stub key', case)
        return False
    blob = unhx(out)
    ok = True
    with warnings.catch_warnings():
        warnings.simplefilter('ignore')
        try:
            key = pgpy.PGPKey.from_blob(blob)[0]
        except Exception as ex:
            ctx.fail(suite, 'PGPy cannot load a GNU-dummy key: %r' % ex, case)
            return False
        if not key.is_protected or key.is_unlocked:
            ctx.fail(suite, 'GNU-dummy key not reported protected and locked', case); ok = False
        if bytes(key) != blob:
            ctx.fail(suite, 'GNU-dummy key is not re-exported octet for octet', case); ok = False
        try:
            with key.unlock('anything'):       # 9a72221: a stub is passed over -- no exception, nothing unlocked
                if key.is_unlocked or any(v for pk in pkts(key) for v in secret_ints(pk)):
                    ctx.fail(suite, 'GNU-dummy key unlocked', case); ok = False
                if bytes(key) != blob:
                    ctx.fail(suite, 'GNU-dummy key exports differently inside an unlock scope', case); ok = False
        except Exception as ex:
            ctx.fail(suite, 'unlock of a GNU-dummy key raised %r (a stub is to be passed over)' % ex, case); ok = False
        if bytes(key) != blob:
            ctx.fail(suite, 'GNU-dummy key exports differently after an unlock scope', case); ok = False
        try:
            key.sign('x')
            ctx.fail(suite, 'GNU-dummy key signs', case); ok = False
        except PGPError:
            pass
        except Exception as ex:
            ctx.fail(suite, 'GNU-dummy key: sign raised %r instead of refusing' % ex, case); ok = False
    # model agrees on the history
    ans = d.call('hist', hx(blob), 'E,%s;S,0;P,%s,9,8,60,-;X;S,0;O;I;S,0' % (hx(b'anything'), hx(b'new')))
    st = [s.split('|')[0] for s in ans.split('/')]
    if st[:5] != ['done', 'refused', 'warned', 'done', 'refused'] or st[7] != 'refused':
        ctx.fail(suite, 'model disagrees on the GNU-dummy history', dict(case, model=st)); ok = False
    return ok


def subkey_scopes(ctx, pgpy):
    """an unlock scope opened on a SUBKEY object of a protected key (PGPKey.unlock is reachable on every component): whatever it unlocks
    is locked again when the scope ends - normally or by an exception -, no component keeps secret integers, nothing signs afterwards"""
    from pgpy.constants import SymmetricKeyAlgorithm as SA, HashAlgorithm as HA
    suite = 'subkey-scope'
    for n in ('ed25519', 'rsa2048'):
        try:
            key = keypool.get(n)
        except Exception:
            continue
        with warnings.catch_warnings():
            warnings.simplefilter('ignore')
            orig = [secret_ints(pk) for pk in pkts(key)]
            key.protect('pw', SA.AES256, HA.SHA256)
            for how in ('normal', 'exception'):
                for idx, sub in enumerate(key.subkeys.values()):
                    inside = None
                    try:
                        with sub.unlock('pw'):
                            inside = [bool(c.is_unlocked) for c in pkts(key)]
                            if how == 'exception':
                                raise ValueError('inside the scope')
                    except ValueError:
                        pass
                    except Exception as ex:
                        ctx.fail(suite, 'unlock on a subkey object raised %r' % ex, {'suite': 'subscope', 'key': n, 'sub': idx, 'how': how}); continue
                    case = {'suite': 'subscope', 'key': n, 'sub': idx, 'how': how, 'inside': inside}
                    ctx.case(suite, (n, idx, how), sample=case)
                    after = [bool(c.is_unlocked) for c in pkts(key)]
                    left = [i for i, pk in enumerate(pkts(key)) if any(secret_ints(pk))]
                    if any(after) or left:
                        ctx.fail(suite, 'after an unlock scope opened on a subkey object ended (%s), components %s are still unlocked / hold secret integers %s'
                                 % (how, [i for i, a in enumerate(after) if a], left), case)
                    hits, _ = graph_secrets(key, [v for l in orig for v in l])
                    if hits:
                        ctx.fail(suite, 'secret integer reachable from the key after a subkey-object scope ended', dict(case, hits=hits[:3]))
                    o = outcome(lambda: key.sign('after the scope'))
                    if o[0] == 'ok':
                        ctx.fail(suite, 'the key signs after a subkey-object scope ended', case)


def mixed(ctx, d, pgpy, pws, only=None):
    """components protected differently (keys written by the model):
      pu  protected primary, unprotected subkeys (e967622: unlock passes over the subkeys, leaving the scope clears the primary only)
      up  unprotected primary, protected subkeys (a8a4c11: unlock enters, unlocks exactly the subkeys and locks exactly those again;
          080d1e8: protect while a subkey is locked only warns; cab6d36: decrypt by the re-locked subkey refuses)
      gp  GNU-dummy primary, protected subkeys (9a72221: the stub is passed over, the subkeys unlock; the stub never signs)"""
    suite = 'mixed-protection'
    P = lambda pw, alg=9: {'op': 'P', 'pw': pw_json(pw), 'alg': alg, 'halg': 8, 'count': 60}
    E, B, N, O, S, D, X, R, I = ({'op': 'E', 'pw': pw_json('pw')}, {'op': 'E', 'pw': pw_json('bad')}, {'op': 'E', 'pw': pw_json('new pw')}, {'op': 'O'},
                                 {'op': 'S'}, {'op': 'D'}, {'op': 'X'}, {'op': 'R'}, {'op': 'I'})
    A1, A2 = {'op': 'A', 'alg': 'ecdh'}, {'op': 'A', 'alg': 'eddsa'}
    shapes = {
        'pu': [O, S, D, P('x'), E, O, S, D, B, S, X, O, S, D, E, S, R, O, B, O, X, A1, E, A2, O, X, O, I, O, E, S, P('new pw'), O, X, O, N, S, D, X],
        'up': [O, S, D, P('x'), O, E, O, S, D, X, O, D, B, D, E, D, R, D, I, D, P('x', 1), E, A1, P('new pw'), O, D, X, O, S, D, N, S, D, X, E, B],
        'gp': [O, S, D, P('x'), O, E, O, S, D, P('x'), X, O, B, E, R, I, E, A1, X, O],
    }
    todo = [(only[0], only[1])] if only else [(n, sh) for n in ('ed25519', 'p256', 'rsa2048') for sh in ('pu', 'up', 'gp')]
    for n, sh in todo:
        try:
            key = keypool.get(n)
        except Exception:
            continue
        plain = bytes(key)
        npk = len(pkts(key))
        if npk < 2:
            continue

        def form():
            return 'S,fe,9,3,8,%s,60,%s,%s' % (hx(bytes(ctx.rng.randrange(256) for _ in range(8))), hx(bytes(ctx.rng.randrange(256) for _ in range(16))), hx(b'pw'))
        fs = {'pu': [form()] + ['K'] * (npk - 1), 'up': ['K'] + [form() for _ in range(npk - 1)],
              'gp': ['G,fe,1,-'] + [form() for _ in range(npk - 1)]}[sh]
        out = d.call('rewrite', hx(plain), ';'.join(fs))
        case = {'suite': 'mixed', 'key': n, 'shape': sh}
        if out == 'ERR':
            ctx.fail(suite, 'model could not rewrite the key', case)
            continue
        with warnings.catch_warnings():
            warnings.simplefilter('ignore')
            k2 = outcome(lambda: pgpy.PGPKey.from_blob(unhx(out))[0])
            if k2[0] != 'ok':
                ctx.fail(suite, 'PGPy cannot load a key whose components are protected differently: %s' % k2[1], case)
                continue
            k2 = k2[1]
            hist = Hist(ctx, d, pgpy, n, suite, extra={'suite': 'mixed', 'shape': sh})
            hist.run(shapes[sh], key=k2, orig=[secret_ints(pk) for pk in pkts(key)])
            ctx.case(suite, (n, sh), sample=case)
            # random walks from the same starting key (thorough tier; a recorded case replays its own op list)
            for j in range(0 if (ctx.quick or only) else 6):
                ops = gen_history(ctx.rng, ['pw', 'new pw', 'pw'], True, ctx.rng.randrange(5, 14), [0, 16, 60])
                kj = outcome(lambda: pgpy.PGPKey.from_blob(unhx(out))[0])
                if kj[0] != 'ok':
                    break
                Hist(ctx, d, pgpy, n, suite, extra={'suite': 'mixed', 'shape': sh, 'forms': fs, 'walk': True}).run(
                    ops, key=kj[1], orig=[secret_ints(pk) for pk in pkts(key)])
                ctx.case(suite, (n, sh, repr(ops)), sample={'key': n, 'shape': sh, 'ops': ''.join(o['op'] for o in ops)})


def gpg_crosscheck(ctx, d, pgpy, names, pws):
    """OPTIONAL validation aid (never a condition for passing): GnuPG as a third implementation.  It must import (a) keys whose
    secret part the MODEL wrote and (b) keys PGPy protected, with the passphrase, and produce a signature that verifies under the
    public key - i.e. it recovered the same secret integers."""
    import shutil, subprocess, tempfile
    if not os.path.exists('/usr/bin/gpg'):
        ctx.notes.append('gpg cross-check: /usr/bin/gpg not present, skipped')
        return
    rng = ctx.rng
    okc, bad = 0, []
    todo = [(n, src, u, sp) for n in ('ed25519', 'rsa2048', 'p256') if n in names
            for (src, u, sp) in (('model', 254, 0), ('model', 254, 1), ('model', 254, 3), ('model', 255, 3), ('pgpy', 254, 3))]
    for (n, src, u, sp) in todo:
        home = tempfile.mkdtemp(prefix='c06gpg')
        try:
            os.chmod(home, 0o700)
            key = keypool.get(n)
            pub = key.pubkey
            pw = 'gpg cross-check'
            if src == 'model':
                a, h = rng.choice([7, 8, 9]), rng.choice([2, 8, 10])
                fs = ['S,%s,%s,%s,%s,%s,%s,%s,%s' % (hn(u), hn(a), hn(sp), hn(h), hx(bytes(rng.randrange(256) for _ in range(8))) if sp else '-',
                                                       hn(96 if sp == 3 else 0), hx(bytes(rng.randrange(256) for _ in range(16))), hx(pw.encode()))
                      for _ in pkts(key)]
                blob = unhx(d.call('rewrite', hx(bytes(key)), ';'.join(fs)))
            else:
                from pgpy.constants import SymmetricKeyAlgorithm, HashAlgorithm
                key.protect(pw, SymmetricKeyAlgorithm.AES256, HashAlgorithm.SHA256)
                blob = bytes(key)
            open(home + '/k.gpg', 'wb').write(blob)
            base = ['gpg', '--homedir', home, '--batch', '--no-tty', '--pinentry-mode', 'loopback', '--passphrase', pw]
            r1 = subprocess.run(base + ['--import', home + '/k.gpg'], capture_output=True, timeout=60)
            for attempt in (0, 1):   # the agent start-up occasionally loses the first request on a loaded machine
                r2 = subprocess.run(base + ['--yes', '--detach-sign', '-o', home + '/s.sig'], input=b'cross-check text\n', capture_output=True, timeout=60)
                if r2.returncode == 0:
                    break
            good = False
            if r1.returncode == 0 and r2.returncode == 0:
                with warnings.catch_warnings():
                    warnings.simplefilter('ignore')
                    sig = pgpy.PGPSignature.from_blob(open(home + '/s.sig', 'rb').read())
                    try:
                        good = bool(pub.verify(b'cross-check text\n', sig))
                    except Exception:
                        good = False
            if good:
                okc += 1
            else:
                bad.append('%s/%s/usage%d/spec%d' % (n, src, u, sp))
        except Exception as ex:
            bad.append('%s/%s/usage%d/spec%d: %r' % (n, src, u, sp, ex))
        finally:
            try:
                subprocess.run(['gpgconf', '--homedir', home, '--kill', 'gpg-agent'], capture_output=True, timeout=20)
            except Exception:
                pass
            shutil.rmtree(home, ignore_errors=True)
    ctx.notes.append('gpg 2.2 cross-check (optional, not a pass condition): %d/%d keys imported with the passphrase and signing verifiably '
                     '(model-written usage 254/255 simple/salted/iterated + PGPy-protected)%s' % (okc, len(todo), '; gpg did not complete for: ' + ', '.join(bad) if bad else ''))


def replay(ctx, case):
    pgpy = load_repo()
    d = Driver('c06', oracles=make_oracles())
    try:
        before = len(ctx.violations)
        if case.get('suite') == 'foreign':
            key = keypool.get(case['key'])
            check_foreign(ctx, d, pgpy, 'replay', case, bytes(key), [secret_ints(pk) for pk in pkts(key)])
        elif case.get('suite') == 'gnu':
            check_gnu(ctx, d, pgpy, 'replay', case, bytes(keypool.get(case['key'])))
        elif case.get('suite') == 'mixed' and case.get('walk'):
            key = keypool.get(case['key'])
            out = d.call('rewrite', hx(bytes(key)), ';'.join(case['forms']))
            with warnings.catch_warnings():
                warnings.simplefilter('ignore')
                k2 = pgpy.PGPKey.from_blob(unhx(out))[0]
                Hist(ctx, d, pgpy, case['key'], 'replay').run(case['ops'], key=k2, orig=[secret_ints(pk) for pk in pkts(key)])
        elif case.get('suite') == 'mixed':
            mixed(ctx, d, pgpy, None, only=(case['key'], case.get('shape', 'pu')))
        elif 'ops' in case:
            Hist(ctx, d, pgpy, case['key'], 'replay').run(case['ops'])
        return len(ctx.violations) > before
    finally:
        d.close()
